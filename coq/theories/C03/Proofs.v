(** * C03 — proofs about the generated-equality model. *)
From Coq Require Import List Bool Arith ZArith Lia.
Import ListNotations.
From Attrs Require Import C03.Common C03.Model.
From Attrs Require Export C03.Resolution.

Section Proofs.
  Variable val : Type.
  Variable py_eq : val -> val -> outcome.
  Variable keyf : keyid -> val -> val.

  Notation and_chain := (and_chain val py_eq).
  Notation gen_eq := (gen_eq val py_eq keyf).
  Notation eq_operands := (eq_operands val keyf).
  Notation keyed := (keyed val keyf).
  Notation call_eq := (call_eq val py_eq keyf).
  Notation call_ne := (call_ne val py_eq keyf).
  Notation op_eq := (op_eq val py_eq keyf).
  Notation op_ne := (op_ne val py_eq keyf).

  Definition pair_truthy (p : val * val) : bool := truthy (py_eq (fst p) (snd p)).

  (** the [==] evaluations a left-to-right short-circuit evaluation makes: every pair
      up to and including the first one whose outcome is not truthy *)
  Fixpoint upto_falsy (ps : list (val * val)) : list (val * val) :=
    match ps with
    | [] => []
    | p :: r => if pair_truthy p then p :: upto_falsy r else [p]
    end.

  Fixpoint last_opt {A} (l : list A) : option A :=
    match l with [] => None | [a] => Some a | _ :: r => last_opt r end.

  (** value of the chain: that of the last evaluation made ([True] if none) *)
  Definition value_of (calls : list (val * val)) : outcome :=
    match last_opt calls with None => PTrue | Some p => py_eq (fst p) (snd p) end.

  Lemma and_chain_cons2 p q r :
    and_chain (p :: q :: r) =
    if pair_truthy p then (fst (and_chain (q :: r)), p :: snd (and_chain (q :: r)))
    else (py_eq (fst p) (snd p), [p]).
  Proof.
    unfold pair_truthy. change (and_chain (p :: q :: r)) with
      (if truthy (py_eq (fst p) (snd p))
       then let '(o, l) := and_chain (q :: r) in (o, p :: l)
       else (py_eq (fst p) (snd p), [p])).
    destruct (and_chain (q :: r)); reflexivity.
  Qed.

  Lemma and_chain_one p : and_chain [p] = (py_eq (fst p) (snd p), [p]).
  Proof. reflexivity. Qed.

  Lemma last_opt_cons_ne {A} (a : A) l : l <> [] -> last_opt (a :: l) = last_opt l.
  Proof. destruct l; [congruence | reflexivity]. Qed.

  Lemma upto_falsy_ne p r : upto_falsy (p :: r) <> [].
  Proof. cbn. destruct (pair_truthy p); discriminate. Qed.

  Lemma and_chain_log ps : snd (and_chain ps) = upto_falsy ps.
  Proof.
    induction ps as [|p [|q r] IH]; [reflexivity| |].
    - rewrite and_chain_one. cbn. destruct (pair_truthy p); reflexivity.
    - rewrite and_chain_cons2. cbn [upto_falsy] in *. destruct (pair_truthy p); [|reflexivity].
      cbn [snd]. now rewrite IH.
  Qed.

  Lemma and_chain_value ps : fst (and_chain ps) = value_of (upto_falsy ps).
  Proof.
    induction ps as [|p [|q r] IH]; [reflexivity| |].
    - rewrite and_chain_one. unfold value_of. cbn. destruct (pair_truthy p); reflexivity.
    - rewrite and_chain_cons2. change (upto_falsy (p :: q :: r)) with
        (if pair_truthy p then p :: upto_falsy (q :: r) else [p]).
      destruct (pair_truthy p); [|reflexivity]. cbn [fst]. rewrite IH. unfold value_of.
      now rewrite last_opt_cons_ne by apply upto_falsy_ne.
  Qed.

  Lemma and_chain_truthy ps : truthy (fst (and_chain ps)) = forallb pair_truthy ps.
  Proof.
    induction ps as [|p [|q r] IH]; [reflexivity| |].
    - rewrite and_chain_one. cbn. unfold pair_truthy. now rewrite andb_true_r.
    - rewrite and_chain_cons2. change (forallb pair_truthy (p :: q :: r)) with
        (pair_truthy p && forallb pair_truthy (q :: r)).
      destruct (pair_truthy p) eqn:T; cbn [fst andb]; [exact IH | exact T].
  Qed.

  (** every evaluation before the last one made was truthy: nothing is consulted
      after the first falsy outcome *)
  Lemma upto_falsy_prefix ps :
    exists rest, ps = upto_falsy ps ++ rest /\
                 Forall (fun p => pair_truthy p = true) (removelast (upto_falsy ps)).
  Proof.
    induction ps as [|p r (rest & E & HF)]; [exists []; split; [reflexivity|constructor]|].
    cbn [upto_falsy]. destruct (pair_truthy p) eqn:T.
    - exists rest. split; [cbn; congruence|].
      destruct (upto_falsy r) eqn:U; cbn; [constructor|]. constructor; [exact T|exact HF].
    - exists r. split; [reflexivity|constructor].
  Qed.

  Lemma eq_short_circuit_l ps :
    snd (and_chain ps) = upto_falsy ps /\
    exists rest, ps = upto_falsy ps ++ rest /\
      Forall (fun p => pair_truthy p = true) (removelast (upto_falsy ps)).
  Proof. split; [apply and_chain_log | apply upto_falsy_prefix]. Qed.

  (** the operand pairs the model compares are the meaning of the script it generates *)
  Lemma eq_operands_is_script_l attrs (x y : inst val) :
    eq_operands attrs x y = script_operands val keyf (make_eq_script attrs) x y.
  Proof. unfold Model.eq_operands, script_operands, make_eq_script. now rewrite map_map. Qed.

  Lemma gen_eq_is_script_l attrs (x y : inst val) :
    i_cls y = i_cls x ->
    gen_eq attrs x (OInst y) =
      (RV (fst (and_chain (script_operands val keyf (make_eq_script attrs) x y))),
       snd (and_chain (script_operands val keyf (make_eq_script attrs) x y))).
  Proof.
    intros Hc. unfold Model.gen_eq. rewrite Hc, Nat.eqb_refl, <- eq_operands_is_script_l.
    destruct (and_chain (eq_operands attrs x y)); reflexivity.
  Qed.

  (** *** eq_iff *)
  Definition res_truthy (r : pyres) : bool := match r with RNotImpl => false | RV o => truthy o end.

  Lemma eq_iff_l attrs (x y : inst val) :
    i_cls y = i_cls x ->
    exists o, gen_eq attrs x (OInst y) = (RV o, upto_falsy (eq_operands attrs x y)) /\
      o = value_of (upto_falsy (eq_operands attrs x y)) /\
      (truthy o = true <->
       forall a, In a attrs -> f_eq a = true ->
         truthy (py_eq (keyed (f_eq_key a) (i_get x (f_name a)))
                       (keyed (f_eq_key a) (i_get y (f_name a)))) = true).
  Proof.
    intros Hc. unfold Model.gen_eq. rewrite Hc, Nat.eqb_refl.
    destruct (and_chain (eq_operands attrs x y)) as [o l] eqn:E.
    exists o.
    pose proof (and_chain_log (eq_operands attrs x y)) as HL.
    pose proof (and_chain_value (eq_operands attrs x y)) as HV.
    pose proof (and_chain_truthy (eq_operands attrs x y)) as HT.
    rewrite E in *. cbn [fst snd] in *. subst l. split; [reflexivity|]. split; [exact HV|].
    rewrite HT, forallb_forall. unfold Model.eq_operands, eq_attrs. split.
    - intros H a Hin Heq. apply (H (_, _)). apply in_map_iff. exists a. split; [reflexivity|].
      apply filter_In. auto.
    - intros H p Hp. apply in_map_iff in Hp as (a & <- & Ha). apply filter_In in Ha as [Hin Heq].
      unfold pair_truthy; cbn. apply H; assumption.
  Qed.

  (** *** eq_other_class *)
  Lemma eq_other_class_l attrs (x y : inst val) :
    i_cls y <> i_cls x ->
    gen_eq attrs x (OInst y) = (RNotImpl, []) /\
    ne_of (fst (gen_eq attrs x (OInst y))) = RNotImpl.
  Proof.
    intros Hc. unfold Model.gen_eq. apply Nat.eqb_neq in Hc. rewrite Hc. split; reflexivity.
  Qed.

  Lemma eq_foreign_l attrs (x : inst val) eqr ner :
    gen_eq attrs x (OForeign eqr ner) = (RNotImpl, []) /\
    ne_of (fst (gen_eq attrs x (OForeign eqr ner))) = RNotImpl.
  Proof. split; reflexivity. Qed.

  (** both methods of any class of the chain answer NotImplemented for an instance
      of another class; hence the operators fall back to identity *)
  Lemma call_other_class eff (x y : inst val) :
    i_cls y <> i_cls x ->
    call_eq eff x (OInst y) false = (RNotImpl, []) /\ call_ne eff x (OInst y) false = (RNotImpl, []).
  Proof.
    intros Hc. destruct eff as [attrs|]; cbn [Model.call_eq Model.call_ne]; [|split; reflexivity].
    destruct (eq_other_class_l attrs x y Hc) as [E _]. rewrite E. split; reflexivity.
  Qed.

  Lemma op_other_class_l eff_of (x y : inst val) :
    i_cls y <> i_cls x ->
    op_eq eff_of x (OInst y) false = (PFalse, []) /\ op_ne eff_of x (OInst y) false = (PTrue, []).
  Proof.
    intros Hc. unfold Model.op_eq, Model.op_ne, refl_eq, refl_ne, dispatch, try2.
    destruct (call_other_class (eff_of (i_cls x)) x y Hc) as [E1 E2].
    destruct (call_other_class (eff_of (i_cls y)) y x (not_eq_sym Hc)) as [E3 E4].
    rewrite E1, E2, E3, E4. destruct (proper_subclass val x (OInst y)); split; reflexivity.
  Qed.

  (** a foreign right operand decides (its reflected method is consulted) *)
  Lemma op_foreign_l eff_of attrs (x : inst val) eqr ner :
    eff_of (i_cls x) = Some attrs ->
    op_eq eff_of x (OForeign eqr ner) false =
      (match eqr with RV o => o | RNotImpl => PFalse end, []) /\
    op_ne eff_of x (OForeign eqr ner) false =
      (match ner with RV o => o | RNotImpl => PTrue end, []).
  Proof.
    intros E. unfold Model.op_eq, Model.op_ne, Model.call_eq, Model.call_ne. rewrite E. cbn.
    destruct eqr, ner; split; reflexivity.
  Qed.

  (** *** ne_negation *)
  Lemma ne_of_spec r :
    match r with
    | RNotImpl => ne_of r = RNotImpl
    | RV (PRaise e) => ne_of r = RV (PRaise e)
    | RV o => ne_of r = RV (of_bool (negb (truthy o)))
    end.
  Proof. destruct r as [|[| |t i|e]]; reflexivity. Qed.

  Lemma call_ne_is_ne_of_eq attrs x other same :
    call_ne (Some attrs) x other same =
      (ne_of (fst (call_eq (Some attrs) x other same)), snd (call_eq (Some attrs) x other same)).
  Proof. cbn. destruct (gen_eq attrs x other); reflexivity. Qed.

  Lemma ne_negation_l eff_of attrs (x y : inst val) same :
    i_cls y = i_cls x -> eff_of (i_cls x) = Some attrs ->
    let e := op_eq eff_of x (OInst y) same in
    let n := op_ne eff_of x (OInst y) same in
    snd n = snd e /\
    match fst e with
    | PRaise ex => fst n = PRaise ex
    | o => fst n = of_bool (negb (truthy o))
    end.
  Proof.
    intros Hc E. unfold Model.op_eq, Model.op_ne, proper_subclass. rewrite Hc, Nat.ltb_irrefl.
    unfold dispatch. rewrite E. cbn [Model.call_eq Model.call_ne].
    destruct (eq_iff_l attrs x y Hc) as (o & G & _). rewrite G. cbn.
    destruct o; cbn; auto.
  Qed.

  (** *** eq_frame *)
  Definition agree_on_eq (attrs : list fld) (x x' : inst val) : Prop :=
    i_cls x = i_cls x' /\
    forall a, In a attrs -> f_eq a = true -> i_get x (f_name a) = i_get x' (f_name a).

  Lemma eq_operands_frame_l attrs x x' y :
    agree_on_eq attrs x x' -> eq_operands attrs x y = eq_operands attrs x' y.
  Proof.
    intros [_ H]. unfold Model.eq_operands. apply map_ext_in. intros a Ha.
    apply filter_In in Ha as [Hin Heq]. now rewrite (H a Hin Heq).
  Qed.
  Lemma eq_operands_frame_r attrs x y y' :
    agree_on_eq attrs y y' -> eq_operands attrs x y = eq_operands attrs x y'.
  Proof.
    intros [_ H]. unfold Model.eq_operands. apply map_ext_in. intros a Ha.
    apply filter_In in Ha as [Hin Heq]. now rewrite (H a Hin Heq).
  Qed.

  Lemma eq_frame_l attrs x x' other :
    agree_on_eq attrs x x' ->
    gen_eq attrs x other = gen_eq attrs x' other /\
    forall z, gen_eq attrs z (OInst x) = gen_eq attrs z (OInst x').
  Proof.
    intros H. split.
    - destruct other as [y|]; cbn; [|reflexivity]. destruct H as [Hc H']. rewrite <- Hc.
      now rewrite (eq_operands_frame_l attrs x x' y (conj Hc H')).
    - intros z. cbn. destruct H as [Hc H']. rewrite <- Hc.
      now rewrite (eq_operands_frame_r attrs z x x' (conj Hc H')).
  Qed.

  (** *** eq_not_identity *)
  Lemma eq_not_identity_l attrs (x : inst val) a :
    In a attrs -> f_eq a = true ->
    truthy (py_eq (keyed (f_eq_key a) (i_get x (f_name a)))
                  (keyed (f_eq_key a) (i_get x (f_name a)))) = false ->
    forall o l, gen_eq attrs x (OInst x) = (o, l) -> res_truthy o = false.
  Proof.
    intros Hin Heq Hf o l G.
    destruct (eq_iff_l attrs x x eq_refl) as (o' & G' & _ & Hiff). rewrite G' in G.
    inversion G; subst. cbn. destruct (truthy o') eqn:T; [|reflexivity].
    rewrite (proj1 Hiff eq_refl a Hin Heq) in Hf. discriminate.
  Qed.
End Proofs.

(** ** Non-vacuity: concrete instances of the hypotheses above. *)
Example eq_iff_nonvacuous :
  let attrs := [F 0 true None true None; F 1 false None false None; F 2 true (Some 1) true (Some 1)] in
  let x := mk_inst 0 attrs [Vi 1%Z; Vi 5%Z; Vi (-2)%Z] in
  let y := mk_inst 0 attrs [Vi 1%Z; Vi 7%Z; Vi 2%Z] in
  Model.gen_eq cval (c_py_eq []) c_keyf attrs x (OInst y) = (RV PTrue, [(Vi 1%Z, Vi 1%Z); (Vi 2%Z, Vi 2%Z)]).
Proof. vm_compute. reflexivity. Qed.

Example eq_not_identity_nonvacuous :
  let attrs := [F 0 true None true None] in
  let x := mk_inst 0 attrs [Vn 0] in
  Model.gen_eq cval (c_py_eq []) c_keyf attrs x (OInst x) = (RV PFalse, [(Vn 0, Vn 0)]).
Proof. vm_compute. reflexivity. Qed.

Example eq_nonbool_result :
  let attrs := [F 0 true None true None; F 1 true None true None] in
  let sc := [(1, (PObj true 7, PFalse)); (2, (PObj false 8, PFalse))] in
  let x := mk_inst 0 attrs [Vs 1; Vs 2] in
  Model.gen_eq cval (c_py_eq sc) c_keyf attrs x (OInst x) = (RV (PObj false 8), [(Vs 1, Vs 1); (Vs 2, Vs 2)]).
Proof. vm_compute. reflexivity. Qed.
