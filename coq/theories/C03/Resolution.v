(** * C03 / C09 — facts about the field-level resolution of cmp / eq / order
    ([_determine_attrib_eq_order], twice: in [attrib()] and in [Attribute.__init__]).
    Shared by the proofs of both properties. *)
From Coq Require Import List Bool Arith.
Import ListNotations.
From Attrs Require Import C03.Common.

(** *** eq_participation: which fields take part, with which key — every
    combination of field-level cmp / eq / order. *)
Definition flag_of (s : setting) : bool * option keyid :=
  match s with
  | SN | ST => (true, None)
  | SF => (false, None)
  | SK k | SKf k => (true, Some k)       (* the truth value of a key object is irrelevant *)
  end.

Definition participation_spec (n : name) (cmp eq order : setting) : res fld :=
  match cmp, eq, order with
  | SN, e, o =>
      let '(eb, ek) := flag_of e in
      match o with
      | SN => Ok (F n eb ek eb ek)
      | SF => Ok (F n eb ek false None)
      | ST => if eb then Ok (F n true ek true None) else VErr
      | SK k | SKf k => if eb then Ok (F n true ek true (Some k)) else VErr
      end
  | c, SN, SN => let '(cb, ck) := flag_of c in Ok (F n cb ck cb ck)
  | _, _, _ => VErr
  end.

Lemma eq_participation_l n cmp eq order :
  make_attribute n cmp eq order = participation_spec n cmp eq order.
Proof. destruct cmp, eq, order; reflexivity. Qed.

Lemma field_eq_false_iff n cmp eq order a :
  make_attribute n cmp eq order = Ok a ->
  (f_eq a = false <-> (cmp = SF \/ (cmp = SN /\ eq = SF))).
Proof.
  rewrite eq_participation_l.
  destruct cmp, eq, order; cbn; intros H; inversion H; subst; cbn;
    (split; [intros X; try discriminate; auto | intros [X|[X Y]]; try discriminate; auto]).
Qed.

(** [s] is the callable number k (truthy or falsy object) *)
Definition is_key (s : setting) (k : keyid) : Prop := s = SK k \/ s = SKf k.

Lemma field_eq_key_iff n cmp eq order a k :
  make_attribute n cmp eq order = Ok a ->
  (f_eq_key a = Some k <-> (is_key cmp k \/ (cmp = SN /\ is_key eq k))).
Proof.
  rewrite eq_participation_l. unfold is_key.
  destruct cmp, eq, order; cbn; intros H; inversion H; subst; cbn;
    (split; [intros X; try discriminate; try (inversion X; subst); auto 8
            | intros X; intuition congruence]).
Qed.

Lemma field_order_mirrors_eq n cmp eq a :
  make_attribute n cmp eq SN = Ok a -> f_order a = f_eq a /\ f_order_key a = f_eq_key a.
Proof.
  rewrite eq_participation_l. destruct cmp, eq; cbn; intros H; inversion H; subst; auto.
Qed.

Lemma field_error_iff n cmp eq order :
  make_attribute n cmp eq order = VErr <->
  (is_set cmp = true /\ (is_set eq = true \/ is_set order = true)) \/
  (cmp = SN /\ eq = SF /\ (order = ST \/ exists k, order = SK k \/ order = SKf k)).
Proof.
  rewrite eq_participation_l.
  destruct cmp, eq, order; cbn; split; intros H; try discriminate; try reflexivity;
    try (left; split; [reflexivity | auto]; fail);
    try (right; repeat split; eauto; fail);
    try (destruct H as [[H1 [H2|H2]]|[H1 [H2 [H3|[k' [H3|H3]]]]]]; discriminate).
Qed.

(** the second resolution in [Attribute.__init__] changes nothing *)
Lemma attribute_init_idempotent cmp eq order e ek o ok :
  determine_attrib_eq_order cmp eq order true = Ok (e, ek, o, ok) ->
  determine_attrib_eq_order SN (key_or_flag ek e) (key_or_flag ok o) true = Ok (e, ek, o, ok).
Proof.
  destruct cmp, eq, order; cbn; intros H; inversion H; subst; reflexivity.
Qed.

Lemma field_order_false_iff n cmp eq order a :
  make_attribute n cmp eq order = Ok a ->
  (f_order a = false <->
   (cmp = SF \/ (cmp = SN /\ (order = SF \/ (order = SN /\ eq = SF))))).
Proof.
  rewrite eq_participation_l.
  destruct cmp, eq, order; cbn; intros H; inversion H; subst; cbn;
    (split; [intros X; try discriminate; auto 6
            | intros [X|[X [Y|[Y Z]]]]; try discriminate; auto]).
Qed.

Lemma field_order_key_iff n cmp eq order a k :
  make_attribute n cmp eq order = Ok a ->
  (f_order_key a = Some k <->
   (is_key cmp k \/ (cmp = SN /\ (is_key order k \/ (order = SN /\ is_key eq k))))).
Proof.
  rewrite eq_participation_l. unfold is_key.
  destruct cmp, eq, order; cbn; intros H; inversion H; subst; cbn;
    (split; [intros X; try discriminate; try (inversion X; subst); auto 8
            | intros X; intuition congruence]).
Qed.

(** a falsy callable object given as cmp= / eq= / order= is a key like any other *)
Definition unfalsy (s : setting) : setting := match s with SKf k => SK k | _ => s end.
Lemma falsy_key_is_key n cmp eq order :
  make_attribute n cmp eq order = make_attribute n (unfalsy cmp) (unfalsy eq) (unfalsy order).
Proof. destruct cmp, eq, order; reflexivity. Qed.
