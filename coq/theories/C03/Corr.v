(** * C03 — correspondence: what the model says about the classes / instances /
    operands the harness ran against the real library, compared inside [coqc]. *)
From Coq Require Import List Bool Arith ZArith.
Import ListNotations.
From Attrs Require Import Base C03.Common C03.Model.

(** ** decidable equalities of the observation types *)
Definition log := list (cval * cval).
(** a value-level operator call seen by the harness: [a == b] reached a scripted
    object's [__eq__] ([CEq]) or [a != b] reached its [__ne__] ([CNe]).  The model
    only ever produces [CEq]: generated [__eq__] AND [__ne__] compare values with [==]. *)
Inductive vcall := CEq (a b : cval) | CNe (a b : cval).
Definition vcall_eqb (x y : vcall) : bool :=
  match x, y with
  | CEq a b, CEq c d | CNe a b, CNe c d => cval_eqb a c && cval_eqb b d
  | _, _ => false
  end.
Definition obs1 := (pyres * list vcall)%type.
Definition obs1_eqb (a b : obs1) : bool :=
  pyres_eqb (fst a) (fst b) && list_eqb vcall_eqb (snd a) (snd b).

Lemma cval_eqb_spec a b : cval_eqb a b = true <-> a = b.
Proof.
  destruct a as [x|i|i| |], b as [y|j|j| |]; cbn; try (split; intros H; (discriminate || reflexivity)).
  - rewrite Z.eqb_eq. split; intros H; [congruence | now inversion H].
  - rewrite Nat.eqb_eq. split; intros H; [congruence | now inversion H].
  - rewrite Nat.eqb_eq. split; intros H; [congruence | now inversion H].
Qed.

Lemma outcome_eqb_spec a b : outcome_eqb a b = true <-> a = b.
Proof.
  destruct a as [| |t i|e], b as [| |u j|f]; cbn; try (split; intros H; (discriminate || reflexivity)).
  - rewrite andb_true_iff, Nat.eqb_eq. split.
    + intros [Ht Hi]. apply Bool.eqb_prop in Ht. congruence.
    + intros H; inversion H; subst. rewrite Bool.eqb_reflx. auto.
  - rewrite Nat.eqb_eq. split; intros H; [congruence | now inversion H].
Qed.

Lemma pyres_eqb_spec a b : pyres_eqb a b = true <-> a = b.
Proof.
  destruct a, b; cbn; split; intros H; try discriminate; try reflexivity.
  - apply outcome_eqb_spec in H. congruence.
  - inversion H; subst. now apply outcome_eqb_spec.
Qed.

Lemma vcall_eqb_spec a b : vcall_eqb a b = true <-> a = b.
Proof.
  destruct a as [a1 a2|a1 a2], b as [b1 b2|b1 b2]; cbn; try (split; intros H; discriminate);
    rewrite andb_true_iff, !cval_eqb_spec; (split; [intros [-> ->]; reflexivity | intros H; inversion H; auto]).
Qed.

Lemma obs1_eqb_spec a b : obs1_eqb a b = true <-> a = b.
Proof.
  destruct a, b; unfold obs1_eqb; cbn.
  rewrite andb_true_iff, pyres_eqb_spec, (list_eqb_spec vcall_eqb vcall_eqb_spec). split.
  - intros [-> ->]; reflexivity.
  - intros H; inversion H; auto.
Qed.

(** ** cases *)

(** the other operand of a probe *)
Inductive opnd :=
| OpSame                                    (* the very same object *)
| OpInst (c : nat) (vals : list cval)       (* another instance, of the class at position c *)
| OpForeign (eqr ner : pyres).              (* not an attrs instance: what its own methods return *)

Inductive iout :=
| OProbe (l : list obs1)      (* [x == o; x != o; type(x).__eq__(x, o); type(x).__ne__(x, o)] *)
| OAll (codes : list nat).    (* one code per ordered pair of value vectors *)

Inductive item :=
| IProbe (c : nat) (vals : list cval) (o : opnd)
| IAll (c : nat) (dom : list Z)                 (* all ordered pairs over dom^k *)
| IAllV (c : nat) (dom : list cval)              (* all ordered pairs over dom^k, any values (None, '', …) *)
| IRow (c : nat) (dom : list Z) (xv : list Z)    (* x fixed, y ranges over dom^k *)
| IPair (c : nat) (xv : list Z) (c' : nat) (yv : list Z)   (* two distinct int-valued instances, coded *)
(** a history on two int-valued instances of one class: compare; hash both; compare again;
    optionally assign field number j := z on x and compare a third time.  Hashing is not in the
    model: it must not change what the comparisons answer. *)
| IHist (c : nat) (xv yv : list Z) (mut : option (nat * Z)).

Inductive chain_seen :=
| SeenErr                                         (* a definition raised ValueError *)
| SeenOk (gen : list nat) (outs : list iout).     (* per class: 1 = __eq__ and __ne__ in its __dict__, 0 = neither *)

Inductive case :=
| KField (a : api) (cmp eq order : setting) (seen : res fld)
| KChain (chain : list layer) (sc : script) (items : list item) (seen : chain_seen).

Definition eff_eq_of (chain : list cls) (i : nat) : option (list fld) :=
  effective c_gen_eq (skipn i chain).
Definition attrs_at (chain : list cls) (i : nat) : list fld :=
  match nth_error chain i with Some c => c_attrs c | None => [] end.

(** the harness only sees calls that reach a scripted object's [__eq__], as
    (self, other) of that call *)
Fixpoint visible (l : log) : list vcall :=
  match l with
  | [] => []
  | (Vs i, b) :: r => CEq (Vs i) b :: visible r
  | (a, Vs j) :: r => CEq (Vs j) a :: visible r
  | _ :: r => visible r
  end.

Definition lift (r : outcome * log) : obs1 := (RV (fst r), visible (snd r)).
Definition vis (r : pyres * log) : obs1 := (fst r, visible (snd r)).

Definition run_pair (chain : list cls) (sc : script) (x : inst cval) (other : operand cval) (same : bool)
  : list obs1 :=
  let eff := eff_eq_of chain in
  [ lift (op_eq cval (c_py_eq sc) c_keyf eff x other same);
    lift (op_ne cval (c_py_eq sc) c_keyf eff x other same);
    vis (call_eq cval (c_py_eq sc) c_keyf (eff (i_cls x)) x other same);
    vis (call_ne cval (c_py_eq sc) c_keyf (eff (i_cls x)) x other same) ].

Definition digit (o : obs1) : nat :=
  match fst o with
  | RV PFalse => 0 | RV PTrue => 1 | RNotImpl => 2 | _ => 3
  end.
Fixpoint code (l : list obs1) : nat :=
  match l with [] => 0 | o :: r => digit o + 4 * code r end.

Fixpoint set_nth {A} (j : nat) (z : A) (l : list A) : list A :=
  match l, j with
  | [], _ => []
  | _ :: r, O => z :: r
  | a :: r, S j' => a :: set_nth j' z r
  end.

Definition run_item (chain : list cls) (sc : script) (it : item) : iout :=
  match it with
  | IProbe c vals o =>
      let x := mk_inst c (attrs_at chain c) vals in
      match o with
      | OpSame => OProbe (run_pair chain sc x (OInst x) true)
      | OpInst c' vs => OProbe (run_pair chain sc x (OInst (mk_inst c' (attrs_at chain c') vs)) false)
      | OpForeign e n => OProbe (run_pair chain sc x (OForeign e n) false)
      end
  | IAll c dom =>
      let attrs := attrs_at chain c in
      let vs := vectors (map Vi dom) (length attrs) in
      OAll (flat_map (fun xv => map (fun yv =>
              code (run_pair chain sc (mk_inst c attrs xv) (OInst (mk_inst c attrs yv)) false)) vs) vs)
  | IAllV c dom =>
      let attrs := attrs_at chain c in
      let vs := vectors dom (length attrs) in
      OAll (flat_map (fun xv => map (fun yv =>
              code (run_pair chain sc (mk_inst c attrs xv) (OInst (mk_inst c attrs yv)) false)) vs) vs)
  | IRow c dom xv =>
      let attrs := attrs_at chain c in
      let vs := vectors (map Vi dom) (length attrs) in
      OAll (map (fun yv =>
              code (run_pair chain sc (mk_inst c attrs (map Vi xv)) (OInst (mk_inst c attrs yv)) false)) vs)
  | IPair c xv c' yv =>
      OAll [code (run_pair chain sc (mk_inst c (attrs_at chain c) (map Vi xv))
                    (OInst (mk_inst c' (attrs_at chain c') (map Vi yv))) false)]
  | IHist c xv yv mut =>
      let attrs := attrs_at chain c in
      let y := OInst (mk_inst c attrs (map Vi yv)) in
      let c1 := code (run_pair chain sc (mk_inst c attrs (map Vi xv)) y false) in
      OAll (c1 :: c1 ::
            match mut with
            | None => []
            | Some (j, z) => [code (run_pair chain sc (mk_inst c attrs (map Vi (set_nth j z xv))) y false)]
            end)
  end.

Definition model_chain (chain : list layer) (sc : script) (items : list item) : chain_seen :=
  match build_chain chain with
  | VErr => SeenErr
  | Ok cs => SeenOk (map (fun c => if c_gen_eq c then 1 else 0) cs) (map (run_item cs sc) items)
  end.

Inductive mout := MField (r : res fld) | MChain (s : chain_seen).

Definition model_of (c : case) : mout :=
  match c with
  | KField a cmp eq order _ => MField (make_attribute 0 cmp eq order)
  | KChain chain sc items _ => MChain (model_chain chain sc items)
  end.

Definition seen_of (c : case) : mout :=
  match c with
  | KField _ _ _ _ s => MField s
  | KChain _ _ _ s => MChain s
  end.

Definition iout_eqb (a b : iout) : bool :=
  match a, b with
  | OProbe x, OProbe y => list_eqb obs1_eqb x y
  | OAll x, OAll y => list_eqb Nat.eqb x y
  | _, _ => false
  end.

Definition chain_seen_eqb (a b : chain_seen) : bool :=
  match a, b with
  | SeenErr, SeenErr => true
  | SeenOk g o, SeenOk g' o' => list_eqb Nat.eqb g g' && list_eqb iout_eqb o o'
  | _, _ => false
  end.

Definition mout_eqb (a b : mout) : bool :=
  match a, b with
  | MField x, MField y => resfld_eqb x y
  | MChain x, MChain y => chain_seen_eqb x y
  | _, _ => false
  end.

Definition check_case (c : case) : bool := mout_eqb (model_of c) (seen_of c).

Lemma nat_eqb_spec a b : Nat.eqb a b = true <-> a = b.
Proof. apply Nat.eqb_eq. Qed.

Lemma iout_eqb_spec a b : iout_eqb a b = true <-> a = b.
Proof.
  destruct a, b; cbn; split; intros H; try discriminate.
  - apply (list_eqb_spec obs1_eqb obs1_eqb_spec) in H. congruence.
  - inversion H; subst. now apply (list_eqb_spec obs1_eqb obs1_eqb_spec).
  - apply (list_eqb_spec Nat.eqb nat_eqb_spec) in H. congruence.
  - inversion H; subst. now apply (list_eqb_spec Nat.eqb nat_eqb_spec).
Qed.

Lemma chain_seen_eqb_spec a b : chain_seen_eqb a b = true <-> a = b.
Proof.
  destruct a, b; cbn; split; intros H; try discriminate; try reflexivity.
  - apply andb_true_iff in H as [H1 H2].
    apply (list_eqb_spec Nat.eqb nat_eqb_spec) in H1.
    apply (list_eqb_spec iout_eqb iout_eqb_spec) in H2. congruence.
  - inversion H; subst. apply andb_true_iff. split.
    + now apply (list_eqb_spec Nat.eqb nat_eqb_spec).
    + now apply (list_eqb_spec iout_eqb iout_eqb_spec).
Qed.

Lemma check_case_sound c : check_case c = true <-> seen_of c = model_of c.
Proof.
  unfold check_case. destruct (model_of c) eqn:M, (seen_of c) eqn:S; cbn; split; intros H;
    try discriminate.
  - apply resfld_eqb_spec in H. congruence.
  - inversion H; subst. now apply resfld_eqb_spec.
  - apply chain_seen_eqb_spec in H. congruence.
  - inversion H; subst. now apply chain_seen_eqb_spec.
Qed.

(** ** Script-level tie (supplementary evidence, never an alarm).

    The harness parses the source text of the REAL generated [__eq__] of a class
    ([inspect.getsource]; key helpers resolved through the function's globals) into the
    model's script shape; [script_case_ok] checks that it is literally the script
    [make_eq_script] derives from that class's field list.  Where it holds, [eq_is_script],
    [eq_iff] and [eq_short_circuit] speak about the real script of that class for ALL
    operand pairs, not only the sampled ones. *)
Record script_case := SC {
  sc_fields : list fspec;                       (* complete field list with the arguments given *)
  sc_chain : list (name * option keyid)         (* parsed [and] chain; [] = [return True] *)
}.

Definition term_eqb (a : eq_term) (b : name * option keyid) : bool :=
  match a with ECmp n k => Nat.eqb n (fst b) && optk_eqb k (snd b) end.

Fixpoint terms_eqb (a : list eq_term) (b : list (name * option keyid)) : bool :=
  match a, b with
  | [], [] => true
  | x :: a', y :: b' => term_eqb x y && terms_eqb a' b'
  | _, _ => false
  end.

Definition script_model_of (c : script_case) : option (list eq_term) :=
  match build_fields (sc_fields c) with Ok fs => Some (make_eq_script fs) | VErr => None end.

Definition script_case_ok (c : script_case) : bool :=
  match script_model_of c with Some sc => terms_eqb sc (sc_chain c) | None => false end.

Lemma script_case_ok_sound c :
  script_case_ok c = true ->
  exists fs, build_fields (sc_fields c) = Ok fs /\
             make_eq_script fs = map (fun p => ECmp (fst p) (snd p)) (sc_chain c).
Proof.
  unfold script_case_ok, script_model_of. destruct (build_fields (sc_fields c)) as [fs|]; [|discriminate].
  intros H. exists fs. split; [reflexivity|].
  generalize dependent (sc_chain c). induction (make_eq_script fs) as [|[n k] r IH]; intros [|[m j] l] H;
    cbn in *; try discriminate; [reflexivity|].
  apply andb_true_iff in H as [H1 H2]. apply andb_true_iff in H1 as [Hn Hk].
  apply Nat.eqb_eq in Hn. apply optk_eqb_spec in Hk. subst. f_equal. now apply IH.
Qed.
