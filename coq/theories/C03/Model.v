(** * C03 — generated equality: executable model.

    Mirrors [_make_eq_script] (the text of the generated [__eq__]: exact-class test,
    then one [and] chain over the eq fields, each operand pair through the field's
    eq key) and the shared [__ne__] of [attr/_make.py].  Python's [==] on user values
    is the oracle [py_eq]; key functions are the uninterpreted [keyf].
    Definitions only; proofs are in [C03/Proofs.v]. *)
From Coq Require Import List Bool Arith.
Import ListNotations.
From Attrs Require Import C03.Common.

Section Model.
  Variable val : Type.
  Variable py_eq : val -> val -> outcome.
  Variable keyf : keyid -> val -> val.

  Definition keyed (k : option keyid) (v : val) : val :=
    match k with Some k => keyf k v | None => v end.

  (** [attrs = [a for a in attrs if a.eq]] *)
  Definition eq_attrs (attrs : list fld) : list fld := filter f_eq attrs.

  (** the operand pairs of the generated expression, in source order:
      [_k(self.a) == _k(other.a)] or [self.a == other.a] *)
  Definition eq_operands (attrs : list fld) (x y : inst val) : list (val * val) :=
    map (fun a => (keyed (f_eq_key a) (i_get x (f_name a)),
                   keyed (f_eq_key a) (i_get y (f_name a)))) (eq_attrs attrs).

  (** The TEXT of the generated method as a term: after the exact-class test
      ([if other.__class__ is not self.__class__: return NotImplemented]) one [and] chain
      of comparisons, each [self.n == other.n] ([ECmp n None]) or
      [__attr_key_n(self.n) == __attr_key_n(other.n)] with the helper bound to key k
      ([ECmp n (Some k)]); the empty chain is [return True].  The harness parses the real
      generated source into this shape (script-level tie, [Corr.script_case_ok]). *)
  Inductive eq_term := ECmp (n : name) (k : option keyid).
  Definition make_eq_script (attrs : list fld) : list eq_term :=
    map (fun a => ECmp (f_name a) (f_eq_key a)) (eq_attrs attrs).
  (** meaning of the chain's operands for two instances *)
  Definition script_operands (sc : list eq_term) (x y : inst val) : list (val * val) :=
    map (fun t => match t with ECmp n k => (keyed k (i_get x n), keyed k (i_get y n)) end) sc.

  (** Python's [e1 and e2 and … and en]: operands are evaluated left to right; the
      value is the first falsy operand, else the last one; an exception propagates.
      With no operand the generated code is [return True].
      Returns the value and the list of [==] evaluations made. *)
  Fixpoint and_chain (ps : list (val * val)) : outcome * list (val * val) :=
    match ps with
    | [] => (PTrue, [])
    | p :: rest =>
        let o := py_eq (fst p) (snd p) in
        match rest with
        | [] => (o, [p])
        | _ :: _ =>
            (* falsy value or exception ([truthy (PRaise _) = false]): stop here *)
            if truthy o then let '(r, l) := and_chain rest in (r, p :: l)
            else (o, [p])
        end
    end.

  (** the other operand of a comparison: an instance of a class of the chain or
      anything else (with what ITS reflected [__eq__] / [__ne__] return) *)
  Inductive operand := OInst (y : inst val) | OForeign (eqr ner : pyres).

  (** generated [__eq__(self, other)] of a class whose field list is [attrs] *)
  Definition gen_eq (attrs : list fld) (x : inst val) (other : operand)
    : pyres * list (val * val) :=
    match other with
    | OInst y =>
        if Nat.eqb (i_cls y) (i_cls x)                       (* other.__class__ is self.__class__ *)
        then let '(o, l) := and_chain (eq_operands attrs x y) in (RV o, l)
        else (RNotImpl, [])
    | OForeign _ _ => (RNotImpl, [])
    end.

  (** [__ne__]: [result = self.__eq__(other)]; forward NotImplemented; [not result] *)
  Definition ne_of (r : pyres) : pyres :=
    match r with
    | RNotImpl => RNotImpl
    | RV (PRaise e) => RV (PRaise e)
    | RV o => RV (of_bool (negb (truthy o)))
    end.

  (** [object.__eq__] / [object.__ne__] *)
  Definition object_eq (same_obj : bool) : pyres := if same_obj then RV PTrue else RNotImpl.
  Definition object_ne (same_obj : bool) : pyres := if same_obj then RV PFalse else RNotImpl.

  (** [type(x).__eq__(x, other)] where [eff] is the generated method the class of x
      ends up with ([None]: none generated along the chain, [object]'s is used) *)
  Definition call_eq (eff : option (list fld)) (x : inst val) (other : operand) (same_obj : bool)
    : pyres * list (val * val) :=
    match eff with
    | Some attrs => gen_eq attrs x other
    | None => (object_eq same_obj, [])
    end.

  (** [type(x).__ne__(x, other)]: attrs installs [__ne__] together with [__eq__];
      it calls [self.__eq__], i.e. the effective one *)
  Definition call_ne (eff : option (list fld)) (x : inst val) (other : operand) (same_obj : bool)
    : pyres * list (val * val) :=
    match eff with
    | Some attrs => let '(r, l) := gen_eq attrs x other in (ne_of r, l)
    | None => (object_ne same_obj, [])
    end.

  (** the reflected call [type(other).__eq__(other, x)] *)
  Definition refl_eq (eff_of : nat -> option (list fld)) (x : inst val) (other : operand)
      (same_obj : bool) : pyres * list (val * val) :=
    match other with
    | OInst y => call_eq (eff_of (i_cls y)) y (OInst x) same_obj
    | OForeign eqr _ => (eqr, [])
    end.
  Definition refl_ne (eff_of : nat -> option (list fld)) (x : inst val) (other : operand)
      (same_obj : bool) : pyres * list (val * val) :=
    match other with
    | OInst y => call_ne (eff_of (i_cls y)) y (OInst x) same_obj
    | OForeign _ ner => (ner, [])
    end.

  (** [sub_first]: the class of the other operand is a proper subclass of x's.  In a
      linear chain (most derived first) that is: smaller position. *)
  Definition proper_subclass (x : inst val) (other : operand) : bool :=
    match other with OInst y => Nat.ltb (i_cls y) (i_cls x) | OForeign _ _ => false end.

  (** the expressions [x == other] and [x != other] *)
  Definition op_eq (eff_of : nat -> option (list fld)) (x : inst val) (other : operand) (same_obj : bool) :=
    dispatch (proper_subclass x other)
      (call_eq (eff_of (i_cls x)) x other same_obj) (refl_eq eff_of x other same_obj)
      (fallback_eq same_obj).
  Definition op_ne (eff_of : nat -> option (list fld)) (x : inst val) (other : operand) (same_obj : bool) :=
    dispatch (proper_subclass x other)
      (call_ne (eff_of (i_cls x)) x other same_obj) (refl_ne eff_of x other same_obj)
      (fallback_ne same_obj).
End Model.

Arguments OInst {val} y.
Arguments OForeign {val} eqr ner.
