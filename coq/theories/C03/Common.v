(** * C03 / C09 — shared definitions (values, comparison oracles, field records,
    eq/order/cmp resolution, operator dispatch, class chains).

    Mirrors, from [attr/_make.py]: [_determine_attrib_eq_order] (called by [attrib()]
    and again by [Attribute.__init__]), [_determine_attrs_eq_order],
    [_determine_whether_to_implement], the eq/order part of [attrs()]'s inner [wrap],
    and the parameter defaults of [attrs()] / [define()] that concern comparison.

    Definitions only (plus nothing to prove here); the concrete oracle instantiation
    used by the correspondence checks is at the end. *)
From Coq Require Import List Bool Arith ZArith.
Import ListNotations.
From Attrs Require Import Base.

(** ** Arguments as the user passes them *)

Definition keyid := nat.          (* a user key function, identified by a number *)
Definition name := nat.           (* a field name, identified by a number *)

(** field-level [eq=] / [order=] / [cmp=]: [None], [True], [False], a callable, or
    ([SKf]) a callable OBJECT whose truth value is False (empty callable dict subclass,
    [__bool__] returning False, [__len__] returning 0) *)
Inductive setting := SN | ST | SF | SK (k : keyid) | SKf (k : keyid).
(** a key function object as held by [_CountingAttr]: its number and its truth value *)
Definition ckey := (keyid * bool)%type.
(** class-level [eq=] / [order=] / [cmp=] *)
Inductive tri := TN | TT | TF.
Inductive api := AttrS | Define.

Inductive res (A : Type) := Ok (a : A) | VErr.   (* VErr: raises ValueError *)
Arguments Ok {A} a.
Arguments VErr {A}.

Record fld := F { f_name : name; f_eq : bool; f_eq_key : option keyid;
                  f_order : bool; f_order_key : option keyid }.

Definition is_set (s : setting) : bool := match s with SN => false | _ => true end.

(** inner helper [decide_callable_or_boolean] (argument is not None) *)
Definition decide_callable_or_boolean (s : setting) : bool * option ckey :=
  match s with
  | SK k => (true, Some (k, true)) | SKf k => (true, Some (k, false))
  | ST => (true, None) | _ => (false, None)
  end.

(** [_determine_attrib_eq_order(cmp, eq, order, default_eq)] *)
Definition determine_attrib_eq_order (cmp eq order : setting) (default_eq : bool)
  : res (bool * option ckey * bool * option ckey) :=
  if is_set cmp && (is_set eq || is_set order) then VErr
  else if is_set cmp then
    let '(c, ck) := decide_callable_or_boolean cmp in Ok (c, ck, c, ck)
  else
    let '(e, ek) := match eq with SN => (default_eq, None) | _ => decide_callable_or_boolean eq end in
    let '(o, ok) := match order with SN => (e, ek) | _ => decide_callable_or_boolean order end in
    if negb e && o then VErr else Ok (e, ek, o, ok).

(** [eq_key if eq_key is not None else eq] (same for order) as [Attribute.__init__]
    rebuilds the argument: a key object is kept whatever its truth value (since the fix
    "apply eq/order key callables that are falsy"; before it the code said [eq_key or eq]
    and dropped falsy callables).  The later tests in [_make_eq_script] / [_make_order]
    are [is not None] as well. *)
Definition key_or_flag (k : option ckey) (b : bool) : setting :=
  match k with Some (k, true) => SK k | Some (k, false) => SKf k | None => if b then ST else SF end.
Definition key_id (k : option ckey) : option keyid :=
  match k with Some (k, _) => Some k | None => None end.

(** [attrib(cmp=, eq=, order=)] followed by [Attribute.from_counting_attr] /
    [Attribute.__init__], which resolves a second time *)
Definition make_attribute (n : name) (cmp eq order : setting) : res fld :=
  match determine_attrib_eq_order cmp eq order true with
  | VErr => VErr
  | Ok (e, ek, o, ok) =>
      match determine_attrib_eq_order SN (key_or_flag ek e) (key_or_flag ok o) true with
      | VErr => VErr
      | Ok (e', ek', o', ok') => Ok (F n e' (key_id ek') o' (key_id ok'))
      end
  end.

Definition tri_set (t : tri) : bool := match t with TN => false | _ => true end.

(** [_determine_attrs_eq_order(cmp, eq, order, default_eq)] *)
Definition determine_attrs_eq_order (cmp eq order default_eq : tri) : res (tri * tri) :=
  if tri_set cmp && (tri_set eq || tri_set order) then VErr
  else if tri_set cmp then Ok (cmp, cmp)
  else
    let eq := match eq with TN => default_eq | _ => eq end in
    let order := match order with TN => eq | _ => order end in
    match eq, order with
    | TF, TT => VErr
    | _, _ => Ok (eq, order)
    end.

(** [_determine_whether_to_implement(cls, flag, auto_detect, dunders, default)];
    [has_own]: one of the dunders is defined in the class body *)
Definition whether_to_implement (flag : tri) (auto_detect has_own default : bool) : bool :=
  match flag with
  | TT => true
  | TF => false
  | TN => if negb auto_detect then default else if has_own then false else default
  end.

(** parameter defaults of the two decorators (tied to the source by the [KDefaults]
    case of C09 and, behaviourally, by every case that omits an argument) *)
Definition api_default_cmp (a : api) : tri := TN.
Definition api_default_eq (a : api) : tri := TN.
Definition api_default_order (a : api) : tri := match a with AttrS => TN | Define => TF end.
Definition api_default_auto_detect (a : api) : bool := match a with AttrS => false | Define => true end.

(** class-level arguments; [None] = argument omitted *)
Record clsargs := CA { ca_api : api; ca_cmp : option tri; ca_eq : option tri; ca_order : option tri;
                       ca_auto : option bool; ca_own_eq : bool; ca_own_order : bool }.

Definition dflt {A} (o : option A) (d : A) : A := match o with Some x => x | None => d end.

(** [attrs()] + [wrap]: (is [__eq__]/[__ne__] generated, are [__lt__]… generated) *)
Definition decide_class (c : clsargs) : res (bool * bool) :=
  let a := ca_api c in
  let auto := dflt (ca_auto c) (api_default_auto_detect a) in
  match determine_attrs_eq_order (dflt (ca_cmp c) (api_default_cmp a))
          (dflt (ca_eq c) (api_default_eq a)) (dflt (ca_order c) (api_default_order a)) TN with
  | VErr => VErr
  | Ok (eq_, order_) =>
      Ok (whether_to_implement eq_ auto (ca_own_eq c) true,
          whether_to_implement order_ auto (ca_own_order c) true)
  end.

(** ** Python values of comparisons *)

(** what the expression [a == b] (or [a < b] …) on user values evaluates to *)
Inductive outcome :=
| PTrue | PFalse
| PObj (truthy : bool) (oid : nat)     (* some non-bool object, with its truth value *)
| PRaise (e : nat).                    (* raises exception class number e *)

(** what a rich-comparison *method* returns *)
Inductive pyres := RNotImpl | RV (o : outcome).

Definition truthy (o : outcome) : bool :=
  match o with PTrue => true | PFalse => false | PObj t _ => t | PRaise _ => false end.
Definition raises (o : outcome) : bool := match o with PRaise _ => true | _ => false end.
Definition of_bool (b : bool) : outcome := if b then PTrue else PFalse.

Definition exc_TypeError : nat := 2.

(** ** Binary operator dispatch (CPython [do_richcompare]), observable level.

    [fwd] is what [type(x).__op__(x, y)] returns, [refl] what the reflected
    [type(y).__rop__(y, x)] returns, [sub_first] says that [type(y)] is a proper
    subclass of [type(x)] (then the reflected method is tried first; CPython does not
    test whether it is overridden).  Each comes with its log of [==] calls on field
    values; a method is only called (its log only counted) when dispatch reaches it. *)
Section Dispatch.
  Context {L : Type}.
  Definition try2 (first second : pyres * list L) (fallback : outcome) : outcome * list L :=
    match first with
    | (RV o, l1) => (o, l1)
    | (RNotImpl, l1) =>
        match second with
        | (RV o, l2) => (o, l1 ++ l2)
        | (RNotImpl, l2) => (fallback, l1 ++ l2)
        end
    end.
  Definition dispatch (sub_first : bool) (fwd refl : pyres * list L) (fallback : outcome) :=
    if sub_first then try2 refl fwd fallback else try2 fwd refl fallback.
End Dispatch.

(** fallbacks: [==] → identity, [!=] → non-identity, ordering → TypeError *)
Definition fallback_eq (same_obj : bool) : outcome := of_bool same_obj.
Definition fallback_ne (same_obj : bool) : outcome := of_bool (negb same_obj).
Definition fallback_order : outcome := PRaise exc_TypeError.

(** ** Class chains for the correspondence (most derived class first) *)

Record fspec := FS { s_name : name; s_cmp : setting; s_eq : setting; s_order : setting }.
(** one attrs class: decorator arguments and its COMPLETE field list in
    [__attrs_attrs__] order (own and inherited), each with the arguments given where
    the field was (last) defined *)
Record layer := LY { l_args : clsargs; l_fields : list fspec }.

Fixpoint build_fields (fs : list fspec) : res (list fld) :=
  match fs with
  | [] => Ok []
  | s :: r =>
      match make_attribute (s_name s) (s_cmp s) (s_eq s) (s_order s), build_fields r with
      | Ok a, Ok l => Ok (a :: l)
      | _, _ => VErr
      end
  end.

Record cls := CL { c_gen_eq : bool; c_gen_order : bool; c_attrs : list fld }.

Definition build_layer (l : layer) : res cls :=
  match build_fields (l_fields l), decide_class (l_args l) with
  | Ok fs, Ok (e, o) => Ok (CL e o fs)
  | _, _ => VErr
  end.

Fixpoint build_chain (ls : list layer) : res (list cls) :=
  match ls with
  | [] => Ok []
  | l :: r => match build_layer l, build_chain r with
              | Ok c, Ok cs => Ok (c :: cs)
              | _, _ => VErr
              end
  end.

(** the method a class ends up with: the nearest class along the chain (itself
    first) for which attrs generated it; [None] = [object]'s *)
Fixpoint effective (gen : cls -> bool) (chain : list cls) : option (list fld) :=
  match chain with
  | [] => None
  | c :: r => if gen c then Some (c_attrs c) else effective gen r
  end.

(** ** Concrete values and oracles of the correspondence checks.

    [Vi z]: the int z.  [Vs i]: scripted object number i whose [__eq__] / ordering
    methods return what the case's script table says (left operand decides).
    [Vn i]: the float NaN object number i (never equal, never ordered; identical
    only to itself).
    [Vo]: [None].  [Ve]: the empty string (a falsy value that is neither None nor a number). *)
Inductive cval := Vi (z : Z) | Vs (i : nat) | Vn (i : nat) | Vo | Ve.

(** script table: object id -> (outcome of [==], outcome of [<], [<=], [>], [>=]) *)
Definition script := list (nat * (outcome * outcome)).
Fixpoint script_get (s : script) (i : nat) : outcome * outcome :=
  match s with
  | [] => (PFalse, PFalse)
  | (j, o) :: r => if Nat.eqb i j then o else script_get r i
  end.

Inductive cmpop := Lt | Le | Gt | Ge.

Definition swap_op (o : cmpop) : cmpop :=
  match o with Lt => Gt | Le => Ge | Gt => Lt | Ge => Le end.

Definition z_cmp (op : cmpop) (a b : Z) : bool :=
  match op with Lt => Z.ltb a b | Le => Z.leb a b | Gt => Z.ltb b a | Ge => Z.leb b a end.

Definition c_py_eq (s : script) (a b : cval) : outcome :=
  match a, b with
  | Vs i, _ => fst (script_get s i)
  | Vi _, Vs j => fst (script_get s j)        (* int.__eq__ -> NotImplemented -> reflected *)
  | Vi x, Vi y => of_bool (Z.eqb x y)
  | Vo, Vs j | Ve, Vs j => fst (script_get s j)
  | Vo, Vo | Ve, Ve => PTrue
  | _, _ => PFalse                            (* NaN involved, or different kinds *)
  end.

Definition c_py_cmp (s : script) (op : cmpop) (a b : cval) : outcome :=
  match a, b with
  | Vs i, _ => snd (script_get s i)
  | Vi _, Vs j => snd (script_get s j)
  | Vi x, Vi y => of_bool (z_cmp op x y)
  | Vo, Vs j | Ve, Vs j => snd (script_get s j)
  | Ve, Ve => of_bool (match op with Le | Ge => true | _ => false end)
  | Vo, _ | _, Vo | Ve, _ | _, Ve => PRaise exc_TypeError    (* None < x, '' < 1 *)
  | _, _ => PFalse
  end.

(** identity of objects (CPython: equal small ints are the same object) *)
Definition c_py_is (a b : cval) : bool :=
  match a, b with
  | Vi x, Vi y => Z.eqb x y
  | Vs i, Vs j => Nat.eqb i j
  | Vn i, Vn j => Nat.eqb i j
  | Vo, Vo | Ve, Ve => true
  | _, _ => false
  end.

(** key functions of the correspondence: on ints key 0 negates, 1 is [abs], 2 is
    [v % 2], any other [min(v, 1)] — except 4, 5, 6 whose Python results are a set, a
    dict and an object defining only [__eq__]; the model keeps a canonical int with the
    same [==] classes ([max(v,1)]: the sets {0,8} / {8,0} / {v}; [v]: the dict {0: v};
    [v % 2]: the eq-only object).  On a scripted object key k returns its
    pre-built variant number [100*(k+1)+i]; on NaN a new NaN object.
    All keys accept the falsy non-numbers None and '' and treat them like 0 — except
    key 7: None -> 1, '' -> 1, 0 -> None, other v -> v  (so [key v] can BE None), and
    key 8: None, '', 0 -> 1, other v -> v  (falsy values land on the image of 1). *)
Definition int_key (k : keyid) (z : Z) : Z :=
  match k with 0 => Z.opp z | 1 => Z.abs z | 2 => Z.modulo z 2
             | 4 => Z.max z 1 | 5 => z | 6 => Z.modulo z 2
             | 7 => z | 8 => if Z.eqb z 0 then 1%Z else z
             | 100 => Z.modulo z 2 | 102 => Z.abs z      (* 100, 101, 102: the falsy callable objects *)
             | _ => Z.min z 1 end.
Definition c_keyf (k : keyid) (v : cval) : cval :=
  match v with
  | Vi z => if Nat.eqb k 7 && Z.eqb z 0 then Vo else Vi (int_key k z)
  | Vs i => Vs (100 * (k + 1) + i)
  | Vn i => Vn (100 * (k + 1) + i)
  | Vo | Ve => if Nat.eqb k 7 then Vi 1 else Vi (int_key k 0)
  end.

Definition cval_eqb (a b : cval) : bool :=
  match a, b with
  | Vi x, Vi y => Z.eqb x y
  | Vs i, Vs j => Nat.eqb i j
  | Vn i, Vn j => Nat.eqb i j
  | Vo, Vo | Ve, Ve => true
  | _, _ => false
  end.

Definition outcome_eqb (a b : outcome) : bool :=
  match a, b with
  | PTrue, PTrue | PFalse, PFalse => true
  | PObj t i, PObj u j => Bool.eqb t u && Nat.eqb i j
  | PRaise e, PRaise f => Nat.eqb e f
  | _, _ => false
  end.

Definition pyres_eqb (a b : pyres) : bool :=
  match a, b with
  | RNotImpl, RNotImpl => true
  | RV x, RV y => outcome_eqb x y
  | _, _ => false
  end.

(** instance of the class at position [i_cls] of the chain; attribute access by name *)
Record inst (val : Type) := IN { i_cls : nat; i_get : name -> val }.
Arguments IN {val} i_cls i_get.
Arguments i_cls {val} i.
Arguments i_get {val} i n.

Fixpoint assoc_get {V} (l : list (name * V)) (d : V) (n : name) : V :=
  match l with
  | [] => d
  | (m, v) :: r => if Nat.eqb n m then v else assoc_get r d n
  end.

(** values given positionally for the class's own field list *)
Definition mk_inst (c : nat) (fields : list fld) (vals : list cval) : inst cval :=
  IN c (assoc_get (combine (map f_name fields) vals) (Vi 0)).

(** all vectors of length k over a domain, in lexicographic order of the domain list *)
Fixpoint vectors {A} (dom : list A) (k : nat) : list (list A) :=
  match k with
  | O => [[]]
  | S k' => flat_map (fun a => map (cons a) (vectors dom k')) dom
  end.

(** ** decidable equality of resolved fields (used by both correspondence checks) *)
Definition optk_eqb (a b : option keyid) : bool := option_eqb Nat.eqb a b.
Definition fld_eqb (a b : fld) : bool :=
  Nat.eqb (f_name a) (f_name b) && Bool.eqb (f_eq a) (f_eq b) && optk_eqb (f_eq_key a) (f_eq_key b)
  && Bool.eqb (f_order a) (f_order b) && optk_eqb (f_order_key a) (f_order_key b).
Definition resfld_eqb (a b : res fld) : bool :=
  match a, b with Ok x, Ok y => fld_eqb x y | VErr, VErr => true | _, _ => false end.

Lemma optk_eqb_spec a b : optk_eqb a b = true <-> a = b.
Proof.
  destruct a, b; cbn; split; intros H; try discriminate; try reflexivity.
  - apply Nat.eqb_eq in H. congruence.
  - inversion H. apply Nat.eqb_refl.
Qed.

Lemma fld_eqb_spec a b : fld_eqb a b = true <-> a = b.
Proof.
  destruct a, b; unfold fld_eqb; cbn.
  rewrite !andb_true_iff, !optk_eqb_spec, Nat.eqb_eq. split.
  - intros [[[[-> H1] ->] H2] ->]. apply Bool.eqb_prop in H1, H2. congruence.
  - intros H; inversion H; subst. rewrite !Bool.eqb_reflx. auto.
Qed.

Lemma resfld_eqb_spec a b : resfld_eqb a b = true <-> a = b.
Proof.
  destruct a, b; cbn; split; intros H; try discriminate; try reflexivity.
  - apply fld_eqb_spec in H. congruence.
  - inversion H; subst. now apply fld_eqb_spec.
Qed.

