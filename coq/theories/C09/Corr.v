(** * C09 — correspondence: what the model says about the classes / instances /
    operands the harness ran against the real library, compared inside [coqc]. *)
From Coq Require Import List Bool Arith ZArith.
Import ListNotations.
From Attrs Require Import Base C03.Common C09.Model.

Inductive opnd :=
| OpSame                                    (* the very same object *)
| OpInst (c : nat) (vals : list cval)       (* another instance, of the class at position c *)
| OpForeign (cmpr : pyres).                 (* not an attrs instance: what its reflected method returns *)

Inductive iout :=
| OProbe (l : list pyres)     (* [x<o; x<=o; x>o; x>=o] then [type(x).__lt__(x,o); __le__; __gt__; __ge__] *)
| OAll (codes : list nat).    (* two codes (operators, methods) per ordered pair of value vectors *)

Inductive item :=
| IProbe (c : nat) (vals : list cval) (o : opnd)
| IAll (c : nat) (dom : list Z)                  (* all ordered pairs over dom^k *)
| IAllV (c : nat) (dom : list cval)              (* the same over arbitrary values (None, '', …) *)
| IRow (c : nat) (dom : list Z) (xv : list Z)    (* x fixed, y ranges over dom^k *)
| IPair (c : nat) (xv : list Z) (c' : nat) (yv : list Z).

Inductive chain_seen :=
| SeenErr                                         (* a definition raised ValueError *)
| SeenOk (gen : list nat) (outs : list iout).     (* per class: 1 = all of __lt__,__le__,__gt__,__ge__ in its __dict__, 0 = none *)

(** [DBad]: the harness saw something the model cannot express (never produced by the model) *)
Inductive decision := DErr | DOk (eq_generated order_generated : bool) | DBad.

Inductive case :=
| KField (a : api) (cmp eq order : setting) (seen : res fld)   (* field-level resolution *)
| KDecide (args : clsargs) (seen : decision)
| KDefaults (a : api) (cmp eq order : tri) (auto : bool)   (* parameter defaults read from the source *)
| KChain (chain : list layer) (sc : script) (items : list item) (seen : chain_seen).

Definition eff_order_of (chain : list cls) (i : nat) : option (list fld) :=
  effective c_gen_order (skipn i chain).
Definition attrs_at (chain : list cls) (i : nat) : list fld :=
  match nth_error chain i with Some c => c_attrs c | None => [] end.

Definition ops := [Lt; Le; Gt; Ge].

Definition run_pair (chain : list cls) (sc : script) (x : inst cval) (other : operand cval) : list pyres :=
  let eff := eff_order_of chain in
  map (fun op => RV (op_order cval (c_py_eq sc) (c_py_cmp sc) c_py_is c_keyf op eff x other)) ops ++
  map (fun op => call_order cval (c_py_eq sc) (c_py_cmp sc) c_py_is c_keyf op (eff (i_cls x)) x other) ops.

Definition digit (o : pyres) : nat :=
  match o with
  | RV PFalse => 0 | RV PTrue => 1 | RNotImpl => 2
  | RV (PRaise 2) => 3        (* TypeError *)
  | _ => 4
  end.
Fixpoint code (l : list pyres) : nat :=
  match l with [] => 0 | o :: r => digit o + 5 * code r end.
Definition codes2 (l : list pyres) : list nat := [code (firstn 4 l); code (skipn 4 l)].

Definition run_item (chain : list cls) (sc : script) (it : item) : iout :=
  match it with
  | IProbe c vals o =>
      let x := mk_inst c (attrs_at chain c) vals in
      match o with
      | OpSame => OProbe (run_pair chain sc x (OInst x))
      | OpInst c' vs => OProbe (run_pair chain sc x (OInst (mk_inst c' (attrs_at chain c') vs)))
      | OpForeign r => OProbe (run_pair chain sc x (OForeign r))
      end
  | IAll c dom =>
      let attrs := attrs_at chain c in
      let vs := vectors (map Vi dom) (length attrs) in
      OAll (flat_map (fun xv => flat_map (fun yv =>
              codes2 (run_pair chain sc (mk_inst c attrs xv) (OInst (mk_inst c attrs yv)))) vs) vs)
  | IAllV c dom =>
      let attrs := attrs_at chain c in
      let vs := vectors dom (length attrs) in
      OAll (flat_map (fun xv => flat_map (fun yv =>
              codes2 (run_pair chain sc (mk_inst c attrs xv) (OInst (mk_inst c attrs yv)))) vs) vs)
  | IRow c dom xv =>
      let attrs := attrs_at chain c in
      let vs := vectors (map Vi dom) (length attrs) in
      OAll (flat_map (fun yv =>
              codes2 (run_pair chain sc (mk_inst c attrs (map Vi xv)) (OInst (mk_inst c attrs yv)))) vs)
  | IPair c xv c' yv =>
      OAll (codes2 (run_pair chain sc (mk_inst c (attrs_at chain c) (map Vi xv))
                      (OInst (mk_inst c' (attrs_at chain c') (map Vi yv)))))
  end.

Definition model_chain (chain : list layer) (sc : script) (items : list item) : chain_seen :=
  match build_chain chain with
  | VErr => SeenErr
  | Ok cs => SeenOk (map (fun c => if c_gen_order c then 1 else 0) cs) (map (run_item cs sc) items)
  end.

Definition model_decide (args : clsargs) : decision :=
  match decide_class args with VErr => DErr | Ok (e, o) => DOk e o end.

Inductive mout :=
| MField (r : res fld)
| MDecide (d : decision)
| MDefaults (cmp eq order : tri) (auto : bool)
| MChain (s : chain_seen).

Definition model_of (c : case) : mout :=
  match c with
  | KField a cmp eq order _ => MField (make_attribute 0 cmp eq order)
  | KDecide args _ => MDecide (model_decide args)
  | KDefaults a _ _ _ _ =>
      MDefaults (api_default_cmp a) (api_default_eq a) (api_default_order a) (api_default_auto_detect a)
  | KChain chain sc items _ => MChain (model_chain chain sc items)
  end.

Definition seen_of (c : case) : mout :=
  match c with
  | KField _ _ _ _ s => MField s
  | KDecide _ s => MDecide s
  | KDefaults _ cmp eq order auto => MDefaults cmp eq order auto
  | KChain _ _ _ s => MChain s
  end.

Definition tri_eqb (a b : tri) : bool :=
  match a, b with TN, TN | TT, TT | TF, TF => true | _, _ => false end.

Definition decision_eqb (a b : decision) : bool :=
  match a, b with
  | DErr, DErr | DBad, DBad => true
  | DOk e o, DOk e' o' => Bool.eqb e e' && Bool.eqb o o'
  | _, _ => false
  end.

Definition iout_eqb (a b : iout) : bool :=
  match a, b with
  | OProbe x, OProbe y => list_eqb pyres_eqb x y
  | OAll x, OAll y => list_eqb Nat.eqb x y
  | _, _ => false
  end.

Definition chain_seen_eqb (a b : chain_seen) : bool :=
  match a, b with
  | SeenErr, SeenErr => true
  | SeenOk g o, SeenOk g' o' => list_eqb Nat.eqb g g' && list_eqb iout_eqb o o'
  | _, _ => false
  end.

Definition mout_eqb (a b : mout) : bool :=
  match a, b with
  | MField x, MField y => resfld_eqb x y
  | MDecide x, MDecide y => decision_eqb x y
  | MDefaults c e o a, MDefaults c' e' o' a' =>
      tri_eqb c c' && tri_eqb e e' && tri_eqb o o' && Bool.eqb a a'
  | MChain x, MChain y => chain_seen_eqb x y
  | _, _ => false
  end.

Definition check_case (c : case) : bool := mout_eqb (model_of c) (seen_of c).

(** ** soundness of the comparison functions *)
Lemma nat_eqb_spec a b : Nat.eqb a b = true <-> a = b.
Proof. apply Nat.eqb_eq. Qed.

Lemma outcome_eqb_spec a b : outcome_eqb a b = true <-> a = b.
Proof.
  destruct a as [| |t i|e], b as [| |u j|f]; cbn; try (split; intros H; (discriminate || reflexivity)).
  - rewrite andb_true_iff, Nat.eqb_eq. split.
    + intros [Ht Hi]. apply Bool.eqb_prop in Ht. congruence.
    + intros H; inversion H; subst. rewrite Bool.eqb_reflx. auto.
  - rewrite Nat.eqb_eq. split; intros H; [congruence | now inversion H].
Qed.

Lemma pyres_eqb_spec a b : pyres_eqb a b = true <-> a = b.
Proof.
  destruct a, b; cbn; split; intros H; try discriminate; try reflexivity.
  - apply outcome_eqb_spec in H. congruence.
  - inversion H; subst. now apply outcome_eqb_spec.
Qed.

Lemma tri_eqb_spec a b : tri_eqb a b = true <-> a = b.
Proof. destruct a, b; cbn; split; intros H; try discriminate; reflexivity. Qed.

Lemma decision_eqb_spec a b : decision_eqb a b = true <-> a = b.
Proof.
  destruct a as [|e o|], b as [|e' o'|]; cbn; split; intros H; try discriminate; try reflexivity.
  - apply andb_true_iff in H as [H1 H2]. apply Bool.eqb_prop in H1, H2. congruence.
  - inversion H; subst. now rewrite !Bool.eqb_reflx.
Qed.

Lemma iout_eqb_spec a b : iout_eqb a b = true <-> a = b.
Proof.
  destruct a, b; cbn; split; intros H; try discriminate.
  - apply (list_eqb_spec pyres_eqb pyres_eqb_spec) in H. congruence.
  - inversion H; subst. now apply (list_eqb_spec pyres_eqb pyres_eqb_spec).
  - apply (list_eqb_spec Nat.eqb nat_eqb_spec) in H. congruence.
  - inversion H; subst. now apply (list_eqb_spec Nat.eqb nat_eqb_spec).
Qed.

Lemma chain_seen_eqb_spec a b : chain_seen_eqb a b = true <-> a = b.
Proof.
  destruct a, b; cbn; split; intros H; try discriminate; try reflexivity.
  - apply andb_true_iff in H as [H1 H2].
    apply (list_eqb_spec Nat.eqb nat_eqb_spec) in H1.
    apply (list_eqb_spec iout_eqb iout_eqb_spec) in H2. congruence.
  - inversion H; subst. apply andb_true_iff. split.
    + now apply (list_eqb_spec Nat.eqb nat_eqb_spec).
    + now apply (list_eqb_spec iout_eqb iout_eqb_spec).
Qed.

Lemma check_case_sound c : check_case c = true <-> seen_of c = model_of c.
Proof.
  unfold check_case. destruct (model_of c) eqn:M, (seen_of c) eqn:S; cbn; split; intros H;
    try discriminate.
  - apply resfld_eqb_spec in H. congruence.
  - inversion H; subst. now apply resfld_eqb_spec.
  - apply decision_eqb_spec in H. congruence.
  - inversion H; subst. now apply decision_eqb_spec.
  - repeat (apply andb_true_iff in H as [H ?]).
    repeat match goal with X : tri_eqb _ _ = true |- _ => apply tri_eqb_spec in X end.
    match goal with X : Bool.eqb _ _ = true |- _ => apply Bool.eqb_prop in X end. congruence.
  - inversion H; subst. rewrite Bool.eqb_reflx.
    repeat (apply andb_true_iff; split); try reflexivity; now apply tri_eqb_spec.
  - apply chain_seen_eqb_spec in H. congruence.
  - inversion H; subst. now apply chain_seen_eqb_spec.
Qed.
