(** * C09 — generated ordering: executable model.

    Mirrors [_make_order] of [attr/_make.py]: the inner [attrs_to_tuple] (order fields
    only, in field order, each value through the field's order key) and the four
    closures [__lt__] … [__ge__] (exact-class test, then Python's comparison of the two
    tuples).  Tuple comparison follows CPython's [tuplerichcompare]: find the first
    index where the items are not equal — [PyObject_RichCompareBool(.., Py_EQ)], i.e.
    IDENTICAL objects count as equal without asking [==] — then apply the operator to
    that pair of items (the result object is returned as is), or compare the lengths.

    Oracles: [py_eq] / [py_cmp] (value of [a == b] / [a < b] … on user values),
    [py_is] (object identity), [keyf] (key functions).
    Definitions only; proofs are in [C09/Proofs.v]. *)
From Coq Require Import List Bool Arith.
Import ListNotations.
From Attrs Require Import C03.Common.

Section Model.
  Variable val : Type.
  Variable py_eq : val -> val -> outcome.
  Variable py_cmp : cmpop -> val -> val -> outcome.
  Variable py_is : val -> val -> bool.
  Variable keyf : keyid -> val -> val.

  Definition keyed (k : option keyid) (v : val) : val :=
    match k with Some k => keyf k v | None => v end.

  (** [attrs = [a for a in attrs if a.order]] *)
  Definition order_attrs (attrs : list fld) : list fld := filter f_order attrs.

  (** [attrs_to_tuple(obj)] *)
  Definition attrs_to_tuple (attrs : list fld) (x : inst val) : list val :=
    map (fun a => keyed (f_order_key a) (i_get x (f_name a))) (order_attrs attrs).

  Definition nat_cmp (op : cmpop) (a b : nat) : bool :=
    match op with Lt => Nat.ltb a b | Le => Nat.leb a b | Gt => Nat.ltb b a | Ge => Nat.leb b a end.

  (** [tuple.__lt__] etc. *)
  Fixpoint tuple_cmp (op : cmpop) (t1 t2 : list val) : outcome :=
    match t1, t2 with
    | a :: r1, b :: r2 =>
        if py_is a b then tuple_cmp op r1 r2
        else
          let e := py_eq a b in
          if raises e then e
          else if truthy e then tuple_cmp op r1 r2
          else py_cmp op a b
    | _, _ => of_bool (nat_cmp op (length t1) (length t2))
    end.

  Inductive operand := OInst (y : inst val) | OForeign (cmpr : pyres).

  (** generated [__lt__] / [__le__] / [__gt__] / [__ge__] *)
  Definition gen_order (op : cmpop) (attrs : list fld) (x : inst val) (other : operand) : pyres :=
    match other with
    | OInst y =>
        if Nat.eqb (i_cls y) (i_cls x)                     (* other.__class__ is self.__class__ *)
        then RV (tuple_cmp op (attrs_to_tuple attrs x) (attrs_to_tuple attrs y))
        else RNotImpl
    | OForeign _ => RNotImpl
    end.

  (** [type(x).__op__(x, other)]; [None]: no class of the chain generated ordering,
      [object]'s method answers NotImplemented *)
  Definition call_order (op : cmpop) (eff : option (list fld)) (x : inst val) (other : operand) : pyres :=
    match eff with
    | Some attrs => gen_order op attrs x other
    | None => RNotImpl
    end.

  Definition refl_order (op : cmpop) (eff_of : nat -> option (list fld)) (x : inst val) (other : operand)
    : pyres :=
    match other with
    | OInst y => call_order (swap_op op) (eff_of (i_cls y)) y (OInst x)
    | OForeign r => r
    end.

  Definition proper_subclass (x : inst val) (other : operand) : bool :=
    match other with OInst y => Nat.ltb (i_cls y) (i_cls x) | OForeign _ => false end.

  (** the expression [x op other]: both NotImplemented => TypeError *)
  Definition op_order (op : cmpop) (eff_of : nat -> option (list fld)) (x : inst val) (other : operand)
    : outcome :=
    fst (dispatch (L := unit) (proper_subclass x other)
           (call_order op (eff_of (i_cls x)) x other, [])
           (refl_order op eff_of x other, [])
           fallback_order).
End Model.

Arguments OInst {val} y.
Arguments OForeign {val} cmpr.
