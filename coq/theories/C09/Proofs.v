(** * C09 — proofs about the generated-ordering model. *)
From Coq Require Import List Bool Arith ZArith Lia.
Import ListNotations.
From Attrs Require Import Base C03.Common C09.Model.
From Attrs Require Export C03.Resolution.

Section General.
  Variable val : Type.
  Variable py_eq : val -> val -> outcome.
  Variable py_cmp : cmpop -> val -> val -> outcome.
  Variable py_is : val -> val -> bool.
  Variable keyf : keyid -> val -> val.

  Notation gen_order := (gen_order val py_eq py_cmp py_is keyf).
  Notation tuple_cmp := (tuple_cmp val py_eq py_cmp py_is).
  Notation call_order := (call_order val py_eq py_cmp py_is keyf).
  Notation op_order := (op_order val py_eq py_cmp py_is keyf).

  (** *** order_is_tuple_order: the four methods return Python's comparison of the
      tuples of the order fields' keyed values, in field order *)
  Lemma order_is_tuple_order_l op attrs (x y : inst val) :
    i_cls y = i_cls x ->
    gen_order op attrs x (OInst y) =
      RV (tuple_cmp op
            (map (fun a => keyed val keyf (f_order_key a) (i_get x (f_name a))) (filter f_order attrs))
            (map (fun a => keyed val keyf (f_order_key a) (i_get y (f_name a))) (filter f_order attrs))).
  Proof. intros Hc. unfold Model.gen_order. rewrite Hc, Nat.eqb_refl. reflexivity. Qed.

  (** fields with order=False never influence the result *)
  Lemma order_frame_l op attrs (x x' : inst val) other :
    i_cls x = i_cls x' ->
    (forall a, In a attrs -> f_order a = true -> i_get x (f_name a) = i_get x' (f_name a)) ->
    gen_order op attrs x other = gen_order op attrs x' other.
  Proof.
    intros Hc H. assert (E : attrs_to_tuple val keyf attrs x = attrs_to_tuple val keyf attrs x').
    { unfold attrs_to_tuple, order_attrs. apply map_ext_in. intros a Ha.
      apply filter_In in Ha as [Hin Ho]. now rewrite (H a Hin Ho). }
    destruct other as [y|]; cbn; [|reflexivity]. now rewrite <- Hc, E.
  Qed.

  (** *** order_other_class *)
  Lemma order_other_class_l op attrs (x y : inst val) :
    i_cls y <> i_cls x -> gen_order op attrs x (OInst y) = RNotImpl.
  Proof. intros Hc. unfold Model.gen_order. apply Nat.eqb_neq in Hc. now rewrite Hc. Qed.

  Lemma order_foreign_l op attrs (x : inst val) r : gen_order op attrs x (OForeign r) = RNotImpl.
  Proof. reflexivity. Qed.

  Lemma call_order_other op eff (x y : inst val) :
    i_cls y <> i_cls x -> call_order op eff x (OInst y) = RNotImpl.
  Proof. intros Hc. destruct eff; cbn [Model.call_order]; [now apply order_other_class_l | reflexivity]. Qed.

  (** whatever the two classes generated or inherited: TypeError *)
  Lemma op_order_other_class_l op eff_of (x y : inst val) :
    i_cls y <> i_cls x -> op_order op eff_of x (OInst y) = PRaise exc_TypeError.
  Proof.
    intros Hc. unfold Model.op_order, refl_order, dispatch, try2.
    rewrite (call_order_other op _ x y Hc), (call_order_other (swap_op op) _ y x (not_eq_sym Hc)).
    destruct (proper_subclass val x (OInst y)); reflexivity.
  Qed.

  Lemma op_order_foreign_l op eff_of (x : inst val) r :
    op_order op eff_of x (OForeign r) =
      match r with RNotImpl => PRaise exc_TypeError | RV o => o end.
  Proof.
    unfold Model.op_order, dispatch, try2. cbn.
    destruct (eff_of (i_cls x)); cbn; destruct r; reflexivity.
  Qed.

  (** same class: the operator is the method *)
  Lemma op_order_same_class_l op eff_of attrs (x y : inst val) :
    i_cls y = i_cls x -> eff_of (i_cls x) = Some attrs ->
    RV (op_order op eff_of x (OInst y)) = gen_order op attrs x (OInst y).
  Proof.
    intros Hc E. unfold Model.op_order, proper_subclass. rewrite Hc, Nat.ltb_irrefl.
    unfold dispatch, try2. rewrite E. cbn [Model.call_order].
    rewrite (order_is_tuple_order_l op attrs x y Hc). reflexivity.
  Qed.
End General.

(** ** Over a total order: Python's tuple comparison is the lexicographic order and
    the four methods are mutually consistent. *)
Section TotalOrder.
  Variable val : Type.
  Variable ltb : val -> val -> bool.
  Variable eqb : val -> val -> bool.
  Hypothesis eqb_spec : forall a b, eqb a b = true <-> a = b.
  Hypothesis ltb_irrefl : forall a, ltb a a = false.
  Hypothesis ltb_asym : forall a b, ltb a b = true -> ltb b a = false.
  Hypothesis ltb_total : forall a b, a = b \/ ltb a b = true \/ ltb b a = true.

  Definition cmp_of (op : cmpop) (a b : val) : bool :=
    match op with
    | Lt => ltb a b | Le => ltb a b || eqb a b
    | Gt => ltb b a | Ge => ltb b a || eqb a b
    end.

  Variable py_eq : val -> val -> outcome.
  Variable py_cmp : cmpop -> val -> val -> outcome.
  Variable py_is : val -> val -> bool.
  Variable keyf : keyid -> val -> val.
  Hypothesis py_eq_is_eqb : forall a b, py_eq a b = of_bool (eqb a b).
  Hypothesis py_cmp_is_order : forall op a b, py_cmp op a b = of_bool (cmp_of op a b).
  Hypothesis py_is_sound : forall a b, py_is a b = true -> a = b.

  Notation gen_order := (gen_order val py_eq py_cmp py_is keyf).
  Notation tuple_cmp := (tuple_cmp val py_eq py_cmp py_is).
  Notation attrs_to_tuple := (attrs_to_tuple val keyf).

  (** the reference: strict lexicographic order on lists *)
  Fixpoint lex_lt (t1 t2 : list val) : bool :=
    match t1, t2 with
    | [], [] => false
    | [], _ :: _ => true
    | _ :: _, [] => false
    | a :: r1, b :: r2 => ltb a b || (eqb a b && lex_lt r1 r2)
    end.
  Definition tup_eqb : list val -> list val -> bool := list_eqb eqb.

  Definition lex_spec (op : cmpop) (t1 t2 : list val) : bool :=
    match op with
    | Lt => lex_lt t1 t2
    | Le => lex_lt t1 t2 || tup_eqb t1 t2
    | Gt => lex_lt t2 t1
    | Ge => lex_lt t2 t1 || tup_eqb t1 t2
    end.

  Lemma eqb_refl a : eqb a a = true.
  Proof. now apply eqb_spec. Qed.

  Lemma eqb_sym a b : eqb a b = eqb b a.
  Proof.
    destruct (eqb a b) eqn:E, (eqb b a) eqn:E'; try reflexivity.
    - apply eqb_spec in E. subst. rewrite eqb_refl in E'. discriminate.
    - apply eqb_spec in E'. subst. rewrite eqb_refl in E. discriminate.
  Qed.

  Lemma tuple_cmp_is_lexicographic_l op : forall t1 t2,
    tuple_cmp op t1 t2 = of_bool (lex_spec op t1 t2).
  Proof.
    induction t1 as [|a r1 IH]; intros [|b r2].
    - destruct op; reflexivity.
    - destruct op; reflexivity.
    - destruct op; reflexivity.
    - cbn [Model.tuple_cmp].
      assert (Hsame : a = b -> tuple_cmp op r1 r2 = of_bool (lex_spec op (a :: r1) (b :: r2))).
      { intros ->. rewrite IH. f_equal.
        destruct op; cbn [lex_spec lex_lt tup_eqb list_eqb]; fold tup_eqb;
          rewrite ?ltb_irrefl, ?eqb_refl; cbn; reflexivity. }
      destruct (py_is a b) eqn:I; [apply Hsame, py_is_sound, I|].
      rewrite py_eq_is_eqb. destruct (eqb a b) eqn:E; cbn [of_bool raises truthy].
      + apply Hsame, eqb_spec, E.
      + rewrite py_cmp_is_order. f_equal.
        assert (E' : eqb b a = false) by (rewrite eqb_sym; exact E).
        destruct op; cbn [cmp_of lex_spec lex_lt tup_eqb list_eqb]; rewrite ?E, ?E'; cbn;
          rewrite ?orb_false_r; reflexivity.
  Qed.

  Lemma tup_eqb_sym : forall t1 t2, tup_eqb t1 t2 = tup_eqb t2 t1.
  Proof.
    induction t1 as [|a r IH]; intros [|b r2]; cbn; try reflexivity.
    unfold tup_eqb in *. now rewrite eqb_sym, IH.
  Qed.

  (** the lexicographic order is total: not (t1 < t2)  iff  t2 < t1 or t1 = t2 *)
  Lemma lex_total : forall t1 t2, lex_lt t2 t1 || tup_eqb t1 t2 = negb (lex_lt t1 t2).
  Proof.
    induction t1 as [|a r1 IH]; intros [|b r2]; try reflexivity.
    cbn [lex_lt tup_eqb list_eqb]. fold tup_eqb.
    destruct (eqb a b) eqn:E.
    - apply eqb_spec in E. subst b. rewrite ltb_irrefl, eqb_refl. cbn. apply IH.
    - assert (E' : eqb b a = false) by (rewrite eqb_sym; exact E). rewrite E'. cbn.
      rewrite !orb_false_r.
      destruct (ltb_total a b) as [->|[H|H]].
      + rewrite eqb_refl in E. discriminate.
      + rewrite H, (ltb_asym _ _ H). reflexivity.
      + rewrite H, (ltb_asym _ _ H). reflexivity.
  Qed.

  Section SameClass.
    Variable attrs : list fld.
    Variables x y : inst val.
    Hypothesis same_class : i_cls y = i_cls x.

    Let tx := attrs_to_tuple attrs x.
    Let ty := attrs_to_tuple attrs y.

    Lemma gen_order_lex op : gen_order op attrs x (OInst y) = RV (of_bool (lex_spec op tx ty)).
    Proof.
      unfold Model.gen_order. rewrite same_class, Nat.eqb_refl.
      now rewrite tuple_cmp_is_lexicographic_l.
    Qed.

    Lemma gen_order_lex_rev op : gen_order op attrs y (OInst x) = RV (of_bool (lex_spec op ty tx)).
    Proof.
      unfold Model.gen_order. rewrite <- same_class, Nat.eqb_refl.
      now rewrite tuple_cmp_is_lexicographic_l.
    Qed.

    (** x < y iff y > x; x <= y iff y >= x *)
    Lemma lt_gt_converse_l :
      gen_order Lt attrs x (OInst y) = gen_order Gt attrs y (OInst x) /\
      gen_order Le attrs x (OInst y) = gen_order Ge attrs y (OInst x).
    Proof.
      rewrite !gen_order_lex, !gen_order_lex_rev. cbn [lex_spec].
      now rewrite (tup_eqb_sym ty tx).
    Qed.

    (** x <= y iff x < y or the tuples are equal *)
    Lemma le_iff_lt_or_eq_l :
      gen_order Le attrs x (OInst y) = RV (of_bool (lex_lt tx ty || tup_eqb tx ty)) /\
      gen_order Lt attrs x (OInst y) = RV (of_bool (lex_lt tx ty)).
    Proof. rewrite !gen_order_lex. split; reflexivity. Qed.

    (** x >= y iff not x < y;  x > y iff not x <= y *)
    Lemma ge_iff_not_lt_l :
      gen_order Ge attrs x (OInst y) = RV (of_bool (negb (lex_lt tx ty))) /\
      gen_order Gt attrs x (OInst y) = RV (of_bool (negb (lex_lt tx ty || tup_eqb tx ty))).
    Proof.
      rewrite !gen_order_lex. cbn [lex_spec]. split.
      - now rewrite lex_total.
      - now rewrite (tup_eqb_sym tx ty), (lex_total ty tx), negb_involutive.
    Qed.
  End SameClass.
End TotalOrder.

(** ** order_decision: which comparison methods a class gets, for every combination of
    decorator, cmp / eq / order (each omitted, None, True or False), auto_detect and
    user-written [__eq__] / [__lt__]. *)
Definition default_impl (auto own : bool) : bool := negb (auto && own).

Definition order_decision_spec (c : clsargs) : res (bool * bool) :=
  let a := ca_api c in
  let auto := dflt (ca_auto c) (api_default_auto_detect a) in
  let cmp := dflt (ca_cmp c) TN in
  let eq := dflt (ca_eq c) TN in
  let order := dflt (ca_order c) (match a with AttrS => TN | Define => TF end) in
  match cmp with
  | TT => match eq, order with TN, TN => Ok (true, true) | _, _ => VErr end
  | TF => match eq, order with TN, TN => Ok (false, false) | _, _ => VErr end
  | TN =>
      match eq, order with
      | TF, TT => VErr
      | _, _ =>
          let e := match eq with TT => true | TF => false | TN => default_impl auto (ca_own_eq c) end in
          let o := match order with
                   | TT => true | TF => false
                   | TN => match eq with TT => true | TF => false
                                    | TN => default_impl auto (ca_own_order c) end
                   end in
          Ok (e, o)
      end
  end.

Lemma order_decision_l c : decide_class c = order_decision_spec c.
Proof.
  destruct c as [a cmp eq order auto oe oo].
  destruct a, cmp as [[| |]|], eq as [[| |]|], order as [[| |]|], auto as [[|]|], oe, oo; reflexivity.
Qed.

(** under attr.s, with order left alone, ordering mirrors eq *)
Lemma attrs_order_mirrors_eq_l cmp eq order auto e o :
  (order = None \/ order = Some TN) ->
  decide_class (CA AttrS cmp eq order auto false false) = Ok (e, o) -> o = e.
Proof.
  rewrite order_decision_l. intros [->| ->];
    destruct cmp as [[| |]|], eq as [[| |]|], auto as [[|]|]; cbn; intros H; inversion H; reflexivity.
Qed.

(** under define, ordering is off unless asked for *)
Lemma define_order_off_by_default_l eq auto oe oo e o :
  decide_class (CA Define None eq None auto oe oo) = Ok (e, o) -> o = false.
Proof.
  rewrite order_decision_l.
  destruct eq as [[| |]|], auto as [[|]|], oe, oo; cbn; intros H; inversion H; reflexivity.
Qed.

(** order=True with eq=False is rejected; so is cmp mixed with eq / order *)
Lemma order_without_eq_rejected_l a cmp auto oe oo :
  decide_class (CA a cmp (Some TF) (Some TT) auto oe oo) = VErr.
Proof. rewrite order_decision_l. destruct a, cmp as [[| |]|]; reflexivity. Qed.

Lemma cmp_mixed_rejected_l a c eq order auto oe oo :
  c <> TN -> (eq = Some TT \/ eq = Some TF \/ order = Some TT \/ order = Some TF) ->
  decide_class (CA a (Some c) eq order auto oe oo) = VErr.
Proof.
  rewrite order_decision_l. intros Hc H.
  destruct c; [congruence| |];
    destruct a, eq as [[| |]|], order as [[| |]|]; try reflexivity;
    destruct H as [H|[H|[H|H]]]; discriminate.
Qed.

(** ** Non-vacuity *)
Example order_nonvacuous :
  let attrs := [F 0 true None true (Some 0); F 1 true None false None; F 2 true None true None] in
  let x := mk_inst 0 attrs [Vi 1%Z; Vi 9%Z; Vi 5%Z] in
  let y := mk_inst 0 attrs [Vi 2%Z; Vi 0%Z; Vi 0%Z] in
  map (fun op => Model.gen_order cval (c_py_eq []) (c_py_cmp []) c_py_is c_keyf op attrs x (OInst y))
      [Lt; Le; Gt; Ge] = [RV PFalse; RV PFalse; RV PTrue; RV PTrue].
Proof. vm_compute. reflexivity. Qed.

(** NaN: the identity shortcut of tuple comparison makes [x <= x] true although
    [nan <= nan] is false *)
Example order_nan_identity :
  let attrs := [F 0 true None true None] in
  let x := mk_inst 0 attrs [Vn 1] in
  let y := mk_inst 0 attrs [Vn 2] in
  (Model.gen_order cval (c_py_eq []) (c_py_cmp []) c_py_is c_keyf Le attrs x (OInst x),
   Model.gen_order cval (c_py_eq []) (c_py_cmp []) c_py_is c_keyf Le attrs x (OInst y))
  = (RV PTrue, RV PFalse).
Proof. vm_compute. reflexivity. Qed.

Example decision_nonvacuous :
  decide_class (CA AttrS None None None None false false) = Ok (true, true) /\
  decide_class (CA Define None None None None false false) = Ok (true, false) /\
  decide_class (CA Define None (Some TF) (Some TT) None false false) = VErr.
Proof. repeat split. Qed.

(** Without the total-order hypothesis the consistency laws fail of the faithful model
    (and of Python): for two instances holding distinct NaN objects neither [x < y]
    nor [x >= y] holds. *)
Example ge_iff_not_lt_refuted_without_total_order :
  exists attrs (x y : inst cval),
    i_cls y = i_cls x /\
    Model.gen_order cval (c_py_eq []) (c_py_cmp []) c_py_is c_keyf Lt attrs x (OInst y) = RV PFalse /\
    Model.gen_order cval (c_py_eq []) (c_py_cmp []) c_py_is c_keyf Ge attrs x (OInst y) = RV PFalse.
Proof.
  exists [F 0 true None true None], (mk_inst 0 [F 0 true None true None] [Vn 1]),
         (mk_inst 0 [F 0 true None true None] [Vn 2]).
  vm_compute. repeat split.
Qed.
