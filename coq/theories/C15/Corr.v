(** * C15 — correspondence: compact case constructors and the check evaluated by
    [coqc] on every class statement the harness executed against the real library. *)
From Coq Require Import List Bool String Ascii.
Import ListNotations.
From Attrs Require Import Base Core.Attr Core.Init C07.Model C15.Model C15.Table.
Open Scope string_scope.

(** A base class's [Attribute] as the harness read it off [__attrs_attrs__]
    (only what the rules read; the rest is filled with the [attr.ib()] defaults). *)
Definition A (n : string) (d : default_kind) (i k inh : bool) (os : on_setattr)
             (al : option string) (v c : bool) : attribute :=
  {| a_name := n; a_default := d; a_validator := if v then Some "v" else None;
     a_repr := true; a_eq := true; a_eq_key := None; a_order := true; a_order_key := None;
     a_hash := None; a_init := i; a_type := None;
     a_converter := if c then Core.Attr.CPlain "c" false else CNone;
     a_kw_only := k; a_inherited := inh; a_on_setattr := os; a_alias := al |}.

(** What the real class statement did. *)
Inductive obs :=
| ODefined
| ORejected (p : phase) (e : exc)
| OOther.                          (* an exception class outside [exc] *)

Definition phase_eqb (a b : phase) : bool :=
  match a, b with PExpr, PExpr | PBody, PBody | PDeco, PDeco => true | _, _ => false end.

Definition obs_matches (v : verdict) (o : obs) : bool :=
  match v, o with
  | Defined, ODefined => true
  | Rejected p e, ORejected p' e' => phase_eqb p p' && exc_eqb e e'
  | _, _ => false
  end.

Record case := K {
  k_prop : bool;                   (* property-mode case (see [check_case]) *)
  k_spec : spec;
  k_seen : obs;
  k_untouched : option bool        (* the class object given to the decorator: [vars(cls)] (names and
                                      identities), [__bases__] identical before / after the decorator
                                      call.  [None]: no snapshot exists (no class yet, make_class) *)
}.

Definition is_nil {A : Type} (l : list A) : bool := match l with [] => true | _ => false end.

(** The model's answer, for replay files. *)
Definition model_of (c : case) :=
  (build (k_spec c), is_nil (mutation_events (k_spec c)), applicable (k_spec c)).

(** Model mode: the real statement did what the model says, and when the decorator
    raised, the class object was written to exactly if the model says so (never).
    The property is silent about the given class after a successful decoration
    ([defined_class_patched_iff_dict] is a theorem about the model only). *)
Definition model_ok (c : case) : bool :=
  obs_matches (build (k_spec c)) (k_seen c) &&
  match k_seen c, k_untouched c with
  | ORejected PDeco _, Some u => Bool.eqb u (is_nil (mutation_events (k_spec c)))
  | _, _ => true
  end.

(** Property mode: the observation alone against the property's own list. *)
Definition post_ok (c : case) : bool :=
  match k_seen c with
  | OOther => false
  | ODefined => prop_ok (k_spec c) Defined
  | ORejected p e =>
      prop_ok (k_spec c) (Rejected p e) &&
      match p, k_untouched c with PDeco, Some u => u | _, _ => true end
  end.

(** A model-mode case demands agreement with the model and the property's
    postcondition.  In the area of a row outside the property's list ([flagged]) the
    postcondition is not demanded of a model-conforming observation (the harness emits a
    separate property-mode case there, whose signature the known-findings matcher can
    see), and an observation that satisfies the postcondition is accepted even where
    it departs from the model: an implementation that stops rejecting such a
    specification conforms to the property. *)
Definition check_case (c : case) : bool :=
  if k_prop c then post_ok c
  else (model_ok c && (flagged (k_spec c) || post_ok c))
       || (flagged (k_spec c) && post_ok c).

Lemma check_case_model_sound c :
  k_prop c = false -> flagged (k_spec c) = false -> check_case c = true ->
  obs_matches (build (k_spec c)) (k_seen c) = true /\ post_ok c = true.
Proof.
  intros Hm Hf H. unfold check_case in H. rewrite Hm, Hf in H. cbn in H.
  rewrite orb_false_r in H. apply andb_true_iff in H as [H1 H2]. split; [|exact H2].
  unfold model_ok in H1. apply andb_true_iff in H1 as [H1 _]. exact H1.
Qed.
