(** * C15 — tie by translation: the definition-time checks regenerated from the CURRENT
    source text of [attr/_make.py] ([Gen/C15_checks.v] by harness/translate_c15.py,
    [Gen/Decide.v] by harness/translate.py, both rewritten on every run) raise exactly
    when, and exactly what, the check functions of [C15/Model.v] say — for ALL inputs.
    A source change that alters one of these checks makes a lemma below fail to
    compile: a proof-obligation failure of the C15 check. *)
From Coq Require Import List Bool String Ascii.
Import ListNotations.
From Attrs Require Import Base Core.Attr Core.Init C07.Model C15.Model C15.Table C15.Proofs.
From Attrs Require Import Gen.Decide Gen.C15_checks.
Open Scope string_scope.

(** ** Injections of the model's inputs into Python values *)

(** [callable(v)]: of the objects the model distinguishes only key functions and
    the callable factory are callable ([None]/[True]/[False] are not). *)
Definition is_callable_std (v : pyv) : bool := match v with PVOther 0 => true | _ => false end.

Definition inj_s (x : setting) : pyv :=
  match x with sN => PVNone | sT => PVTrue | sF => PVFalse | sK => PVOther 0 end.
Definition inj_h (h : harg) : pyv :=
  match h with HN => PVNone | HT => PVTrue | HF => PVFalse | HX => PVOther 7 end.
Definition inj_t (t : tri) : pyv := match t with tN => PVNone | tT => PVTrue | tF => PVFalse end.
Definition injb (b : bool) : pyv := if b then PVTrue else PVFalse.
Definition inj_dk (d : default_kind) : pyv := match d with DNothing => PV_NOTHING | _ => PVOther 5 end.
Definition inj_fa (f : fact) : pyv :=
  match f with FaNone => PVNone | FaCallable => PVOther 0 | FaBad => PVOther 6 end.
(** an optional object: [None] or something *)
Definition inj_some (b : bool) : pyv := if b then PVOther 8 else PVNone.
Definition inj_os (o : on_setattr) : pyv :=
  match o with OsNone => PVNone | OsNoOp => PV_NO_OP | OsPipe _ => PVOther 9 end.
Definition inj_cos (o : cls_on_setattr) : pyv :=
  match o with COsNone => PVNone | COsNoOp => PV_NO_OP | _ => PVOther 9 end.
Definition inj_attr (a : attribute) : tattr :=
  TA (injb (a_init a)) (injb (a_kw_only a)) (inj_dk (a_default a)) (inj_os (a_on_setattr a)) PVNone.

Definition exc_name (e : exc) : string :=
  match e with
  | XValue => "ValueError" | XType => "TypeError"
  | XUnannotated => "UnannotatedAttributeError" | XDefaultSet => "DefaultAlreadySetError"
  | XSyntax => "SyntaxError"
  end.

(** how a translated call ended *)
Definition raised (r : pres) : option string := match r with PRaise n => Some n | _ => None end.

(** ** Field calls *)

(** [_determine_attrib_eq_order(cmp, eq, order, True)] = [attrib_eq_order] *)
Lemma tie_attrib_eq_order : forall c e o,
  raised (determine_attrib_eq_order is_callable_std (inj_s c) (inj_s e) (inj_s o) PVTrue) =
  option_map exc_name (attrib_eq_order c e o).
Proof. intros [] [] []; reflexivity. Qed.

(** ... and what it returns: the resolved flags, key functions counting as [True] *)
Lemma tie_attrib_eq_order_values : forall c e o,
  attrib_eq_order c e o = None ->
  exists ek ok,
    determine_attrib_eq_order is_callable_std (inj_s c) (inj_s e) (inj_s o) PVTrue =
    PRet [injb (match c with sN => truth e true | _ => truth c true end); ek;
          injb (match c with sN => match o with sN => truth e true | _ => truth o true end
                           | _ => truth c true end); ok].
Proof. intros [] [] [] H; try discriminate H; eexists; eexists; reflexivity. Qed.

(** [attrib(...)] up to its last raise = [attrib_check] *)
Lemma tie_attrib : forall f,
  raised (attrib_checks is_callable_std (inj_dk (f_default f)) (inj_s (f_cmp f)) (inj_h (f_hash f))
                        (inj_fa (f_factory f)) (inj_s (f_eq f)) (inj_s (f_order f))) =
  option_map exc_name (attrib_check f).
Proof.
  intros f. unfold attrib_check.
  destruct (f_cmp f), (f_eq f), (f_order f), (f_hash f), (f_factory f), (f_default f); reflexivity.
Qed.

(** [attrib(<default>)] with every other argument at its signature default never raises
    (the translator relies on this when it skips the annotation loop of [_transform_attrs],
    which calls [attrib(a)] for plain annotated attributes) *)
Lemma tie_attrib_default_only : forall d,
  raised (attrib_checks is_callable_std d PVNone PVNone PVNone PVNone PVNone) = None.
Proof. intros d. reflexivity. Qed.

(** [_CountingAttr.default] = [second_default_check] *)
Lemma tie_second_default : forall f, f_second f = true ->
  raised (counting_attr_default (inj_dk (default_after_attrib f))) =
  option_map exc_name (second_default_check f).
Proof.
  intros f H. unfold second_default_check. rewrite H. cbn [andb].
  destruct (default_after_attrib f); reflexivity.
Qed.

(** ** [_transform_attrs] *)

(** [Attribute.from_counting_attr]: the annotation / [type=] conflict of [chk_type_conflict] *)
Lemma tie_from_counting_attr : forall f,
  raised (from_counting_attr (inj_some (f_type f)) (inj_some (f_annot f))) =
  if f_annot f && f_type f then Some (exc_name XValue) else None.
Proof. intros f. destruct (f_annot f), (f_type f); reflexivity. Qed.

(** the annotations handed to it are the class's own, whatever the arguments *)
Lemma tie_annotations_source : forall c these auto kw, annotations_source c these auto kw = c.
Proof. reflexivity. Qed.

(** Proof scripts in this file do not rely on the syntactic shape the translator happened
    to emit: they enumerate the (finite) inputs, let the generated term compute, and meet
    the hoisted loops only through the two loop lemmas below, which are themselves proved
    by induction + enumeration whatever the loop body looks like. *)

Lemma raised_bind_noraise r k : (forall vs, raised (k vs) = None) -> raised (bind_ret r k) = raised r.
Proof. intros H. destruct r; cbn; auto. Qed.

Ltac split_ifs :=
  repeat first [ progress cbn | match goal with |- context [if ?c then _ else _] => destruct c end ].

(** the mandatory-after-default loop = [C07.Model.order_ok_from], lists of any length:
    it raises [ValueError] exactly when [order_ok_from] fails and otherwise ends normally *)
Lemma order_loop_spec : forall l h,
  exists h', transform_attrs_loop1 is_callable_std (map inj_attr l) (injb h) =
             if order_ok_from h l then PRet [injb h'] else PRaise (exc_name XValue).
Proof.
  induction l as [|a r IH]; intros h; [exists h; reflexivity|].
  cbn [map transform_attrs_loop1 order_ok_from]. unfold positional, has_default.
  remember (map inj_attr r) as R eqn:HR. unfold inj_attr.
  cbn [t_init t_kw_only t_default t_on_setattr t_setattr]. subst R.
  destruct (a_init a), (a_kw_only a), h, (a_default a); cbn;
    first [ exact (IH true) | exact (IH false) | exists true; reflexivity ].
Qed.

Lemma tie_order_loop : forall l h,
  raised (transform_attrs_loop1 is_callable_std (map inj_attr l) (injb h)) =
  if order_ok_from h l then None else Some (exc_name XValue).
Proof.
  intros l h. destruct (order_loop_spec l h) as [h' R]. rewrite R.
  destruct (order_ok_from h l); reflexivity.
Qed.

(** the function as a whole: [these] skips the annotation test, [auto_attribs is True]
    raises for unannotated [attr.ib]s, then the order loop — [chk_unannotated] followed by
    [chk_order]'s test.  ([unannotated]: the set is read for its truthiness only; an empty
    set is represented by a falsy value.) *)
Lemma tie_transform_attrs : forall (un th : bool) (auto : tri) (kw : bool) l,
  raised (transform_attrs_checks is_callable_std (injb un) (inj_some th) (inj_t auto) (injb kw) (map inj_attr l)) =
  first_some [ if negb th && is_tT auto && un then Some (exc_name XUnannotated) else None;
               if order_ok l then None else Some (exc_name XValue) ].
Proof.
  intros un th auto kw l. unfold transform_attrs_checks, order_ok.
  destruct (order_loop_spec l false) as [h' R]. cbn [injb] in R.
  destruct un, th, auto, kw; cbn; rewrite ?R;
    destruct (order_ok_from false l); cbn; split_ifs; reflexivity.
Qed.

(** ** [_make_init_script] = [Core.Init.make_init_script]'s [GenValueError] *)

(** the per-field loop, for ANY values of the outer names it reads: it raises exactly
    when the class is frozen ([frozen is True]) and some field has an [on_setattr] *)
Lemma init_loop_spec : forall l (fz hc n : pyv),
  exists n', make_init_script_loop1 is_callable_std fz hc (map inj_attr l) n =
             if pyv_is fz PVTrue && existsb (fun a => negb (os_is_none (a_on_setattr a))) l
             then PRaise (exc_name XValue) else PRet [n'].
Proof.
  induction l as [|a r IH]; intros fz hc n.
  - exists n. cbn. rewrite andb_false_r. reflexivity.
  - cbn [map make_init_script_loop1 existsb]. remember (map inj_attr r) as R eqn:HR.
    unfold inj_attr. cbn [t_init t_kw_only t_default t_on_setattr t_setattr]. subst R.
    destruct (a_on_setattr a), fz, (a_init a), (a_default a), hc; cbn;
      first [ exact (IH _ _ _) | exists n; reflexivity ].
Qed.

Lemma tie_init_loop : forall l (frozen hc : bool) n,
  raised (make_init_script_loop1 is_callable_std (injb frozen) (injb hc) (map inj_attr l) n) =
  if frozen && existsb (fun a => negb (os_is_none (a_on_setattr a))) l then Some (exc_name XValue) else None.
Proof.
  intros l frozen hc n. destruct (init_loop_spec l (injb frozen) (injb hc) n) as [n' R]. rewrite R.
  destruct frozen; cbn; split_ifs; reflexivity.
Qed.

Lemma tie_make_init_script_checks : forall (frozen cache : bool) cos l,
  raised (make_init_script_checks is_callable_std (injb frozen) (injb cache) (inj_cos cos) (map inj_attr l)) =
  if (frozen && has_cls_on_setattr cos)
     || (frozen && existsb (fun a => negb (os_is_none (a_on_setattr a))) l)
  then Some (exc_name XValue) else None.
Proof.
  intros frozen cache cos l. unfold make_init_script_checks.
  destruct cos, frozen, cache; cbn;
    repeat match goal with
    | |- context [make_init_script_loop1 ?c ?fz ?hc (map inj_attr l) ?n] =>
        let n' := fresh "n'" in let R := fresh "R" in
        destruct (init_loop_spec l fz hc n) as [n' R]; rewrite R; clear R; cbn
    end;
    split_ifs; reflexivity.
Qed.

(** ... which is the model's [chk_init_script] (through [Core.Init.make_init_script]) *)
Theorem tie_make_init_script : forall s a,
  raised (make_init_script_checks is_callable_std (injb (is_frozen (s_o s))) (injb (o_cache (s_o s)))
            (inj_cos (effective_cls_on_setattr (kspec s a))) (map inj_attr (fields s a))) =
  option_map exc_name (chk_init_script s a).
Proof.
  intros s a. rewrite tie_make_init_script_checks. unfold chk_init_script, make_init_script.
  cbn [kspec k_frozen k_attrs].
  destruct (is_frozen (s_o s) && has_cls_on_setattr (effective_cls_on_setattr (kspec s a))); [reflexivity|].
  destruct (is_frozen (s_o s) && existsb (fun x => negb (os_is_none (a_on_setattr x))) (fields s a)); reflexivity.
Qed.

(** ** [attrs()] and its [wrap] *)

(** [_determine_attrs_eq_order] (Gen/Decide.v) = [attrs_eq_order] *)
Lemma tie_attrs_eq_order : forall cmp eq order dflt,
  Gen.Decide.determine_attrs_eq_order (inj_t cmp) (inj_t eq) (inj_t order) (inj_t dflt) =
  match attrs_eq_order cmp eq order dflt with
  | None => PRaise "ValueError"
  | Some (e, o) => PRet [inj_t e; inj_t o]
  end.
Proof. intros [] [] [] []; reflexivity. Qed.

(** [_determine_whether_to_implement] (Gen/Decide.v) = [det_impl] *)
Lemma tie_det_impl : forall flag ad default (has_own : string -> bool) dunders,
  Gen.Decide.determine_whether_to_implement has_own (inj_t flag) (injb ad) (injb default) dunders =
  PRet [injb (det_impl flag ad (existsb has_own dunders) default)].
Proof. intros [] [] [] has_own dunders; cbn; destruct (existsb has_own dunders); reflexivity. Qed.

(** [if unsafe_hash is not None: hash = unsafe_hash] = [eff_hash] *)
Lemma tie_effective_hash : forall o,
  effective_hash (inj_h (o_hash o)) (inj_h (o_uhash o)) = PRet [inj_h (eff_hash o)].
Proof. intros o. unfold eff_hash. destruct (o_hash o), (o_uhash o); reflexivity. Qed.

(** the first statements of [wrap]: [is_frozen], [is_exc], [has_own_setattr] and the
    frozen + own [__setattr__] rejection = [chk_freeze_own].  [_has_frozen_base_class(cls)]
    looks [__setattr__] up on the class itself, so an own one hides the bases'. *)
Lemma tie_wrap_prefix : forall o,
  wrap_prefix (o_base_frozen o && negb (o_own_setattr o)) (o_base_exc o) (o_own_setattr o)
              (injb (frozen_arg o)) (injb (auto_exc o)) (injb (ad o)) =
  match chk_freeze_own o with
  | Some e => PRaise (exc_name e)
  | None => PRet [injb (is_frozen o); injb (is_exc o); injb (has_own_setattr o)]
  end.
Proof.
  intros o. unfold chk_freeze_own, is_frozen, is_exc, has_own_setattr.
  destruct (o_base_frozen o), (o_own_setattr o), (o_base_exc o), (frozen_arg o), (auto_exc o), (ad o);
    reflexivity.
Qed.

(** the hash block (Gen/Decide.v) = [chk_hash_nonbool] then [chk_cache_hash] *)
Lemma tie_hash_block : forall o (has_own : string -> bool),
  has_own "__hash__" = dict_has_hash o ->
  raised (Gen.Decide.hash_block has_own (inj_h (eff_hash o)) (injb (ad o)) (injb (eq_gen o))
            (injb (is_exc o)) (injb (is_frozen o)) (injb (o_cache o))) =
  option_map exc_name (first_some [chk_hash_nonbool o; chk_cache_hash o]).
Proof.
  intros o has_own H. unfold Gen.Decide.hash_block, chk_hash_nonbool, chk_cache_hash, hash_local.
  rewrite H.
  destruct (eff_hash o), (ad o), (dict_has_hash o), (eq_gen o), (is_exc o), (is_frozen o), (o_cache o);
    reflexivity.
Qed.

(** the init block: [cache_hash] without a generated [__init__] = [chk_cache_init] *)
Lemma tie_wrap_init_block : forall o,
  raised (wrap_init_block (init_gen o) (injb (o_cache o))) = option_map exc_name (chk_cache_init o).
Proof. intros o. unfold chk_cache_init. destruct (init_gen o), (o_cache o); reflexivity. Qed.

(** ** Where the class object is written to

    [Gen/C15_checks.v] carries an effect summary of the current source: the functions
    reachable from the steps of [attrs().wrap] that run BEFORE [builder.build_class()]
    (the builder's constructor, every [builder.add_*] step, the module functions they call;
    code of nested functions runs later and is not entered) that assign / delete an
    attribute of the class being built, and the number of [raise] statements of [wrap]
    at or after that call.  The model's [deco_plan] has the patch as its last step
    ([failed_build_no_mutation]); the source agrees: *)
Lemma tie_no_class_write_before_build_class :
  early_class_writers = [] /\ raises_at_or_after_build_class = 0 /\ wrap_ends_with_build_class = true.
Proof. repeat split; reflexivity. Qed.

(** ** [setters.pipe]: a hook collection of ANY length, the empty one included, becomes a
    function object — never the [NO_OP] sentinel, [None] or a falsy value.  This is what
    lets the model read every list / tuple / [pipe(...)] given as [on_setattr] as
    [OsPipe hs] / [COsPipe hs] (hooks were requested) also for [hs = []]. *)
Lemma tie_pipe_never_no_op : forall some_setters,
  exists v, setters_pipe some_setters = PRet [v] /\
            pyv_is v PV_NO_OP = false /\ pyv_is v PVNone = false /\ pyv_truthy v = true.
Proof. intros b. destruct b; eexists; repeat split; reflexivity. Qed.

(** so the injections used above are faithful on hook collections of any length *)
Lemma tie_pipe_injections : forall hs chs,
  pyv_is (inj_os (OsPipe hs)) PV_NO_OP = false /\ pyv_is (inj_os (OsPipe hs)) PVNone = false /\
  pyv_is (inj_cos (COsPipe chs)) PV_NO_OP = false /\ pyv_is (inj_cos (COsPipe chs)) PVNone = false.
Proof. intros; repeat split; reflexivity. Qed.


(** ** [define().wrap]: the on_setattr the builder is handed, and explicit hooks below a
    frozen base.  The scan runs over ALL of [cls.__bases__] ([existsb]); CPython's layout
    base [cls.__base__] is a separate input on which the result must not depend. *)

(** a base class, as far as the scan reads it: is its [__setattr__] [_frozen_setattrs]? *)
Definition inj_base (frozen_setattr : bool) : tattr :=
  TA PVNone PVNone PVNone PVNone (if frozen_setattr then PV_FROZEN_SETATTRS else PVOther 12).

(** class-level on_setattr with [_DEFAULT_ON_SETATTR] kept apart from other hook objects *)
Definition inj_cos2 (o : cls_on_setattr) : pyv :=
  match o with COsNone => PVNone | COsNoOp => PV_NO_OP | COsDefault => PV_DEFAULT_OS | _ => PVOther 9 end.

Definition had_os (o : cls_on_setattr) : bool := match o with COsNone | COsNoOp => false | _ => true end.

(** [builder_os] for define / frozen, as a function of the three things it reads *)
Definition define_os (fz base_frozen : bool) (os : cls_on_setattr) : cls_on_setattr :=
  if base_frozen then COsNoOp
  else if negb fz then match os with COsNone => COsDefault | x => x end else os.

Lemma model_define_os : forall o, is_def (o_api o) = true ->
  builder_os o = define_os (frozen_arg o) (o_base_frozen o) (o_os o) /\
  chk_define_pre o = if o_base_frozen o && had_os (o_os o) then Some XValue else None.
Proof.
  intros o H. unfold builder_os, chk_define_pre, define_os, had_on_setattr, had_os. rewrite H. cbn [andb].
  split; [destruct (o_base_frozen o), (negb (frozen_arg o)), (o_os o); reflexivity | reflexivity].
Qed.

Lemma define_loop_spec : forall bs had v,
  define_wrap_loop1 is_callable_std had (map inj_base bs) v =
  if existsb (fun b => b) bs
  then (if pyv_truthy had then PRaise (exc_name XValue) else PRet [PV_NO_OP])
  else PRet [v].
Proof.
  induction bs as [|b r IH]; intros had v; [reflexivity|].
  cbn [map define_wrap_loop1 existsb]. remember (map inj_base r) as R eqn:HR.
  unfold inj_base. cbn [t_setattr]. subst R.
  destruct b; cbn; [destruct (pyv_truthy had); reflexivity | exact (IH had v)].
Qed.

Lemma tie_define_prefix : forall (best : pyv) (fz : bool) os (bs : list bool),
  define_wrap_prefix is_callable_std best (injb fz) (inj_cos2 os) (map inj_base bs) =
  if existsb (fun b => b) bs && had_os os then PRaise (exc_name XValue)
  else PRet [inj_cos2 (define_os fz (existsb (fun b => b) bs) os)].
Proof.
  intros best fz os bs. unfold define_wrap_prefix, define_os.
  destruct os, fz; cbn;
    repeat match goal with
    | |- context [define_wrap_loop1 ?c ?h (map inj_base bs) ?v] => rewrite (define_loop_spec bs h v); cbn
    end;
    destruct (existsb (fun b => b) bs); cbn; split_ifs; reflexivity.
Qed.
