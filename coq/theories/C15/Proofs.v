(** * C15 — proofs: the staged checks of the code equal the table read row by row;
    the mandatory-after-default loop over field lists of any length; a failed class
    statement never writes to the class object. *)
From Coq Require Import List Bool String Ascii Arith Lia Permutation.
Import ListNotations.
From Attrs Require Import Base Core.Attr Core.Init C07.Model C15.Model C15.Table.
Open Scope string_scope.
Open Scope list_scope.

(** ** Generic list facts *)

Lemma first_some_map_rel {A B C : Type} (f : A -> option B) (h : A -> option C) (g : C -> B) l :
  (forall x, f x = option_map g (h x)) ->
  first_some (map f l) = option_map g (first_some (map h l)).
Proof.
  intros H. induction l as [|x r IH]; cbn; [reflexivity|].
  rewrite H. destruct (h x); cbn; [reflexivity | exact IH].
Qed.

Lemma find_none_all {A} (p : A -> bool) l : find p l = None <-> forall x, In x l -> p x = false.
Proof.
  induction l as [|y r IH]; cbn; [split; [intros _ x [] | reflexivity]|].
  destruct (p y) eqn:E; split; intros H.
  - discriminate.
  - rewrite (H y (or_introl eq_refl)) in E. discriminate.
  - intros x [<-|Hx]; [exact E | now apply IH].
  - apply IH. intros x Hx. apply H. now right.
Qed.

Lemma filter_nil_all {A} (p : A -> bool) l : filter p l = [] <-> forall x, In x l -> p x = false.
Proof.
  induction l as [|y r IH]; cbn; [split; [intros _ x [] | reflexivity]|].
  destruct (p y) eqn:E; split; intros H.
  - discriminate.
  - rewrite (H y (or_introl eq_refl)) in E. discriminate.
  - intros x [<-|Hx]; [exact E | now apply IH].
  - apply IH. intros x Hx. apply H. now right.
Qed.

Lemma existsb_false_all {A} (p : A -> bool) l : existsb p l = false <-> forall x, In x l -> p x = false.
Proof.
  induction l as [|y r IH]; cbn; [split; [intros _ x [] | reflexivity]|].
  rewrite orb_false_iff, IH. split.
  - intros [H1 H2] x [<-|Hx]; auto.
  - intros H. split; [apply H; now left | intros x Hx; apply H; now right].
Qed.

Lemma existsb_ext' {A} (p q : A -> bool) l : (forall x, p x = q x) -> existsb p l = existsb q l.
Proof. intros H. induction l as [|y r IH]; cbn; [reflexivity | now rewrite H, IH]. Qed.

(** ** The mandatory-after-default rule over lists of any length *)

Lemma order_ok_from_spec : forall l h,
  order_ok_from h l = negb ((h && existsb pos_mandatory l) || bad_order l).
Proof.
  induction l as [|a r IH]; intros h; cbn [order_ok_from existsb bad_order].
  - now rewrite andb_false_r.
  - unfold pos_mandatory at 1, pos_default.
    destruct (positional a), h, (has_default a); cbn; rewrite ?IH; cbn;
      destruct (existsb pos_mandatory r), (bad_order r); reflexivity.
Qed.

Lemma order_ok_bad l : order_ok l = negb (bad_order l).
Proof. unfold order_ok. rewrite order_ok_from_spec. reflexivity. Qed.

Lemma bad_order_app l1 : forall l2,
  bad_order (l1 ++ l2) =
  bad_order l1 || bad_order l2 || (existsb pos_default l1 && existsb pos_mandatory l2).
Proof.
  induction l1 as [|a r IH]; intros l2; cbn [app bad_order existsb].
  - cbn. now rewrite orb_false_r.
  - rewrite IH, existsb_app.
    destruct (pos_default a), (existsb pos_mandatory r), (existsb pos_mandatory l2),
             (bad_order r), (bad_order l2), (existsb pos_default r); reflexivity.
Qed.

Lemma existsb_nth {A} (p : A -> bool) l :
  existsb p l = true <-> exists j x, nth_error l j = Some x /\ p x = true.
Proof.
  rewrite existsb_exists. split.
  - intros (x & Hin & Hp). apply In_nth_error in Hin as [j Hj]. eauto.
  - intros (j & x & Hj & Hp). exists x. split; [eapply nth_error_In; eauto | exact Hp].
Qed.

Lemma bad_order_pair l :
  bad_order l = true <->
  exists i j a b, i < j /\ nth_error l i = Some a /\ nth_error l j = Some b /\
                  pos_default a = true /\ pos_mandatory b = true.
Proof.
  induction l as [|x r IH]; cbn [bad_order].
  - split; [discriminate|]. intros (i & j & a & b0 & _ & Hi & _). destruct i; discriminate.
  - rewrite orb_true_iff, andb_true_iff, existsb_nth, IH. split.
    + intros [[Hx (j & y & Hj & Hy)] | (i & j & a & b0 & Hij & Hi & Hj & Ha & Hb)].
      * exists 0, (S j), x, y. repeat split; auto. lia.
      * exists (S i), (S j), a, b0. repeat split; auto. lia.
    + intros (i & j & a & b0 & Hij & Hi & Hj & Ha & Hb).
      destruct j as [|j]; [lia|]. cbn in Hj. destruct i as [|i]; cbn in Hi.
      * inversion Hi; subst. left. split; [exact Ha | eauto].
      * right. exists i, j, a, b0. repeat split; auto. lia.
Qed.

(** ** Field calls: [attrib] + [@x.default] against the rows *)

Lemma creation_check_row f : creation_check f = option_map rule_exc (field_row f).
Proof.
  unfold creation_check, field_row. destruct (f_plain f); [reflexivity|].
  unfold field_rules, find, fapplies, attrib_check, second_default_check, attrib_eq_order,
    default_after_attrib, given_s, first_some.
  destruct (f_cmp f), (f_eq f), (f_order f); cbn;
    destruct (f_hash f); cbn; try reflexivity;
    destruct (f_factory f), (f_default f), (f_second f); reflexivity.
Qed.

Lemma body_check_row fs : body_check fs = option_map rule_exc (body_row fs).
Proof. unfold body_check, body_row. apply first_some_map_rel. exact creation_check_row. Qed.

(** ** Class checks against the rows, one by one *)

Definition row (c : bool) (r : rule) : option exc := if c then Some (rule_exc r) else None.

Lemma chk_define_pre_row a s :
  chk_define_pre (s_o s) = row (capplies_at a CR_define_frozen_base_hooks s) CR_define_frozen_base_hooks.
Proof. reflexivity. Qed.

Lemma chk_eq_order_rows a s :
  chk_eq_order (s_o s) =
  first_some [row (capplies_at a CR_cmp_mix s) CR_cmp_mix; row (capplies_at a CR_order_no_eq s) CR_order_no_eq].
Proof.
  unfold chk_eq_order, eq_order, attrs_eq_order, capplies_at, row, default_eq. cbn [first_some].
  destruct (is_mk (o_api (s_o s))), (cmp_arg (s_o s)), (o_eq (s_o s)), (order_arg (s_o s)); reflexivity.
Qed.

Lemma chk_freeze_own_row a s :
  chk_freeze_own (s_o s) = row (capplies_at a CR_freeze_own_setattr s) CR_freeze_own_setattr.
Proof.
  unfold chk_freeze_own, has_own_setattr, is_frozen, capplies_at, row.
  destruct (ad (s_o s)), (o_own_setattr (s_o s)), (frozen_arg (s_o s)), (o_base_frozen (s_o s)); reflexivity.
Qed.

Lemma chk_unannotated_row s :
  chk_unannotated (s_o s) (eff_auto s) (s_fields s) =
  row (capplies_at (eff_auto s) CR_unannotated s) CR_unannotated.
Proof.
  unfold chk_unannotated, capplies_at, row, eff_auto.
  destruct (auto_of (s_o s)), (these (s_o s)), (unannotated (s_fields s)); reflexivity.
Qed.

Lemma chk_type_conflict_row a s :
  chk_type_conflict (s_o s) a (s_fields s) = row (capplies_at a CR_annot_and_type s) CR_annot_and_type.
Proof. reflexivity. Qed.

Lemma transformed_spec s a :
  transformed s a = if order_ok (given s a) then Ok (fields s a) else Err EValue.
Proof. reflexivity. Qed.

Lemma chk_order_row a s :
  chk_order s a = row (capplies_at a CR_mandatory_after_default s) CR_mandatory_after_default.
Proof.
  unfold chk_order. rewrite transformed_spec, order_ok_bad. unfold capplies_at, row.
  destruct (bad_order (given s a)); reflexivity.
Qed.

Lemma chk_str_row a s :
  chk_str (s_o s) = row (capplies_at a CR_str_without_repr s) CR_str_without_repr.
Proof. reflexivity. Qed.

Lemma cls_hooks_live_spec s a :
  has_cls_on_setattr (effective_cls_on_setattr (kspec s a)) = cls_hooks_live s a.
Proof.
  unfold effective_cls_on_setattr, cls_hooks_live. cbn [kspec k_frozen k_on_setattr k_attrs].
  destruct (is_frozen (s_o s)); destruct (builder_os (s_o s)) as [| | |h|hs]; try reflexivity;
    try destruct h; cbn; try reflexivity;
    destruct (any_validator (fields s a)), (any_converter (fields s a)); reflexivity.
Qed.

Lemma in_sa_attrs_hooked s a x :
  in_sa_attrs (effective_cls_on_setattr (kspec s a)) x = hooked s a x.
Proof.
  unfold in_sa_attrs, hooked. destruct (a_on_setattr x); try reflexivity. apply cls_hooks_live_spec.
Qed.

Lemma chk_hooks_own_row a s :
  chk_hooks_own s a = row (capplies_at a CR_hooks_own_setattr s) CR_hooks_own_setattr.
Proof.
  unfold chk_hooks_own, sa_nonempty, has_own_setattr, capplies_at, row.
  rewrite (existsb_ext' _ (hooked s a) _ (in_sa_attrs_hooked s a)).
  destruct (frozen_arg (s_o s)), (existsb (hooked s a) (fields s a)), (ad (s_o s)), (o_own_setattr (s_o s));
    reflexivity.
Qed.

Lemma chk_hash_nonbool_row a s :
  chk_hash_nonbool (s_o s) = row (capplies_at a CR_hash_nonbool s) CR_hash_nonbool.
Proof.
  unfold chk_hash_nonbool, hash_local, capplies_at, row.
  destruct (eff_hash (s_o s)); try reflexivity.
  destruct (ad (s_o s) && dict_has_hash (s_o s)); reflexivity.
Qed.

Lemma chk_cache_hash_row a s :
  chk_cache_hash (s_o s) = row (capplies_at a CR_cache_no_hash s) CR_cache_no_hash.
Proof.
  unfold chk_cache_hash, capplies_at, row, hash_generated.
  destruct (hash_local (s_o s)), (eq_gen (s_o s)), (is_exc (s_o s)), (is_frozen (s_o s)), (o_cache (s_o s));
    reflexivity.
Qed.

Lemma existsb_on_setattr_split l :
  existsb (fun x => negb (os_is_none (a_on_setattr x))) l =
  existsb (fun x => os_is_pipe (a_on_setattr x)) l || existsb (fun x => os_is_noop (a_on_setattr x)) l.
Proof.
  induction l as [|x r IH]; cbn; [reflexivity|]. rewrite IH.
  destruct (a_on_setattr x); cbn;
    destruct (existsb (fun x => os_is_pipe (a_on_setattr x)) r),
             (existsb (fun x => os_is_noop (a_on_setattr x)) r); reflexivity.
Qed.

Lemma chk_init_script_rows a s :
  chk_init_script s a =
  first_some [row (capplies_at a CR_hooks_frozen s) CR_hooks_frozen;
              row (capplies_at a CR_noop_frozen s) CR_noop_frozen].
Proof.
  unfold chk_init_script, make_init_script.
  rewrite cls_hooks_live_spec. cbn [kspec k_frozen k_attrs].
  rewrite existsb_on_setattr_split. unfold capplies_at, row. cbn [first_some].
  destruct (is_frozen (s_o s)), (cls_hooks_live s a),
           (existsb (fun x => os_is_pipe (a_on_setattr x)) (fields s a)),
           (existsb (fun x => os_is_noop (a_on_setattr x)) (fields s a)); reflexivity.
Qed.

Lemma chk_cache_init_row a s :
  chk_cache_init (s_o s) = row (capplies_at a CR_cache_no_init s) CR_cache_no_init.
Proof.
  unfold chk_cache_init, capplies_at, row. destruct (init_gen (s_o s)), (o_cache (s_o s)); reflexivity.
Qed.

(** Clashing initializer argument names: the code tests the concatenated positional and keyword-only
    parameter lists, the row speaks of the aliases of all init fields. *)
Lemma nodupb_has_dup l : nodupb l = negb (has_dup l).
Proof.
  induction l as [|x r IH]; cbn; [reflexivity|]. rewrite IH. now destruct (mem_str x r), (has_dup r).
Qed.

Lemma has_dup_NoDup l : has_dup l = false <-> NoDup l.
Proof.
  induction l as [|x r IH]; cbn.
  - split; [constructor | reflexivity].
  - rewrite orb_false_iff, IH. split.
    + intros [H1 H2]. constructor; [|exact H2]. intros Hin. apply mem_str_In in Hin. congruence.
    + intros H. inversion H as [|? ? Hn Hr]; subst. split; [|exact Hr].
      destruct (mem_str x r) eqn:E; [|reflexivity]. apply mem_str_In in E. contradiction.
Qed.

Lemma init_split_perm l :
  Permutation (filter a_init l)
              (filter positional l ++ filter (fun a => a_init a && a_kw_only a) l).
Proof.
  induction l as [|a r IH]; cbn; [constructor|].
  unfold positional at 1. destruct (a_init a), (a_kw_only a); cbn.
  - apply Permutation_cons_app. exact IH.
  - constructor. exact IH.
  - exact IH.
  - exact IH.
Qed.

Lemma params_dup l :
  has_dup (init_positional l ++ init_kw_only l) = has_dup (map alias_of (filter a_init l)).
Proof.
  unfold init_positional, init_kw_only. rewrite <- map_app.
  assert (P : Permutation (map alias_of (filter a_init l))
                (map alias_of (filter positional l ++ filter (fun a => a_init a && a_kw_only a) l)))
    by (apply Permutation_map, init_split_perm).
  destruct (has_dup (map alias_of (filter a_init l))) eqn:E1,
           (has_dup (map alias_of (filter positional l ++ filter (fun a => a_init a && a_kw_only a) l))) eqn:E2;
    try reflexivity.
  - apply has_dup_NoDup in E2. apply (Permutation_NoDup (Permutation_sym P)) in E2.
    apply has_dup_NoDup in E2. congruence.
  - apply has_dup_NoDup in E1. apply (Permutation_NoDup P) in E1.
    apply has_dup_NoDup in E1. congruence.
Qed.

Lemma chk_syntax_row a s : chk_syntax s a = row (capplies_at a CR_dup_alias s) CR_dup_alias.
Proof.
  unfold chk_syntax, capplies_at, row. rewrite nodupb_has_dup, params_dup.
  destruct (has_dup (map alias_of (filter a_init (fields s a)))); reflexivity.
Qed.

(** ** Assembling: the cascade of checks is the first applicable row *)

Ltac step_row R :=
  match goal with
  | |- context [capplies_at ?a R ?s] => destruct (capplies_at a R s); [try reflexivity; try discriminate|]
  end.

Ltac all_rows :=
  step_row CR_define_frozen_base_hooks; try step_row CR_cmp_mix; try step_row CR_order_no_eq;
  step_row CR_freeze_own_setattr; try step_row CR_unannotated; step_row CR_annot_and_type;
  step_row CR_mandatory_after_default; step_row CR_str_without_repr; step_row CR_hooks_own_setattr;
  step_row CR_hash_nonbool; step_row CR_cache_no_hash; step_row CR_hooks_frozen;
  step_row CR_noop_frozen; step_row CR_cache_no_init; step_row CR_dup_alias.

Lemma deco_checks_rows s :
  first_some (deco_checks s (eff_auto s)) =
  option_map rule_exc (first_row (deco_rules (o_api (s_o s))) s).
Proof.
  unfold deco_checks, chk_eq_order_deco.
  rewrite (chk_define_pre_row (eff_auto s)), (chk_freeze_own_row (eff_auto s)), chk_unannotated_row,
    (chk_type_conflict_row (eff_auto s)), chk_order_row, (chk_str_row (eff_auto s)), chk_hooks_own_row,
    (chk_hash_nonbool_row (eff_auto s)), (chk_cache_hash_row (eff_auto s)), chk_init_script_rows,
    (chk_cache_init_row (eff_auto s)), chk_syntax_row.
  unfold first_row, capplies, deco_rules, expr_rules, row.
  destruct (o_api (s_o s)); try rewrite (chk_eq_order_rows (eff_auto s)); unfold row;
    cbn [find app first_some]; all_rows; reflexivity.
Qed.

Lemma expr_rows s :
  chk_eq_order_expr (s_o s) =
  option_map rule_exc (match o_api (s_o s) with AttrS => first_row expr_rules s | _ => None end).
Proof.
  unfold chk_eq_order_expr. destruct (o_api (s_o s)); try reflexivity.
  rewrite (chk_eq_order_rows (eff_auto s)). unfold first_row, capplies, expr_rules, row.
  cbn [find first_some]. step_row CR_cmp_mix. step_row CR_order_no_eq. reflexivity.
Qed.

(** Only the annotation test can raise [UnannotatedAttributeError]. *)
Lemma only_unannotated_is_unannotated s a :
  chk_unannotated (s_o s) a (s_fields s) = None ->
  first_some (deco_checks s a) <> Some XUnannotated.
Proof.
  intros Hu. unfold deco_checks, chk_eq_order_deco. rewrite Hu.
  rewrite (chk_define_pre_row a), (chk_freeze_own_row a),
    (chk_type_conflict_row a), chk_order_row, (chk_str_row a), chk_hooks_own_row,
    (chk_hash_nonbool_row a), (chk_cache_hash_row a), chk_init_script_rows,
    (chk_cache_init_row a), chk_syntax_row.
  destruct (o_api (s_o s)); try rewrite (chk_eq_order_rows a); unfold row;
    cbn [first_some]; all_rows; discriminate.
Qed.

(** [define]'s try/except is a function of the body: collect by annotations unless a
    [field()] lacks one. *)
Lemma decorate_eff s : decorate s = first_some (deco_checks s (eff_auto s)).
Proof.
  unfold decorate, eff_auto. destruct (auto_of (s_o s)); try reflexivity.
  destruct (negb (these (s_o s)) && unannotated (s_fields s)) eqn:U; cbn [negb].
  - apply andb_true_iff in U as [U1 U2].
    unfold deco_checks, chk_unannotated. rewrite U1, U2. cbn [andb first_some].
    unfold chk_define_pre.
    destruct (is_def (o_api (s_o s)) && o_base_frozen (s_o s) && had_on_setattr (s_o s)); [reflexivity|].
    unfold chk_eq_order_deco, chk_eq_order.
    destruct (o_api (s_o s)); try (destruct (eq_order (s_o s)); [|reflexivity]);
      unfold chk_freeze_own; destruct (has_own_setattr (s_o s) && is_frozen (s_o s)); reflexivity.
  - assert (Hn : chk_unannotated (s_o s) true (s_fields s) = None).
    { unfold chk_unannotated. rewrite andb_true_r, U. reflexivity. }
    pose proof (only_unannotated_is_unannotated s true Hn) as H.
    destruct (first_some (deco_checks s true)) as [[]|]; try reflexivity. congruence.
Qed.

Lemma build_table s : build s = table s.
Proof.
  unfold build, table. rewrite body_check_row, expr_rows, decorate_eff, deco_checks_rows. reflexivity.
Qed.

(** ** Which rows apply: both directions *)

Lemma first_some_map_none {A B} (f : A -> option B) l :
  first_some (map f l) = None <-> forall x, In x l -> f x = None.
Proof.
  induction l as [|y r IH]; cbn; [split; [intros _ x [] | reflexivity]|].
  destruct (f y) eqn:E; split; intros H.
  - discriminate.
  - rewrite (H y (or_introl eq_refl)) in E. discriminate.
  - intros x [<-|Hx]; [exact E | now apply IH].
  - apply IH. intros x Hx. apply H. now right.
Qed.

Lemma first_some_map_some {A B} (f : A -> option B) l y :
  first_some (map f l) = Some y -> exists x, In x l /\ f x = Some y.
Proof.
  induction l as [|x r IH]; cbn; [discriminate|].
  destruct (f x) eqn:E; intros H.
  - inversion H; subst. exists x. auto.
  - destruct (IH H) as (x' & Hin & Hx). exists x'. auto.
Qed.

Lemma body_row_none fs :
  body_row fs = None <->
  forall r, In r field_rules -> existsb (fapplies r) (field_objs fs) = false.
Proof.
  unfold body_row. rewrite first_some_map_none. unfold field_row, field_objs. split.
  - intros H r Hr. apply existsb_false_all. intros f Hf. apply filter_In in Hf as [Hf Hp].
    specialize (H f Hf). destruct (f_plain f); [discriminate|].
    eapply find_none_all in H; eauto.
  - intros H f Hf. destruct (f_plain f) eqn:P; [reflexivity|].
    apply find_none_all. intros r Hr. specialize (H r Hr).
    eapply existsb_false_all in H; eauto. apply filter_In. rewrite P. auto.
Qed.

Lemma body_row_some fs r :
  body_row fs = Some r ->
  In r field_rules /\ existsb (fapplies r) (field_objs fs) = true.
Proof.
  unfold body_row. intros H. apply first_some_map_some in H as (f & Hf & H).
  unfold field_row in H. destruct (f_plain f) eqn:P; [discriminate|].
  apply find_some in H as [Hr Ha]. split; [exact Hr|].
  apply existsb_exists. exists f. split; [|exact Ha].
  unfold field_objs. apply filter_In. rewrite P. auto.
Qed.

Lemma deco_rules_incl a : incl (deco_rules a) class_rules.
Proof.
  intros r H. destruct a; cbn in H |- *;
    repeat (destruct H as [<-|H]; [auto 20|]); destruct H.
Qed.

Lemma expr_rules_incl : incl expr_rules class_rules.
Proof. intros r H. cbn in H |- *. repeat (destruct H as [<-|H]; [auto 20|]). destruct H. Qed.

(** The class rows reached in two portions by [@attr.s(...)] are, together, all of them. *)
Lemma class_rows_none s :
  (match o_api (s_o s) with AttrS => first_row expr_rules s | _ => None end = None /\
   first_row (deco_rules (o_api (s_o s))) s = None) <->
  first_row class_rules s = None.
Proof.
  unfold first_row, class_rules, deco_rules, expr_rules.
  destruct (o_api (s_o s)); cbn [find app]; try (split; [intros [_ H]; exact H | intros H; split; [reflexivity | exact H]]).
  destruct (capplies CR_define_frozen_base_hooks s), (capplies CR_cmp_mix s), (capplies CR_order_no_eq s);
    split; try (intros [H1 H2]); try intros H; try discriminate; try split; auto.
Qed.

Lemma first_phase3_defined p1 c1 p2 c2 p3 c3 :
  first_phase [(p1, c1); (p2, c2); (p3, c3)] = Defined <-> c1 = None /\ c2 = None /\ c3 = None.
Proof.
  cbn. destruct c1, c2, c3; split; try discriminate; try tauto;
    intros (H1 & H2 & H3); discriminate.
Qed.

Lemma first_phase3_rejected p1 c1 p2 c2 p3 c3 p e :
  first_phase [(p1, c1); (p2, c2); (p3, c3)] = Rejected p e ->
  c1 = Some e \/ c2 = Some e \/ c3 = Some e.
Proof. cbn. destruct c1, c2, c3; intros H; inversion H; subst; auto. Qed.

Lemma option_map_none {A B} (f : A -> B) o : option_map f o = None <-> o = None.
Proof. destruct o; cbn; split; congruence. Qed.

Lemma table_defined s :
  table s = Defined <-> body_row (s_fields s) = None /\ first_row class_rules s = None.
Proof.
  unfold table. rewrite <- class_rows_none.
  destruct (these (s_o s)); rewrite first_phase3_defined, !option_map_none; tauto.
Qed.

Lemma applicable_nil s :
  applicable s = [] <-> body_row (s_fields s) = None /\ first_row class_rules s = None.
Proof.
  unfold applicable. rewrite body_row_none. unfold first_row. rewrite find_none_all. split.
  - intros H. apply app_eq_nil in H as [H1 H2]. split.
    + exact (proj1 (filter_nil_all _ _) H1).
    + exact (proj1 (filter_nil_all _ _) H2).
  - intros [H1 H2].
    rewrite (proj2 (filter_nil_all _ _) H1), (proj2 (filter_nil_all _ _) H2). reflexivity.
Qed.

Lemma defined_iff_no_row s : build s = Defined <-> applicable s = [].
Proof. rewrite build_table, table_defined, applicable_nil. tauto. Qed.

Lemma rejected_by_row s p e :
  build s = Rejected p e -> exists r, In r (applicable s) /\ rule_exc r = e.
Proof.
  rewrite build_table. unfold table, applicable. intros H.
  assert (Hc : option_map rule_exc (body_row (s_fields s)) = Some e \/
               option_map rule_exc (match o_api (s_o s) with AttrS => first_row expr_rules s | _ => None end) = Some e \/
               option_map rule_exc (first_row (deco_rules (o_api (s_o s))) s) = Some e).
  { destruct (these (s_o s)); apply first_phase3_rejected in H; tauto. }
  destruct Hc as [Hb | [He | Hd]].
  - destruct (body_row (s_fields s)) as [r|] eqn:E; [|discriminate]. cbn in Hb.
    apply body_row_some in E as [Hr Ha]. exists r. split; [|congruence].
    apply in_or_app. left. apply filter_In. auto.
  - destruct (o_api (s_o s)); try discriminate.
    destruct (first_row expr_rules s) as [r|] eqn:E; [|discriminate]. cbn in He.
    apply find_some in E as [Hr Ha]. exists r. split; [|congruence].
    apply in_or_app. right. apply filter_In. split; [apply expr_rules_incl; exact Hr | exact Ha].
  - destruct (first_row (deco_rules (o_api (s_o s))) s) as [r|] eqn:E; [|discriminate]. cbn in Hd.
    apply find_some in E as [Hr Ha]. exists r. split; [|congruence].
    apply in_or_app. right. apply filter_In. split; [eapply deco_rules_incl; exact Hr | exact Ha].
Qed.

Lemma exc_eqb_refl e : exc_eqb e e = true.
Proof. destruct e; reflexivity. Qed.

(** Outside the area of the four unlisted rows the property's postcondition holds of
    the model's verdict. *)
Lemma property_outside_findings s : flagged s = false -> prop_ok s (build s) = true.
Proof.
  intros Hf. destruct (build s) as [|p e] eqn:E; unfold prop_ok, doc_excs.
  - apply defined_iff_no_row in E. rewrite E. reflexivity.
  - apply rejected_by_row in E as (r & Hr & He). apply existsb_exists. exists e.
    split; [|apply exc_eqb_refl]. rewrite <- He. apply in_map. apply filter_In. split; [exact Hr|].
    unfold flagged in Hf. eapply existsb_false_all in Hf; eauto. now apply negb_false_iff in Hf.
Qed.

(** Conversely a verdict that violates the postcondition pins down an unlisted row. *)
Lemma violation_needs_unlisted_row s :
  prop_ok s (build s) = false -> exists r, In r (applicable s) /\ documented r = false.
Proof.
  intros H. destruct (flagged s) eqn:F.
  - unfold flagged in F. apply existsb_exists in F as (r & Hr & Hd). exists r. split; [exact Hr|].
    now apply negb_true_iff in Hd.
  - rewrite (property_outside_findings s F) in H. discriminate.
Qed.

(** ** The class object is written to by the patch step only *)

Definition checks_of (plan : list (option exc * list string)) : list (bstate -> step_res) :=
  map (fun cw => check_step (fst cw) (snd cw)) plan.

Lemma run_checks_stop plan rest : forall b e b',
  run_steps (checks_of plan ++ rest) b = Stop e b' ->
  (first_some (map fst plan) = Some e /\ b_events b' = b_events b) \/
  (first_some (map fst plan) = None /\
   exists b1, b_events b1 = b_events b /\ run_steps rest b1 = Stop e b').
Proof.
  induction plan as [|[c w] r IH]; intros b e b' H.
  - right. split; [reflexivity|]. exists b. auto.
  - cbn in H |- *. unfold check_step in H at 1. cbn [fst snd] in H. destruct c as [e0|].
    + inversion H; subst. left. auto.
    + apply IH in H. cbn [b_events] in H. exact H.
Qed.

Lemma run_checks_go plan rest : forall b b',
  run_steps (checks_of plan ++ rest) b = Go b' ->
  first_some (map fst plan) = None /\
  run_steps rest (B (b_pending b ++ List.concat (map snd plan)) (b_events b)) = Go b'.
Proof.
  induction plan as [|[c w] r IH]; intros b b' H.
  - cbn in H |- *. rewrite app_nil_r. destruct b. auto.
  - cbn in H |- *. unfold check_step in H at 1. cbn [fst snd] in H. destruct c as [e0|]; [discriminate|].
    apply IH in H as [H1 H2]. cbn [b_pending b_events] in H2. rewrite <- app_assoc in H2. auto.
Qed.

Lemma plan_checks s a : map fst (deco_plan s a) = 
  [ chk_define_pre (s_o s); chk_eq_order_deco (s_o s); chk_freeze_own (s_o s);
    chk_unannotated (s_o s) a (s_fields s); chk_type_conflict (s_o s) a (s_fields s);
    chk_order s a; None; chk_str (s_o s); None; chk_hooks_own s a;
    chk_hash_nonbool (s_o s); chk_cache_hash (s_o s);
    chk_init_script s a; chk_cache_init (s_o s); chk_syntax s a ].
Proof. reflexivity. Qed.

Lemma plan_first_some s a : first_some (map fst (deco_plan s a)) = first_some (deco_checks s a).
Proof.
  rewrite plan_checks. unfold deco_checks. cbn [first_some].
  repeat match goal with |- context [match ?c with Some x => Some x | None => _ end] =>
    destruct c; [reflexivity|] end.
  reflexivity.
Qed.

Lemma deco_steps_stop s a b e b' :
  run_steps (deco_steps s a) b = Stop e b' ->
  first_some (deco_checks s a) = Some e /\ b_events b' = b_events b.
Proof.
  unfold deco_steps. fold (checks_of (deco_plan s a)). intros H.
  apply run_checks_stop in H as [[H1 H2] | [_ (b1 & _ & H)]].
  - rewrite <- plan_first_some. auto.
  - cbn in H. discriminate.
Qed.

Definition patched_names (s : spec) (a : bool) (b : bstate) : list event :=
  map EvDel (on (negb (these (s_o s))) (names (own_attrs (s_o s) a (s_fields s))))
  ++ map EvSet (b_pending b ++ List.concat (map snd (deco_plan s a))).

Lemma deco_steps_go s a b b' :
  run_steps (deco_steps s a) b = Go b' ->
  first_some (deco_checks s a) = None /\
  b_events b' = if slots (s_o s) then b_events b else b_events b ++ patched_names s a b.
Proof.
  unfold deco_steps. fold (checks_of (deco_plan s a)). intros H.
  apply run_checks_go in H as [H1 H2]. rewrite <- plan_first_some. split; [exact H1|].
  cbn in H2. inversion H2; subst. cbn [b_events]. reflexivity.
Qed.

Lemma patched_names_nonempty s a b : patched_names s a b <> [].
Proof.
  unfold patched_names. intros H. apply app_eq_nil in H as [_ H].
  apply map_eq_nil in H. apply app_eq_nil in H as [_ H]. cbn in H. discriminate.
Qed.

(** The whole decorator application, including [define]'s second attempt. *)
Lemma decorate_run_stop s b e b' :
  decorate_run s b = Stop e b' -> decorate s = Some e /\ b_events b' = b_events b.
Proof.
  unfold decorate_run, decorate. destruct (auto_of (s_o s)).
  - apply deco_steps_stop.
  - apply deco_steps_stop.
  - destruct (run_steps (deco_steps s true) b) as [b1|e1 b1] eqn:R1; [discriminate|].
    apply deco_steps_stop in R1 as [R1 Ev1]. rewrite R1.
    destruct e1; intros H; try (inversion H; subst; auto; fail).
    apply deco_steps_stop in H as [H1 H2]. split; [exact H1 | congruence].
Qed.

Lemma decorate_run_go s b b' :
  decorate_run s b = Go b' ->
  decorate s = None /\
  (if slots (s_o s) then b_events b' = b_events b
   else exists l, l <> [] /\ b_events b' = b_events b ++ l).
Proof.
  assert (G : forall a b0 b1, run_steps (deco_steps s a) b0 = Go b1 ->
            first_some (deco_checks s a) = None /\
            (if slots (s_o s) then b_events b1 = b_events b0
             else exists l, l <> [] /\ b_events b1 = b_events b0 ++ l)).
  { intros a b0 b1 H. apply deco_steps_go in H as [H1 H2]. split; [exact H1|].
    destruct (slots (s_o s)); [exact H2|]. eexists. split; [|exact H2]. apply patched_names_nonempty. }
  unfold decorate_run, decorate. destruct (auto_of (s_o s)).
  - apply G.
  - apply G.
  - destruct (run_steps (deco_steps s true) b) as [b1|e1 b1] eqn:R1.
    + intros H. inversion H; subst. apply G in R1 as [R1 R2]. rewrite R1. auto.
    + apply deco_steps_stop in R1 as [R1 Ev1]. rewrite R1.
      destruct e1; try discriminate. intros H. apply G in H as [H1 H2]. split; [exact H1|].
      rewrite Ev1 in H2. exact H2.
Qed.

Lemma build_deco_rejected s e : build s = Rejected PDeco e -> decorate s = Some e.
Proof.
  unfold build. destruct (these (s_o s)); cbn;
    destruct (body_check (s_fields s)), (chk_eq_order_expr (s_o s)), (decorate s);
    intros H; inversion H; reflexivity.
Qed.

Lemma build_defined_deco s : build s = Defined -> decorate s = None.
Proof.
  unfold build. destruct (these (s_o s)); rewrite first_phase3_defined; tauto.
Qed.

Lemma failed_build_no_mutation_l s p e : build s = Rejected p e -> mutation_events s = [].
Proof.
  intros H. unfold mutation_events. rewrite H. destruct p; try reflexivity.
  apply build_deco_rejected in H.
  destruct (decorate_run s fresh) as [b|e' b] eqn:R.
  - apply decorate_run_go in R as [R _]. congruence.
  - apply decorate_run_stop in R as [_ R]. exact R.
Qed.

(** A successful definition patches a dict class and leaves the original of a
    slotted class alone (a new class is created). *)
Lemma defined_patches_iff_dict s :
  build s = Defined -> (mutation_events s = [] <-> slots (s_o s) = true).
Proof.
  intros H. unfold mutation_events. rewrite H. apply build_defined_deco in H.
  destruct (decorate_run s fresh) as [b|e' b] eqn:R.
  - apply decorate_run_go in R as [_ R]. destruct (slots (s_o s)).
    + cbn in R. tauto.
    + destruct R as (l & Hl & R). cbn in R. rewrite R. split; [intros; contradiction | discriminate].
  - apply decorate_run_stop in R as [R _]. congruence.
Qed.

(** Every prefix of the builder's steps before the patch leaves the class alone:
    the statement "all validation happens before the class is patched". *)
Lemma no_write_before_patch s a n b b' :
  run_steps (firstn n (checks_of (deco_plan s a))) b = Go b' -> b_events b' = b_events b.
Proof.
  revert b b'. generalize (deco_plan s a). intros plan. revert n.
  induction plan as [|[c w] r IH]; intros n b b' H.
  - destruct n; cbn in H; inversion H; reflexivity.
  - destruct n as [|n]; cbn in H; [inversion H; reflexivity|].
    unfold check_step in H at 1. cbn [fst snd] in H. destruct c; [discriminate|].
    apply IH in H. exact H.
Qed.

(** ** Witnesses: the unlisted rows are reachable (the full statement "the verdict
    always satisfies the property's postcondition" is false of the faithful model),
    and every listed row fires on some specification. *)

Definition opts (a : api) : copts :=
  CO a None None None None tN false false tN tN None HN HN false tN tN false COsNone None
     false false false false false false false false.

Definition fld (n : string) : fspec :=
  F n false DNothing FaNone false true false false false HN sN sN sN OsNone None false false.

Definition with_default (f : fspec) : fspec :=
  F (f_name f) false DValue FaNone false true false false false HN sN sN sN (f_os f) None false false.

Definition one_class (o : copts) (fs : list fspec) : spec := SP o fs [] [].

(** K8: [_x] and [x] *)
Definition k8_spec : spec := one_class (opts AttrS) [fld "_x"; fld "x"].

(** K10: [str=True, repr=False]; [factory=7] *)
Definition k10a_spec : spec :=
  one_class (CO AttrS None None None None tN false false tN tN None HN HN false tN tF true COsNone None
                false false false false false false false false) [fld "x"].
Definition k10b_spec : spec :=
  one_class (opts AttrS)
    [F "x" false DNothing FaBad false true false false false HN sN sN sN OsNone None false false].

(** K15.1: frozen class, field with [on_setattr=NO_OP] *)
Definition k151_spec : spec :=
  one_class (CO AttrS None (Some true) None None tN false false tN tN None HN HN false tN tN false COsNone None
                false false false false false false false false)
    [F "x" false DNothing FaNone false true false false false HN sN sN sN OsNoOp None false false].

Lemma property_refuted_l :
  build k8_spec = Rejected PDeco XSyntax /\ prop_ok k8_spec (build k8_spec) = false /\
  build k10a_spec = Rejected PDeco XValue /\ prop_ok k10a_spec (build k10a_spec) = false /\
  build k10b_spec = Rejected PBody XValue /\ prop_ok k10b_spec (build k10b_spec) = false /\
  build k151_spec = Rejected PDeco XValue /\ prop_ok k151_spec (build k151_spec) = false.
Proof. vm_compute. repeat split. Qed.

(** Non-vacuity of the mutation theorem: a rejected dict-class decoration whose
    builder had accumulated writes, and a successful one that patches. *)
Definition late_reject_spec : spec :=
  one_class (CO AttrS None None None None tN false false tN tN None HN HN true tN tN false COsNone None
                false false false false false false false false) [fld "x"].

Lemma late_reject_l :
  build late_reject_spec = Rejected PDeco XType /\
  (exists b, decorate_run late_reject_spec fresh = Stop XType b /\ b_pending b <> [] /\ b_events b = []) /\
  mutation_events late_reject_spec = [] /\
  mutation_events (one_class (opts AttrS) [fld "x"]) <> [].
Proof.
  split; [vm_compute; reflexivity|]. split.
  - eexists. split; [vm_compute; reflexivity|]. split; [discriminate | reflexivity].
  - split; [vm_compute; reflexivity | vm_compute; discriminate].
Qed.

(** A builder that ran the [cache_hash]/[init] test after the patch would fail this:
    the theorem is about the order of the steps, not about the vocabulary. *)
Definition late_steps (s : spec) (a : bool) : list (bstate -> step_res) :=
  checks_of (firstn 13 (deco_plan s a))
  ++ [patch_step (slots (s_o s)) []; check_step (chk_cache_init (s_o s)) []].

Definition late_init_spec : spec :=
  one_class (CO AttrS None None None None tN false false tN tN None HN HT true tF tN false COsNone None
                false false false false false false false false) [fld "x"].

Lemma check_after_patch_would_mutate :
  exists e b, run_steps (late_steps late_init_spec false) fresh = Stop e b /\ b_events b <> [].
Proof. eexists. eexists. split; [vm_compute; reflexivity | discriminate]. Qed.

(** Every row of the table is reachable. *)
Definition reach (r : rule) : spec :=
  let o := opts AttrS in
  let f := fld "x" in
  match r with
  | FR_cmp_mix => one_class o [F "x" false DNothing FaNone false true false false false HN sT sT sN OsNone None false false]
  | FR_order_no_eq => one_class o [F "x" false DNothing FaNone false true false false false HN sN sF sK OsNone None false false]
  | FR_hash_nonbool => one_class o [F "x" false DNothing FaNone false true false false false HX sN sN sN OsNone None false false]
  | FR_default_and_factory => one_class o [F "x" false DValue FaCallable false true false false false HN sN sN sN OsNone None false false]
  | FR_factory_not_callable => k10b_spec
  | FR_second_default => one_class o [F "x" false DValue FaNone true true false false false HN sN sN sN OsNone None false false]
  | CR_define_frozen_base_hooks =>
      one_class (CO Define None None None None tN false false tN tN None HN HN false tN tN false (COsSingle HValidate) None
                    false false false false false false true false) []
  | CR_cmp_mix => one_class (CO AttrS None None None None tN false false tT tT None HN HN false tN tN false COsNone None
                               false false false false false false false false) []
  | CR_order_no_eq => one_class (CO AttrS None None None None tN false false tN tF (Some tT) HN HN false tN tN false COsNone None
                               false false false false false false false false) []
  | CR_freeze_own_setattr => one_class (CO Frozen None None None None tN false false tN tN None HN HN false tN tN false COsNone None
                               true false false false false false false false) []
  | CR_unannotated => one_class (CO AttrS None None None None tT false false tN tN None HN HN false tN tN false COsNone None
                               false false false false false false false false) [f]
  | CR_annot_and_type => one_class o [F "x" false DNothing FaNone false true false true true HN sN sN sN OsNone None false false]
  | CR_mandatory_after_default => one_class o [with_default (fld "d"); f]
  | CR_str_without_repr => k10a_spec
  | CR_hooks_own_setattr =>
      one_class (CO AttrS None None (Some true) None tN false false tN tN None HN HN false tN tN false COsNone None
                    true false false false false false false false)
        [F "x" false DNothing FaNone false true false false false HN sN sN sN (OsPipe [HValidate]) None false false]
  | CR_hash_nonbool => one_class (CO AttrS None None None None tN false false tN tN None HX HN false tN tN false COsNone None
                               false false false false false false false false) []
  | CR_cache_no_hash => late_reject_spec
  | CR_hooks_frozen =>
      one_class (CO AttrS None None None None tN false false tN tN None HN HN false tN tN false COsNone None
                    false false false false false false true false)
        [F "x" false DNothing FaNone false true false false false HN sN sN sN (OsPipe [HValidate]) None false false]
  | CR_noop_frozen => k151_spec
  | CR_cache_no_init => late_init_spec
  | CR_dup_alias => k8_spec
  end.

Definition all_rules : list rule := field_rules ++ class_rules.

Lemma every_row_reachable_l :
  forall r, In r all_rules ->
    applicable (reach r) = [r] /\
    exists p, build (reach r) = Rejected p (rule_exc r).
Proof.
  intros r H. cbn in H.
  repeat (destruct H as [<-|H]; [split; [vm_compute; reflexivity | eexists; vm_compute; reflexivity]|]).
  destruct H.
Qed.

(** ** Further consequences *)

(** [define(auto_attribs=None)] never raises [UnannotatedAttributeError]. *)
Lemma define_infers_l s p :
  auto_of (s_o s) = AutoInfer -> build s <> Rejected p XUnannotated.
Proof.
  intros Ha H. apply rejected_by_row in H as (r & Hr & He).
  unfold applicable in Hr. apply in_app_or in Hr as [Hr|Hr]; apply filter_In in Hr as [Hr Hc].
  - cbn in Hr. repeat (destruct Hr as [<-|Hr]; [discriminate|]). destruct Hr.
  - cbn in Hr. repeat (destruct Hr as [<-|Hr]; [try discriminate|]); try destruct Hr.
    unfold capplies, capplies_at in Hc. rewrite Ha in Hc. rewrite andb_false_r in Hc. discriminate.
Qed.

(** With class-level [kw_only=True] (and no transformer) no field order is rejected. *)
Lemma evolve_kw_true_positional l : existsb positional (evolve_kw_only true l) = false.
Proof.
  unfold evolve_kw_only. induction l as [|a r IH]; cbn; [reflexivity|].
  rewrite IH. unfold positional. cbn. now rewrite andb_false_r.
Qed.

Lemma bad_order_needs_positional l : existsb positional l = false -> bad_order l = false.
Proof.
  induction l as [|a r IH]; cbn; [reflexivity|]. intros H. apply orb_false_iff in H as [H1 H2].
  unfold pos_default. rewrite H1, (IH H2). reflexivity.
Qed.

Lemma kw_only_class_any_order_l s a :
  o_kw (s_o s) = true -> o_ft (s_o s) = None -> chk_order s a = None.
Proof.
  intros Hk Hf. rewrite chk_order_row. unfold capplies_at, row, given, ft_fun. rewrite Hk, Hf. cbn [option_map apply_ft].
  rewrite bad_order_needs_positional; [reflexivity|].
  rewrite existsb_app, !evolve_kw_true_positional. reflexivity.
Qed.

Lemma order_rule_characterised_l l :
  order_ok l = false <->
  exists i j a b, i < j /\ nth_error l i = Some a /\ nth_error l j = Some b /\
                  pos_default a = true /\ pos_mandatory b = true.
Proof. rewrite order_ok_bad, negb_false_iff. apply bad_order_pair. Qed.

Lemma frozen_hooks_rows_l s a :
  make_init_script (kspec s a) = GenValueError <->
  capplies_at a CR_hooks_frozen s = true \/ capplies_at a CR_noop_frozen s = true.
Proof.
  pose proof (chk_init_script_rows a s) as H. unfold chk_init_script, row in H.
  cbn [first_some] in H.
  destruct (make_init_script (kspec s a)), (capplies_at a CR_hooks_frozen s),
           (capplies_at a CR_noop_frozen s); split; intros X; try discriminate; auto;
    destruct X; discriminate.
Qed.

(** ** A hook collection of any length — the empty one included — is a request for hooks *)

Lemma field_pipe_is_hooked s a x hs : a_on_setattr x = OsPipe hs -> hooked s a x = true.
Proof. intros H. unfold hooked. rewrite H. reflexivity. Qed.

Lemma cls_pipe_is_live s a hs : builder_os (s_o s) = COsPipe hs -> cls_hooks_live s a = true.
Proof. intros H. unfold cls_hooks_live. rewrite H. reflexivity. Qed.

Lemma hook_collections_any_length_l s hs :
  is_frozen (s_o s) = true ->
  (builder_os (s_o s) = COsPipe hs \/
   exists x, In x (fields s (eff_auto s)) /\ a_on_setattr x = OsPipe hs) ->
  capplies CR_hooks_frozen s = true.
Proof.
  intros Hf H. unfold capplies, capplies_at. rewrite Hf. cbn [andb].
  destruct H as [H | (x & Hx & Hos)].
  - rewrite (cls_pipe_is_live s _ hs H). reflexivity.
  - apply orb_true_iff. right. apply existsb_exists. exists x. split; [exact Hx|].
    rewrite Hos. reflexivity.
Qed.

Lemma hook_collections_own_setattr_l s hs :
  ad (s_o s) = true -> o_own_setattr (s_o s) = true -> frozen_arg (s_o s) = false ->
  fields s (eff_auto s) <> [] ->
  (builder_os (s_o s) = COsPipe hs /\ (forall x, In x (fields s (eff_auto s)) -> a_on_setattr x = OsNone) \/
   exists x, In x (fields s (eff_auto s)) /\ a_on_setattr x = OsPipe hs) ->
  capplies CR_hooks_own_setattr s = true.
Proof.
  intros Ha Ho Hz Hne H. unfold capplies, capplies_at. rewrite Ha, Ho, Hz. cbn [andb negb].
  apply existsb_exists. destruct H as [[H Hall] | (x & Hx & Hos)].
  - destruct (fields s (eff_auto s)) as [|x r] eqn:E; [contradiction|].
    exists x. split; [now left|]. unfold hooked. rewrite (Hall x (or_introl eq_refl)).
    apply (cls_pipe_is_live s _ hs H).
  - exists x. split; [exact Hx | exact (field_pipe_is_hooked s _ x hs Hos)].
Qed.

(** the empty collection concretely: [attr.s(frozen=True, on_setattr=[])] *)
Definition empty_hooks_spec : spec :=
  one_class (CO AttrS None (Some true) None None tN false false tN tN None HN HN false tN tN false (COsPipe []) None
                false false false false false false false false) [fld "x"].

Lemma empty_hooks_rejected_l :
  build empty_hooks_spec = Rejected PDeco XValue /\ applicable empty_hooks_spec = [CR_hooks_frozen].
Proof. split; vm_compute; reflexivity. Qed.
