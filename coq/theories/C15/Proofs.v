(** * C15 — proofs: the staged checks of the code equal the table read row by row;
    the mandatory-after-default loop over field lists of any length; a failed class
    statement never writes to the class object. *)
From Coq Require Import List Bool String Ascii Arith Lia Permutation.
Import ListNotations.
From Attrs Require Import Base Core.Attr Core.Init C07.Model C15.Model C15.Table.
Open Scope string_scope.
Open Scope list_scope.

(** ** Generic list facts *)

Lemma first_some_map_rel {A B C : Type} (f : A -> option B) (h : A -> option C) (g : C -> B) l :
  (forall x, f x = option_map g (h x)) ->
  first_some (map f l) = option_map g (first_some (map h l)).
Proof.
  intros H. induction l as [|x r IH]; cbn; [reflexivity|].
  rewrite H. destruct (h x); cbn; [reflexivity | exact IH].
Qed.

Lemma find_none_all {A} (p : A -> bool) l : find p l = None <-> forall x, In x l -> p x = false.
Proof.
  induction l as [|y r IH]; cbn; [split; [intros _ x [] | reflexivity]|].
  destruct (p y) eqn:E; split; intros H.
  - discriminate.
  - rewrite (H y (or_introl eq_refl)) in E. discriminate.
  - intros x [<-|Hx]; [exact E | now apply IH].
  - apply IH. intros x Hx. apply H. now right.
Qed.

Lemma filter_nil_all {A} (p : A -> bool) l : filter p l = [] <-> forall x, In x l -> p x = false.
Proof.
  induction l as [|y r IH]; cbn; [split; [intros _ x [] | reflexivity]|].
  destruct (p y) eqn:E; split; intros H.
  - discriminate.
  - rewrite (H y (or_introl eq_refl)) in E. discriminate.
  - intros x [<-|Hx]; [exact E | now apply IH].
  - apply IH. intros x Hx. apply H. now right.
Qed.

Lemma existsb_false_all {A} (p : A -> bool) l : existsb p l = false <-> forall x, In x l -> p x = false.
Proof.
  induction l as [|y r IH]; cbn; [split; [intros _ x [] | reflexivity]|].
  rewrite orb_false_iff, IH. split.
  - intros [H1 H2] x [<-|Hx]; auto.
  - intros H. split; [apply H; now left | intros x Hx; apply H; now right].
Qed.

Lemma existsb_ext' {A} (p q : A -> bool) l : (forall x, p x = q x) -> existsb p l = existsb q l.
Proof. intros H. induction l as [|y r IH]; cbn; [reflexivity | now rewrite H, IH]. Qed.

(** ** The mandatory-after-default rule over lists of any length *)

Lemma order_ok_from_spec : forall l h,
  order_ok_from h l = negb ((h && existsb pos_mandatory l) || bad_order l).
Proof.
  induction l as [|a r IH]; intros h; cbn [order_ok_from existsb bad_order].
  - now rewrite andb_false_r.
  - unfold pos_mandatory at 1, pos_default.
    destruct (positional a), h, (has_default a); cbn; rewrite ?IH; cbn;
      destruct (existsb pos_mandatory r), (bad_order r); reflexivity.
Qed.

Lemma order_ok_bad l : order_ok l = negb (bad_order l).
Proof. unfold order_ok. rewrite order_ok_from_spec. reflexivity. Qed.

Lemma bad_order_app l1 : forall l2,
  bad_order (l1 ++ l2) =
  bad_order l1 || bad_order l2 || (existsb pos_default l1 && existsb pos_mandatory l2).
Proof.
  induction l1 as [|a r IH]; intros l2; cbn [app bad_order existsb].
  - now rewrite andb_false_r, orb_false_r.
  - rewrite IH, existsb_app.
    destruct (pos_default a), (existsb pos_mandatory r), (existsb pos_mandatory l2),
             (bad_order r), (bad_order l2), (existsb pos_default r); reflexivity.
Qed.

Lemma existsb_nth {A} (p : A -> bool) l :
  existsb p l = true <-> exists j x, nth_error l j = Some x /\ p x = true.
Proof.
  rewrite existsb_exists. split.
  - intros (x & Hin & Hp). apply In_nth_error in Hin as [j Hj]. eauto.
  - intros (j & x & Hj & Hp). exists x. split; [eapply nth_error_In; eauto | exact Hp].
Qed.

Lemma bad_order_pair l :
  bad_order l = true <->
  exists i j a b, i < j /\ nth_error l i = Some a /\ nth_error l j = Some b /\
                  pos_default a = true /\ pos_mandatory b = true.
Proof.
  induction l as [|x r IH]; cbn [bad_order].
  - split; [discriminate|]. intros (i & j & a & b0 & _ & Hi & _). destruct i; discriminate.
  - rewrite orb_true_iff, andb_true_iff, existsb_nth, IH. split.
    + intros [[Hx (j & y & Hj & Hy)] | (i & j & a & b0 & Hij & Hi & Hj & Ha & Hb)].
      * exists 0, (S j), x, y. repeat split; auto. lia.
      * exists (S i), (S j), a, b0. repeat split; auto. lia.
    + intros (i & j & a & b0 & Hij & Hi & Hj & Ha & Hb).
      destruct j as [|j]; [lia|]. cbn in Hj. destruct i as [|i]; cbn in Hi.
      * inversion Hi; subst. left. split; [exact Ha | eauto].
      * right. exists i, j, a, b0. repeat split; auto. lia.
Qed.

(** ** Field calls: [attrib] + [@x.default] against the rows *)

Lemma creation_check_row f : creation_check f = option_map rule_exc (field_row f).
Proof.
  unfold creation_check, field_row. destruct (f_plain f); [reflexivity|].
  unfold field_rules, find, fapplies, attrib_check, second_default_check, attrib_eq_order,
    default_after_attrib, given_s, first_some.
  destruct (f_cmp f), (f_eq f), (f_order f); cbn;
    destruct (f_hash f); cbn; try reflexivity;
    destruct (f_factory f), (f_default f), (f_second f); reflexivity.
Qed.

Lemma body_check_row fs : body_check fs = option_map rule_exc (body_row fs).
Proof. unfold body_check, body_row. apply first_some_map_rel. exact creation_check_row. Qed.
