(** * C15 — the table of contradictory specifications, written row by row.

    Each row is a flat predicate over the specification together with the exception
    class it is rejected with.  [documented r = true] marks the rows the property text
    lists; the four other rows are rejections the code performs although the property's
    list does not contain them (the known findings K8, K10 and K15.1).  Rows are kept in
    the order in which the class statement reaches them, so that [table] can name the
    exception that wins when several rows apply.  Definitions only. *)

From Coq Require Import List Bool String Ascii.
Import ListNotations.
From Attrs Require Import Base Core.Attr Core.Init C07.Model C15.Model.
Open Scope string_scope.
Open Scope list_scope.

Inductive rule :=
(* rows about one attr.ib()/field() call *)
| FR_cmp_mix                  (* cmp= mixed with eq=/order= *)
| FR_order_no_eq              (* order (True or a key) with eq=False *)
| FR_hash_nonbool             (* hash= neither None nor a bool *)
| FR_default_and_factory      (* default= and factory= *)
| FR_factory_not_callable     (* factory= not callable                      -- not in the property's list: K10 *)
| FR_second_default           (* @x.default when a default is already set *)
(* rows about the class *)
| CR_define_frozen_base_hooks (* define(on_setattr=hooks) below a frozen base *)
| CR_cmp_mix
| CR_order_no_eq
| CR_freeze_own_setattr       (* frozen + auto-detected own __setattr__ *)
| CR_unannotated              (* auto_attribs=True and a field() without annotation *)
| CR_annot_and_type           (* annotation and type= for one name *)
| CR_mandatory_after_default  (* also via inheritance / field transformer *)
| CR_str_without_repr         (* str=True but no generated __repr__        -- not in the list: K10 *)
| CR_hooks_own_setattr        (* on_setattr hooks + auto-detected own __setattr__ *)
| CR_hash_nonbool
| CR_cache_no_hash            (* cache_hash without a generated __hash__ *)
| CR_hooks_frozen             (* hooks on a frozen class (also frozen by inheritance) *)
| CR_noop_frozen              (* field-level on_setattr=NO_OP on a frozen class -- not in the list: K15.1 *)
| CR_cache_no_init            (* cache_hash without a generated __init__ *)
| CR_dup_alias.               (* two __init__ parameters with one name     -- not in the list: K8 *)

Definition documented (r : rule) : bool :=
  match r with
  | FR_factory_not_callable | CR_str_without_repr | CR_noop_frozen | CR_dup_alias => false
  | _ => true
  end.

(** The documented exception class of each row. *)
Definition rule_exc (r : rule) : exc :=
  match r with
  | FR_hash_nonbool | CR_hash_nonbool | CR_cache_no_hash | CR_cache_no_init => XType
  | FR_second_default => XDefaultSet
  | CR_unannotated => XUnannotated
  | CR_dup_alias => XSyntax
  | _ => XValue
  end.

Definition rule_eqb (a b : rule) : bool :=
  match a, b with
  | FR_cmp_mix, FR_cmp_mix | FR_order_no_eq, FR_order_no_eq | FR_hash_nonbool, FR_hash_nonbool
  | FR_default_and_factory, FR_default_and_factory
  | FR_factory_not_callable, FR_factory_not_callable | FR_second_default, FR_second_default
  | CR_define_frozen_base_hooks, CR_define_frozen_base_hooks | CR_cmp_mix, CR_cmp_mix
  | CR_order_no_eq, CR_order_no_eq | CR_freeze_own_setattr, CR_freeze_own_setattr
  | CR_unannotated, CR_unannotated | CR_annot_and_type, CR_annot_and_type
  | CR_mandatory_after_default, CR_mandatory_after_default
  | CR_str_without_repr, CR_str_without_repr | CR_hooks_own_setattr, CR_hooks_own_setattr
  | CR_hash_nonbool, CR_hash_nonbool | CR_cache_no_hash, CR_cache_no_hash
  | CR_hooks_frozen, CR_hooks_frozen | CR_noop_frozen, CR_noop_frozen
  | CR_cache_no_init, CR_cache_no_init | CR_dup_alias, CR_dup_alias => true
  | _, _ => false
  end.

(** ** Rows about one field call *)

Definition field_rules : list rule :=
  [FR_cmp_mix; FR_order_no_eq; FR_hash_nonbool; FR_default_and_factory;
   FR_factory_not_callable; FR_second_default].

Definition given_s (x : setting) : bool := negb (is_sN x).

Definition fapplies (r : rule) (f : fspec) : bool :=
  match r with
  | FR_cmp_mix => given_s (f_cmp f) && (given_s (f_eq f) || given_s (f_order f))
  | FR_order_no_eq =>
      negb (given_s (f_cmp f))
      && match f_eq f with sF => true | _ => false end
      && match f_order f with sT | sK => true | _ => false end
  | FR_hash_nonbool => match f_hash f with HX => true | _ => false end
  | FR_default_and_factory =>
      match f_factory f with FaNone => false | _ => dk_given (f_default f) end
  | FR_factory_not_callable => match f_factory f with FaBad => true | _ => false end
  | FR_second_default =>
      f_second f && (dk_given (f_default f) || match f_factory f with FaNone => false | _ => true end)
  | _ => false
  end.

(** The rows are read per call (calls in body order), then in row order. *)
Definition field_row (f : fspec) : option rule :=
  if f_plain f then None else find (fun r => fapplies r f) field_rules.

Definition body_row (fs : list fspec) : option rule := first_some (map field_row fs).

(** ** Rows about the class *)

(** [define(auto_attribs=None)] infers: annotation-driven unless a [field()] lacks one. *)
Definition eff_auto (s : spec) : bool :=
  match auto_of (s_o s) with
  | AutoTrue => true
  | AutoFalse => false
  | AutoInfer => negb (negb (these (s_o s)) && unannotated (s_fields s))
  end.

(** Positional [__init__] parameter with / without a default. *)
Definition pos_default (a : attribute) : bool := positional a && has_default a.
Definition pos_mandatory (a : attribute) : bool := positional a && negb (has_default a).

(** Some positional field with a default comes before some mandatory positional one. *)
Fixpoint bad_order (l : list attribute) : bool :=
  match l with
  | [] => false
  | a :: r => (pos_default a && existsb pos_mandatory r) || bad_order r
  end.

(** Do class-level hooks exist for the builder?  [convert]/[validate] (and [define]'s
    default pipe of the two) only count when some field has a converter / validator,
    except on a frozen class where nothing is discounted. *)
Definition cls_hooks_live (s : spec) (auto : bool) : bool :=
  let o := s_o s in
  let l := fields s auto in
  match builder_os o with
  | COsNone | COsNoOp => false
  | COsDefault => is_frozen o || any_validator l || any_converter l
  | COsSingle HValidate => is_frozen o || any_validator l
  | COsSingle HConvert => is_frozen o || any_converter l
  | _ => true
  end.

Definition os_is_pipe (x : on_setattr) : bool := match x with OsPipe _ => true | _ => false end.

(** A field that [__setattr__] would have to intercept. *)
Definition hooked (s : spec) (auto : bool) (a : attribute) : bool :=
  match a_on_setattr a with
  | OsPipe _ => true
  | OsNoOp => false
  | OsNone => cls_hooks_live s auto
  end.

(** The documented hash table: is a [__hash__] generated? *)
Definition hash_generated (o : copts) : bool :=
  negb (is_exc o) &&
  match hash_local o with
  | HT => true
  | HN => eq_gen o && is_frozen o
  | _ => false
  end.

Fixpoint has_dup (l : list string) : bool :=
  match l with [] => false | x :: r => mem_str x r || has_dup r end.

Definition capplies_at (a : bool) (r : rule) (s : spec) : bool :=
  let o := s_o s in
  match r with
  | CR_define_frozen_base_hooks => is_def (o_api o) && o_base_frozen o && had_on_setattr o
  | CR_cmp_mix =>
      negb (is_tN (cmp_arg o)) && (negb (is_tN (o_eq o)) || negb (is_tN (order_arg o)))
  | CR_order_no_eq => is_tN (cmp_arg o) && is_tF (o_eq o) && is_tT (order_arg o)
  | CR_freeze_own_setattr => ad o && o_own_setattr o && frozen_arg o
  | CR_unannotated =>
      negb (these o) && match auto_of o with AutoTrue => true | _ => false end
      && unannotated (s_fields s)
  | CR_annot_and_type => existsb (fun f => f_annot f && f_type f) (ca_list o a (s_fields s))
  | CR_mandatory_after_default => bad_order (given s a)
  | CR_str_without_repr => o_str o && negb (repr_gen o)
  | CR_hooks_own_setattr =>
      ad o && o_own_setattr o && negb (frozen_arg o) && existsb (hooked s a) (fields s a)
  | CR_hash_nonbool => match eff_hash o with HX => true | _ => false end
  | CR_cache_no_hash => o_cache o && negb (hash_generated o)
  | CR_hooks_frozen =>
      is_frozen o && (cls_hooks_live s a
                      || existsb (fun x => os_is_pipe (a_on_setattr x)) (fields s a))
  | CR_noop_frozen => is_frozen o && existsb (fun x => os_is_noop (a_on_setattr x)) (fields s a)
  | CR_cache_no_init => o_cache o && negb (init_gen o)
  | CR_dup_alias => has_dup (map alias_of (filter a_init (fields s a)))
  | _ => false
  end.

(** The rows are read with the collection mode [define] infers. *)
Definition capplies (r : rule) (s : spec) : bool := capplies_at (eff_auto s) r s.

Definition expr_rules : list rule := [CR_cmp_mix; CR_order_no_eq].

(** Rows in the order the decorator application reaches them ([@attr.s(...)] has
    checked the first two already while the decorator expression was evaluated). *)
Definition deco_rules (a : api) : list rule :=
  CR_define_frozen_base_hooks
  :: (match a with AttrS => [] | _ => expr_rules end)
  ++ [CR_freeze_own_setattr; CR_unannotated; CR_annot_and_type; CR_mandatory_after_default;
      CR_str_without_repr; CR_hooks_own_setattr; CR_hash_nonbool; CR_cache_no_hash;
      CR_hooks_frozen; CR_noop_frozen; CR_cache_no_init; CR_dup_alias].

Definition class_rules : list rule := deco_rules MakeClass.

Definition first_row (rs : list rule) (s : spec) : option rule := find (fun r => capplies r s) rs.

(** The table read as the code reads it: the first row reached. *)
Definition table (s : spec) : verdict :=
  let o := s_o s in
  let b := (PBody, option_map rule_exc (body_row (s_fields s))) in
  let e := (PExpr, option_map rule_exc
                     (match o_api o with AttrS => first_row expr_rules s | _ => None end)) in
  let d := (PDeco, option_map rule_exc (first_row (deco_rules (o_api o)) s)) in
  if these o then first_phase [b; e; d] else first_phase [e; b; d].

(** ** Every row that applies (not only the first) *)

Definition applicable (s : spec) : list rule :=
  filter (fun r => existsb (fapplies r) (field_objs (s_fields s))) field_rules
  ++ filter (fun r => capplies r s) class_rules.

(** Some row outside the property's list applies: the specification lies in the
    area of the known findings. *)
Definition flagged (s : spec) : bool := existsb (fun r => negb (documented r)) (applicable s).

Definition exc_eqb (a b : exc) : bool :=
  match a, b with
  | XValue, XValue | XType, XType | XUnannotated, XUnannotated
  | XDefaultSet, XDefaultSet | XSyntax, XSyntax => true
  | _, _ => false
  end.

Definition doc_excs (s : spec) : list exc := map rule_exc (filter documented (applicable s)).

(** The property's postcondition on an observed verdict: rejected with the exception
    class of some listed row that applies, or defined when no listed row applies. *)
Definition prop_ok (s : spec) (v : verdict) : bool :=
  match v with
  | Defined => match doc_excs s with [] => true | _ => false end
  | Rejected _ e => existsb (exc_eqb e) (doc_excs s)
  end.
