(** * C15 — contradictory specifications are rejected at class-definition time and
    a failed decoration leaves the class untouched: executable model.

    Mirrors every [raise] that a class definition can hit in [attr/_make.py]
    ([attrib], [_CountingAttr.default], [_determine_attrib_eq_order],
    [_determine_attrs_eq_order], [attrs.wrap], [_ClassBuilder.__init__] ->
    [_transform_attrs] -> [Attribute.from_counting_attr], [add_str], [add_setattr],
    the hash block, [add_init]/[add_attrs_init] -> [_make_init_script], the
    compilation of the generated initializer in [build_class] -> [_eval_snippets],
    [make_class]) and in [attr/_next_gen.py] ([define.wrap]), IN THE ORDER THE CODE
    RUNS THEM, and the only place where the class object handed to the decorator is
    written to: [_ClassBuilder._patch_original_class] at the very end of
    [build_class].

    Reused, not re-modelled: [Core.Attr] (the [attribute] record, aliases),
    [Core.Init] ([make_init_script] with its "frozen classes can't use on_setattr"
    result [GenValueError], [effective_cls_on_setattr], [in_sa_attrs]),
    [C07.Model] ([transform_attrs] with base-class collection over a class table,
    the mandatory-after-default loop [order_ok], the transformer language [tf],
    the parameter lists [init_positional]/[init_kw_only]).

    Definitions only; proofs are in [C15/Proofs.v]. *)

From Coq Require Import List Bool String Ascii.
Import ListNotations.
From Attrs Require Import Base Core.Attr Core.Init C07.Model.
Open Scope string_scope.
Open Scope list_scope.

(** ** Verdicts *)

(** The exception classes a class definition is documented to raise (plus
    [SyntaxError], which escapes from compiling the generated initializer). *)
Inductive exc :=
| XValue          (* ValueError *)
| XType           (* TypeError *)
| XUnannotated    (* attr.exceptions.UnannotatedAttributeError *)
| XDefaultSet     (* attr.exceptions.DefaultAlreadySetError *)
| XSyntax.        (* SyntaxError *)

(** When, during the execution of the class statement, the exception is raised:
    while the decorator expression [@attr.s(...)] is evaluated (before the body),
    while the field objects are created (class body; the [these=] dictionary),
    or while the decorator is applied to the finished class object. *)
Inductive phase := PExpr | PBody | PDeco.

Inductive verdict := Defined | Rejected (p : phase) (e : exc).

(** ** Inputs *)

Inductive api := AttrS | Define | Frozen | MakeClass.

(** A flag argument: [None] (or not passed) / [True] / [False]. *)
Inductive tri := tN | tT | tF.

(** A [hash=]/[unsafe_hash=] argument: None, True, False, anything else. *)
Inductive harg := HN | HT | HF | HX.

(** A field-level [cmp=]/[eq=]/[order=] argument: None, True, False, a key callable. *)
Inductive setting := sN | sT | sF | sK.

(** The [factory=] argument: not passed, a callable, a non-callable object. *)
Inductive fact := FaNone | FaCallable | FaBad.

(** One attribute of the class body, in body order: either an [attr.ib()]/[field()]
    call with the arguments the rules read, possibly followed by an
    [@name.default] decorator, or (when [f_plain]) a mere annotation
    [name: T] / [name: T = value], which becomes a field under [auto_attribs]. *)
Record fspec := F {
  f_name : string;
  f_plain : bool;
  f_default : default_kind;     (* default=  ([DNothing]: not passed / no value) *)
  f_factory : fact;
  f_second : bool;              (* @name.default applied after the call *)
  f_init : bool;
  f_kw : bool;
  f_annot : bool;               (* the class body annotates the name *)
  f_type : bool;                (* type= passed *)
  f_hash : harg;
  f_cmp : setting;              (* attr.ib only: field() has no cmp parameter *)
  f_eq : setting;
  f_order : setting;
  f_os : on_setattr;
  f_alias : option string;
  f_val : bool;                 (* has a validator *)
  f_conv : bool                 (* has a converter *)
}.

(** The decorator call, and what the rules read of the class object it gets. *)
Record copts := CO {
  o_api : api;
  o_slots : option bool;
  o_frozen : option bool;
  o_ad : option bool;           (* auto_detect *)
  o_ax : option bool;           (* auto_exc *)
  o_auto : tri;                 (* auto_attribs *)
  o_these : bool;               (* fields passed as these= (always so for make_class) *)
  o_kw : bool;                  (* kw_only *)
  o_cmp : tri;                  (* attr.s / make_class only *)
  o_eq : tri;
  o_order : option tri;         (* None: not passed (define's default is False) *)
  o_hash : harg;
  o_uhash : harg;               (* unsafe_hash *)
  o_cache : bool;               (* cache_hash *)
  o_init : tri;
  o_repr : tri;
  o_str : bool;
  o_os : cls_on_setattr;        (* on_setattr as the caller passes it *)
  o_ft : option tf;             (* field_transformer *)
  o_own_setattr : bool;         (* the class body defines __setattr__ *)
  o_own_init : bool;
  o_own_repr : bool;
  o_own_eq : bool;
  o_own_ne : bool;
  o_own_hash : bool;
  o_base_frozen : bool;         (* the __setattr__ the bases provide is _frozen_setattrs *)
  o_base_exc : bool             (* issubclass(cls, BaseException) *)
}.

(** A class statement: the decorator call, the body's attributes, and the classes
    the bases left behind ([C07.Model.table]: per class its [__mro__] and
    [__dict__["__attrs_attrs__"]]) with [cls.__mro__[1:-1]]. *)
Record spec := SP {
  s_o : copts;
  s_fields : list fspec;
  s_table : table;
  s_mro : list nat
}.

(** ** Signature defaults of the four front ends *)
Definition is_def (a : api) : bool := match a with Define | Frozen => true | _ => false end.
Definition is_mk (a : api) : bool := match a with MakeClass => true | _ => false end.
Definition arg {A : Type} (x : option A) (d : A) : A := match x with Some v => v | None => d end.

Definition ad (o : copts) : bool := arg (o_ad o) (is_def (o_api o)).
Definition auto_exc (o : copts) : bool := arg (o_ax o) (is_def (o_api o)).
Definition slots (o : copts) : bool := arg (o_slots o) (is_def (o_api o)).
Definition frozen_arg (o : copts) : bool :=
  arg (o_frozen o) (match o_api o with Frozen => true | _ => false end).
Definition these (o : copts) : bool := o_these o || is_mk (o_api o).
Definition by_mro (o : copts) : bool := is_def (o_api o).      (* collect_by_mro *)

(** ** Field creation: [attrib] and [_CountingAttr.default] *)

Definition is_sN (x : setting) : bool := match x with sN => true | _ => false end.

(** [decide_callable_or_boolean]: a key callable counts as [True]. *)
Definition truth (x : setting) (dflt : bool) : bool :=
  match x with sN => dflt | sT | sK => true | sF => false end.

(** [_determine_attrib_eq_order(cmp, eq, order, True)] *)
Definition attrib_eq_order (cmp eq order : setting) : option exc :=
  if negb (is_sN cmp) && (negb (is_sN eq) || negb (is_sN order)) then Some XValue
  else if negb (is_sN cmp) then None
  else
    let e := truth eq true in
    let o := match order with sN => e | _ => truth order true end in
    if negb e && o then Some XValue else None.

Definition dk_given (d : default_kind) : bool := match d with DNothing => false | _ => true end.

(** [attrib(...)], the raising part, in source order. *)
Definition attrib_check (f : fspec) : option exc :=
  match attrib_eq_order (f_cmp f) (f_eq f) (f_order f) with
  | Some e => Some e
  | None =>
      match f_hash f with
      | HX => Some XType
      | _ =>
          match f_factory f with
          | FaNone => None
          | FaCallable => if dk_given (f_default f) then Some XValue else None
          | FaBad => Some XValue     (* mutually exclusive, else "must be a callable" *)
          end
      end
  end.

(** [_CountingAttr._default] after [attrib] returned. *)
Definition default_after_attrib (f : fspec) : default_kind :=
  match f_factory f with FaNone => f_default f | _ => DFactory "f" false end.

(** [@name.default]: [if self._default is not NOTHING: raise DefaultAlreadySetError] *)
Definition second_default_check (f : fspec) : option exc :=
  if f_second f && dk_given (default_after_attrib f) then Some XDefaultSet else None.

Definition final_default (f : fspec) : default_kind :=
  if f_second f then
    match default_after_attrib f with DNothing => DFactory "d" true | d => d end
  else default_after_attrib f.

Definition creation_check (f : fspec) : option exc :=
  if f_plain f then None else first_some [attrib_check f; second_default_check f].

(** The class body (or the [these=] dictionary) creates the fields one after the other. *)
Definition body_check (fs : list fspec) : option exc := first_some (map creation_check fs).

(** The [Attribute] a successfully created field becomes
    ([Attribute.from_counting_attr]; [attrib(value)] for an annotation-only one). *)
Definition attr_of (f : fspec) : attribute :=
  {| a_name := f_name f; a_default := final_default f;
     a_validator := if f_val f then Some "v" else None;
     a_repr := true; a_eq := true; a_eq_key := None; a_order := true; a_order_key := None;
     a_hash := None; a_init := f_init f;
     a_type := if f_annot f || f_type f then Some "t" else None;
     a_converter := if f_conv f then Core.Attr.CPlain "c" false else CNone;
     a_kw_only := f_kw f; a_inherited := false; a_on_setattr := f_os f;
     a_alias := f_alias f |}.

(** ** Decorator-call time: [_determine_attrs_eq_order] *)

Definition is_tN (t : tri) : bool := match t with tN => true | _ => false end.
Definition is_tT (t : tri) : bool := match t with tT => true | _ => false end.
Definition is_tF (t : tri) : bool := match t with tF => true | _ => false end.

(** [_determine_attrs_eq_order(cmp, eq, order, default_eq)]; [None] = [ValueError]. *)
Definition attrs_eq_order (cmp eq order dflt : tri) : option (tri * tri) :=
  if negb (is_tN cmp) && (negb (is_tN eq) || negb (is_tN order)) then None
  else if negb (is_tN cmp) then Some (cmp, cmp)
  else
    let e := if is_tN eq then dflt else eq in
    let o := if is_tN order then e else order in
    if is_tF e && is_tT o then None else Some (e, o).

(** [define] has no [cmp] parameter and defaults [order] to [False]; [make_class]
    resolves with [default_eq=True] before it calls [attr.s]. *)
Definition cmp_arg (o : copts) : tri := if is_def (o_api o) then tN else o_cmp o.
Definition order_arg (o : copts) : tri :=
  match o_order o with Some t => t | None => if is_def (o_api o) then tF else tN end.
Definition default_eq (o : copts) : tri := if is_mk (o_api o) then tT else tN.

Definition eq_order (o : copts) : option (tri * tri) :=
  attrs_eq_order (cmp_arg o) (o_eq o) (order_arg o) (default_eq o).

Definition chk_eq_order (o : copts) : option exc :=
  match eq_order o with None => Some XValue | Some _ => None end.

(** The [eq_] that [wrap] closes over. *)
Definition eq_flag (o : copts) : tri :=
  match eq_order o with Some (e, _) => e | None => tN end.

(** With [@attr.s(...)] the call is evaluated before the class body runs; [define]
    and [make_class] reach [attrs()] only once they hold the class. *)
Definition chk_eq_order_expr (o : copts) : option exc :=
  match o_api o with AttrS => chk_eq_order o | _ => None end.
Definition chk_eq_order_deco (o : copts) : option exc :=
  match o_api o with AttrS => None | _ => chk_eq_order o end.

(** ** [define.wrap] *)

Definition had_on_setattr (o : copts) : bool :=
  match o_os o with COsNone | COsNoOp => false | _ => true end.

Definition chk_define_pre (o : copts) : option exc :=
  if is_def (o_api o) && o_base_frozen o && had_on_setattr o then Some XValue else None.

(** The [on_setattr] the class builder is handed. *)
Definition builder_os (o : copts) : cls_on_setattr :=
  if is_def (o_api o) then
    if o_base_frozen o then COsNoOp
    else if negb (frozen_arg o) then
      match o_os o with COsNone => COsDefault | x => x end
    else o_os o
  else o_os o.

(** ** [attrs.wrap] *)

(** [_has_frozen_base_class(cls)] is [cls.__setattr__ is _frozen_setattrs]: an own
    [__setattr__] in the body hides the bases'. *)
Definition is_frozen (o : copts) : bool :=
  frozen_arg o || (o_base_frozen o && negb (o_own_setattr o)).

Definition has_own_setattr (o : copts) : bool := ad o && o_own_setattr o.

Definition chk_freeze_own (o : copts) : option exc :=
  if has_own_setattr o && is_frozen o then Some XValue else None.

(** [_transform_attrs]: which body attributes are collected. *)
Definition field_objs (fs : list fspec) : list fspec := filter (fun f => negb (f_plain f)) fs.

Definition ca_list (o : copts) (auto : bool) (fs : list fspec) : list fspec :=
  if these o then field_objs fs
  else if auto then filter f_annot fs
  else field_objs fs.

Definition unannotated (fs : list fspec) : bool :=
  existsb (fun f => negb (f_plain f) && negb (f_annot f)) fs.

Definition chk_unannotated (o : copts) (auto : bool) (fs : list fspec) : option exc :=
  if negb (these o) && auto && unannotated fs then Some XUnannotated else None.

(** [Attribute.from_counting_attr]: annotation and [type=] for the same name. *)
Definition chk_type_conflict (o : copts) (auto : bool) (fs : list fspec) : option exc :=
  if existsb (fun f => f_annot f && f_type f) (ca_list o auto fs) then Some XValue else None.

Definition own_attrs (o : copts) (auto : bool) (fs : list fspec) : list attribute :=
  map attr_of (ca_list o auto fs).

Definition ft_fun (o : copts) : option (list attribute -> list attribute) :=
  option_map ft_of (o_ft o).

(** The rest of [_transform_attrs] is [C07.Model.transform_attrs]. *)
Definition transformed (s : spec) (auto : bool) : result (list attribute) :=
  transform_attrs (s_table s) (s_mro s) (by_mro (s_o s)) (o_kw (s_o s)) (ft_fun (s_o s))
                  (own_attrs (s_o s) auto (s_fields s)).

Definition chk_order (s : spec) (auto : bool) : option exc :=
  match transformed s auto with Err _ => Some XValue | Ok _ => None end.

(** The attribute list the field transformer returned, and the final field tuple. *)
Definition given (s : spec) (auto : bool) : list attribute :=
  let own := own_attrs (s_o s) auto (s_fields s) in
  apply_ft (ft_fun (s_o s))
    (evolve_kw_only (o_kw (s_o s)) (base_attrs_of (s_table s) (s_mro s) (by_mro (s_o s)) (names own))
     ++ evolve_kw_only (o_kw (s_o s)) own).
Definition fields (s : spec) (auto : bool) : list attribute := map resolve_alias (given s auto).

(** [_determine_whether_to_implement] *)
Definition det_impl (flag : tri) (ad own dflt : bool) : bool :=
  match flag with
  | tT => true
  | tF => false
  | tN => if negb ad then dflt else if own then false else dflt
  end.

Definition repr_gen (o : copts) : bool := det_impl (o_repr o) (ad o) (o_own_repr o) true.

(** [add_str] *)
Definition chk_str (o : copts) : option exc :=
  if o_str o && negb (repr_gen o) then Some XValue else None.

Definition is_exc (o : copts) : bool := auto_exc o && o_base_exc o.

(** The builder as [Core.Init] sees it (only the components the raising paths read
    matter; the others are placeholders). *)
Definition kspec (s : spec) (auto : bool) : cls_spec :=
  {| k_attrs := fields s auto; k_frozen := is_frozen (s_o s); k_slots := slots (s_o s);
     k_cache_hash := o_cache (s_o s); k_is_exc := is_exc (s_o s);
     k_pre_init := false; k_pre_init_has_args := false; k_post_init := false;
     k_on_setattr := builder_os (s_o s); k_mro_slots := []; k_has_dict := true |}.

(** [add_setattr] (only [if not frozen]): [sa_attrs] non-empty and a custom [__setattr__]. *)
Definition sa_nonempty (s : spec) (auto : bool) : bool :=
  existsb (in_sa_attrs (effective_cls_on_setattr (kspec s auto))) (fields s auto).

Definition chk_hooks_own (s : spec) (auto : bool) : option exc :=
  if negb (frozen_arg (s_o s)) && sa_nonempty s auto && has_own_setattr (s_o s)
  then Some XValue else None.

(** The hash block. *)
Definition eff_hash (o : copts) : harg := match o_uhash o with HN => o_hash o | u => u end.

(** ["__hash__" in cls.__dict__]: [type()] adds [__hash__ = None] to a body with [__eq__]. *)
Definition dict_has_hash (o : copts) : bool := o_own_hash o || o_own_eq o.

Definition hash_local (o : copts) : harg :=
  match eff_hash o with
  | HN => if ad o && dict_has_hash o then HF else HN
  | h => h
  end.

Definition chk_hash_nonbool (o : copts) : option exc :=
  match hash_local o with HX => Some XType | _ => None end.

Definition eq_gen (o : copts) : bool :=
  det_impl (eq_flag o) (ad o) (o_own_eq o || o_own_ne o) true.

Definition is_HN (h : harg) : bool := match h with HN => true | _ => false end.
Definition is_HT (h : harg) : bool := match h with HT => true | _ => false end.
Definition is_HF (h : harg) : bool := match h with HF => true | _ => false end.

Definition chk_cache_hash (o : copts) : option exc :=
  let h := hash_local o in
  let eq := eq_gen o in
  if is_HF h || (is_HN h && negb eq) || is_exc o then
    if o_cache o then Some XType else None
  else if is_HT h || (is_HN h && eq && is_frozen o) then None
  else if o_cache o then Some XType else None.

(** The init block: [add_init] / [add_attrs_init] both run [_make_init_script]. *)
Definition init_gen (o : copts) : bool := det_impl (o_init o) (ad o) (o_own_init o) true.

Definition chk_init_script (s : spec) (auto : bool) : option exc :=
  match make_init_script (kspec s auto) with GenValueError => Some XValue | GenOk _ => None end.

Definition chk_cache_init (o : copts) : option exc :=
  if negb (init_gen o) && o_cache o then Some XType else None.

(** [build_class] -> [_eval_snippets]: compiling [def __init__(self, <aliases>)]. *)
Definition chk_syntax (s : spec) (auto : bool) : option exc :=
  if nodupb (init_positional (fields s auto) ++ init_kw_only (fields s auto)) then None
  else Some XSyntax.

(** Everything that can raise while the decorator is applied, in execution order. *)
Definition deco_checks (s : spec) (auto : bool) : list (option exc) :=
  let o := s_o s in
  [ chk_define_pre o; chk_eq_order_deco o; chk_freeze_own o;
    chk_unannotated o auto (s_fields s); chk_type_conflict o auto (s_fields s);
    chk_order s auto;
    chk_str o; chk_hooks_own s auto;
    chk_hash_nonbool o; chk_cache_hash o;
    chk_init_script s auto; chk_cache_init o;
    chk_syntax s auto ].

(** [define]: [try: do_it(cls, True) except UnannotatedAttributeError: do_it(cls, False)] *)
Definition auto_of (o : copts) : auto_mode :=
  match o_auto o with
  | tT => AutoTrue
  | tF => AutoFalse
  | tN => if is_def (o_api o) then AutoInfer else AutoFalse
  end.

Definition decorate (s : spec) : option exc :=
  match auto_of (s_o s) with
  | AutoTrue => first_some (deco_checks s true)
  | AutoFalse => first_some (deco_checks s false)
  | AutoInfer =>
      match first_some (deco_checks s true) with
      | Some XUnannotated => first_some (deco_checks s false)
      | r => r
      end
  end.

(** ** The class statement as a whole *)

Fixpoint first_phase (l : list (phase * option exc)) : verdict :=
  match l with
  | [] => Defined
  | (p, Some e) :: _ => Rejected p e
  | (_, None) :: r => first_phase r
  end.

(** A [these=] dictionary (also [make_class]'s) is built before the decorator
    expression is evaluated; otherwise the body runs after it. *)
Definition build (s : spec) : verdict :=
  let b := (PBody, body_check (s_fields s)) in
  let e := (PExpr, chk_eq_order_expr (s_o s)) in
  let d := (PDeco, decorate s) in
  if these (s_o s) then first_phase [b; e; d] else first_phase [e; b; d].

(** ** When is the class object written to?

    The builder accumulates everything in its own [_cls_dict] ([b_pending]); the
    class the decorator was given ([b_events]: the writes it has received) is
    touched by [_patch_original_class] only, the last step of [build_class].
    With [slots=True] a new class is created and the original is not written at all. *)

Inductive event := EvDel (n : string) | EvSet (n : string).

Record bstate := B { b_pending : list string; b_events : list event }.

Inductive step_res := Go (b : bstate) | Stop (e : exc) (b : bstate).

(** A builder step that may raise, and otherwise records names in [_cls_dict]. *)
Definition check_step (c : option exc) (writes : list string) (b : bstate) : step_res :=
  match c with
  | Some e => Stop e b
  | None => Go (B (b_pending b ++ writes) (b_events b))
  end.

(** [_patch_original_class]: [delattr] of the field definitions, [setattr] of
    everything accumulated.  [_create_slots_class] leaves the original alone. *)
Definition patch_step (is_slots : bool) (dels : list string) (b : bstate) : step_res :=
  Go (B [] (if is_slots then b_events b
            else b_events b ++ map EvDel dels ++ map EvSet (b_pending b))).

Fixpoint run_steps (l : list (bstate -> step_res)) (b : bstate) : step_res :=
  match l with
  | [] => Go b
  | st :: r => match st b with Go b' => run_steps r b' | Stop e b' => Stop e b' end
  end.

Definition on (c : bool) (l : list string) : list string := if c then l else [].

(** The builder's steps up to the patch: what may raise, and which names the step
    records in [_cls_dict] when it does not. *)
Definition deco_plan (s : spec) (auto : bool) : list (option exc * list string) :=
  let o := s_o s in
  [ (chk_define_pre o, []);
    (chk_eq_order_deco o, []);
    (chk_freeze_own o, []);
    (* _ClassBuilder.__init__ *)
    (chk_unannotated o auto (s_fields s), []);
    (chk_type_conflict o auto (s_fields s), []);
    (chk_order s auto, "__attrs_attrs__" :: on (is_frozen o) ["__setattr__"; "__delattr__"]);
    (None, on (repr_gen o) ["__repr__"]);
    (chk_str o, on (o_str o) ["__str__"]);
    (None, on (negb (is_exc o) && eq_gen o) ["__eq__"; "__ne__"]);
    (chk_hooks_own s auto,
     on (negb (frozen_arg o) && sa_nonempty s auto) ["__attrs_own_setattr__"; "__setattr__"]);
    (chk_hash_nonbool o, []);
    (chk_cache_hash o, []);
    (chk_init_script s auto, [if init_gen o then "__init__" else "__attrs_init__"]);
    (chk_cache_init o, []);
    (* build_class: _eval_snippets (compilation), then the patch *)
    (chk_syntax s auto, []) ].

Definition deco_steps (s : spec) (auto : bool) : list (bstate -> step_res) :=
  map (fun cw => check_step (fst cw) (snd cw)) (deco_plan s auto)
  ++ [patch_step (slots (s_o s))
        (on (negb (these (s_o s))) (names (own_attrs (s_o s) auto (s_fields s))))].

Definition decorate_run (s : spec) (b : bstate) : step_res :=
  match auto_of (s_o s) with
  | AutoTrue => run_steps (deco_steps s true) b
  | AutoFalse => run_steps (deco_steps s false) b
  | AutoInfer =>
      match run_steps (deco_steps s true) b with
      | Stop XUnannotated b' => run_steps (deco_steps s false) b'
      | r => r
      end
  end.

Definition fresh : bstate := B [] [].

(** What the class object handed to the decorator has been through.  When the
    class statement fails before the decorator is applied there is no class. *)
Definition mutation_events (s : spec) : list event :=
  match build s with
  | Rejected PExpr _ | Rejected PBody _ => []
  | _ => match decorate_run s fresh with Go b | Stop _ b => b_events b end
  end.
