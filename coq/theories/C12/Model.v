(** * C12 - [evolve] (attr/_make.py) and [assoc] (attr/_funcs.py), on top of the shared
    class / initializer model of [Core/Init.v].  Definitions only.

    Both functions return a pair: the ORIGINAL instance as it is after the call (the
    code only ever reads it) and the outcome. *)
From Coq Require Import List Bool String.
Import ListNotations.
From Attrs Require Import Core.Attr Core.Init.
Open Scope string_scope.
Open Scope list_scope.

(** ** evolve

<<
    cls = inst.__class__
    attrs = fields(cls)
    for a in attrs:
        if not a.init:
            continue
        attr_name = a.name  # To deal with private attributes.
        init_name = a.alias
        if init_name not in changes:
            changes[init_name] = getattr(inst, attr_name)
    return cls( **changes )
>> *)

Fixpoint collect (k : cls_spec) (i : inst) (l : list attribute) (changes : alist) : res alist :=
  match l with
  | [] => Ok changes
  | a :: r =>
      if negb (a_init a) then collect k i r changes
      else if mem_str (alias_of a) (map fst changes) then collect k i r changes
      else match read k i (a_name a) with
           | Raise e => Raise e                       (* getattr failed: AttributeError *)
           | Ok v => collect k i r (changes ++ [(alias_of a, v)])
           end
  end.

Inductive evolve_outcome :=
| EvoReadError (e : exc)        (* reading the original failed; the class was never called *)
| EvoInit (r : init_result).    (* what the call of the class with keyword arguments only did *)

Definition evolve (k : cls_spec) (f : faults) (validators_on : bool) (i : inst) (changes : alist)
  : inst * evolve_outcome :=
  match collect k i (k_attrs k) changes with
  | Raise e => (i, EvoReadError e)
  | Ok kw => (i, EvoInit (run_init k f validators_on [] kw))
  end.

(** ** The generated [__hash__] with and without caching ([_make_hash_script]).
    The hash code of a tuple of values is the symbolic term ["<hash>"(values)]. *)

Definition hash_participates (a : attribute) : bool :=
  match a_hash a with Some b => b | None => a_eq a end.

Definition HASH_FN : string := "<hash>".

Definition hash_code (k : cls_spec) (i : inst) : res val :=
  match read_all k i (map a_name (filter hash_participates (k_attrs k))) with
  | Ok vs => Ok (VApp HASH_FN vs)
  | Raise e => Raise e
  end.

Definition is_none (v : val) : bool := match v with VNone => true | _ => false end.

(** The cache attribute is readable and holds [None] or the hash of the current fields. *)
Definition cache_consistent (k : cls_spec) (i : inst) : bool :=
  match read k i HASH_CACHE, hash_code k i with
  | Ok c, Ok h => is_none c || val_eqb c h
  | _, _ => false
  end.

(** [hash(inst)]: the instance afterwards and the result. *)
Definition do_hash (k : cls_spec) (i : inst) : inst * res val :=
  if k_cache_hash k then
    match read k i HASH_CACHE with
    | Raise e => (i, Raise e)
    | Ok c =>
        if is_none c then
          match hash_code k i with
          | Raise e => (i, Raise e)
          | Ok h => match obj_setattr k i HASH_CACHE h with
                    | Ok i' => (i', Ok h)
                    | Raise e => (i, Raise e)
                    end
          end
        else (i, Ok c)
    end
  else (i, hash_code k i).

(** ** [copy.copy(inst)] for classes with the default [getstate_setstate]:
    a slotted class, or a class below an attrs class with a generated pair, has its own
    generated [__getstate__]/[__setstate__] ([inh]: an attrs ancestor has a generated
    pair); all other classes here are pure dict chains and travel by the default reduce
    protocol: [y.__dict__.update(x.__dict__)], a shallow copy of the WHOLE dict - the
    [_CacheHashWrapper] entry included. *)

Definition has_getstate (k : cls_spec) (inh : bool) : bool := k_slots k || inh.

(** [{name: getattr(self, name) for name in state_attr_names}] *)
Fixpoint getstate (k : cls_spec) (i : inst) (names : list string) : res alist :=
  match names with
  | [] => Ok []
  | n :: r =>
      match read k i n with
      | Raise e => Raise e
      | Ok v => match getstate k i r with Ok st => Ok ((n, v) :: st) | Raise e => Raise e end
      end
  end.

(** [for name in state_attr_names: if name in state: __bound_setattr(name, state[name])] *)
Fixpoint setstate (k : cls_spec) (new : inst) (names : list string) (state : alist) : res inst :=
  match names with
  | [] => Ok new
  | n :: r =>
      match lookup n state with
      | None => setstate k new r state
      | Some v => match obj_setattr k new n v with
                  | Ok new' => setstate k new' r state
                  | Raise e => Raise e
                  end
      end
  end.

Definition shallow_copy (k : cls_spec) (inh : bool) (i : inst) : res inst :=
  if has_getstate k inh then
    let names := map a_name (k_attrs k) in
    match getstate k i names with
    | Raise e => Raise e
    | Ok st =>
        match setstate k empty_inst names st with
        | Raise e => Raise e
        | Ok n1 => if k_cache_hash k then obj_setattr k n1 HASH_CACHE VNone else Ok n1
        end
    end
  else Ok {| i_slots := i_slots i; i_dict := i_dict i; i_args := None |}.

(** ** assoc (after the repairs 1567142 and 2787de0 in /repo)

<<
    new = copy.copy(inst)
    if getattr(new, _HASH_CACHE_FIELD, None) is not None:
        _OBJ_SETATTR(new, _HASH_CACHE_FIELD, None)
    attrs = fields(inst.__class__)
    for k, v in changes.items():
        a = getattr(attrs, k, NOTHING)
        if not isinstance(a, Attribute):
            raise AttrsAttributeNotFoundError(msg)
        _OBJ_SETATTR(new, k, v)
    return new
>>
    [attrs] is an instance of a generated [tuple] subclass with one property per field
    ([_make_attr_tuple_class]): [getattr] finds the field properties (Attribute objects)
    AND everything a tuple object has (methods, dunders: not Attribute objects).

    [old = true] is the code BEFORE the two repairs (no cache reset; anything that is not
    [NOTHING] accepted); it is kept only for the refutation witnesses. *)

Definition TUPLE_ATTRS : list string :=
  ["__add__"; "__class__"; "__class_getitem__"; "__contains__"; "__delattr__"; "__dir__";
   "__doc__"; "__eq__"; "__format__"; "__ge__"; "__getattribute__"; "__getitem__";
   "__getnewargs__"; "__getstate__"; "__gt__"; "__hash__"; "__init__"; "__init_subclass__";
   "__iter__"; "__le__"; "__len__"; "__lt__"; "__mul__"; "__ne__"; "__new__"; "__reduce__";
   "__reduce_ex__"; "__repr__"; "__rmul__"; "__setattr__"; "__sizeof__"; "__str__";
   "__subclasshook__"; "count"; "index"; "__dict__"; "__module__"].

Definition is_field_name (k : cls_spec) (n : string) : bool := mem_str n (map a_name (k_attrs k)).

(** [getattr(attrs, n, NOTHING)] *)
Inductive tuple_lookup := TLAttribute | TLOtherObject | TLNothing.

Definition fields_getattr (k : cls_spec) (n : string) : tuple_lookup :=
  if is_field_name k n then TLAttribute
  else if mem_str n TUPLE_ATTRS then TLOtherObject
  else TLNothing.

(** the test guarding the store: [isinstance(a, Attribute)]; before: [a is not NOTHING] *)
Definition name_accepted (old : bool) (k : cls_spec) (n : string) : bool :=
  match fields_getattr k n with
  | TLAttribute => true
  | TLOtherObject => old
  | TLNothing => false
  end.

(** [if getattr(new, _HASH_CACHE_FIELD, None) is not None: _OBJ_SETATTR(new, ..., None)] *)
Definition reset_cache (k : cls_spec) (new : inst) : res inst :=
  match read k new HASH_CACHE with
  | Raise _ => Ok new
  | Ok c => if is_none c then Ok new else obj_setattr k new HASH_CACHE VNone
  end.

Inductive assoc_outcome :=
| AssocDone (new : inst)
| AssocNotFound                    (* AttrsAttributeNotFoundError *)
| AssocRaised (e : exc).

Fixpoint assoc_loop (old : bool) (k : cls_spec) (new : inst) (changes : alist) : assoc_outcome :=
  match changes with
  | [] => AssocDone new
  | (n, v) :: r =>
      if name_accepted old k n then
        match obj_setattr k new n v with
        | Ok new' => assoc_loop old k new' r
        | Raise e => AssocRaised e
        end
      else AssocNotFound
  end.

Definition assoc_gen (old : bool) (k : cls_spec) (inh : bool) (i : inst) (changes : alist)
  : inst * assoc_outcome :=
  match shallow_copy k inh i with
  | Raise e => (i, AssocRaised e)
  | Ok c =>
      match (if old then Ok c else reset_cache k c) with
      | Raise e => (i, AssocRaised e)
      | Ok new => (i, assoc_loop old k new changes)
      end
  end.

(** the code as it is *)
Definition assoc := assoc_gen false.
(** the code before the repairs *)
Definition assoc_buggy := assoc_gen true.

(** ** Histories of the original before the call *)

Inductive hstep :=
| HHash                            (* hash(inst) *)
| HSet (n : string) (v : val)      (* the field ends up holding v (after whatever hooks ran) *)
| HDel (n : string).               (* object.__delattr__(inst, n) *)

Fixpoint remove_key (n : string) (l : alist) : alist :=
  match l with
  | [] => []
  | (m, w) :: r => if String.eqb n m then remove_key n r else (m, w) :: remove_key n r
  end.

Definition obj_delattr (k : cls_spec) (i : inst) (n : string) : inst :=
  if is_slot k n
  then {| i_slots := remove_key n (i_slots i); i_dict := i_dict i; i_args := i_args i |}
  else {| i_slots := i_slots i; i_dict := remove_key n (i_dict i); i_args := i_args i |}.

Definition apply_step (k : cls_spec) (i : inst) (s : hstep) : inst :=
  match s with
  | HHash => fst (do_hash k i)
  | HSet n v => match obj_setattr k i n v with Ok i' => i' | Raise _ => i end
  | HDel n => obj_delattr k i n
  end.

Definition apply_hist (k : cls_spec) (i : inst) (h : list hstep) : inst :=
  fold_left (apply_step k) h i.
