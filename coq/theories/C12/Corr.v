(** * C12 - correspondence: what the harness observed when it ran the real
    [attr.evolve] / [attr.assoc], and the check function [coqc] evaluates on it. *)
From Coq Require Import List Bool String Arith.
Import ListNotations.
From Attrs Require Import Base Core.Attr Core.Init Core.InitCorr C12.Model.
Open Scope string_scope.
Open Scope list_scope.

(** ** Views *)

(** The hash-cache attribute of [new] relative to the original's. *)
Inductive cache_obs := CaUnset | CaNone | CaSame | CaOther.

Definition cache_obs_eqb (a b : cache_obs) : bool :=
  match a, b with
  | CaUnset, CaUnset | CaNone, CaNone | CaSame, CaSame | CaOther, CaOther => true
  | _, _ => false
  end.

Definition cache_view (k : cls_spec) (orig new : inst) : cache_obs :=
  match read k new HASH_CACHE with
  | Raise _ => CaUnset
  | Ok v =>
      if is_none v then CaNone
      else match read k orig HASH_CACHE with
           | Ok w => if val_eqb v w then CaSame else CaOther
           | Raise _ => CaOther
           end
  end.

Definition state := list (string * option val).

(** [hash(new) == hash(an instance holding new's field values with an empty cache)];
    [None] when the class does not cache hashes or hashing raises. *)
Definition hash_agree (k : cls_spec) (new : inst) : option bool :=
  if k_cache_hash k then
    match snd (do_hash k new), hash_code k new with
    | Ok h, Ok h' => Some (val_eqb h h')
    | _, _ => None
    end
  else None.

(** The original after the call, as the harness saw it. *)
Inductive oview := OSame | OChanged (st : state) (ca : cache_obs).

Definition oview_eqb (a b : oview) : bool :=
  match a, b with
  | OSame, OSame => true
  | OChanged s c, OChanged s' c' => snap_eqb s s' && cache_obs_eqb c c'
  | _, _ => false
  end.

Definition model_orig (k : cls_spec) (before after : inst) : oview :=
  if snap_eqb (snapshot k after) (snapshot k before) &&
     cache_obs_eqb (cache_view k before after) (cache_view k before before)
  then OSame else OChanged (snapshot k after) (cache_view k before after).

(** ** evolve *)

Inductive eout :=
| EoTypeError                       (* TypeError and no callback ran *)
| EoAttrError                       (* AttributeError and no callback ran *)
| EoDone (same_class fresh : bool) (st : state) (ca : cache_obs) (args : option (list val))
         (trace : list event) (frozen : bool) (hash_ok : option bool)
| EoRaised (idx : nat) (trace : list event)
| EoOther (what : string).

Definition obool_eqb := option_eqb Bool.eqb.

Definition eout_eqb (a b : eout) : bool :=
  match a, b with
  | EoTypeError, EoTypeError | EoAttrError, EoAttrError => true
  | EoDone s f st c g t z h, EoDone s' f' st' c' g' t' z' h' =>
      Bool.eqb s s' && Bool.eqb f f' && snap_eqb st st' && cache_obs_eqb c c' &&
      option_eqb vals_eqb g g' && trace_eqb t t' && Bool.eqb z z' && obool_eqb h h'
  | EoRaised i t, EoRaised i' t' => Nat.eqb i i' && trace_eqb t t'
  | EoOther x, EoOther y => String.eqb x y
  | _, _ => false
  end.

Definition model_evolve (k : cls_spec) (von : bool) (fault : option nat) (i : inst) (changes : alist)
  : eout * oview :=
  let r := evolve k (fault_of fault) von i changes in
  (match snd r with
   | EvoReadError EAttributeError => EoAttrError
   | EvoReadError _ => EoOther "read"
   | EvoInit InitDefError => EoOther "definition rejected"
   | EvoInit InitTypeError => EoTypeError
   | EvoInit (InitDone new t) =>
       EoDone true true (snapshot k new) (cache_view k i new)
              (if k_is_exc k then i_args new else None) t (k_frozen k) (hash_agree k new)
   | EvoInit (InitRaised (EUser n) t) => EoRaised n t
   | EvoInit (InitRaised _ _) => EoOther "exception"
   end, model_orig k i (fst r)).

(** ** assoc *)

Inductive aout :=
| AoNotFound                        (* AttrsAttributeNotFoundError *)
| AoAttrError
| AoDone (same_class fresh : bool) (st : state) (ca : cache_obs) (named : state)
         (trace : list event) (frozen : bool) (hash_ok : option bool)
| AoOther (what : string).

Definition aout_eqb (a b : aout) : bool :=
  match a, b with
  | AoNotFound, AoNotFound | AoAttrError, AoAttrError => true
  | AoDone s f st c n t z h, AoDone s' f' st' c' n' t' z' h' =>
      Bool.eqb s s' && Bool.eqb f f' && snap_eqb st st' && cache_obs_eqb c c' && snap_eqb n n' &&
      trace_eqb t t' && Bool.eqb z z' && obool_eqb h h'
  | AoOther x, AoOther y => String.eqb x y
  | _, _ => false
  end.

Definition oread (k : cls_spec) (i : inst) (n : string) : option val :=
  match read k i n with Ok v => Some v | Raise _ => None end.

Definition model_assoc (k : cls_spec) (inh : bool) (i : inst) (changes : alist) : aout * oview :=
  let r := assoc k inh i changes in
  (match snd r with
   | AssocNotFound => AoNotFound
   | AssocRaised EAttributeError => AoAttrError
   | AssocRaised _ => AoOther "exception"
   | AssocDone new =>
       AoDone true true (snapshot k new) (cache_view k i new)
              (map (fun n => (n, oread k new n))
                   (filter (fun n => negb (is_field_name k n)) (map fst changes)))
              [] (k_frozen k) (hash_agree k new)
   end, model_orig k i (fst r)).

(** ** The property's postcondition for [assoc], stated on the observation alone
    (no reference to the model of [assoc]).  K3a and K3b were found as violations of it;
    both are repaired in /repo, so no run is expected to violate it; when one does, the
    harness files a property-level case (and must flag exactly those runs). *)

Definition all_set (st : state) : bool :=
  forallb (fun p => match snd p with Some _ => true | None => false end) st.

Definition orig_consistent (k : cls_spec) (i : inst) : bool :=
  if k_cache_hash k then cache_consistent k i else true.

Definition expected_assoc_state (k : cls_spec) (i : inst) (changes : alist) : state :=
  map (fun a => (a_name a, match lookup (a_name a) changes with
                           | Some v => Some v
                           | None => oread k i (a_name a)
                           end)) (k_attrs k).

Definition is_osame (o : oview) : bool := match o with OSame => true | _ => false end.

(** In the property's domain: a fully initialised original whose cached hash (if any)
    is the hash of its current field values. *)
Definition in_domain (k : cls_spec) (i : inst) : bool :=
  all_set (snapshot k i) && orig_consistent k i.

Definition assoc_post (k : cls_spec) (i : inst) (changes : alist) (out : aout) (orig : oview) : bool :=
  if negb (in_domain k i) then true
  else if forallb (is_field_name k) (map fst changes) then
    match out with
    | AoDone sc fr st _ _ tr fz h =>
        sc && fr && snap_eqb st (expected_assoc_state k i changes) &&
        match tr with [] => true | _ => false end &&
        Bool.eqb fz (k_frozen k) &&
        match h with Some b => b | None => negb (k_cache_hash k) end &&
        is_osame orig
    | _ => false
    end
  else match out with AoNotFound => is_osame orig | _ => false end.

(** ** Cases *)

Inductive run :=
| REvolve (von : bool) (fault : option nat) (changes : alist) (out : eout) (orig : oview)
| RAssoc (changes : alist) (out : aout) (orig : oview) (flagged : bool).

Record case := K {
  c_prop : bool;                   (* property-level case (postcondition on the observation) *)
  c_spec : cls_spec;
  c_inh : bool;                    (* an attrs ancestor has a generated __getstate__ *)
  c_state0 : state;                (* the original right after construction (incl. cache entry) *)
  c_hist : list hstep;
  c_pre : state * cache_obs;       (* the original right before the calls *)
  c_runs : list run
}.

Fixpoint inst_of_state (k : cls_spec) (i : inst) (st : state) : option inst :=
  match st with
  | [] => Some i
  | (_, None) :: r => inst_of_state k i r
  | (n, Some v) :: r =>
      match obj_setattr k i n v with
      | Ok i' => inst_of_state k i' r
      | Raise _ => None
      end
  end.

Definition original (c : case) : option inst :=
  match inst_of_state (c_spec c) empty_inst (c_state0 c) with
  | Some i0 => Some (apply_hist (c_spec c) i0 (c_hist c))
  | None => None
  end.

Definition check_run (c : case) (i : inst) (r : run) : bool :=
  let k := c_spec c in
  match r with
  | REvolve von fault changes out orig =>
      if c_prop c then true
      else let m := model_evolve k von fault i changes in
           eout_eqb (fst m) out && oview_eqb (snd m) orig
  | RAssoc changes out orig flagged =>
      if c_prop c then assoc_post k i changes out orig
      else let m := model_assoc k (c_inh c) i changes in
           aout_eqb (fst m) out && oview_eqb (snd m) orig &&
           Bool.eqb flagged (negb (assoc_post k i changes out orig))
  end.

Definition check_case (c : case) : bool :=
  match original c with
  | None => false
  | Some i =>
      snap_eqb (snapshot (c_spec c) i) (fst (c_pre c)) &&
      cache_obs_eqb (cache_view (c_spec c) i i) (snd (c_pre c)) &&
      forallb (check_run c i) (c_runs c)
  end.

(** What the model predicts, for replay files. *)
Inductive mout := ME (o : eout) (orig : oview) | MA (o : aout) (orig : oview) (post_ok : bool).

Fixpoint failing_from {A} (chk : A -> bool) (n : nat) (l : list A) : list nat :=
  match l with
  | [] => []
  | x :: r => if chk x then failing_from chk (S n) r else n :: failing_from chk (S n) r
  end.

(** (original's fields, its cache, indices of the runs that fail the check, predictions) *)
Definition model_of (c : case) : option (state * cache_obs * list nat * list mout) :=
  match original c with
  | None => None
  | Some i =>
      let k := c_spec c in
      Some (snapshot k i, cache_view k i i, failing_from (check_run c i) 0 (c_runs c),
            map (fun r => match r with
                          | REvolve von fault changes _ _ =>
                              let m := model_evolve k von fault i changes in ME (fst m) (snd m)
                          | RAssoc changes out orig _ =>
                              let m := model_assoc k (c_inh c) i changes in
                              MA (fst m) (snd m) (assoc_post k i changes out orig)
                          end) (c_runs c))
  end.

(** ** Soundness of the check: a passing model-level case means every run's
    observation passed the comparison with the model and was flagged exactly when it
    violates the postcondition. *)
Lemma check_case_sound c :
  check_case c = true -> c_prop c = false ->
  exists i, original c = Some i /\
    forall r, In r (c_runs c) ->
      match r with
      | REvolve von fault changes out orig =>
          eout_eqb (fst (model_evolve (c_spec c) von fault i changes)) out = true /\
          oview_eqb (snd (model_evolve (c_spec c) von fault i changes)) orig = true
      | RAssoc changes out orig flagged =>
          aout_eqb (fst (model_assoc (c_spec c) (c_inh c) i changes)) out = true /\
          oview_eqb (snd (model_assoc (c_spec c) (c_inh c) i changes)) orig = true /\
          flagged = negb (assoc_post (c_spec c) i changes out orig)
      end.
Proof.
  unfold check_case. intros H Hp. destruct (original c) as [i|]; [|discriminate].
  exists i. split; [reflexivity|]. apply andb_true_iff in H as [_ H].
  intros r Hr. rewrite forallb_forall in H. specialize (H r Hr).
  unfold check_run in H. rewrite Hp in H. destruct r as [von fault changes out orig|changes out orig flagged].
  - now apply andb_true_iff in H.
  - apply andb_true_iff in H as [H H3]. apply andb_true_iff in H as [H1 H2].
    repeat split; auto. now apply Bool.eqb_prop in H3.
Qed.

Lemma check_case_prop_sound c :
  check_case c = true -> c_prop c = true ->
  exists i, original c = Some i /\
    forall changes out orig flagged, In (RAssoc changes out orig flagged) (c_runs c) ->
      assoc_post (c_spec c) i changes out orig = true.
Proof.
  unfold check_case. intros H Hp. destruct (original c) as [i|]; [|discriminate].
  exists i. split; [reflexivity|]. apply andb_true_iff in H as [_ H].
  intros changes out orig flagged Hr. rewrite forallb_forall in H. specialize (H _ Hr).
  unfold check_run in H. now rewrite Hp in H.
Qed.
