(** * C12 - proofs about [evolve] and [assoc]. *)
From Coq Require Import List Bool String Arith Lia.
Import ListNotations.
From Attrs Require Import Core.Attr Core.Init Core.InitProofs Core.InitProps C12.Model.
Open Scope string_scope.
Open Scope list_scope.

Lemma evolve_original_untouched_l k f von i changes : fst (evolve k f von i changes) = i.
Proof. unfold evolve. destruct (collect k i (k_attrs k) changes); reflexivity. Qed.
