(** * C12 - proofs about [evolve] and [assoc]. *)
From Coq Require Import List Bool String Arith Lia.
Import ListNotations.
From Attrs Require Import Core.Attr Core.Init Core.InitProofs Core.InitProps C12.Model.
Open Scope string_scope.
Open Scope list_scope.

(** ** Small facts *)

Lemma read_raise k i n e : read k i n = Raise e -> e = EAttributeError.
Proof.
  unfold read. destruct (is_slot k n); destruct (lookup _ _); intros H; inversion H; reflexivity.
Qed.

Lemma lookup_app n (l1 l2 : alist) :
  lookup n (l1 ++ l2) = match lookup n l1 with Some v => Some v | None => lookup n l2 end.
Proof.
  induction l1 as [|[m w] r IH]; cbn; [reflexivity|]. destruct (String.eqb n m); auto.
Qed.

Lemma lookup_none_mem n (l : alist) : lookup n l = None <-> mem_str n (map fst l) = false.
Proof.
  induction l as [|[m w] r IH]; cbn; [tauto|].
  destruct (String.eqb n m); cbn; [split; discriminate | exact IH].
Qed.

Lemma mem_str_app x l1 l2 : mem_str x (l1 ++ l2) = mem_str x l1 || mem_str x l2.
Proof. induction l1 as [|y r IH]; cbn; [reflexivity|]. now rewrite IH, orb_assoc. Qed.

Lemma mem_str_false x l : mem_str x l = false <-> ~ In x l.
Proof.
  split.
  - intros H Hin. apply mem_str_In in Hin. congruence.
  - intros H. destruct (mem_str x l) eqn:E; [|reflexivity]. apply mem_str_In in E. contradiction.
Qed.

(** ** What [evolve] passes to the class *)

Definition cur (k : cls_spec) (i : inst) (n : string) : val :=
  match read k i n with Ok v => v | Raise _ => VNothing end.

(** The keyword arguments [evolve] adds: the current value of every init field whose
    alias the caller did not give, under its alias, in field order. *)
Definition carried (k : cls_spec) (i : inst) (l : list attribute) (keys : list string) : alist :=
  flat_map (fun a => if a_init a && negb (mem_str (alias_of a) keys)
                     then [(alias_of a, cur k i (a_name a))] else []) l.

Definition evolve_kw (k : cls_spec) (i : inst) (changes : alist) : alist :=
  changes ++ carried k i (k_attrs k) (map fst changes).

Definition init_aliases (l : list attribute) : list string := map alias_of (filter a_init l).

(** Assumption K8 of the whole development: no two init fields share an alias. *)
Definition aliases_unique (k : cls_spec) : Prop := NoDup (init_aliases (k_attrs k)).

(** Every init field the caller does not replace can be read off the original. *)
Definition readable (k : cls_spec) (i : inst) (keys : list string) : Prop :=
  forall a, In a (k_attrs k) -> a_init a = true -> ~ In (alias_of a) keys ->
            exists v, read k i (a_name a) = Ok v.

(** Every key of the change set is the alias of an init field. *)
Definition changes_known (k : cls_spec) (changes : alist) : Prop :=
  forall n, In n (map fst changes) ->
            exists a, In a (k_attrs k) /\ a_init a = true /\ alias_of a = n.

Lemma carried_ext k i l ks1 ks2 :
  (forall b, In b l -> a_init b = true -> mem_str (alias_of b) ks1 = mem_str (alias_of b) ks2) ->
  carried k i l ks1 = carried k i l ks2.
Proof.
  induction l as [|b r IH]; intros H; [reflexivity|]. unfold carried in *. cbn [flat_map].
  rewrite IH by (intros c Hc; apply H; now right). f_equal.
  destruct (a_init b) eqn:Ei; [|reflexivity]. cbn [andb]. now rewrite (H b (or_introl eq_refl) Ei).
Qed.

Lemma init_alias_in l b : In b l -> a_init b = true -> In (alias_of b) (init_aliases l).
Proof. intros Hb Hi. unfold init_aliases. apply in_map. apply filter_In. auto. Qed.

Lemma init_aliases_cons a r :
  init_aliases (a :: r) = if a_init a then alias_of a :: init_aliases r else init_aliases r.
Proof. unfold init_aliases. cbn. destruct (a_init a); reflexivity. Qed.

Lemma collect_ok k i : forall l changes,
  NoDup (init_aliases l) ->
  (forall a, In a l -> a_init a = true -> ~ In (alias_of a) (map fst changes) ->
             exists v, read k i (a_name a) = Ok v) ->
  collect k i l changes = Ok (changes ++ carried k i l (map fst changes)).
Proof.
  induction l as [|a r IH]; intros changes ND Hr.
  - cbn. now rewrite app_nil_r.
  - rewrite init_aliases_cons in ND. cbn [collect]. unfold carried. cbn [flat_map]. fold (carried k i r (map fst changes)).
    destruct (a_init a) eqn:Ei; cbn [negb andb].
    + inversion ND as [|? ? Hnotin ND']; subst.
      destruct (mem_str (alias_of a) (map fst changes)) eqn:M; cbn [negb app].
      * apply IH; [exact ND'|]. intros b Hb. apply Hr. now right.
      * assert (Hx : ~ In (alias_of a) (map fst changes)) by now apply mem_str_false.
        destruct (Hr a (or_introl eq_refl) Ei Hx) as [v Hv].
        rewrite Hv. rewrite IH; [|exact ND'|].
        -- rewrite <- app_assoc. cbn [app]. unfold cur at 1. rewrite Hv. do 3 f_equal.
           apply carried_ext. intros b Hb Hbi. rewrite map_app, mem_str_app. cbn.
           destruct (String.eqb (alias_of b) (alias_of a)) eqn:E; [|now rewrite orb_false_r].
           apply String.eqb_eq in E. exfalso. apply Hnotin. rewrite <- E. now apply init_alias_in.
        -- intros b Hb Hbi Hnin. apply Hr; [now right | exact Hbi |]. intro Hin. apply Hnin.
           rewrite map_app. apply in_or_app. now left.
    + cbn [app]. apply IH; [exact ND|]. intros b Hb. apply Hr. now right.
Qed.

Lemma lookup_carried k i keys : forall l a,
  NoDup (init_aliases l) -> In a l -> a_init a = true -> mem_str (alias_of a) keys = false ->
  lookup (alias_of a) (carried k i l keys) = Some (cur k i (a_name a)).
Proof.
  induction l as [|b r IH]; intros a ND Hin Hi M; [destruct Hin|].
  rewrite init_aliases_cons in ND. unfold carried. cbn [flat_map]. fold (carried k i r keys).
  rewrite lookup_app. destruct Hin as [->|Hin].
  - rewrite Hi, M. cbn. now rewrite String.eqb_refl.
  - destruct (a_init b) eqn:Eb; cbn [andb].
    + inversion ND as [|? ? Hnotin ND']; subst.
      assert (Hne : String.eqb (alias_of a) (alias_of b) = false).
      { destruct (String.eqb (alias_of a) (alias_of b)) eqn:E; [|reflexivity].
        apply String.eqb_eq in E. exfalso. apply Hnotin. rewrite <- E. now apply init_alias_in. }
      destruct (negb (mem_str (alias_of b) keys)); cbn; [rewrite Hne|]; now apply IH.
    + cbn. now apply IH.
Qed.

Lemma carried_keys k i keys l n :
  In n (map fst (carried k i l keys)) ->
  exists a, In a l /\ a_init a = true /\ alias_of a = n.
Proof.
  unfold carried. intros H. apply in_map_iff in H as ([m v] & Hm & Hin). cbn in Hm. subst m.
  apply in_flat_map in Hin as (a & Ha & Hin).
  destruct (a_init a) eqn:Ei; cbn [andb] in Hin; [|destruct Hin].
  destruct (negb (mem_str (alias_of a) keys)); [|destruct Hin].
  destruct Hin as [E|[]]. inversion E; subst. eauto.
Qed.

(** The argument the initializer receives for an init field. *)
Definition evolve_arg (k : cls_spec) (i : inst) (changes : alist) (a : attribute) : val :=
  match lookup (alias_of a) changes with
  | Some v => v
  | None => cur k i (a_name a)
  end.

Lemma evolve_kw_lookup k i changes a :
  aliases_unique k -> In a (k_attrs k) -> a_init a = true ->
  lookup (alias_of a) (evolve_kw k i changes) = Some (evolve_arg k i changes a).
Proof.
  intros U Ha Hi. unfold evolve_kw, evolve_arg. rewrite lookup_app.
  destruct (lookup (alias_of a) changes) eqn:E; [reflexivity|].
  apply lookup_none_mem in E. now apply lookup_carried.
Qed.

(** ** The keyword-only call binds *)

Definition all_names (sc : init_script) : list string :=
  map fst (pos_params sc) ++ map fst (kw_params sc).

Lemma all_names_spec k sc n :
  make_init_script k = GenOk sc ->
  (In n (all_names sc) <-> exists a, In a (k_attrs k) /\ a_init a = true /\ alias_of a = n).
Proof.
  intros G. destruct (init_signature_l k sc G) as [P Kw]. unfold all_names. rewrite P, Kw.
  rewrite !map_map. cbn [fst]. split.
  - intros H. apply in_app_or in H as [H|H]; apply in_map_iff in H as (a & Hn & Hf);
      apply filter_In in Hf as [Hin Hc]; apply andb_true_iff in Hc as [Hi _]; eauto.
  - intros (a & Hin & Hi & Hn). apply in_or_app.
    destruct (a_kw_only a) eqn:Ek; [right|left]; apply in_map_iff; exists a; (split; [exact Hn|]);
      apply filter_In; (split; [exact Hin|]); now rewrite Hi, Ek.
Qed.

Lemma bind_pos_nil ps : bind_pos ps [] = Some ([], ps).
Proof. destruct ps; reflexivity. Qed.

Lemma bind_rest_all kw : forall ps,
  (forall p, In p ps -> exists v, lookup (fst p) kw = Some v) ->
  bind_rest ps kw = Some (map (fun p => (fst p, env_get kw (fst p))) ps).
Proof.
  induction ps as [|p ps IH]; intros H; [reflexivity|]. cbn [bind_rest map].
  destruct (H p (or_introl eq_refl)) as [v Hv]. rewrite Hv.
  rewrite IH by (intros p' Hp'; apply H; now right).
  replace (env_get kw (fst p)) with v by (unfold env_get; now rewrite Hv). reflexivity.
Qed.

Definition bound_env (sc : init_script) (kw : alist) : env :=
  map (fun p => (fst p, env_get kw (fst p))) (pos_params sc ++ kw_params sc).

Lemma bind_call_kw sc (kw : alist) :
  (forall n, In n (map fst kw) -> In n (all_names sc)) ->
  (forall p, In p (pos_params sc ++ kw_params sc) -> exists v, lookup (fst p) kw = Some v) ->
  bind_call sc [] kw = Bound (bound_env sc kw).
Proof.
  intros Hk Hp. unfold bind_call. rewrite bind_pos_nil.
  assert (F : forallb (fun p : string * val => mem_str (fst p) (all_names sc)) kw = true).
  { apply forallb_forall. intros p Hin. apply mem_str_In. apply Hk. now apply in_map. }
  unfold all_names in F. rewrite F. cbn [negb].
  assert (E : existsb (fun p : string * val => mem_str (fst p) (map fst (@nil (string * val)))) kw = false).
  { clear. induction kw as [|p r IH]; cbn; auto. }
  rewrite E. cbn [app]. rewrite (bind_rest_all kw _ Hp). reflexivity.
Qed.

Lemma bind_call_unknown sc (kw : alist) n :
  In n (map fst kw) -> ~ In n (all_names sc) -> bind_call sc [] kw = BindTypeError.
Proof.
  intros Hin Hn. unfold bind_call. rewrite bind_pos_nil.
  destruct (forallb (fun p : string * val =>
                       mem_str (fst p) (map fst (pos_params sc) ++ map fst (kw_params sc))) kw) eqn:F;
    [|reflexivity].
  exfalso. rewrite forallb_forall in F. apply in_map_iff in Hin as (p & Hp & Hin).
  specialize (F p Hin). apply mem_str_In in F. rewrite Hp in F. exact (Hn F).
Qed.

Lemma lookup_bound_env sc kw n :
  In n (all_names sc) -> lookup n (bound_env sc kw) = Some (env_get kw n).
Proof.
  unfold bound_env, all_names. rewrite <- map_app.
  induction (pos_params sc ++ kw_params sc) as [|p ps IH]; cbn; [tauto|].
  intros [H|H].
  - subst n. now rewrite String.eqb_refl.
  - destruct (String.eqb n (fst p)) eqn:E; [apply String.eqb_eq in E; now subst | now apply IH].
Qed.

(** ** evolve: the main statement *)

Definition evolve_env (sc : init_script) (k : cls_spec) (i : inst) (changes : alist) : env :=
  bound_env sc (evolve_kw k i changes).

Lemma evolve_runs_init k f von i changes :
  aliases_unique k -> readable k i (map fst changes) ->
  evolve k f von i changes = (i, EvoInit (run_init k f von [] (evolve_kw k i changes))).
Proof.
  intros U R. unfold evolve. rewrite (collect_ok k i (k_attrs k) changes U R). reflexivity.
Qed.

Lemma evolve_binds k sc i changes :
  make_init_script k = GenOk sc -> aliases_unique k -> changes_known k changes ->
  bind_call sc [] (evolve_kw k i changes) = Bound (evolve_env sc k i changes).
Proof.
  intros G U Ck. apply bind_call_kw.
  - intros n Hn. apply (all_names_spec k sc n G). unfold evolve_kw in Hn. rewrite map_app in Hn.
    apply in_app_or in Hn as [Hn|Hn]; [now apply Ck | eapply carried_keys; eauto].
  - intros p Hp.
    assert (Hn : In (fst p) (all_names sc)).
    { unfold all_names. rewrite <- map_app. now apply in_map. }
    apply (all_names_spec k sc _ G) in Hn as (a & Ha & Hi & Hal). rewrite <- Hal.
    eexists. now apply evolve_kw_lookup.
Qed.

Lemma evolve_env_lookup k sc i changes a :
  make_init_script k = GenOk sc -> aliases_unique k -> In a (k_attrs k) -> a_init a = true ->
  lookup (alias_of a) (evolve_env sc k i changes) = Some (evolve_arg k i changes a).
Proof.
  intros G U Ha Hi. unfold evolve_env. rewrite lookup_bound_env.
  - unfold env_get. now rewrite evolve_kw_lookup.
  - apply (all_names_spec k sc _ G). eauto.
Qed.

Theorem evolve_spec_l k sc von i changes :
  wf k -> make_init_script k = GenOk sc -> aliases_unique k ->
  readable k i (map fst changes) -> changes_known k changes ->
  let en := evolve_env sc k i changes in
  (forall a, In a (k_attrs k) -> a_init a = true ->
             lookup (alias_of a) en = Some (evolve_arg k i changes a)) /\
  exists new,
    evolve k no_fault von i changes = (i, EvoInit (InitDone new (expected_trace k von en))) /\
    (forall a, In a (k_attrs k) -> participates a = true ->
               read k new (a_name a) = Ok (spec_value a en)) /\
    (forall a, In a (k_attrs k) -> participates a = false ->
               read k new (a_name a) = Raise EAttributeError) /\
    (forall m, ~ In m (map a_name (k_attrs k)) -> m <> HASH_CACHE ->
               read k new m = Raise EAttributeError) /\
    (k_cache_hash k = true -> read k new HASH_CACHE = Ok VNone) /\
    i_args new = expected_args k en.
Proof.
  intros W G U R Ck en. split.
  - intros a Ha Hi. now apply evolve_env_lookup.
  - pose proof (evolve_binds k sc i changes G U Ck) as B.
    destruct (run_init_nofault k sc von [] _ _ W G B) as (new & Hrun & H1 & H2 & H3 & H4 & H5).
    exists new. rewrite (evolve_runs_init k no_fault von i changes U R). rewrite Hrun.
    repeat split; assumption.
Qed.

(** What a field holds given the argument the initializer received for it. *)
Definition field_from_arg (a : attribute) (v : val) : val :=
  converted a (match a_default a with
               | DFactory fn ts => if is_nothing v then VApp fn (if ts then [VSelf] else []) else v
               | _ => v
               end).

(** What an init=False field is re-derived to. *)
Definition rederived (a : attribute) : val :=
  converted a (match a_default a with
               | DFactory fn ts => VApp fn (if ts then [VSelf] else [])
               | _ => VDefault (a_name a)
               end).

Lemma spec_value_init a en v :
  a_init a = true -> lookup (alias_of a) en = Some v -> spec_value a en = field_from_arg a v.
Proof.
  intros Hi Hl. unfold spec_value, raw_value, field_from_arg, env_get. rewrite Hi, Hl.
  destruct (a_default a); reflexivity.
Qed.

Lemma spec_value_noninit a en : a_init a = false -> spec_value a en = rederived a.
Proof. intros Hi. unfold spec_value, raw_value, rederived. rewrite Hi. destruct (a_default a); reflexivity. Qed.

Lemma field_from_arg_plain a v : is_nothing v = false -> field_from_arg a v = converted a v.
Proof. intros H. unfold field_from_arg. destruct (a_default a); try reflexivity. now rewrite H. Qed.

(** The field-by-field reading of [evolve_spec_l]. *)
Theorem evolve_fields_l k sc von i changes :
  wf k -> make_init_script k = GenOk sc -> aliases_unique k ->
  readable k i (map fst changes) -> changes_known k changes ->
  exists new t,
    evolve k no_fault von i changes = (i, EvoInit (InitDone new t)) /\
    (* changed init field: the new value, through the converter *)
    (forall a v, In a (k_attrs k) -> a_init a = true -> lookup (alias_of a) changes = Some v ->
       read k new (a_name a) = Ok (field_from_arg a v) /\
       (is_nothing v = false -> read k new (a_name a) = Ok (converted a v))) /\
    (* unchanged init field: the original's CURRENT value, through the converter AGAIN *)
    (forall a old, In a (k_attrs k) -> a_init a = true -> lookup (alias_of a) changes = None ->
       read k i (a_name a) = Ok old ->
       read k new (a_name a) = Ok (field_from_arg a old) /\
       (is_nothing old = false -> read k new (a_name a) = Ok (converted a old))) /\
    (* init=False field with a default: re-derived, whatever the original held *)
    (forall a, In a (k_attrs k) -> a_init a = false -> has_default a = true ->
       read k new (a_name a) = Ok (rederived a)) /\
    (* init=False field without default: unset, as after any construction *)
    (forall a, In a (k_attrs k) -> a_init a = false -> has_default a = false ->
       read k new (a_name a) = Raise EAttributeError) /\
    (* the hash cache is that of a fresh instance *)
    (k_cache_hash k = true -> read k new HASH_CACHE = Ok VNone).
Proof.
  intros W G U R Ck.
  destruct (evolve_spec_l k sc von i changes W G U R Ck) as (Hen & new & Hev & H1 & H2 & _ & H4 & _).
  exists new, (expected_trace k von (evolve_env sc k i changes)). split; [exact Hev|].
  assert (Hinit : forall a v, In a (k_attrs k) -> a_init a = true -> evolve_arg k i changes a = v ->
            read k new (a_name a) = Ok (field_from_arg a v) /\
            (is_nothing v = false -> read k new (a_name a) = Ok (converted a v))).
  { intros a v Ha Hi Hv.
    assert (P : participates a = true) by (unfold participates; now rewrite Hi).
    rewrite (H1 a Ha P). rewrite (spec_value_init a _ v Hi); [|rewrite (Hen a Ha Hi); now rewrite Hv].
    split; [reflexivity|]. intros Hn. now rewrite field_from_arg_plain. }
  split; [|split; [|split; [|split]]].
  - intros a v Ha Hi Hl. apply Hinit; auto. unfold evolve_arg. now rewrite Hl.
  - intros a old Ha Hi Hl Hr. apply Hinit; auto. unfold evolve_arg, cur. now rewrite Hl, Hr.
  - intros a Ha Hi Hd.
    assert (P : participates a = true) by (unfold participates; now rewrite Hd, orb_true_r).
    rewrite (H1 a Ha P). now rewrite spec_value_noninit.
  - intros a Ha Hi Hd. apply H2; auto. unfold participates. now rewrite Hi, Hd.
  - exact H4.
Qed.

(** An original that came out of the initializer is readable, and its unchanged fields
    are converted a second time. *)
Lemma constructed_readable k sc von0 pos0 kw0 en0 i t0 keys :
  wf k -> make_init_script k = GenOk sc -> bind_call sc pos0 kw0 = Bound en0 ->
  run_init k no_fault von0 pos0 kw0 = InitDone i t0 ->
  readable k i keys /\
  forall a, In a (k_attrs k) -> a_init a = true -> read k i (a_name a) = Ok (spec_value a en0).
Proof.
  intros W G B Hrun.
  destruct (run_init_nofault k sc von0 pos0 kw0 en0 W G B) as (i' & Hrun' & H1 & _).
  rewrite Hrun in Hrun'. inversion Hrun'; subst i'.
  assert (H : forall a, In a (k_attrs k) -> a_init a = true -> read k i (a_name a) = Ok (spec_value a en0)).
  { intros a Ha Hi. apply H1; auto. unfold participates. now rewrite Hi. }
  split; [|exact H]. intros a Ha Hi _. eauto.
Qed.

Theorem evolve_reconverts_l k sc von0 pos0 kw0 en0 i t0 von changes :
  wf k -> make_init_script k = GenOk sc -> aliases_unique k ->
  bind_call sc pos0 kw0 = Bound en0 -> run_init k no_fault von0 pos0 kw0 = InitDone i t0 ->
  changes_known k changes ->
  exists new t,
    evolve k no_fault von i changes = (i, EvoInit (InitDone new t)) /\
    forall a, In a (k_attrs k) -> a_init a = true -> lookup (alias_of a) changes = None ->
      read k new (a_name a) = Ok (field_from_arg a (converted a (raw_value a en0))).
Proof.
  intros W G U B Hrun Ck.
  destruct (constructed_readable k sc von0 pos0 kw0 en0 i t0 (map fst changes) W G B Hrun) as [R Hval].
  destruct (evolve_fields_l k sc von i changes W G U R Ck) as (new & t & Hev & _ & Hun & _).
  exists new, t. split; [exact Hev|]. intros a Ha Hi Hl.
  destruct (Hun a _ Ha Hi Hl (Hval a Ha Hi)) as [H _]. exact H.
Qed.

(** ** evolve: rejected calls *)

Theorem evolve_unknown_typeerror_l k sc f von i changes n :
  make_init_script k = GenOk sc -> aliases_unique k -> readable k i (map fst changes) ->
  In n (map fst changes) ->
  (forall a, In a (k_attrs k) -> a_init a = true -> alias_of a <> n) ->
  evolve k f von i changes = (i, EvoInit InitTypeError).
Proof.
  intros G U R Hin Hno. rewrite (evolve_runs_init k f von i changes U R). do 2 f_equal.
  apply (init_typeerror_l k sc); [exact G|]. apply (bind_call_unknown sc _ n).
  - unfold evolve_kw. rewrite map_app. apply in_or_app. now left.
  - intros H. apply (all_names_spec k sc n G) in H as (a & Ha & Hi & Hal). exact (Hno a Ha Hi Hal).
Qed.

(** A field is addressed by its alias: its (different) name is rejected unless it happens
    to be another init field's alias. *)
Corollary evolve_uses_alias_not_name_l k sc f von i changes a :
  make_init_script k = GenOk sc -> aliases_unique k -> readable k i (map fst changes) ->
  In a (k_attrs k) -> In (a_name a) (map fst changes) ->
  (forall b, In b (k_attrs k) -> a_init b = true -> alias_of b <> a_name a) ->
  evolve k f von i changes = (i, EvoInit InitTypeError).
Proof. intros G U R _ Hin Hno. eapply evolve_unknown_typeerror_l; eauto. Qed.

Lemma collect_raise k i : forall l changes e, collect k i l changes = Raise e -> e = EAttributeError.
Proof.
  induction l as [|a r IH]; intros changes e H; cbn in H; [discriminate|].
  destruct (negb (a_init a)); [eauto|].
  destruct (mem_str (alias_of a) (map fst changes)); [eauto|].
  destruct (read k i (a_name a)) eqn:E; [eauto|]. inversion H; subst. eapply read_raise; eauto.
Qed.

Lemma collect_unreadable k i a e0 : forall l changes,
  NoDup (init_aliases l) -> In a l -> a_init a = true -> ~ In (alias_of a) (map fst changes) ->
  read k i (a_name a) = Raise e0 ->
  exists e, collect k i l changes = Raise e.
Proof.
  induction l as [|b r IH]; intros changes ND Hin Hi Hk Hr; [destruct Hin|].
  rewrite init_aliases_cons in ND. cbn [collect]. destruct Hin as [->|Hin].
  - rewrite Hi. cbn [negb]. apply mem_str_false in Hk. rewrite Hk, Hr. eauto.
  - destruct (a_init b) eqn:Eb; cbn [negb].
    + inversion ND as [|? ? Hnotin ND']; subst.
      destruct (mem_str (alias_of b) (map fst changes)); [now apply IH|].
      destruct (read k i (a_name b)) as [v|e] eqn:E; [|eauto].
      apply IH; auto. rewrite map_app. intros H. apply in_app_or in H as [H|H]; [exact (Hk H)|].
      cbn in H. destruct H as [H|[]]. apply Hnotin. rewrite H. now apply init_alias_in.
    + now apply IH.
Qed.

Theorem evolve_unset_attribute_error_l k f von i changes a e0 :
  aliases_unique k -> In a (k_attrs k) -> a_init a = true -> ~ In (alias_of a) (map fst changes) ->
  read k i (a_name a) = Raise e0 ->
  evolve k f von i changes = (i, EvoReadError EAttributeError).
Proof.
  intros U Ha Hi Hk Hr. unfold evolve.
  destruct (collect_unreadable k i a e0 (k_attrs k) changes U Ha Hi Hk Hr) as [e He].
  rewrite He. now rewrite (collect_raise _ _ _ _ _ He).
Qed.

Lemma evolve_original_untouched_l k f von i changes : fst (evolve k f von i changes) = i.
Proof. unfold evolve. destruct (collect k i (k_attrs k) changes); reflexivity. Qed.

(** ** copy.copy *)

Lemma getstate_ok k i : forall names,
  (forall n, In n names -> exists v, read k i n = Ok v) ->
  getstate k i names = Ok (map (fun n => (n, cur k i n)) names).
Proof.
  induction names as [|n r IH]; intros H; [reflexivity|]. cbn [getstate map].
  destruct (H n (or_introl eq_refl)) as [v Hv]. rewrite Hv.
  rewrite IH by (intros m Hm; apply H; now right).
  replace (cur k i n) with v by (unfold cur; now rewrite Hv). reflexivity.
Qed.

Lemma getstate_unreadable k i n e0 : forall names,
  In n names -> read k i n = Raise e0 -> getstate k i names = Raise EAttributeError.
Proof.
  induction names as [|m r IH]; intros Hin Hr; [destruct Hin|]. cbn [getstate].
  destruct (read k i m) as [v|e] eqn:E.
  - destruct Hin as [->|Hin]; [congruence|]. now rewrite (IH Hin Hr).
  - now rewrite (read_raise _ _ _ _ E).
Qed.

Lemma lookup_map_self (g : string -> val) : forall names n,
  In n names -> lookup n (map (fun m => (m, g m)) names) = Some (g n).
Proof.
  induction names as [|m r IH]; intros n Hin; [destruct Hin|]. cbn.
  destruct (String.eqb n m) eqn:E; [apply String.eqb_eq in E; now subst|].
  destruct Hin as [->|Hin]; [now rewrite String.eqb_refl in E | now apply IH].
Qed.

Lemma setstate_ok k (g : string -> val) st : forall names new,
  NoDup names -> (forall n, In n names -> storable k n) ->
  (forall n, In n names -> lookup n st = Some (g n)) ->
  exists new', setstate k new names st = Ok new' /\
    (forall n, In n names -> read k new' n = Ok (g n)) /\
    (forall m, ~ In m names -> read k new' m = read k new m).
Proof.
  induction names as [|n r IH]; intros new ND Hs Hl.
  - exists new. cbn. repeat split; tauto.
  - inversion ND as [|? ? Hnotin ND']; subst. cbn [setstate]. rewrite (Hl n (or_introl eq_refl)).
    destruct (obj_setattr_ok k new n (g n) (Hs n (or_introl eq_refl))) as (n1 & -> & R1 & R2 & _).
    destruct (IH n1 ND' (fun m Hm => Hs m (or_intror Hm)) (fun m Hm => Hl m (or_intror Hm)))
      as (new' & E & Q1 & Q2).
    exists new'. split; [exact E|]. split.
    + intros m [->|Hm]; [|now apply Q1]. rewrite Q2; [exact R1 | exact Hnotin].
    + intros m Hm. rewrite Q2 by (intro; apply Hm; now right). apply R2. intro; apply Hm; now left.
Qed.

Definition fields_readable (k : cls_spec) (i : inst) : Prop :=
  forall a, In a (k_attrs k) -> exists v, read k i (a_name a) = Ok v.

Lemma copy_getstate_spec k inh i :
  wf k -> has_getstate k inh = true -> fields_readable k i ->
  exists c, shallow_copy k inh i = Ok c /\
    (forall a, In a (k_attrs k) -> read k c (a_name a) = read k i (a_name a)) /\
    (k_cache_hash k = true -> read k c HASH_CACHE = Ok VNone) /\
    (k_cache_hash k = false -> read k c HASH_CACHE = Raise EAttributeError) /\
    (forall m, ~ In m (map a_name (k_attrs k)) -> m <> HASH_CACHE -> read k c m = Raise EAttributeError).
Proof.
  intros W Hg Hr. unfold shallow_copy. rewrite Hg.
  assert (Hnames : forall n, In n (map a_name (k_attrs k)) -> exists v, read k i n = Ok v).
  { intros n Hn. apply in_map_iff in Hn as (a & <- & Ha). now apply Hr. }
  rewrite (getstate_ok k i _ Hnames).
  destruct (setstate_ok k (cur k i) (map (fun n => (n, cur k i n)) (map a_name (k_attrs k)))
              (map a_name (k_attrs k)) empty_inst (wf_names k W))
    as (n1 & -> & Q1 & Q2).
  { intros n Hn. apply in_map_iff in Hn as (a & <- & Ha). now apply attr_name_storable. }
  { intros n Hn. now apply lookup_map_self. }
  assert (Hf : forall a, In a (k_attrs k) -> read k n1 (a_name a) = read k i (a_name a)).
  { intros a Ha. rewrite Q1 by now apply in_map. unfold cur. destruct (Hr a Ha) as [v ->]. reflexivity. }
  destruct (k_cache_hash k) eqn:Ch.
  - destruct (obj_setattr_ok k n1 HASH_CACHE VNone (cache_storable k W Ch)) as (c & -> & R1 & R2 & _).
    exists c. split; [reflexivity|]. repeat split.
    + intros a Ha. rewrite R2; [now apply Hf|]. intros E. apply (wf_cache_name k W). rewrite <- E. now apply in_map.
    + intros _. exact R1.
    + discriminate.
    + intros m Hm Hc. rewrite R2 by exact Hc. rewrite Q2 by exact Hm. apply read_empty.
  - exists n1. split; [reflexivity|]. repeat split; auto; [discriminate| |].
    + intros _. rewrite Q2 by (apply (wf_cache_name k W)). apply read_empty.
    + intros m Hm _. rewrite Q2 by exact Hm. apply read_empty.
Qed.

Lemma copy_dict_spec k inh i :
  has_getstate k inh = false ->
  exists c, shallow_copy k inh i = Ok c /\ forall m, read k c m = read k i m.
Proof. intros Hg. unfold shallow_copy. rewrite Hg. eexists. split; reflexivity. Qed.

Lemma copy_unreadable k inh i a e0 :
  has_getstate k inh = true -> In a (k_attrs k) -> read k i (a_name a) = Raise e0 ->
  shallow_copy k inh i = Raise EAttributeError.
Proof.
  intros Hg Ha Hr. unfold shallow_copy. rewrite Hg.
  rewrite (getstate_unreadable k i (a_name a) e0); [reflexivity | now apply in_map | exact Hr].
Qed.

(** ** assoc *)

Lemma field_name_accepted old k n : In n (map a_name (k_attrs k)) -> name_accepted old k n = true.
Proof.
  intros H. unfold name_accepted, fields_getattr, is_field_name. apply mem_str_In in H. now rewrite H.
Qed.

Lemma not_field_rejected k n : ~ In n (map a_name (k_attrs k)) -> name_accepted false k n = false.
Proof.
  intros H. unfold name_accepted, fields_getattr, is_field_name. apply mem_str_false in H. rewrite H.
  destruct (mem_str n TUPLE_ATTRS); reflexivity.
Qed.

Lemma field_name_storable k n : wf k -> In n (map a_name (k_attrs k)) -> storable k n.
Proof. intros W H. apply in_map_iff in H as (a & <- & Ha). now apply attr_name_storable. Qed.

Lemma assoc_loop_fields old k : forall changes new,
  wf k -> NoDup (map fst changes) ->
  (forall n, In n (map fst changes) -> In n (map a_name (k_attrs k))) ->
  exists new', assoc_loop old k new changes = AssocDone new' /\
    forall m, read k new' m = match lookup m changes with Some v => Ok v | None => read k new m end.
Proof.
  induction changes as [|[n v] r IH]; intros new W ND Hk.
  - exists new. split; reflexivity.
  - cbn [map fst] in ND. inversion ND as [|? ? Hnotin ND']; subst. cbn [assoc_loop].
    rewrite field_name_accepted by (apply Hk; now left).
    destruct (obj_setattr_ok k new n v) as (n1 & -> & R1 & R2 & _).
    { apply field_name_storable; [exact W | apply Hk; now left]. }
    destruct (IH n1 W ND' (fun m Hm => Hk m (or_intror Hm))) as (new' & E & Q).
    exists new'. split; [exact E|]. intros m. rewrite Q. cbn [lookup].
    destruct (String.eqb m n) eqn:Emn.
    + apply String.eqb_eq in Emn. subst m.
      assert (L : lookup n r = None) by (apply lookup_none_mem; now apply mem_str_false).
      now rewrite L.
    + destruct (lookup m r); [reflexivity|]. apply R2. intros ->. now rewrite String.eqb_refl in Emn.
Qed.

Lemma assoc_loop_prefix old k : forall pre new rest,
  wf k -> (forall n, In n (map fst pre) -> In n (map a_name (k_attrs k))) ->
  exists new', assoc_loop old k new (pre ++ rest) = assoc_loop old k new' rest.
Proof.
  induction pre as [|[n v] r IH]; intros new rest W Hk.
  - exists new. reflexivity.
  - cbn [app assoc_loop]. rewrite field_name_accepted by (apply Hk; now left).
    destruct (obj_setattr_ok k new n v) as (n1 & -> & _).
    { apply field_name_storable; [exact W | apply Hk; now left]. }
    apply IH; [exact W|]. intros m Hm. apply Hk. now right.
Qed.

(** The current code stores only under field names. *)
Lemma assoc_loop_only_fields k : forall changes new new',
  assoc_loop false k new changes = AssocDone new' ->
  forall n, In n (map fst changes) -> In n (map a_name (k_attrs k)).
Proof.
  induction changes as [|[n v] r IH]; intros new new' H m Hm; [destruct Hm|].
  cbn [assoc_loop] in H. destruct (name_accepted false k n) eqn:E; [|discriminate].
  destruct (obj_setattr k new n v) as [n1|e] eqn:Es; [|discriminate].
  destruct Hm as [<-|Hm]; [|eapply IH; eauto]. cbn [fst].
  destruct (in_dec string_dec n (map a_name (k_attrs k))) as [Hin|Hout]; [exact Hin|].
  rewrite (not_field_rejected k n Hout) in E. discriminate.
Qed.

Lemma reset_cache_spec k c :
  (forall v, read k c HASH_CACHE = Ok v -> is_none v = false -> storable k HASH_CACHE) ->
  exists new, reset_cache k c = Ok new /\
    (forall m, m <> HASH_CACHE -> read k new m = read k c m) /\
    read k new HASH_CACHE = match read k c HASH_CACHE with Ok _ => Ok VNone | Raise e => Raise e end.
Proof.
  intros Hs. unfold reset_cache. destruct (read k c HASH_CACHE) as [v|e] eqn:E.
  - destruct (is_none v) eqn:N.
    + exists c. repeat split. rewrite E. destruct v; try discriminate. reflexivity.
    + destruct (obj_setattr_ok k c HASH_CACHE VNone (Hs v eq_refl N)) as (new & -> & R1 & R2 & _).
      exists new. auto.
  - exists c. repeat split. exact E.
Qed.

(** The instance can be copied: with a generated [__getstate__] every field must be set. *)
Definition copyable (k : cls_spec) (inh : bool) (i : inst) : Prop :=
  has_getstate k inh = true -> fields_readable k i.

(** The hash-cache attribute of the result of [assoc]. *)
Definition cache_after (k : cls_spec) (inh : bool) (i : inst) : res val :=
  if has_getstate k inh
  then (if k_cache_hash k then Ok VNone else Raise EAttributeError)
  else match read k i HASH_CACHE with Ok _ => Ok VNone | Raise e => Raise e end.

Lemma copy_reset_spec k inh i :
  wf k -> copyable k inh i ->
  exists c0 c, shallow_copy k inh i = Ok c0 /\ reset_cache k c0 = Ok c /\
    (forall a, In a (k_attrs k) -> read k c (a_name a) = read k i (a_name a)) /\
    read k c HASH_CACHE = cache_after k inh i.
Proof.
  intros W Hc. unfold cache_after.
  assert (Hname : forall a, In a (k_attrs k) -> a_name a <> HASH_CACHE).
  { intros a Ha E. apply (wf_cache_name k W). rewrite <- E. now apply in_map. }
  destruct (has_getstate k inh) eqn:Hg.
  - destruct (copy_getstate_spec k inh i W Hg (Hc Hg)) as (c0 & E0 & C1 & C2 & C3 & _).
    destruct (reset_cache_spec k c0) as (c & Er & R1 & R2).
    { intros v Hv Hn. destruct (k_cache_hash k) eqn:Ch.
      - rewrite (C2 eq_refl) in Hv. inversion Hv; subst. discriminate.
      - rewrite (C3 eq_refl) in Hv. discriminate. }
    exists c0, c. repeat split; auto.
    + intros a Ha. rewrite R1 by now apply Hname. now apply C1.
    + rewrite R2. destruct (k_cache_hash k); [now rewrite C2 | now rewrite C3].
  - destruct (copy_dict_spec k inh i Hg) as (c0 & E0 & C).
    destruct (reset_cache_spec k c0) as (c & Er & R1 & R2).
    { intros _ _ _. right. apply (wf_dict k W). unfold has_getstate in Hg. now apply orb_false_iff in Hg as [Hg _]. }
    exists c0, c. repeat split; auto.
    + intros a Ha. rewrite R1 by now apply Hname. apply C.
    + rewrite R2, C. reflexivity.
Qed.

Theorem assoc_spec_l k inh i changes :
  wf k -> copyable k inh i -> NoDup (map fst changes) ->
  (forall n, In n (map fst changes) -> In n (map a_name (k_attrs k))) ->
  exists new,
    assoc k inh i changes = (i, AssocDone new) /\
    (* named fields hold the RAW new value, every other field what the original holds *)
    (forall a, In a (k_attrs k) ->
       read k new (a_name a) = match lookup (a_name a) changes with
                               | Some v => Ok v
                               | None => read k i (a_name a)
                               end) /\
    (* the hash cache is empty wherever the original has one: never carried over *)
    read k new HASH_CACHE = cache_after k inh i.
Proof.
  intros W Hc ND Hk. unfold assoc, assoc_gen.
  assert (Lc : lookup HASH_CACHE changes = None).
  { apply lookup_none_mem. apply mem_str_false. intros H. apply (wf_cache_name k W). now apply Hk. }
  destruct (copy_reset_spec k inh i W Hc) as (c0 & c & -> & -> & C1 & C2).
  destruct (assoc_loop_fields false k changes c W ND Hk) as (new & -> & Q).
  exists new. split; [reflexivity|]. split.
  - intros a Ha. rewrite Q. destruct (lookup (a_name a) changes); [reflexivity | now apply C1].
  - now rewrite Q, Lc.
Qed.

(** Whatever [assoc] returns was built by stores under field names only (in particular
    never under [count] / [index]). *)
Theorem assoc_only_fields_l k inh i changes new :
  assoc k inh i changes = (i, AssocDone new) ->
  forall n, In n (map fst changes) -> In n (map a_name (k_attrs k)).
Proof.
  unfold assoc, assoc_gen. intros H.
  destruct (shallow_copy k inh i) as [c0|e]; [|discriminate].
  destruct (reset_cache k c0) as [c|e]; [|discriminate].
  inversion H as [H']. eapply assoc_loop_only_fields; eauto.
Qed.

Theorem assoc_unknown_raises_l k inh i pre n v post :
  wf k -> copyable k inh i ->
  (forall m, In m (map fst pre) -> In m (map a_name (k_attrs k))) ->
  ~ In n (map a_name (k_attrs k)) ->
  assoc k inh i (pre ++ (n, v) :: post) = (i, AssocNotFound).
Proof.
  intros W Hc Hk Hn. unfold assoc, assoc_gen.
  destruct (copy_reset_spec k inh i W Hc) as (c0 & c & -> & -> & _).
  destruct (assoc_loop_prefix false k pre c ((n, v) :: post) W Hk) as (new' & ->).
  cbn [assoc_loop]. now rewrite (not_field_rejected k n Hn).
Qed.

Theorem assoc_unset_attribute_error_l k inh i changes a e0 :
  has_getstate k inh = true -> In a (k_attrs k) -> read k i (a_name a) = Raise e0 ->
  assoc k inh i changes = (i, AssocRaised EAttributeError).
Proof.
  intros Hg Ha Hr. unfold assoc, assoc_gen. now rewrite (copy_unreadable k inh i a e0 Hg Ha Hr).
Qed.

Lemma assoc_original_untouched_l k inh i changes : fst (assoc k inh i changes) = i.
Proof.
  unfold assoc, assoc_gen. destruct (shallow_copy k inh i); [|reflexivity].
  destruct (reset_cache k a); reflexivity.
Qed.

(** ** Hash consistency of the result of [assoc] *)

Lemma read_all_total k i : forall ns,
  (forall n, In n ns -> exists v, read k i n = Ok v) -> exists vs, read_all k i ns = Ok vs.
Proof.
  induction ns as [|n r IH]; intros H; [eexists; reflexivity|]. cbn [read_all].
  destruct (H n (or_introl eq_refl)) as [v ->].
  destruct IH as [vs ->]; [intros m Hm; apply H; now right|]. eauto.
Qed.

Definition hash_names (k : cls_spec) : list string :=
  map a_name (filter hash_participates (k_attrs k)).

Lemma hash_names_fields k n : In n (hash_names k) -> exists a, In a (k_attrs k) /\ a_name a = n.
Proof.
  unfold hash_names. intros H. apply in_map_iff in H as (a & Hn & Hf). apply filter_In in Hf as [Ha _]. eauto.
Qed.

(** Unguarded (this was K3a): for a hash-caching class, a fully set original that has the
    cache attribute (as every constructed instance does, whatever was hashed or reassigned
    before) and any set of field names: the copy's cache is [None], hence consistent with
    its fields - dict or slotted, with or without a generated [__setstate__]. *)
Theorem assoc_cache_reset_l k inh i changes c0 :
  wf k -> k_cache_hash k = true -> fields_readable k i -> read k i HASH_CACHE = Ok c0 ->
  NoDup (map fst changes) ->
  (forall n, In n (map fst changes) -> In n (map a_name (k_attrs k))) ->
  exists new, assoc k inh i changes = (i, AssocDone new) /\
    read k new HASH_CACHE = Ok VNone /\ cache_consistent k new = true.
Proof.
  intros W Ch Hr Hc0 ND Hk.
  destruct (assoc_spec_l k inh i changes W (fun _ => Hr) ND Hk) as (new & Ha & F & C).
  assert (Cn : read k new HASH_CACHE = Ok VNone).
  { rewrite C. unfold cache_after. rewrite Ch, Hc0. now destruct (has_getstate k inh). }
  exists new. split; [exact Ha|]. split; [exact Cn|]. unfold cache_consistent. rewrite Cn.
  unfold hash_code. fold (hash_names k).
  destruct (read_all_total k new (hash_names k)) as [vs ->]; [|reflexivity].
  intros n Hn. apply hash_names_fields in Hn as (a & Ha' & <-). rewrite (F a Ha').
  destruct (lookup (a_name a) changes); [eauto | now apply Hr].
Qed.

(** ** Witnesses: the code BEFORE the repairs ([assoc_buggy]) violated both statements *)

Definition k3 : cls_spec :=
  {| k_attrs := [example_attr "x" DNothing CNone None true false;
                 example_attr "y" DValue CNone None true false];
     k_frozen := false; k_slots := false; k_cache_hash := true; k_is_exc := false;
     k_pre_init := false; k_pre_init_has_args := false; k_post_init := false;
     k_on_setattr := COsNone; k_mro_slots := []; k_has_dict := true |}.

Lemma k3_wf : wf k3.
Proof.
  split.
  - apply (NoDup_count_occ' string_dec). intros x Hx. cbn in Hx. destruct Hx as [<-|[<-|[]]]; reflexivity.
  - reflexivity.
  - cbn. intros [H|[H|[]]]; discriminate H.
Qed.

Definition k3_original : inst :=
  match run_init k3 no_fault true [VTok 1] [] with
  | InitDone i _ => fst (do_hash k3 i)          (* constructed, then hash() taken *)
  | _ => empty_inst
  end.

(** K3a (repaired by 2787de0): dict class, cache_hash, hash computed, a hash field
    replaced: the old code's copy kept the original's hash code. *)
Theorem assoc_buggy_stale_cache_refuted_l :
  exists k inh i changes new,
    wf k /\ k_cache_hash k = true /\ has_getstate k inh = false /\
    fields_readable k i /\ cache_consistent k i = true /\
    NoDup (map fst changes) /\
    (forall n, In n (map fst changes) -> In n (hash_names k)) /\
    assoc_buggy k inh i changes = (i, AssocDone new) /\
    read k new HASH_CACHE = read k i HASH_CACHE /\
    cache_consistent k new = false.
Proof.
  exists k3, false, k3_original, [("x", VTok 2)].
  eexists. split; [exact k3_wf|]. repeat split.
  - intros a [<-|[<-|[]]]; vm_compute; eauto.
  - repeat constructor. intros [].
  - intros n [<-|[]]. vm_compute. auto.
Qed.

(** K3b (repaired by 1567142): the old code accepted [count] / [index]. *)
Theorem assoc_buggy_count_index_refuted_l :
  exists k inh i n v new,
    wf k /\ ~ In n (map a_name (k_attrs k)) /\ (n = "count" \/ n = "index") /\
    assoc_buggy k inh i [(n, v)] = (i, AssocDone new) /\ read k new n = Ok v.
Proof.
  exists k3, false, k3_original, "count", (VTok 5). eexists.
  split; [exact k3_wf|]. split; [|split; [now left | split; reflexivity]].
  cbn. intros [H|[H|[]]]; discriminate H.
Qed.

(** ** Non-vacuity: [InitProps.example_spec] (frozen dict class with a hash cache, a private
    field with a converter, a factory field with a Converter(takes_self, takes_field), an
    init=False field with a default, a keyword-only field) meets every hypothesis. *)

Definition ex_original : inst :=
  match run_init example_spec no_fault true [VTok 1] [("w", VTok 2)] with
  | InitDone i _ => i
  | _ => empty_inst
  end.

Lemma ex_aliases_unique : aliases_unique example_spec.
Proof.
  unfold aliases_unique. apply (NoDup_count_occ' string_dec). intros x Hx. cbn in Hx.
  destruct Hx as [<-|[<-|[<-|[]]]]; reflexivity.
Qed.

Lemma ex_readable keys : readable example_spec ex_original keys.
Proof. intros a [<-|[<-|[<-|[<-|[]]]]] Hi _; try discriminate Hi; vm_compute; eauto. Qed.

Lemma ex_changes_known : changes_known example_spec [("x", VTok 9)].
Proof.
  intros n [<-|[]]. eexists. split; [left; reflexivity|]. split; reflexivity.
Qed.

Example evolve_spec_nonvacuous :
  wf example_spec /\ (exists sc, make_init_script example_spec = GenOk sc) /\
  aliases_unique example_spec /\ readable example_spec ex_original ["x"] /\
  changes_known example_spec [("x", VTok 9)] /\
  match evolve example_spec no_fault true ex_original [("x", VTok 9)] with
  | (i, EvoInit (InitDone new t)) =>
      i = ex_original /\
      read example_spec new "_x" = Ok (VApp "cx" [VTok 9]) /\
      (* y: carried over and converted a second time *)
      read example_spec new "y" =
        Ok (VApp "cy" [VApp "cy" [VApp "fy" [VSelf]; VSelf; VAttr "y"]; VSelf; VAttr "y"]) /\
      read example_spec new "z" = Ok (VDefault "z") /\
      read example_spec new "w" = Ok (VTok 2) /\
      read example_spec new HASH_CACHE = Ok VNone /\ List.length t = 6
  | _ => False
  end.
Proof.
  split; [exact example_wf|]. split; [eexists; vm_compute; reflexivity|].
  split; [exact ex_aliases_unique|]. split; [apply ex_readable|]. split; [exact ex_changes_known|].
  vm_compute. repeat split.
Qed.

(** The private name is rejected, the alias accepted; an init=False field is rejected. *)
Example evolve_alias_example :
  snd (evolve example_spec no_fault true ex_original [("_x", VTok 9)]) = EvoInit InitTypeError /\
  snd (evolve example_spec no_fault true ex_original [("z", VTok 9)]) = EvoInit InitTypeError /\
  (exists new t, snd (evolve example_spec no_fault true ex_original [("x", VTok 9)])
                 = EvoInit (InitDone new t)).
Proof. repeat split; vm_compute; eauto. Qed.

Example assoc_spec_nonvacuous :
  wf k3 /\ copyable k3 false k3_original /\
  match assoc k3 false k3_original [("y", VTok 7)] with
  | (i, AssocDone new) =>
      i = k3_original /\ read k3 new "x" = Ok (VTok 1) /\ read k3 new "y" = Ok (VTok 7) /\
      (* the original's cache is computed, the copy's is empty *)
      read k3 i HASH_CACHE = Ok (VApp HASH_FN [VTok 1; VDefault "y"]) /\
      read k3 new HASH_CACHE = Ok VNone
  | _ => False
  end /\
  assoc k3 false k3_original [("y", VTok 7); ("nope", VTok 8)] = (k3_original, AssocNotFound) /\
  assoc k3 false k3_original [("count", VTok 5)] = (k3_original, AssocNotFound).
Proof.
  split; [exact k3_wf|]. split; [intros H; discriminate H|]. vm_compute. repeat split.
Qed.
