(** * C12 - the target language of harness/translate_c12.py and its link to the model.

    The translator turns the CURRENT source text of [evolve] (attr/_make.py) and [assoc]
    (attr/_funcs.py) into Gallina terms built from the combinators below ([Gen/C12_Funcs.v]).
    The meaning given here to each Python construct of the subset is part of the trusted base;
    [C12/Tie.v] proves that the regenerated functions equal, on every input, the functions
    [evolve_star] / [assoc_star], which ARE the model functions [evolve] / [assoc] behind the
    calling convention. *)
From Coq Require Import List Bool String.
Import ListNotations.
From Attrs Require Import Core.Attr Core.Init C12.Model.
Open Scope string_scope.
Open Scope list_scope.

(** How a piece of Python code ends: a value, or an exception - one of the model's
    ([getattr] / [object.__setattr__] / the initializer failing) or one raised by name. *)
Inductive pyexc := PEx (e : exc) | PNamed (name : string).
Inductive pyr (A : Type) := POk (a : A) | PErr (p : pyexc).
Arguments POk {A} a.
Arguments PErr {A} p.

Definition pbind {A B} (r : pyr A) (k : A -> pyr B) : pyr B :=
  match r with POk a => k a | PErr p => PErr p end.

Definition pyr_of_res {A} (r : res A) : pyr A :=
  match r with Ok a => POk a | Raise e => PErr (PEx e) end.

(** [for x in l: body] with one loop-carried variable; [continue] and falling off the end of the
    body are [POk state]; an exception ends the loop. *)
Fixpoint lfold {A S} (body : A -> S -> pyr S) (l : list A) (s : S) : pyr S :=
  match l with
  | [] => POk s
  | x :: r => match body x s with POk s' => lfold body r s' | PErr p => PErr p end
  end.

Lemma lfold_ext {A S} (b1 b2 : A -> S -> pyr S) :
  (forall x s, b1 x s = b2 x s) -> forall l s, lfold b1 l s = lfold b2 l s.
Proof.
  intros H. induction l as [|x r IH]; intros s; [reflexivity|]. cbn. rewrite H.
  destruct (b2 x s); [apply IH | reflexivity].
Qed.

(** [(x,) = args] inside [try: ... except ValueError: raise E] *)
Definition unpack1 {A B} (args : list A) (k : A -> pyr B) (e : pyexc) : pyr B :=
  match args with [x] => k x | _ => PErr e end.

(** [getattr(inst, name, default)] *)
Definition getattr_default (k : cls_spec) (i : inst) (n : string) (d : val) : val :=
  match read k i n with Ok v => v | Raise _ => d end.

(** [name in d] for a keyword dictionary *)
Definition dict_has (n : string) (d : alist) : bool := mem_str n (map fst d).
Definition dict_empty (d : alist) : bool := match d with [] => true | _ => false end.

Definition tl_is_attribute (t : tuple_lookup) : bool := match t with TLAttribute => true | _ => false end.
Definition tl_is_nothing (t : tuple_lookup) : bool := match t with TLNothing => true | _ => false end.

(** ** The model behind the calling convention *)

Definition pyr_of_evolve (o : evolve_outcome) : pyr init_result :=
  match o with EvoReadError e => PErr (PEx e) | EvoInit r => POk r end.

(** [evolve( *args, **changes )]: exactly one positional argument, else TypeError. *)
Definition evolve_star (k : cls_spec) (f : faults) (von : bool) (args : list inst) (changes : alist)
  : pyr init_result :=
  match args with
  | [i] => pyr_of_evolve (snd (evolve k f von i changes))
  | _ => PErr (PNamed "TypeError")
  end.

Definition NOT_FOUND : string := "AttrsAttributeNotFoundError".

Definition pyr_of_assoc (o : assoc_outcome) : pyr inst :=
  match o with
  | AssocDone new => POk new
  | AssocNotFound => PErr (PNamed NOT_FOUND)
  | AssocRaised e => PErr (PEx e)
  end.

Definition assoc_star (k : cls_spec) (inh : bool) (i : inst) (changes : alist) : pyr inst :=
  pyr_of_assoc (snd (assoc k inh i changes)).

(** ** The model's loops as [lfold]s of one step *)

Definition collect_step (k : cls_spec) (i : inst) (a : attribute) (changes : alist) : pyr alist :=
  if negb (a_init a) then POk changes
  else if mem_str (alias_of a) (map fst changes) then POk changes
  else match read k i (a_name a) with
       | Raise e => PErr (PEx e)
       | Ok v => POk (changes ++ [(alias_of a, v)])
       end.

Lemma collect_as_lfold k i : forall l changes,
  pyr_of_res (collect k i l changes) = lfold (collect_step k i) l changes.
Proof.
  induction l as [|a r IH]; intros changes; [reflexivity|]. cbn [collect lfold]. unfold collect_step at 1.
  destruct (negb (a_init a)); [apply IH|].
  destruct (mem_str (alias_of a) (map fst changes)); [apply IH|].
  destruct (read k i (a_name a)); [apply IH | reflexivity].
Qed.

Lemma evolve_star_lfold k f von args changes :
  evolve_star k f von args changes =
  match args with
  | [i] => pbind (lfold (collect_step k i) (k_attrs k) changes) (fun c => POk (run_init k f von [] c))
  | _ => PErr (PNamed "TypeError")
  end.
Proof.
  unfold evolve_star, evolve. destruct args as [|i [|j r]]; try reflexivity.
  rewrite <- collect_as_lfold. destruct (collect k i (k_attrs k) changes); reflexivity.
Qed.

Definition assoc_step (k : cls_spec) (kv : string * val) (new : inst) : pyr inst :=
  if name_accepted false k (fst kv) then pyr_of_res (obj_setattr k new (fst kv) (snd kv))
  else PErr (PNamed NOT_FOUND).

Lemma assoc_loop_as_lfold k : forall changes new,
  pyr_of_assoc (assoc_loop false k new changes) = lfold (assoc_step k) changes new.
Proof.
  induction changes as [|[n v] r IH]; intros new; [reflexivity|]. cbn [assoc_loop lfold]. unfold assoc_step at 1.
  cbn [fst snd]. destruct (name_accepted false k n); [|reflexivity].
  destruct (obj_setattr k new n v); [apply IH | reflexivity].
Qed.

Lemma assoc_star_lfold k inh i changes :
  assoc_star k inh i changes =
  pbind (pyr_of_res (shallow_copy k inh i)) (fun c =>
  pbind (pyr_of_res (reset_cache k c)) (fun new => lfold (assoc_step k) changes new)).
Proof.
  unfold assoc_star, assoc, assoc_gen. destruct (shallow_copy k inh i) as [c|e]; [|reflexivity]. cbn.
  destruct (reset_cache k c) as [new|e]; [|reflexivity]. cbn. apply assoc_loop_as_lfold.
Qed.

(** [d[n] = v] for a key that is not in [d] appends *)
Lemma update_absent n v (l : alist) : mem_str n (map fst l) = false -> update n v l = l ++ [(n, v)].
Proof.
  induction l as [|[m w] r IH]; cbn; [reflexivity|]. intros H. apply orb_false_iff in H as [H1 H2].
  rewrite H1. now rewrite IH.
Qed.

Lemma name_accepted_attribute k n : name_accepted false k n = tl_is_attribute (fields_getattr k n).
Proof. unfold name_accepted. destruct (fields_getattr k n); reflexivity. Qed.

(** ** Tactics of the tie proofs: nothing below looks at the SHAPE of the regenerated term
    beyond "matches over atoms, [lfold]s of a body"; independent statements may be reordered,
    locals renamed, conditions rewritten into equivalent ones. *)

Ltac tie_unfold :=
  cbv beta zeta delta [pbind pyr_of_res unpack1 getattr_default dict_has dict_empty tl_is_attribute
                       tl_is_nothing pyr_of_evolve pyr_of_assoc negb andb orb].

(** destruct the scrutinee of an innermost match, unless it mentions a loop *)
Ltac break_atom :=
  match goal with
  | |- context [match ?x with _ => _ end] =>
      lazymatch x with
      | context [match _ with _ => _ end] => fail
      | context [lfold] => fail
      | _ => destruct x eqn:?
      end
  end.

Ltac break_any :=
  match goal with
  | |- context [match ?x with _ => _ end] =>
      lazymatch x with
      | context [match _ with _ => _ end] => fail
      | _ => destruct x eqn:?
      end
  end.

Ltac tie_simpl := cbv beta iota zeta; cbn [fst snd is_none is_nothing] in *; try subst; try discriminate.

Ltac tie_finish :=
  repeat (tie_simpl; break_any); tie_simpl;
  try reflexivity; try congruence;
  try (rewrite update_absent by assumption; reflexivity).
