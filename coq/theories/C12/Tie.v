(** * C12 - tie by translation: [evolve] and [assoc] regenerated from the CURRENT source text
    ([Gen/C12_Funcs.v], written by harness/translate_c12.py on every run) coincide on EVERY input -
    every class specification, original instance, change set, fault oracle, validator switch - with the
    model functions the property theorems ([Props/C12.v]) are stated about.  A source change that alters
    the logic of one of them makes a lemma below fail to compile: a proof-obligation failure of
    ./check C12, which then searches for a concrete failing input with its correspondence. *)
From Coq Require Import List Bool String.
Import ListNotations.
From Attrs Require Import Core.Attr Core.Init Core.InitProofs C12.Model C12.TieLib C12.Proofs Gen.C12_Funcs.
Open Scope string_scope.
Open Scope list_scope.

Lemma tie_fully_translated : c12_fully_translated = true.
Proof. reflexivity. Qed.

(** One iteration of the loops, whatever the regenerated body looks like. *)
Ltac tie_step model_step :=
  intros; cbv delta [collect_step assoc_step HASH_CACHE NOT_FOUND]; cbv beta; rewrite ?name_accepted_attribute;
  tie_unfold; tie_finish.

Ltac tie_loops model_step :=
  repeat match goal with
  | |- context [lfold ?b ?l ?s] =>
      lazymatch b with
      | model_step => fail
      | _ => rewrite (lfold_ext b model_step) by (tie_step model_step)
      end
  end.

(** [evolve]: the positional-argument convention, the loop that completes the keyword arguments from
    the original (skip init=False; key = alias; read by NAME; only when the caller did not give the
    key; a failing read ends the call) and the final call of the class with keywords only. *)
Lemma tie_evolve : forall oq k inh f von args changes,
  t_evolve oq k inh f von args changes = evolve_star k f von args changes.
Proof.
  intros. rewrite evolve_star_lfold. unfold t_evolve. tie_unfold.
  destruct args as [|i [|j r]]; try reflexivity.
  tie_loops (collect_step k i). tie_finish.
Qed.

(** [assoc]: shallow copy, reset of a computed hash cache, per key the lookup on the fields tuple
    accepting Attribute objects only, raw store, AttrsAttributeNotFoundError otherwise. *)
Lemma tie_assoc : forall oq k inh i changes,
  t_assoc oq k inh i changes = assoc_star k inh i changes.
Proof.
  intros. rewrite assoc_star_lfold. unfold t_assoc, reset_cache. cbv delta [HASH_CACHE]. tie_unfold.
  repeat (tie_simpl; break_atom); tie_simpl; try reflexivity; try congruence;
    tie_loops (assoc_step k); tie_finish.
Qed.

(** Consequences: the property theorems speak about the regenerated code. *)
Corollary t_evolve_is_construction : forall oq k inh f von i changes,
  aliases_unique k -> readable k i (map fst changes) ->
  t_evolve oq k inh f von [i] changes = POk (run_init k f von [] (evolve_kw k i changes)).
Proof.
  intros oq k inh f von i changes U R. rewrite tie_evolve. unfold evolve_star.
  now rewrite (evolve_runs_init k f von i changes U R).
Qed.

Corollary t_assoc_only_fields : forall oq k inh i changes new,
  t_assoc oq k inh i changes = POk new ->
  forall n, In n (map fst changes) -> In n (map a_name (k_attrs k)).
Proof.
  intros oq k inh i changes new H. rewrite tie_assoc in H. unfold assoc_star in H.
  destruct (assoc k inh i changes) as [i' o] eqn:E. cbn in H. destruct o; try discriminate. inversion H; subst.
  pose proof (assoc_original_untouched_l k inh i changes) as Hi. rewrite E in Hi. cbn in Hi. subst i'.
  now apply (assoc_only_fields_l k inh i changes new).
Qed.
