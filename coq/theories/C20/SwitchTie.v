(** * C20 — tie by translation: the switch code regenerated from the CURRENT source text
    ([Gen/Switch.v], written by harness/translate_switch.py on every run) coincides on EVERY input
    with the functions of [C20/Model.v] that the property theorems are stated about.  A source change
    that alters one of these functions makes a lemma below fail to compile: a proof-obligation failure
    of ./check C20, which then searches for a concrete failing input with its correspondence. *)
From Coq Require Import List Bool String.
Import ListNotations.
From Attrs Require Import Gen.Decide Gen.Switch C20.Model.
Open Scope string_scope.

Definition injb (b : bool) : pyv := pyv_of_bool b.
Definition inj_arg (a : pyarg) (tag : nat) : pyv :=
  match a with ABool b => injb b | ANonBool => PVOther tag end.
(** [None] also is a non-bool argument *)
Definition inj_oc (oc : outcome) : pres :=
  match oc with Done => PFellOff | RaisedTypeError => PRaise "TypeError" | NoOpenContext => PFellOff end.

Lemma tie_fully_translated : switch_fully_translated = true.
Proof. reflexivity. Qed.

Lemma tie_get_run : forall s, t_get_run_validators (injb (run s)) = (injb (run s), PRet [injb (get_run_validators s)]).
Proof. reflexivity. Qed.

Lemma tie_set_run : forall s a tag,
  t_set_run_validators (injb (run s)) (inj_arg a tag) =
  (injb (run (fst (set_run_validators s a))), inj_oc (snd (set_run_validators s a))).
Proof. intros [[] fs] [[]|] tag; reflexivity. Qed.

Lemma tie_set_run_none : forall s, t_set_run_validators (injb (run s)) PVNone = (injb (run s), PRaise "TypeError").
Proof. intros [[] fs]; reflexivity. Qed.

Lemma tie_set_disabled : forall s d,
  t_set_disabled (injb (run s)) (injb d) =
  (injb (run (fst (set_disabled s d))), inj_oc (snd (set_disabled s d))).
Proof. intros [[] fs] []; reflexivity. Qed.

Lemma tie_get_disabled : forall s, t_get_disabled (injb (run s)) = (injb (run s), PRet [injb (get_disabled s)]).
Proof. intros [[] fs]; reflexivity. Qed.

(** [__enter__]: the global afterwards and the local [prev] kept in the suspended frame are the
    model's [run] and the head of its frame stack. *)
Lemma tie_enter : forall s,
  t_disabled_enter (injb (run s)) =
  (injb (run (enter_disabled s)), PRet [injb (hd true (frames (enter_disabled s)))]) /\
  tl (frames (enter_disabled s)) = frames s.
Proof. intros [[] fs]; split; reflexivity. Qed.

(** [__exit__] (the [finally] clause, run on normal and exceptional exit alike) with the frame's [prev]. *)
Lemma tie_exit : forall r prev fs k,
  t_disabled_exit (injb r) (injb prev) =
  (injb (run (fst (exit_disabled {| run := r; frames := prev :: fs |} k))), PFellOff) /\
  frames (fst (exit_disabled {| run := r; frames := prev :: fs |} k)) = fs /\
  snd (exit_disabled {| run := r; frames := prev :: fs |} k) = Done.
Proof. intros [] [] fs k; repeat split; reflexivity. Qed.

(** The three read sites. *)
Lemma tie_init_guard : forall s, t_init_runs_validators (injb (run s)) = init_runs_validators s.
Proof. intros [[] fs]; reflexivity. Qed.
Lemma tie_setter_guard : forall s, negb (t_setter_validate_skips (injb (run s))) = setter_validate_runs s.
Proof. intros [[] fs]; reflexivity. Qed.
Lemma tie_validate_guard : forall s, negb (t_validate_skips (injb (run s))) = validate_runs s.
Proof. intros [[] fs]; reflexivity. Qed.
