(** * C20 — the global validator switch: executable model.

    Mirrors [attr/_config.py] ([_run_validators], [set_run_validators],
    [get_run_validators]), [attr/validators.py] ([set_disabled], [get_disabled],
    the generator behind [disabled()]) and the three read sites of the switch:
    the generated [__init__] ([if _config._run_validators is True:]),
    [setters.validate] ([if _config._run_validators is False: return]) and
    [attr.validate] (same test).

    Definitions only; proofs are in [C20/Proofs.v] so that the model still
    evaluates (correspondence check) when a proof is broken. *)

From Coq Require Import List Bool.
Import ListNotations.

(** The argument of the legacy setter: a real [bool] or anything else. *)
Inductive pyarg := ABool (b : bool) | ANonBool.

(** How a [with validators.disabled():] block is left. *)
Inductive exit_kind := ExitNormal | ExitRaise.

(** Flat operations, in program order, as the interpreter executes them.
    [OEnter] is the [__enter__] of a fresh [disabled()] context manager,
    [OExit k] the [__exit__] of the innermost one still open. *)
Inductive op :=
| OSetDisabled (b : bool)          (* validators.set_disabled(b) *)
| OSetRun (a : pyarg)              (* attr.set_run_validators(a) *)
| OEnter
| OExit (k : exit_kind).

(** Concrete state: the module global plus, for every open generator frame of
    [disabled()], the local variable [prev] it captured. *)
Record state := { run : bool; frames : list bool }.

Definition init_state : state := {| run := true; frames := [] |}.

Inductive outcome := Done | RaisedTypeError | NoOpenContext.

(** [_config.set_run_validators] *)
Definition set_run_validators (s : state) (a : pyarg) : state * outcome :=
  match a with
  | ABool b => ({| run := b; frames := frames s |}, Done)
  | ANonBool => (s, RaisedTypeError)
  end.

Definition get_run_validators (s : state) : bool := run s.

(** [validators.set_disabled], [validators.get_disabled] *)
Definition set_disabled (s : state) (d : bool) : state * outcome :=
  set_run_validators s (ABool (negb d)).
Definition get_disabled (s : state) : bool := negb (get_run_validators s).

(** [validators.disabled()]: generator body up to [yield] / the [finally]. *)
Definition enter_disabled (s : state) : state :=
  let prev := get_run_validators s in
  let s1 := fst (set_run_validators s (ABool false)) in
  {| run := run s1; frames := prev :: frames s1 |}.

Definition exit_disabled (s : state) (k : exit_kind) : state * outcome :=
  match frames s with
  | [] => (s, NoOpenContext)
  | prev :: fs =>
      (* the [finally] clause runs on both kinds of exit *)
      (fst (set_run_validators {| run := run s; frames := fs |} (ABool prev)), Done)
  end.

Definition step (s : state) (o : op) : state * outcome :=
  match o with
  | OSetDisabled b => set_disabled s b
  | OSetRun a => set_run_validators s a
  | OEnter => (enter_disabled s, Done)
  | OExit k => exit_disabled s k
  end.

(** The three read sites.  Each mirrors the literal test in the source. *)
Definition init_runs_validators (s : state) : bool := Bool.eqb (run s) true.       (* is True *)
Definition setter_validate_runs (s : state) : bool := negb (Bool.eqb (run s) false). (* not (is False) *)
Definition validate_runs (s : state) : bool := negb (Bool.eqb (run s) false).

(** What the harness observes after every operation. *)
Record obs := {
  o_outcome : outcome;
  o_get_disabled : bool;
  o_get_run : bool;
  o_init_validates : bool;      (* constructing runs the field validator *)
  o_assign_validates : bool;    (* assigning (setters.validate hooked) runs it *)
  o_validate_validates : bool;  (* attr.validate(inst) runs it *)
  o_init_converts : bool;       (* converters run on construction *)
  o_assign_converts : bool      (* and on assignment (setters.convert hooked) *)
}.

Definition observe (s : state) (oc : outcome) : obs :=
  {| o_outcome := oc;
     o_get_disabled := get_disabled s;
     o_get_run := get_run_validators s;
     o_init_validates := init_runs_validators s;
     o_assign_validates := setter_validate_runs s;
     o_validate_validates := validate_runs s;
     o_init_converts := true;
     o_assign_converts := true |}.

Fixpoint run_ops (s : state) (ops : list op) : list obs :=
  match ops with
  | [] => []
  | o :: rest => let '(s', oc) := step s o in observe s' oc :: run_ops s' rest
  end.

Fixpoint final_state (s : state) (ops : list op) : state :=
  match ops with
  | [] => s
  | o :: rest => final_state (fst (step s o)) rest
  end.

(** ** Manager objects created ahead of use, and the decorator form.

    [validators.disabled()] only builds a generator-based manager object: nothing of its body runs
    until [__enter__].  So creating a manager ([XCreate]) is no operation on the switch, entering a
    manager created earlier is the plain [OEnter] at the state of THAT moment, and calling a function
    decorated with [@validators.disabled()] ([XCallDecorated]) is a complete enter/exit around the
    call (contextlib re-creates the manager for every call). *)
Inductive xop :=
| XBase (o : op)
| XCreate
| XCallDecorated.

Definition xstep (s : state) (x : xop) : state * outcome :=
  match x with
  | XBase o => step s o
  | XCreate => (s, Done)
  | XCallDecorated => exit_disabled (enter_disabled s) ExitNormal
  end.

(** what the decorated function sees while it runs *)
Definition inside_decorated (s : state) : bool := run (enter_disabled s).

Fixpoint run_xops (s : state) (ops : list xop) : list obs :=
  match ops with
  | [] => []
  | o :: rest => let '(s', oc) := xstep s o in observe s' oc :: run_xops s' rest
  end.

Fixpoint final_xstate (s : state) (ops : list xop) : state :=
  match ops with
  | [] => s
  | o :: rest => final_xstate (fst (xstep s o)) rest
  end.

(** ** The reference: block-structured programs and a two-line machine.

    A program is a forest of plain operations and [with] blocks.  The reference
    semantics knows nothing about frames: a block runs its body with the switch
    off and then puts back the value it saw on entry. *)
Inductive prog :=
| PSetDisabled (b : bool)
| PSetRun (a : pyarg)
| PWith (body : list prog) (k : exit_kind).

Definition ref_set (enabled : bool) (a : pyarg) : bool * outcome :=
  match a with ABool b => (b, Done) | ANonBool => (enabled, RaisedTypeError) end.

Definition ref_observe (enabled : bool) (oc : outcome) : obs :=
  {| o_outcome := oc; o_get_disabled := negb enabled; o_get_run := enabled;
     o_init_validates := enabled; o_assign_validates := enabled;
     o_validate_validates := enabled; o_init_converts := true; o_assign_converts := true |}.

(** Returns the observations (one per flat operation, [with] contributing one for
    its entry and one for its exit) and the switch afterwards. *)
Fixpoint ref_run (enabled : bool) (p : prog) {struct p} : list obs * bool :=
  match p with
  | PSetDisabled b => ([ref_observe (negb b) Done], negb b)
  | PSetRun a => let '(e, oc) := ref_set enabled a in ([ref_observe e oc], e)
  | PWith body k =>
      let inner :=
        (fix go (e : bool) (ps : list prog) : list obs :=
           match ps with
           | [] => []
           | q :: qs => let '(os, e') := ref_run e q in os ++ go e' qs
           end) false body in
      (ref_observe false Done :: inner ++ [ref_observe enabled Done], enabled)
  end.

Fixpoint ref_run_seq (enabled : bool) (ps : list prog) : list obs * bool :=
  match ps with
  | [] => ([], enabled)
  | q :: qs => let '(os, e') := ref_run enabled q in
               let '(os', e'') := ref_run_seq e' qs in (os ++ os', e'')
  end.

(** Flattening a block-structured program into interpreter operations. *)
Fixpoint flatten (p : prog) : list op :=
  match p with
  | PSetDisabled b => [OSetDisabled b]
  | PSetRun a => [OSetRun a]
  | PWith body k =>
      OEnter :: (fix go (ps : list prog) : list op :=
                   match ps with [] => [] | q :: qs => flatten q ++ go qs end) body
             ++ [OExit k]
  end.

Fixpoint flatten_seq (ps : list prog) : list op :=
  match ps with [] => [] | q :: qs => flatten q ++ flatten_seq qs end.
