(** * C20 — proofs about hook chains and the init tail under the switch. *)
From Coq Require Import List Bool Arith Lia.
Import ListNotations.
From Attrs Require Import C20.Model C20.Pipe.

Definition off (s : state) : Prop := run s = false.
Definition on (s : state) : Prop := run s = true.


Lemma run_flat_off : forall hs s thr v, off s ->
  run_flat s thr hs v = (fst (run_novalidate hs v), Some (snd (run_novalidate hs v))).
Proof.
  induction hs as [|h r IH]; intros s thr v Hoff; cbn [run_flat run_novalidate]; [reflexivity|].
  destruct h as [| |g|l].
  - unfold setter_validate_runs. rewrite Hoff. cbn. apply IH; assumption.
  - rewrite (IH s thr (conv_fn v) Hoff). destruct (run_novalidate r (conv_fn v)); reflexivity.
  - rewrite (IH s thr (user_fn g v) Hoff). destruct (run_novalidate r (user_fn g v)); reflexivity.
  - apply IH; assumption.
Qed.

Lemma non_val_off : forall hs v, non_val (fst (run_novalidate hs v)) = fst (run_novalidate hs v).
Proof.
  induction hs as [|h r IH]; intros v; cbn [run_novalidate]; [reflexivity|].
  destruct h as [| |g|l]; try apply IH.
  - specialize (IH (conv_fn v)). destruct (run_novalidate r (conv_fn v)); cbn in *. now rewrite IH.
  - specialize (IH (user_fn g v)). destruct (run_novalidate r (user_fn g v)); cbn in *. now rewrite IH.
Qed.

(** With the switch on and no validator raising, the chain does exactly what it does with the
    switch off, plus the validator calls. *)
Lemma run_flat_on_success : forall hs s thr v t o, on s ->
  run_flat s thr hs v = (t, Some o) ->
  non_val t = fst (run_novalidate hs v) /\ o = snd (run_novalidate hs v).
Proof.
  induction hs as [|h r IH]; intros s thr v t o Hon H; cbn [run_flat run_novalidate] in *.
  - inversion H; subst; auto.
  - destruct h as [| |g|l].
    + unfold setter_validate_runs in H. rewrite Hon in H. cbn in H.
      destruct (thr <=? v); [discriminate|].
      destruct (run_flat s thr r v) as [t' o'] eqn:E. inversion H; subst.
      cbn. eapply IH; eauto.
    + destruct (run_flat s thr r (conv_fn v)) as [t' o'] eqn:E. inversion H; subst.
      destruct (IH s thr (conv_fn v) t' o Hon E) as [A B].
      destruct (run_novalidate r (conv_fn v)) as [l n]; cbn in *. split; [f_equal; exact A | exact B].
    + destruct (run_flat s thr r (user_fn g v)) as [t' o'] eqn:E. inversion H; subst.
      destruct (IH s thr (user_fn g v) t' o Hon E) as [A B].
      destruct (run_novalidate r (user_fn g v)) as [l n]; cbn in *. split; [f_equal; exact A | exact B].
    + eapply IH; eauto.
Qed.

Lemma run_bool s : {on s} + {off s}.
Proof. unfold on, off. destruct (run s); auto. Qed.

(** Every completed assignment — in any switch state — leaves the same non-validator trace and the
    same stored value. *)
Lemma hook_unaffected_l : forall h thr v s1 s2 t1 o1 t2 o2,
  run_hook s1 thr h v = (t1, Some o1) -> run_hook s2 thr h v = (t2, Some o2) ->
  non_val t1 = non_val t2 /\ o1 = o2.
Proof.
  unfold run_hook. intros h thr v s1 s2 t1 o1 t2 o2 H1 H2.
  assert (K : forall s t o, run_flat s thr (flatten_hook h) v = (t, Some o) ->
              non_val t = fst (run_novalidate (flatten_hook h) v) /\
              o = snd (run_novalidate (flatten_hook h) v)).
  { intros s t o H. destruct (run_bool s) as [Hon|Hoff].
    - eapply run_flat_on_success; eauto.
    - rewrite (run_flat_off _ _ _ _ Hoff) in H. inversion H; subst. split; [apply non_val_off|reflexivity]. }
  destruct (K _ _ _ H1), (K _ _ _ H2). split; congruence.
Qed.

(** Switched off: no validator runs, nothing raises, every other hook runs. *)
Lemma hook_off_l : forall h thr v s, off s ->
  exists t o, run_hook s thr h v = (t, Some o) /\ existsb is_val t = false /\
              t = fst (run_novalidate (flatten_hook h) v).
Proof.
  intros h thr v s Hoff. unfold run_hook. rewrite (run_flat_off _ _ _ _ Hoff).
  eexists _, _. split; [reflexivity|]. split; [|reflexivity].
  rewrite <- non_val_off. unfold non_val.
  induction (fst (run_novalidate (flatten_hook h) v)) as [|e l IH]; [reflexivity|].
  cbn. destruct (is_val e) eqn:E; cbn; [exact IH| rewrite E; exact IH].
Qed.

(** Switched on: the validator sees the value as transformed by the hooks before it, at every
    [validate] position reached, and the first rejection ends the assignment there. *)

Lemma hook_on_l : forall h thr v s, on s -> run_hook s thr h v = expected_on thr (flatten_hook h) v.
Proof.
  intros h thr v s Hon. unfold run_hook. revert v.
  induction (flatten_hook h) as [|x r IH]; intros v; cbn [run_flat expected_on]; [reflexivity|].
  destruct x as [| |g|l]; try (rewrite IH; reflexivity); try apply IH.
  unfold setter_validate_runs. rewrite Hon. cbn. rewrite IH. reflexivity.
Qed.

(** Nesting is immaterial: a pipe of pipes is the pipe of the concatenation. *)
Lemma flatten_pipe_app : forall a b, flatten_hook (HPipe (a ++ b)) = flatten_hook (HPipe a) ++ flatten_hook (HPipe b).
Proof.
  intros a b. cbn [flatten_hook]. induction a as [|x r IH]; cbn; [reflexivity|].
  rewrite IH, app_assoc. reflexivity.
Qed.

Lemma pipe_nesting_l : forall a b c s thr v,
  run_hook s thr (HPipe (a ++ [HPipe b] ++ c)) v = run_hook s thr (HPipe (a ++ b ++ c)) v.
Proof.
  intros. unfold run_hook. rewrite !flatten_pipe_app. f_equal. f_equal. f_equal.
  cbn [flatten_hook]. rewrite app_nil_r. reflexivity.
Qed.

(** ** The init tail *)
Lemma init_tail_off_l : forall s thr t, off s -> run_init_tail s thr t = (rest_of_init t, true).
Proof. intros s thr t Hoff. unfold run_init_tail, init_runs_validators. rewrite Hoff. reflexivity. Qed.

Lemma filter_ival_validators : forall thr vs tr ok,
  run_validators_tail thr vs = (tr, ok) -> filter (fun e => negb (is_ival e)) tr = [].
Proof.
  induction vs as [|v r IH]; intros tr ok H; cbn in H.
  - inversion H; reflexivity.
  - destruct (thr <=? v). { inversion H; reflexivity. }
    destruct (run_validators_tail thr r) as [t' ok'] eqn:E. inversion H; subst. cbn. eapply IH; eauto.
Qed.

Lemma filter_rest t : filter (fun e => negb (is_ival e)) (rest_of_init t) = rest_of_init t.
Proof. unfold rest_of_init. destruct (t_post_init t), (t_cache_hash t), (t_is_exc t); reflexivity. Qed.

(** Every completed construction performs the same non-validator steps after the assignments, in
    any switch state. *)
Lemma init_tail_unaffected_l : forall s thr t tr,
  run_init_tail s thr t = (tr, true) -> filter (fun e => negb (is_ival e)) tr = rest_of_init t.
Proof.
  intros s thr t tr H. unfold run_init_tail in H. destruct (init_runs_validators s).
  - destruct (run_validators_tail thr (t_validated t)) as [t' ok] eqn:E. destruct ok; [|discriminate].
    inversion H; subst. rewrite filter_app, (filter_ival_validators _ _ _ _ E), filter_rest. reflexivity.
  - inversion H; subst. apply filter_rest.
Qed.

Lemma init_tail_on_all_l : forall s thr t, on s -> (forall v, In v (t_validated t) -> v < thr) ->
  run_init_tail s thr t = (map IVal (t_validated t) ++ rest_of_init t, true).
Proof.
  intros s thr t Hon Hlt. unfold run_init_tail, init_runs_validators. rewrite Hon. cbn.
  assert (K : run_validators_tail thr (t_validated t) = (map IVal (t_validated t), true)).
  { induction (t_validated t) as [|v r IH]; [reflexivity|]. cbn.
    assert (Hv : v < thr) by (apply Hlt; now left).
    apply Nat.leb_gt in Hv. rewrite Hv. rewrite IH; [reflexivity|]. intros w Hw. apply Hlt. now right. }
  rewrite K. reflexivity.
Qed.

(** Non-vacuity. *)
Example pipe_example :
  run_hook {| run := false; frames := [] |} 5 (HPipe [HValidate; HConvert; HPipe [HUser 1; HValidate]; HUser 0]) 9
    = ([EvConv 9; EvUser 1 10; EvUser 0 13], Some 15) /\
  run_hook {| run := true; frames := [] |} 50 (HPipe [HValidate; HConvert; HPipe [HUser 1; HValidate]; HUser 0]) 9
    = ([EvVal 9; EvConv 9; EvUser 1 10; EvVal 13; EvUser 0 13], Some 15) /\
  run_hook {| run := true; frames := [] |} 12 (HPipe [HValidate; HConvert; HPipe [HUser 1; HValidate]; HUser 0]) 9
    = ([EvVal 9; EvConv 9; EvUser 1 10; EvVal 13], None).
Proof. repeat split. Qed.
