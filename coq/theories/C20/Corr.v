(** * C20 — correspondence: the check function evaluated by [coqc] on the
    operation sequences the harness ran against the real library. *)
From Coq Require Import List Bool.
Import ListNotations.
From Attrs Require Import Base C20.Model.

Definition outcome_eqb (a b : outcome) : bool :=
  match a, b with
  | Done, Done | RaisedTypeError, RaisedTypeError | NoOpenContext, NoOpenContext => true
  | _, _ => false
  end.

Definition obs_eqb (a b : obs) : bool :=
  outcome_eqb (o_outcome a) (o_outcome b) &&
  Bool.eqb (o_get_disabled a) (o_get_disabled b) &&
  Bool.eqb (o_get_run a) (o_get_run b) &&
  Bool.eqb (o_init_validates a) (o_init_validates b) &&
  Bool.eqb (o_assign_validates a) (o_assign_validates b) &&
  Bool.eqb (o_validate_validates a) (o_validate_validates b) &&
  Bool.eqb (o_init_converts a) (o_init_converts b) &&
  Bool.eqb (o_assign_converts a) (o_assign_converts b).

Lemma obs_eqb_spec a b : obs_eqb a b = true <-> a = b.
Proof.
  destruct a as [oa a1 a2 a3 a4 a5 a6 a7], b as [ob b1 b2 b3 b4 b5 b6 b7].
  unfold obs_eqb; cbn. split.
  - intros H. repeat (apply andb_true_iff in H as [H ?]).
    repeat match goal with X : Bool.eqb _ _ = true |- _ => apply Bool.eqb_prop in X end.
    destruct oa, ob; try discriminate; subst; reflexivity.
  - intros H; inversion H; subst. destruct ob; cbn; rewrite !Bool.eqb_reflx; reflexivity.
Qed.

(** A case: initial value of the switch, the flat operations, and what the
    implementation showed after each of them. *)
Record case := { c_init : bool; c_ops : list op; c_seen : list obs }.

Definition model_of (c : case) : list obs :=
  run_ops {| run := c_init c; frames := [] |} (c_ops c).

Definition check_case (c : case) : bool := list_eqb obs_eqb (model_of c) (c_seen c).

Lemma check_case_sound c : check_case c = true <-> c_seen c = model_of c.
Proof.
  unfold check_case. rewrite (list_eqb_spec obs_eqb obs_eqb_spec). split; congruence.
Qed.
