(** * C20 — correspondence: the check function evaluated by [coqc] on the
    operation sequences the harness ran against the real library. *)
From Coq Require Import List Bool.
Import ListNotations.
From Coq Require Import Arith.
From Attrs Require Import Base C20.Model C20.Pipe.

Definition outcome_eqb (a b : outcome) : bool :=
  match a, b with
  | Done, Done | RaisedTypeError, RaisedTypeError | NoOpenContext, NoOpenContext => true
  | _, _ => false
  end.

Definition obs_eqb (a b : obs) : bool :=
  outcome_eqb (o_outcome a) (o_outcome b) &&
  Bool.eqb (o_get_disabled a) (o_get_disabled b) &&
  Bool.eqb (o_get_run a) (o_get_run b) &&
  Bool.eqb (o_init_validates a) (o_init_validates b) &&
  Bool.eqb (o_assign_validates a) (o_assign_validates b) &&
  Bool.eqb (o_validate_validates a) (o_validate_validates b) &&
  Bool.eqb (o_init_converts a) (o_init_converts b) &&
  Bool.eqb (o_assign_converts a) (o_assign_converts b).

Lemma obs_eqb_spec a b : obs_eqb a b = true <-> a = b.
Proof.
  destruct a as [oa a1 a2 a3 a4 a5 a6 a7], b as [ob b1 b2 b3 b4 b5 b6 b7].
  unfold obs_eqb; cbn. split.
  - intros H. repeat (apply andb_true_iff in H as [H ?]).
    repeat match goal with X : Bool.eqb _ _ = true |- _ => apply Bool.eqb_prop in X end.
    destruct oa, ob; try discriminate; subst; reflexivity.
  - intros H; inversion H; subst. destruct ob; cbn; rewrite !Bool.eqb_reflx; reflexivity.
Qed.

(** Probes run in the switch state reached at the end of the operation sequence. *)
Record pipe_probe := { pp_hook : hook; pp_thr : nat; pp_v : nat; pp_seen : list hev * option nat }.
Record tail_probe := { tp_tail : init_tail; tp_thr : nat; tp_seen : list iev * bool }.

Definition hev_eqb (a b : hev) : bool :=
  match a, b with
  | EvVal x, EvVal y | EvConv x, EvConv y => Nat.eqb x y
  | EvUser g x, EvUser h y => Nat.eqb g h && Nat.eqb x y
  | _, _ => false
  end.
Definition iev_eqb (a b : iev) : bool :=
  match a, b with
  | IVal x, IVal y => Nat.eqb x y
  | IPost, IPost | IHashCache, IHashCache | IExcInit, IExcInit => true
  | _, _ => false
  end.

Definition pipe_probe_ok (s : state) (p : pipe_probe) : bool :=
  let '(t, o) := run_hook s (pp_thr p) (pp_hook p) (pp_v p) in
  list_eqb hev_eqb t (fst (pp_seen p)) && option_eqb Nat.eqb o (snd (pp_seen p)).
Definition tail_probe_ok (s : state) (p : tail_probe) : bool :=
  let '(t, ok) := run_init_tail s (tp_thr p) (tp_tail p) in
  list_eqb iev_eqb t (fst (tp_seen p)) && Bool.eqb ok (snd (tp_seen p)).

(** A case: initial value of the switch, the flat operations, what the
    implementation showed after each of them, and the probes run at the end. *)
Record case := { c_init : bool; c_ops : list xop; c_seen : list obs;
                 c_pipes : list pipe_probe; c_tails : list tail_probe }.

Definition start_of (c : case) : state := {| run := c_init c; frames := [] |}.

Definition model_of (c : case) :=
  (run_xops (start_of c) (c_ops c),
   map (fun p => run_hook (final_xstate (start_of c) (c_ops c)) (pp_thr p) (pp_hook p) (pp_v p)) (c_pipes c),
   map (fun p => run_init_tail (final_xstate (start_of c) (c_ops c)) (tp_thr p) (tp_tail p)) (c_tails c)).

Definition check_case (c : case) : bool :=
  list_eqb obs_eqb (run_xops (start_of c) (c_ops c)) (c_seen c) &&
  forallb (pipe_probe_ok (final_xstate (start_of c) (c_ops c))) (c_pipes c) &&
  forallb (tail_probe_ok (final_xstate (start_of c) (c_ops c))) (c_tails c).

Lemma check_case_sound c : check_case c = true -> c_seen c = run_xops (start_of c) (c_ops c).
Proof.
  unfold check_case. intros H. apply andb_true_iff in H as [H _]. apply andb_true_iff in H as [H _].
  apply (list_eqb_spec obs_eqb obs_eqb_spec) in H. congruence.
Qed.
