(** * C20 — proofs about the switch model. *)

From Coq Require Import List Bool Arith Lia.
Import ListNotations.
From Attrs Require Import C20.Model.

(** ** Step-level facts *)

Lemma step_frames_run (s : state) (o : op) :
  forall s' oc, step s o = (s', oc) ->
  match o with
  | OSetDisabled b => run s' = negb b /\ frames s' = frames s /\ oc = Done
  | OSetRun (ABool b) => run s' = b /\ frames s' = frames s /\ oc = Done
  | OSetRun ANonBool => s' = s /\ oc = RaisedTypeError
  | OEnter => run s' = false /\ frames s' = run s :: frames s /\ oc = Done
  | OExit _ =>
      match frames s with
      | [] => s' = s /\ oc = NoOpenContext
      | p :: fs => run s' = p /\ frames s' = fs /\ oc = Done
      end
  end.
Proof.
  intros s' oc H. destruct o as [b | [b|] | | k]; cbn in H.
  - inversion H; subst; cbn; auto.
  - inversion H; subst; cbn; auto.
  - inversion H; subst; auto.
  - inversion H; subst; cbn; auto.
  - unfold exit_disabled in H. destruct (frames s) as [|p fs] eqn:E.
    + inversion H; subst; auto.
    + inversion H; subst; cbn; auto.
Qed.

(** The legacy setter rejects a non-bool argument and changes nothing. *)
Lemma legacy_setter_rejects_nonbool_l (s : state) :
  step s (OSetRun ANonBool) = (s, RaisedTypeError).
Proof. reflexivity. Qed.

(** ** Observations: the getters and the three read sites are views of one bit. *)

Definition obs_coherent (o : obs) : Prop :=
  o_get_disabled o = negb (o_get_run o) /\
  o_init_validates o = o_get_run o /\
  o_assign_validates o = o_get_run o /\
  o_validate_validates o = o_get_run o /\
  o_init_converts o = true /\ o_assign_converts o = true.

Lemma observe_coherent s oc : obs_coherent (observe s oc).
Proof.
  unfold obs_coherent, observe, get_disabled, get_run_validators,
    init_runs_validators, setter_validate_runs, validate_runs; cbn.
  destruct (run s); cbn; auto 10.
Qed.

Lemma views_agree_l : forall ops s, Forall obs_coherent (run_ops s ops).
Proof.
  induction ops as [|o ops IH]; intros s; cbn [run_ops]; [constructor|].
  destruct (step s o) as [s' oc] eqn:E. constructor; [apply observe_coherent | apply IH].
Qed.

Lemma observe_ref s oc : observe s oc = ref_observe (run s) oc.
Proof.
  unfold observe, ref_observe, get_disabled, get_run_validators,
    init_runs_validators, setter_validate_runs, validate_runs.
  destruct (run s); reflexivity.
Qed.

(** ** Sequencing lemmas *)

Lemma run_ops_app : forall a b s,
  run_ops s (a ++ b) = run_ops s a ++ run_ops (final_state s a) b.
Proof.
  induction a as [|o a IH]; intros b s; cbn; [reflexivity|].
  destruct (step s o) as [s' oc] eqn:E; cbn. now rewrite IH.
Qed.

Lemma final_state_app : forall a b s,
  final_state s (a ++ b) = final_state (final_state s a) b.
Proof. induction a as [|o a IH]; intros; cbn; [reflexivity | apply IH]. Qed.

(** ** Refinement: the frame machine implements the two-line reference on every
    block-structured program, of any size and nesting depth. *)

(** A nested induction principle for [prog] (the list inside [PWith]). *)
Fixpoint prog_ind' (P : prog -> Prop)
  (Hd : forall b, P (PSetDisabled b)) (Hr : forall a, P (PSetRun a))
  (Hw : forall body k, Forall P body -> P (PWith body k)) (p : prog) : P p :=
  match p with
  | PSetDisabled b => Hd b
  | PSetRun a => Hr a
  | PWith body k =>
      Hw body k ((fix go (ps : list prog) : Forall P ps :=
                    match ps with
                    | [] => Forall_nil P
                    | q :: qs => Forall_cons q (prog_ind' P Hd Hr Hw q) (go qs)
                    end) body)
  end.

Definition refines (p : prog) : Prop :=
  forall s,
    run_ops s (flatten p) = fst (ref_run (run s) p) /\
    run (final_state s (flatten p)) = snd (ref_run (run s) p) /\
    frames (final_state s (flatten p)) = frames s.

Definition go_flat := (fix go (ps : list prog) : list op :=
   match ps with [] => [] | q :: qs => flatten q ++ go qs end).
Definition go_ref := (fix go (e : bool) (ps : list prog) : list obs :=
   match ps with
   | [] => []
   | q :: qs => let '(os, e') := ref_run e q in os ++ go e' qs
   end).

Lemma go_flat_seq ps : go_flat ps = flatten_seq ps.
Proof. induction ps; cbn; congruence. Qed.

Lemma go_ref_seq : forall ps e, go_ref e ps = fst (ref_run_seq e ps).
Proof.
  induction ps as [|q qs IH]; intros e; cbn; [reflexivity|].
  destruct (ref_run e q) as [os e'] eqn:E. rewrite IH.
  destruct (ref_run_seq e' qs); reflexivity.
Qed.

Lemma seq_refines : forall ps, Forall refines ps -> forall s,
  run_ops s (flatten_seq ps) = fst (ref_run_seq (run s) ps) /\
  run (final_state s (flatten_seq ps)) = snd (ref_run_seq (run s) ps) /\
  frames (final_state s (flatten_seq ps)) = frames s.
Proof.
  induction ps as [|q qs IH]; intros HF s; cbn [flatten_seq ref_run_seq].
  - cbn. auto.
  - inversion HF as [|? ? Hq Hqs]; subst.
    destruct (Hq s) as (H1 & H2 & H3).
    destruct (IH Hqs (final_state s (flatten q))) as (I1 & I2 & I3).
    rewrite run_ops_app, final_state_app.
    destruct (ref_run (run s) q) as [os e'] eqn:E; cbn [fst snd] in *.
    rewrite H2 in I1, I2.
    destruct (ref_run_seq e' qs) as [os' e''] eqn:E'; cbn [fst snd] in *.
    rewrite H1, I1, I2, I3, H3. auto.
Qed.

Lemma refinement_prog : forall p, refines p.
Proof.
  induction p as [b | a | body k IH] using prog_ind'; intros s.
  - cbn. rewrite observe_ref. cbn. auto.
  - destruct a as [b|]; cbn; rewrite observe_ref; cbn; auto.
  - cbn [flatten ref_run]. fold go_flat. fold go_ref.
    rewrite go_flat_seq, go_ref_seq.
    set (s1 := enter_disabled s).
    assert (R1 : run s1 = false) by reflexivity.
    assert (F1 : frames s1 = run s :: frames s) by reflexivity.
    destruct (seq_refines body IH s1) as (B1 & B2 & B3).
    cbn [run_ops step]. fold s1.
    rewrite run_ops_app.
    cbn [final_state step fst]. fold s1.
    rewrite final_state_app.
    set (s2 := final_state s1 (flatten_seq body)) in *.
    rewrite B1, R1. cbn [run_ops final_state].
    unfold step, exit_disabled. rewrite B3, F1. cbn.
    rewrite !observe_ref. cbn. auto.
Qed.

Theorem refinement_l : forall ps s,
  run_ops s (flatten_seq ps) = fst (ref_run_seq (run s) ps) /\
  run (final_state s (flatten_seq ps)) = snd (ref_run_seq (run s) ps) /\
  frames (final_state s (flatten_seq ps)) = frames s.
Proof.
  intros ps. apply seq_refines. apply Forall_forall. intros p _. apply refinement_prog.
Qed.

(** The reference puts back the entry value after a block — whatever the body does. *)
Lemma ref_with_restores body k e : snd (ref_run e (PWith body k)) = e.
Proof. reflexivity. Qed.

Theorem disabled_restores_l : forall body k s,
  let s' := final_state s (flatten (PWith body k)) in
  run s' = run s /\ frames s' = frames s.
Proof.
  intros body k s. destruct (refinement_prog (PWith body k) s) as (_ & H2 & H3).
  cbn zeta. rewrite H2, H3. auto.
Qed.

(** Inside the block (right after entry) validation is off. *)
Lemma inside_disabled_l s : run (fst (step s OEnter)) = false.
Proof. reflexivity. Qed.

(** ** The same restoration fact stated on flat sequences, for the balanced
    operation sequences (and their prefixes) the correspondence check enumerates. *)

Fixpoint depth_after (d : nat) (ops : list op) : option nat :=
  match ops with
  | [] => Some d
  | OEnter :: r => depth_after (S d) r
  | OExit _ :: r => match d with 0 => None | S d' => depth_after d' r end
  | _ :: r => depth_after d r
  end.

Lemma balanced_frames : forall ops d n s pre base,
  depth_after d ops = Some n -> length pre = d -> frames s = pre ++ base ->
  exists pushed, length pushed = n /\ frames (final_state s ops) = pushed ++ base.
Proof.
  induction ops as [|o ops IH]; intros d n s pre base Hd Hl Hf; cbn in *.
  - inversion Hd; subst. eauto.
  - destruct (step s o) as [s' oc] eqn:E. pose proof (step_frames_run s o s' oc E) as H.
    cbn [fst].
    destruct o as [b | [b|] | | k].
    + destruct H as (_ & Hfr & _). eapply IH; eauto. now rewrite Hfr.
    + destruct H as (_ & Hfr & _). eapply IH; eauto. now rewrite Hfr.
    + destruct H as (-> & _). eapply IH; eauto.
    + destruct H as (_ & Hfr & _). eapply (IH (S d) n s' (run s :: pre)); eauto.
      * cbn; lia.
      * rewrite Hfr, Hf. reflexivity.
    + destruct d as [|d']; [discriminate|].
      destruct pre as [|p pre']; [discriminate|]. cbn in Hl.
      rewrite Hf in H. cbn in H. destruct H as (_ & Hfr & _).
      eapply (IH d' n s' pre'); eauto.
Qed.

Theorem balanced_block_restores_l : forall body k s,
  depth_after 0 body = Some 0 ->
  let s' := final_state s (OEnter :: body ++ [OExit k]) in
  run s' = run s /\ frames s' = frames s.
Proof.
  intros body k s Hb. cbn zeta. cbn [final_state step fst].
  rewrite final_state_app. set (s1 := enter_disabled s).
  destruct (balanced_frames body 0 0 s1 [] (run s :: frames s) Hb eq_refl eq_refl)
    as (pushed & Hl & Hfr).
  destruct pushed; [|discriminate]. cbn in Hfr.
  cbn [final_state]. unfold step, exit_disabled. rewrite Hfr. cbn. auto.
Qed.

(** Non-vacuity: a concrete nested program on which the premises hold and the
    body really does flip the switch in both directions. *)
Example restores_example :
  let body := [OSetDisabled false; OEnter; OSetRun (ABool true); OExit ExitRaise; OSetDisabled true] in
  depth_after 0 body = Some 0 /\
  map o_get_run (run_ops {| run := false; frames := [] |} (OEnter :: body ++ [OExit ExitNormal]))
  = [false; true; false; true; true; false; false].
Proof. split; reflexivity. Qed.

(** ** Managers created ahead of use and the decorator form *)

Lemma create_noop_l s : xstep s XCreate = (s, Done).
Proof. reflexivity. Qed.

Lemma call_decorated_restores_l s :
  fst (xstep s XCallDecorated) = s /\ snd (xstep s XCallDecorated) = Done /\ inside_decorated s = false.
Proof. destruct s as [r fs]; cbn. repeat split. Qed.

(** Dropping every creation step changes neither the states reached nor what is observed after
    the remaining steps. *)
Fixpoint erase_creates (ops : list xop) : list xop :=
  match ops with
  | [] => []
  | XCreate :: r => erase_creates r
  | o :: r => o :: erase_creates r
  end.

Lemma erase_creates_state_l : forall ops s, final_xstate s (erase_creates ops) = final_xstate s ops.
Proof.
  induction ops as [|o ops IH]; intros s; [reflexivity|].
  destruct o as [b| |]; cbn [erase_creates final_xstate]; try apply IH.
Qed.

Lemma base_ops_embed_l : forall ops s,
  run_xops s (map XBase ops) = run_ops s ops /\ final_xstate s (map XBase ops) = final_state s ops.
Proof.
  induction ops as [|o ops IH]; intros s; [split; reflexivity|].
  cbn [map run_xops run_ops final_xstate final_state xstep].
  destruct (step s o) as [s' oc] eqn:E. cbn [fst]. destruct (IH s') as [A B]. rewrite A, B. split; reflexivity.
Qed.
