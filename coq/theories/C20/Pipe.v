(** * C20 — on_setattr hook chains and the generated [__init__] tail under the switch: executable model.

    Mirrors [attr/setters.py] ([pipe], [validate], [convert]) and the tail of the generated
    [__init__] (validator block, [__attrs_post_init__], hash-cache initialisation,
    [BaseException.__init__]).  Definitions only; proofs in [C20/PipeProofs.v]. *)
From Coq Require Import List Bool Arith.
Import ListNotations.
From Attrs Require Import C20.Model.

(** A hook tree: what a user can hand to [on_setattr]: the two stock setters, any callable of
    their own, and [setters.pipe] / a list of those, nested to any depth. *)
Inductive hook :=
| HValidate
| HConvert
| HUser (tag : nat)
| HPipe (hs : list hook).

(** Trace events of one assignment. *)
Inductive hev := EvVal (v : nat) | EvConv (v : nat) | EvUser (tag : nat) (v : nat).

Definition is_val (e : hev) : bool := match e with EvVal _ => true | _ => false end.
Definition non_val (t : list hev) : list hev := filter (fun e => negb (is_val e)) t.

(** The field under test: its converter maps v to v+1, the user hook [t] maps v to v+t+2, its
    validator raises iff the value is at least [thr]. *)
Definition conv_fn (v : nat) : nat := S v.
Definition user_fn (t v : nat) : nat := v + t + 2.

Fixpoint flatten_hook (h : hook) : list hook :=
  match h with
  | HPipe hs => (fix go (l : list hook) : list hook :=
                   match l with [] => [] | x :: r => flatten_hook x ++ go r end) hs
  | _ => [h]
  end.

(** [wrapped_pipe]: [rv = setter(instance, attrib, rv)] for each setter in order; an exception
    from a validator ends the assignment (result [None], the attribute keeps its old value). *)
Fixpoint run_flat (s : state) (thr : nat) (hs : list hook) (v : nat) : list hev * option nat :=
  match hs with
  | [] => ([], Some v)
  | HValidate :: r =>
      if setter_validate_runs s then
        if thr <=? v then ([EvVal v], None)
        else let '(t, o) := run_flat s thr r v in (EvVal v :: t, o)
      else run_flat s thr r v
  | HConvert :: r => let '(t, o) := run_flat s thr r (conv_fn v) in (EvConv v :: t, o)
  | HUser g :: r => let '(t, o) := run_flat s thr r (user_fn g v) in (EvUser g v :: t, o)
  | HPipe _ :: r => run_flat s thr r v      (* unreachable after flatten_hook *)
  end.

Definition run_hook (s : state) (thr : nat) (h : hook) (v : nat) : list hev * option nat :=
  run_flat s thr (flatten_hook h) v.

(** ** Reference functions the theorems are stated against. *)
(** What the chain does when validators do not exist at all: the reference that "unaffected by
    the switch" is measured against. *)
Fixpoint run_novalidate (hs : list hook) (v : nat) : list hev * nat :=
  match hs with
  | [] => ([], v)
  | HValidate :: r => run_novalidate r v
  | HConvert :: r => let '(t, o) := run_novalidate r (conv_fn v) in (EvConv v :: t, o)
  | HUser g :: r => let '(t, o) := run_novalidate r (user_fn g v) in (EvUser g v :: t, o)
  | HPipe _ :: r => run_novalidate r v
  end.

(** With the switch on. *)
Fixpoint expected_on (thr : nat) (hs : list hook) (v : nat) : list hev * option nat :=
  match hs with
  | [] => ([], Some v)
  | HValidate :: r => if thr <=? v then ([EvVal v], None)
                      else let '(t, o) := expected_on thr r v in (EvVal v :: t, o)
  | HConvert :: r => let '(t, o) := expected_on thr r (conv_fn v) in (EvConv v :: t, o)
  | HUser g :: r => let '(t, o) := expected_on thr r (user_fn g v) in (EvUser g v :: t, o)
  | HPipe _ :: r => expected_on thr r v
  end.

(** ** Tail of the generated [__init__]. *)
Record init_tail := {
  t_validated : list nat;        (* values of the fields that have a validator, in order *)
  t_post_init : bool;
  t_cache_hash : bool;
  t_is_exc : bool
}.
Inductive iev := IVal (v : nat) | IPost | IHashCache | IExcInit.

Definition is_ival (e : iev) : bool := match e with IVal _ => true | _ => false end.

(** validators, then post-init, then hash cache, then BaseException.__init__ — a validator that
    raises (value at least [thr]) ends construction. *)
Fixpoint run_validators_tail (thr : nat) (vs : list nat) : list iev * bool :=
  match vs with
  | [] => ([], true)
  | v :: r => if thr <=? v then ([IVal v], false)
              else let '(t, ok) := run_validators_tail thr r in (IVal v :: t, ok)
  end.

Definition rest_of_init (t : init_tail) : list iev :=
  (if t_post_init t then [IPost] else []) ++
  (if t_cache_hash t then [IHashCache] else []) ++
  (if t_is_exc t then [IExcInit] else []).

Definition run_init_tail (s : state) (thr : nat) (t : init_tail) : list iev * bool :=
  if init_runs_validators s then
    let '(tr, ok) := run_validators_tail thr (t_validated t) in
    if ok then (tr ++ rest_of_init t, true) else (tr, false)
  else (rest_of_init t, true).
