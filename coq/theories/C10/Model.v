(** * C10 — copy / deepcopy / pickle round trip: executable model.

    Mirrors, for single-inheritance chains of attrs classes with distinct field
    names, the state-transfer logic of

    - [attr/_make.py]: [_ClassBuilder._make_getstate_setstate] ([slots_getstate],
      [slots_setstate] incl. the legacy tuple branch and the cache reset), the
      [getstate_setstate] decision in [attrs.wrap]
      ([_determine_whether_to_implement (…, default=slots)]), [_CacheHashWrapper]
      ([__reduce__] gives [None]), the cached branch of [_make_hash_script], the cache
      initialisation at the end of [_attrs_to_init_script], the [__slots__] tuple
      built by [_create_slots_class] (own names, [__weakref__], cache slot);
    - CPython 3.12 (abstractly, trusted): [object.__reduce_ex__] /
      [copyreg._reduce_ex] / [object.__getstate__] / [copyreg._slotnames],
      [copy._reconstruct] and pickle's BUILD.

    Definitions only; proofs are in [C10/Proofs.v]. *)
From Coq Require Import List Bool Arith.
Import ListNotations.

(** ** Values *)

Definition fname := nat.

(** Attribute names that matter: a field, or [_attrs_cached_hash]. *)
Inductive key := KF (n : fname) | KCache.

Definition key_eqb (a b : key) : bool :=
  match a, b with
  | KF x, KF y => Nat.eqb x y
  | KCache, KCache => true
  | _, _ => false
  end.

(** A field value: an opaque Python object identified up to [==] by a number;
    [VH] hashable, [VU] unhashable (hash() raises TypeError).  Oracle assumptions
    (see Proofs): [copy.deepcopy] and a pickle round trip of a field value give
    an [==]-equal value of the same hashability. *)
Inductive val := VH (n : nat) | VU (n : nat).

Definition val_eqb (a b : val) : bool :=
  match a, b with
  | VH x, VH y | VU x, VU y => Nat.eqb x y
  | _, _ => false
  end.

Definition val_hashable (v : val) : bool := match v with VH _ => true | VU _ => false end.

(** The hash code of an instance is modelled injectively as the tuple of the hashed
    field values (the class part is the same on both sides of every comparison). *)
Definition hcode := list val.

(** What an attribute can hold: a field value, [None], or a [_CacheHashWrapper]. *)
Inductive pv := PV (v : val) | PNone | PWrap (h : hcode).

(** ** Class specifications: the decorator arguments of one class *)

Record cspec := C {
  s_slots : bool;
  s_frozen : bool;            (* frozen=True on this class *)
  s_cache : bool;             (* cache_hash *)
  s_weakref : bool;           (* weakref_slot *)
  s_gs : option bool;         (* getstate_setstate *)
  s_autodetect : bool;        (* auto_detect *)
  s_usergs : bool;            (* class body defines __getstate__ and __setstate__ *)
  s_hash : bool;              (* unsafe_hash=True (otherwise None) *)
  s_own : list fname          (* own fields, definition order *)
}.

(** A class is given by its MRO without [object], most derived class first. *)
Definition mro := list cspec.

(** [_transform_attrs]: inherited fields first (farthest base first), then own. *)
Fixpoint attr_names (m : mro) : list fname :=
  match m with
  | [] => []
  | c :: bases => attr_names bases ++ s_own c
  end.

(** [is_frozen = frozen or _has_frozen_base_class(cls)] *)
Definition eff_frozen (m : mro) : bool := existsb s_frozen m.

(** [__hash__] is generated iff [unsafe_hash=True] or (eq and frozen); otherwise
    [make_unhashable] (eq is always on here). *)
Definition hashable (m : mro) : bool :=
  match m with
  | [] => false
  | c :: _ => s_hash c || eff_frozen m
  end.

Definition leaf_cache (m : mro) : bool :=
  match m with [] => false | c :: _ => s_cache c end.

Definition leaf_slots (m : mro) : bool :=
  match m with [] => false | c :: _ => s_slots c end.

(** ** The getstate_setstate decision ([_determine_whether_to_implement]) *)

(** [inh]: the class would inherit an attrs-generated [__getstate__]
    ([_inherits_attrs_getstate(cls)]: the resolved [__getstate__] carries
    [__attrs_generated__]; a pair in the class's own body hides it). *)
Definition gs_decision (c : cspec) (inh : bool) : bool :=
  match s_gs c with
  | Some flag => flag
  | None =>
      if s_autodetect c && s_usergs c then false
      else s_slots c || (negb (s_usergs c) && inh)   (* default=slots or _inherits_attrs_getstate *)
  end.

(** What the class's own [__dict__] holds for [__getstate__]/[__setstate__]. *)
Inductive gskind := GGen | GUser | GNone.

Definition gs_of (c : cspec) (inh : bool) : gskind :=
  if gs_decision c inh then GGen else if s_usergs c then GUser else GNone.

(** Attribute lookup of [__getstate__] along the MRO.  The answer carries the MRO
    suffix starting at the defining class: the generated pair closes over THAT
    class's [_attr_names] and [cache_hash]. *)
Inductive resolution := RGen (r : mro) | RUser (r : mro) | RDefault.

Definition is_gen (r : resolution) : bool := match r with RGen _ => true | _ => false end.

Fixpoint resolve (m : mro) : resolution :=
  match m with
  | [] => RDefault
  | c :: bases =>
      let rb := resolve bases in
      match gs_of c (is_gen rb) with
      | GGen => RGen m
      | GUser => RUser m
      | GNone => rb
      end
  end.

(** Per class of the MRO: what its own [__dict__] holds. *)
Fixpoint gs_kinds (m : mro) : list gskind :=
  match m with
  | [] => []
  | c :: bases => gs_of c (is_gen (resolve bases)) :: gs_kinds bases
  end.

(** ** Slots ([_create_slots_class]) *)

(** Some class of the chain has [__weakref__] in its [__dict__]: a dict class
    (or the dict class's ancestors) or a slotted class that added the slot. *)
Definition weakref_present (m : mro) : bool :=
  existsb (fun c => negb (s_slots c) || s_weakref c) m.

(** Truthiness of [cls.__slots__] of the class heading [m] (must be slotted). *)
Definition own_slots_nonempty (m : mro) : bool :=
  match m with
  | [] => false
  | c :: bases =>
      negb (match s_own c with [] => true | _ => false end)
      || (s_weakref c && negb (weakref_present bases))
      || s_cache c
  end.

(** [getattr(self, "__slots__", None)] is truthy: the nearest [__slots__]. *)
Fixpoint slots_truthy (m : mro) : bool :=
  match m with
  | [] => false
  | c :: bases => if s_slots c then own_slots_nonempty m else slots_truthy bases
  end.

(** [copyreg._slotnames(cls)]: every name in a [__slots__] of the MRO except
    [__dict__] and [__weakref__]. *)
Fixpoint slotnames (m : mro) : list key :=
  match m with
  | [] => []
  | c :: bases =>
      (if s_slots c
       then map KF (s_own c) ++ (if s_cache c then [KCache] else [])
       else [])
      ++ slotnames bases
  end.

(** The type has a slot descriptor (a data descriptor) for the name. *)
Definition is_slot (m : mro) (k : key) : bool := existsb (key_eqb k) (slotnames m).

(** ** Instances *)

Definition store := list (key * pv).

Fixpoint get (s : store) (k : key) : option pv :=
  match s with
  | [] => None
  | (k', v) :: r => if key_eqb k k' then Some v else get r k
  end.

Record inst := MkI { i_dict : store; i_slots : store }.

Definition empty : inst := MkI [] [].

(** [object.__setattr__]: a slot descriptor wins, otherwise the instance dict.
    (Every name written in this model is a field of the chain or the cache of a
    class of the chain, so the no-slot-and-no-dict AttributeError is unreachable.) *)
Definition obj_setattr (m : mro) (i : inst) (k : key) (v : pv) : inst :=
  if is_slot m k then MkI (i_dict i) ((k, v) :: i_slots i)
  else MkI ((k, v) :: i_dict i) (i_slots i).

(** Attribute read: the slot descriptor shadows the instance dict. *)
Definition getattr (m : mro) (i : inst) (k : key) : option pv :=
  if is_slot m k then get (i_slots i) k else get (i_dict i) k.

Fixpoint set_all (m : mro) (i : inst) (l : store) : inst :=
  match l with
  | [] => i
  | (k, v) :: r => set_all m (obj_setattr m i k v) r
  end.

(** ** [__init__] ([_attrs_to_init_script]) with field values [fv] *)

Definition init_cache (m : mro) (i : inst) : inst :=
  if leaf_cache m then
    if eff_frozen m && negb (leaf_slots m) && negb (is_slot m KCache)
    then MkI ((KCache, PNone) :: i_dict i) (i_slots i)   (* _inst_dict['_attrs_cached_hash'] = None *)
    else obj_setattr m i KCache PNone   (* _setattr(...) resp. self._attrs_cached_hash = None *)
  else i.

Definition init (m : mro) (fv : fname -> val) : inst :=
  init_cache m (set_all m empty (map (fun n => (KF n, PV (fv n))) (attr_names m))).

(** ** [__hash__] ([_make_hash_script]) *)

Inductive hres := HTypeErr | HAttrErr | HVal (h : hcode).

(** Reads every field (AttributeError on the first unset one), then hashes the tuple. *)
Fixpoint read_fields (m : mro) (i : inst) (ns : list fname) : option (list val) :=
  match ns with
  | [] => Some []
  | n :: r =>
      match getattr m i (KF n) with
      | Some (PV v) =>
          match read_fields m i r with Some vs => Some (v :: vs) | None => None end
      | _ => None
      end
  end.

Definition compute_hash (m : mro) (i : inst) : hres :=
  match read_fields m i (attr_names m) with
  | None => HAttrErr
  | Some vs => if forallb val_hashable vs then HVal vs else HTypeErr
  end.

Definition do_hash (m : mro) (i : inst) : hres * inst :=
  if negb (hashable m) then (HTypeErr, i)            (* __hash__ = None *)
  else if leaf_cache m then
    match getattr m i KCache with
    | None => (HAttrErr, i)
    | Some PNone =>
        match compute_hash m i with
        | HVal h => (HVal h, obj_setattr m i KCache (PWrap h))
        | e => (e, i)
        end
    | Some (PWrap h) => (HVal h, i)
    | Some (PV _) => (HAttrErr, i)                    (* unreachable *)
    end
  else (compute_hash m i, i).

(** ** [__eq__]: same class (by construction), then field-wise [==] with short circuit *)

Inductive eres := EqTrue | EqFalse | EqAttrErr.

Fixpoint do_eq (m : mro) (a b : inst) (ns : list fname) : eres :=
  match ns with
  | [] => EqTrue
  | n :: r =>
      match getattr m a (KF n), getattr m b (KF n) with
      | Some (PV x), Some (PV y) => if val_eqb x y then do_eq m a b r else EqFalse
      | _, _ => EqAttrErr
      end
  end.

(** ** Histories *)

Inductive preop := PHash | PMut (n : fname) (v : val).

Definition apply_pre (m : mro) (i : inst) (p : preop) : inst :=
  match p with
  | PHash => snd (do_hash m i)
  | PMut n v => if eff_frozen m then i (* FrozenInstanceError *) else obj_setattr m i (KF n) (PV v)
  end.

Fixpoint apply_hist (m : mro) (i : inst) (h : list preop) : inst :=
  match h with
  | [] => i
  | p :: r => apply_hist m (apply_pre m i p) r
  end.

(** ** The reduce protocol *)

Inductive op := OCopy | ODeep | OPickle (proto : nat) | OLegacy.

(** What happens to a value on the wire: [copy.copy] shares the object; deepcopy
    and pickle rebuild it through [__reduce_ex__], which for the cache wrapper
    gives [None]. *)
Definition deep_pv (v : pv) : pv :=
  match v with PV x => PV x | PNone => PNone | PWrap _ => PNone end.

Definition xfer (o : op) (v : pv) : pv :=
  match o with OCopy | OLegacy => v | ODeep | OPickle _ => deep_pv v end.

Definition xfer_store (o : op) (s : store) : store := map (fun kv => (fst kv, xfer o (snd kv))) s.

Inductive state :=
| StNone
| StDict (d : store)
| StPair (d : option store) (s : store)       (* copyreg: (dict-or-None, slots) *)
| StTuple (vs : list pv).                      (* pre-22.2 attrs state *)

Definition xfer_state (o : op) (st : state) : state :=
  match st with
  | StNone => StNone
  | StDict d => StDict (xfer_store o d)
  | StPair d s => StPair (option_map (xfer_store o) d) (xfer_store o s)
  | StTuple vs => StTuple (map (xfer o) vs)
  end.

(** [bool(state)] *)
Definition truthy (st : state) : bool :=
  match st with
  | StNone => false
  | StDict [] => false
  | StDict _ => true
  | StPair _ _ => true
  | StTuple [] => false
  | StTuple _ => true
  end.

Definition not_none (st : state) : bool := match st with StNone => false | _ => true end.

(** [{name: getattr(self, name) for name in state_attr_names}] *)
Fixpoint read_attrs (m : mro) (i : inst) (ns : list fname) : option store :=
  match ns with
  | [] => Some []
  | n :: r =>
      match getattr m i (KF n), read_attrs m i r with
      | Some v, Some s => Some ((KF n, v) :: s)
      | _, _ => None
      end
  end.

(** [object.__getstate__]: the instance dict (None when empty) and the set slots. *)
Fixpoint slot_values (i : inst) (ks : list key) : store :=
  match ks with
  | [] => []
  | k :: r => match get (i_slots i) k with
              | Some v => (k, v) :: slot_values i r
              | None => slot_values i r
              end
  end.

Definition default_getstate (m : mro) (i : inst) : state :=
  let d := match i_dict i with [] => None | l => Some l end in
  match slot_values i (slotnames m) with
  | [] => match d with None => StNone | Some l => StDict l end
  | sv => StPair d sv
  end.

Inductive outcome := XOk (y : inst) | XTypeError | XFrozen | XAttrError | XNA.

(** [(state, is there a BUILD / a setstate call)] or an exception *)
Definition reduce (m : mro) (i : inst) (o : op) : state * bool + outcome :=
  let getstate : option state :=
    match resolve m with
    | RGen r | RUser r => option_map StDict (read_attrs m i (attr_names r))
    | RDefault => Some (default_getstate m i)
    end in
  let old_proto := match o with OPickle p => Nat.ltb p 2 | _ => false end in
  if old_proto
     && (match resolve m with RDefault => true | _ => false end)
     && slots_truthy m
  then inr XTypeError       (* copyreg._reduce_ex: __slots__ without __getstate__ *)
  else match getstate with
       | None => inr XAttrError
       | Some st => inl (st, if old_proto then truthy st else not_none st)
       end.

(** [slots_setstate] of the class heading [r], run on instance [y] of class [m]. *)
Definition pick (d : store) (ns : list fname) : store :=
  flat_map (fun n => match get d (KF n) with Some v => [(KF n, v)] | None => [] end) ns.

Definition gen_setstate (m r : mro) (st : state) (y : inst) : inst :=
  let names := attr_names r in
  let y1 :=
    match st with
    | StTuple vs => set_all m y (combine (map KF names) vs)
    | StDict d => set_all m y (pick d names)
    | _ => y                                     (* never produced by slots_getstate *)
    end in
  if leaf_cache r then obj_setattr m y1 KCache PNone else y1.

(** No [__setstate__]: [copy._reconstruct] / pickle [load_build]:
    [y.__dict__.update(state)], then [setattr(y, k, v)] for the slot state. *)
Definition default_setstate (m : mro) (st : state) (y : inst) : outcome :=
  let '(d, s) := match st with
                 | StPair d s => (d, s)
                 | StDict d => (Some d, [])
                 | _ => (None, [])
                 end in
  let y1 := match d with Some l => MkI (l ++ i_dict y) (i_slots y) | None => y end in
  match s with
  | [] => XOk y1
  | _ => if eff_frozen m then XFrozen else XOk (set_all m y1 s)
  end.

Definition reconstruct (m : mro) (st : state) : outcome :=
  match resolve m with
  | RGen r | RUser r => XOk (gen_setstate m r st empty)
  | RDefault => default_setstate m st empty
  end.

Definition run (m : mro) (x : inst) (o : op) : outcome :=
  match o with
  | OLegacy =>
      match resolve m with
      | RGen r =>
          match read_attrs m x (attr_names r) with
          | Some s => XOk (gen_setstate m r (StTuple (map snd s)) empty)
          | None => XAttrError
          end
      | _ => XNA
      end
  | _ =>
      match reduce m x o with
      | inr e => e
      | inl (st, has_state) =>
          if has_state then reconstruct m (xfer_state o st) else XOk empty
      end
  end.

(** ** Observations *)

Inductive otag := TOk | TTypeError | TFrozen | TAttrError | TOther.
Inductive fstat := FEq | FNe | FMissing.
Inductive hstat := HsOk | HsTypeErr | HsAttrErr.
Inductive hobs := HoTypeErr | HoAttrErr | HoVal (eq_fresh eq_orig : bool).

Record obs := Ob {
  o_tag : otag;
  o_fields : list fstat;      (* per field of the class, own and inherited *)
  o_eq : eres;                (* copy == original *)
  o_horig : hstat;            (* hash(original) *)
  o_hash : hobs               (* hash(copy), against a fresh instance and the original *)
}.

Definition field_stat (m : mro) (x y : inst) (n : fname) : fstat :=
  match getattr m y (KF n), getattr m x (KF n) with
  | Some (PV a), Some (PV b) => if val_eqb a b then FEq else FNe
  | None, _ => FMissing
  | _, _ => FNe
  end.

Definition hres_eqb (a b : hres) : bool :=
  match a, b with
  | HVal x, HVal y => (fix eq (p q : list val) :=
                         match p, q with
                         | [], [] => true
                         | u :: p', w :: q' => val_eqb u w && eq p' q'
                         | _, _ => false
                         end) x y
  | _, _ => false
  end.

Definition hstat_of (h : hres) : hstat :=
  match h with HVal _ => HsOk | HTypeErr => HsTypeErr | HAttrErr => HsAttrErr end.

(** hash of a fresh instance built by
    [__init__] from the copy's field values (not constructible if one is unset). *)
Fixpoint lookup_val (ns : list fname) (vs : list val) (n : fname) : val :=
  match ns, vs with
  | a :: ns', v :: vs' => if Nat.eqb a n then v else lookup_val ns' vs' n
  | _, _ => VH 0
  end.

Definition fresh_hash (m : mro) (y : inst) : hres :=
  match read_fields m y (attr_names m) with
  | None => HAttrErr
  | Some vs => fst (do_hash m (init m (lookup_val (attr_names m) vs)))
  end.

Definition hash_obs (m : mro) (x y : inst) : hobs :=
  match fst (do_hash m y) with
  | HTypeErr => HoTypeErr
  | HAttrErr => HoAttrErr
  | HVal h => HoVal (hres_eqb (fresh_hash m y) (HVal h))
                    (hres_eqb (fst (do_hash m x)) (HVal h))
  end.

Definition observe_ok (m : mro) (x y : inst) : obs :=
  Ob TOk (map (field_stat m x y) (attr_names m)) (do_eq m y x (attr_names m))
     (hstat_of (fst (do_hash m x))) (hash_obs m x y).

Definition failed (t : otag) : obs := Ob t [] EqFalse HsTypeErr HoTypeErr.

Definition observe (m : mro) (fv : fname -> val) (h : list preop) (o : op) : obs :=
  let x := apply_hist m (init m fv) h in
  match run m x o with
  | XOk y => observe_ok m x y
  | XTypeError => failed TTypeError
  | XFrozen => failed TFrozen
  | XAttrError => failed TAttrError
  | XNA => failed TOther
  end.

(** ** What the property demands of an observation *)

(** The original's cached hash may be stale: a field was assigned after a hash. *)
Fixpoint mut_after_hash (hashed : bool) (h : list preop) : bool :=
  match h with
  | [] => false
  | PHash :: r => mut_after_hash true r
  | PMut _ _ :: r => hashed || mut_after_hash hashed r
  end.

Definition stale (m : mro) (h : list preop) : bool :=
  leaf_cache m && negb (eff_frozen m) && mut_after_hash false h.

Definition all_feq (l : list fstat) : bool :=
  forallb (fun s => match s with FEq => true | _ => false end) l.

(** Distinct instance of the same class (that is [TOk]), every field equal, [==],
    and — if the original is hashable — hash(copy) equals the hash of a fresh
    instance with the copy's field values and (unless the original's own cache is
    stale) the original's hash. *)
Definition post_ok (m : mro) (h : list preop) (o : obs) : bool :=
  match o_tag o with TOk => true | _ => false end
  && all_feq (o_fields o)
  && Nat.eqb (length (o_fields o)) (length (attr_names m))
  && match o_eq o with EqTrue => true | _ => false end
  && match o_horig o, o_hash o with
     | HsOk, HoVal f e => f && (e || stale m h)
     | HsOk, HoTypeErr => stale m h      (* recomputed from a now unhashable value *)
     | HsOk, _ => false
     | _, _ => true
     end.

(** Class-level observations. *)
Record clsobs := CO {
  co_gs : list gskind;       (* per class of the MRO: own generated / user / no pair *)
  co_hashable : bool;
  co_slots_truthy : bool
}.

Definition cls_observe (m : mro) : clsobs :=
  CO (gs_kinds m) (hashable m) (slots_truthy m).
