(** * C10 — correspondence: the check function evaluated by [coqc] on what the real
    library showed for generated class chains, values, histories and operations. *)
From Coq Require Import List Bool Arith.
Import ListNotations.
From Attrs Require Import Base C10.Model.

Definition otag_eqb (a b : otag) : bool :=
  match a, b with
  | TOk, TOk | TTypeError, TTypeError | TFrozen, TFrozen | TAttrError, TAttrError
  | TOther, TOther => true
  | _, _ => false
  end.

Definition fstat_eqb (a b : fstat) : bool :=
  match a, b with FEq, FEq | FNe, FNe | FMissing, FMissing => true | _, _ => false end.

Definition eres_eqb (a b : eres) : bool :=
  match a, b with EqTrue, EqTrue | EqFalse, EqFalse | EqAttrErr, EqAttrErr => true | _, _ => false end.

Definition hstat_eqb (a b : hstat) : bool :=
  match a, b with HsOk, HsOk | HsTypeErr, HsTypeErr | HsAttrErr, HsAttrErr => true | _, _ => false end.

Definition hobs_eqb (a b : hobs) : bool :=
  match a, b with
  | HoTypeErr, HoTypeErr | HoAttrErr, HoAttrErr => true
  | HoVal f e, HoVal f' e' => Bool.eqb f f' && Bool.eqb e e'
  | _, _ => false
  end.

Definition gskind_eqb (a b : gskind) : bool :=
  match a, b with GGen, GGen | GUser, GUser | GNone, GNone => true | _, _ => false end.

Definition obs_eqb (a b : obs) : bool :=
  otag_eqb (o_tag a) (o_tag b) && list_eqb fstat_eqb (o_fields a) (o_fields b)
  && eres_eqb (o_eq a) (o_eq b) && hstat_eqb (o_horig a) (o_horig b)
  && hobs_eqb (o_hash a) (o_hash b).

Definition clsobs_eqb (a b : clsobs) : bool :=
  list_eqb gskind_eqb (co_gs a) (co_gs b) && Bool.eqb (co_hashable a) (co_hashable b)
  && Bool.eqb (co_slots_truthy a) (co_slots_truthy b).

Lemma otag_eqb_spec a b : otag_eqb a b = true <-> a = b.
Proof. destruct a, b; cbn; split; intros H; try reflexivity; discriminate. Qed.
Lemma fstat_eqb_spec a b : fstat_eqb a b = true <-> a = b.
Proof. destruct a, b; cbn; split; intros H; try reflexivity; discriminate. Qed.
Lemma eres_eqb_spec a b : eres_eqb a b = true <-> a = b.
Proof. destruct a, b; cbn; split; intros H; try reflexivity; discriminate. Qed.
Lemma hstat_eqb_spec a b : hstat_eqb a b = true <-> a = b.
Proof. destruct a, b; cbn; split; intros H; try reflexivity; discriminate. Qed.
Lemma gskind_eqb_spec a b : gskind_eqb a b = true <-> a = b.
Proof. destruct a, b; cbn; split; intros H; try reflexivity; discriminate. Qed.
Lemma hobs_eqb_spec a b : hobs_eqb a b = true <-> a = b.
Proof.
  destruct a as [| |f e], b as [| |f' e']; cbn; split; intros H;
    try reflexivity; try discriminate.
  - apply andb_true_iff in H as [H1 H2].
    apply Bool.eqb_prop in H1, H2. congruence.
  - inversion H; subst. now rewrite !Bool.eqb_reflx.
Qed.

Lemma obs_eqb_spec a b : obs_eqb a b = true <-> a = b.
Proof.
  destruct a as [t fs e ho h], b as [t' fs' e' ho' h']; unfold obs_eqb; cbn. split.
  - intros H. repeat (apply andb_true_iff in H as [H ?]).
    apply otag_eqb_spec in H.
    match goal with X : list_eqb _ _ _ = true |- _ =>
      apply (list_eqb_spec fstat_eqb fstat_eqb_spec) in X end.
    match goal with X : eres_eqb _ _ = true |- _ => apply eres_eqb_spec in X end.
    match goal with X : hstat_eqb _ _ = true |- _ => apply hstat_eqb_spec in X end.
    match goal with X : hobs_eqb _ _ = true |- _ => apply hobs_eqb_spec in X end.
    congruence.
  - intros H; inversion H; subst.
    rewrite (proj2 (otag_eqb_spec t' t') eq_refl),
            (proj2 (list_eqb_spec fstat_eqb fstat_eqb_spec fs' fs') eq_refl),
            (proj2 (eres_eqb_spec e' e') eq_refl), (proj2 (hstat_eqb_spec ho' ho') eq_refl),
            (proj2 (hobs_eqb_spec h' h') eq_refl). reflexivity.
Qed.

Lemma clsobs_eqb_spec a b : clsobs_eqb a b = true <-> a = b.
Proof.
  destruct a as [g h s], b as [g' h' s']; unfold clsobs_eqb; cbn. split.
  - intros H. repeat (apply andb_true_iff in H as [H ?]).
    apply (list_eqb_spec gskind_eqb gskind_eqb_spec) in H.
    repeat match goal with X : Bool.eqb _ _ = true |- _ => apply Bool.eqb_prop in X end.
    congruence.
  - intros H; inversion H; subst.
    rewrite (proj2 (list_eqb_spec gskind_eqb gskind_eqb_spec g' g') eq_refl), !Bool.eqb_reflx.
    reflexivity.
Qed.

(** One operation on the (history-prepared) instance: what the implementation
    showed, and whether the harness has filed it as a property-level failure. *)
Record run1 := R { r_op : op; r_seen : obs; r_flag : bool }.

(** [c_mode = false]: model-equality case (all operations of one instance).
    [c_mode = true]: property-level case (the observation must satisfy [post_ok]). *)
Record case := K {
  c_mode : bool;
  c_mro : mro;
  c_vals : list (fname * val);
  c_hist : list preop;
  c_cls : clsobs;
  c_runs : list run1
}.

Definition fv_of (l : list (fname * val)) (n : fname) : val :=
  match find (fun p => Nat.eqb (fst p) n) l with
  | Some p => snd p
  | None => VH 0
  end.

Definition model_of (c : case) : clsobs * list obs :=
  (cls_observe (c_mro c),
   map (fun r => observe (c_mro c) (fv_of (c_vals c)) (c_hist c) (r_op r)) (c_runs c)).

Definition check_case (c : case) : bool :=
  if c_mode c then
    forallb (fun r => post_ok (c_mro c) (c_hist c) (r_seen r)) (c_runs c)
  else
    clsobs_eqb (cls_observe (c_mro c)) (c_cls c)
    && forallb (fun r =>
         obs_eqb (observe (c_mro c) (fv_of (c_vals c)) (c_hist c) (r_op r)) (r_seen r)
         && (post_ok (c_mro c) (c_hist c) (r_seen r) || r_flag r)) (c_runs c).

Lemma check_case_sound c :
  c_mode c = false -> check_case c = true ->
  c_cls c = cls_observe (c_mro c) /\
  Forall (fun r => r_seen r = observe (c_mro c) (fv_of (c_vals c)) (c_hist c) (r_op r)
                   /\ (r_flag r = false -> post_ok (c_mro c) (c_hist c) (r_seen r) = true))
         (c_runs c).
Proof.
  unfold check_case. intros -> H. apply andb_true_iff in H as [H1 H2].
  apply clsobs_eqb_spec in H1. split; [congruence|].
  apply Forall_forall. intros r Hr.
  rewrite forallb_forall in H2. specialize (H2 r Hr).
  apply andb_true_iff in H2 as [H2 H3]. apply obs_eqb_spec in H2. split; [congruence|].
  intros Hf. rewrite Hf, orb_false_r in H3. exact H3.
Qed.

Lemma check_case_prop_sound c :
  c_mode c = true -> check_case c = true ->
  Forall (fun r => post_ok (c_mro c) (c_hist c) (r_seen r) = true) (c_runs c).
Proof.
  unfold check_case. intros -> H. apply Forall_forall. now rewrite forallb_forall in H.
Qed.
