(** * C10 — proofs about the state-transfer model. *)
From Coq Require Import List Bool Arith Lia.
Import ListNotations.
From Attrs Require Import Base C10.Model.

(** ** Keys, values, stores *)

Lemma key_eqb_spec a b : key_eqb a b = true <-> a = b.
Proof.
  destruct a as [x|], b as [y|]; cbn; split; intros H; try discriminate; try reflexivity.
  - apply Nat.eqb_eq in H. now subst.
  - inversion H; subst. apply Nat.eqb_refl.
Qed.

Lemma key_eqb_refl k : key_eqb k k = true.
Proof. now apply key_eqb_spec. Qed.

Lemma key_eqb_neq a b : a <> b -> key_eqb a b = false.
Proof.
  intros H. destruct (key_eqb a b) eqn:E; [|reflexivity].
  apply key_eqb_spec in E. contradiction.
Qed.

Lemma key_eq_dec (a b : key) : {a = b} + {a <> b}.
Proof.
  destruct (key_eqb a b) eqn:E.
  - left. now apply key_eqb_spec.
  - right. intros ->. rewrite key_eqb_refl in E. discriminate.
Qed.

Lemma val_eqb_refl v : val_eqb v v = true.
Proof. destruct v; cbn; apply Nat.eqb_refl. Qed.

Lemma hres_eqb_refl h : hres_eqb (HVal h) (HVal h) = true.
Proof. cbn. induction h as [|v h IH]; [reflexivity|]. now rewrite val_eqb_refl, IH. Qed.

Lemma is_slot_in m k : is_slot m k = true <-> In k (slotnames m).
Proof.
  unfold is_slot. rewrite existsb_exists. split.
  - intros (k' & Hin & E). apply key_eqb_spec in E. now subst.
  - intros H. exists k. split; [assumption | apply key_eqb_refl].
Qed.

Lemma getattr_set_same m i k v : getattr m (obj_setattr m i k v) k = Some v.
Proof.
  unfold getattr, obj_setattr. destruct (is_slot m k); cbn; now rewrite key_eqb_refl.
Qed.

Lemma getattr_set_other m i k k' v :
  k <> k' -> getattr m (obj_setattr m i k v) k' = getattr m i k'.
Proof.
  intros H. unfold getattr, obj_setattr.
  destruct (is_slot m k) eqn:E, (is_slot m k') eqn:E'; cbn; try reflexivity;
    rewrite key_eqb_neq by congruence; reflexivity.
Qed.

Lemma getattr_set_all_notin m : forall l i k,
  ~ In k (map fst l) -> getattr m (set_all m i l) k = getattr m i k.
Proof.
  induction l as [|[k0 v0] r IH]; intros i k H; cbn; [reflexivity|].
  rewrite IH by (intros C; apply H; now right).
  apply getattr_set_other. intros ->. apply H. now left.
Qed.

Lemma getattr_set_all_in m : forall l i k v,
  In (k, v) l -> (forall v', In (k, v') l -> v' = v) ->
  getattr m (set_all m i l) k = Some v.
Proof.
  induction l as [|[k0 v0] r IH]; intros i k v Hin Huniq; [destruct Hin|].
  cbn [set_all].
  destruct (in_dec key_eq_dec k (map fst r)) as [Hr|Hr].
  - apply in_map_iff in Hr as ([k1 v1] & Hk & Hin1). cbn in Hk. subst k1.
    assert (v1 = v) by (apply Huniq; now right). subst v1.
    apply IH; [assumption|]. intros v' Hv'. apply Huniq. now right.
  - rewrite getattr_set_all_notin by assumption.
    destruct Hin as [E|Hin].
    + inversion E; subst. apply getattr_set_same.
    + exfalso. apply Hr. apply in_map_iff. exists (k, v). split; [reflexivity|assumption].
Qed.

Lemma get_xfer_store o : forall s k, get (xfer_store o s) k = option_map (xfer o) (get s k).
Proof.
  induction s as [|[k0 v0] r IH]; intros k; cbn; [reflexivity|].
  destruct (key_eqb k k0); [reflexivity | apply IH].
Qed.

Lemma xfer_pv o v : xfer o (PV v) = PV v.
Proof. destruct o; reflexivity. Qed.

(** ** The instance invariant *)

Definition fields_ok (m : mro) (x : inst) (fv : fname -> val) : Prop :=
  forall n, In n (attr_names m) -> getattr m x (KF n) = Some (PV (fv n)).

(** The cache attribute of a caching class is readable and holds None or a wrapper. *)
Definition cache_ok (m : mro) (x : inst) : Prop :=
  leaf_cache m = true ->
  getattr m x KCache = Some PNone \/ exists h, getattr m x KCache = Some (PWrap h).

(** A cached code is the code of the current field values (and those are hashable). *)
Definition coherent (m : mro) (x : inst) (fv : fname -> val) : Prop :=
  forall h, getattr m x KCache = Some (PWrap h) ->
  h = map fv (attr_names m) /\ forallb val_hashable h = true.

Definition fields_store (fv : fname -> val) (ns : list fname) : store :=
  map (fun n => (KF n, PV (fv n))) ns.

Lemma fields_store_in fv ns n : In n ns -> In (KF n, PV (fv n)) (fields_store fv ns).
Proof. intros H. apply in_map_iff. exists n. split; [reflexivity|assumption]. Qed.

Lemma fields_store_uniq fv ns n v : In (KF n, v) (fields_store fv ns) -> v = PV (fv n).
Proof.
  intros H. apply in_map_iff in H as (n' & E & _). inversion E; subst. reflexivity.
Qed.

Lemma fields_store_keys fv ns : ~ In KCache (map fst (fields_store fv ns)).
Proof.
  intros H. apply in_map_iff in H as ([k v] & E & Hin). cbn in E. subst k.
  apply in_map_iff in Hin as (n & E & _). discriminate.
Qed.

Lemma set_fields_ok m i fv ns n :
  In n ns -> getattr m (set_all m i (fields_store fv ns)) (KF n) = Some (PV (fv n)).
Proof.
  intros H. apply getattr_set_all_in; [now apply fields_store_in|].
  intros v'. apply fields_store_uniq.
Qed.

(** ** [__init__] *)

Lemma init_cache_fields m i k : k <> KCache -> getattr m (init_cache m i) k = getattr m i k.
Proof.
  intros H. unfold init_cache. destruct (leaf_cache m); [|reflexivity].
  destruct (eff_frozen m && negb (leaf_slots m) && negb (is_slot m KCache)).
  - unfold getattr; cbn. destruct (is_slot m k); [reflexivity|].
    rewrite key_eqb_neq by assumption. reflexivity.
  - apply getattr_set_other. congruence.
Qed.

Lemma init_fields_ok m fv : fields_ok m (init m fv) fv.
Proof.
  intros n Hn. unfold init. rewrite init_cache_fields by discriminate.
  now apply set_fields_ok.
Qed.

(** The generated [__init__] of a caching class leaves a readable cache holding None
    (a frozen dict class writes it into [__dict__] only when no ancestor slot
    would shadow it). *)
Lemma init_cache_none m fv :
  leaf_cache m = true -> getattr m (init m fv) KCache = Some PNone.
Proof.
  unfold init, init_cache. intros Hc. rewrite Hc.
  destruct (eff_frozen m && negb (leaf_slots m) && negb (is_slot m KCache)) eqn:E;
    [|apply getattr_set_same].
  apply andb_true_iff in E as [_ E]. apply negb_true_iff in E.
  unfold getattr. rewrite E. cbn. reflexivity.
Qed.

(** ** Reading fields, hashing, comparing *)

Lemma read_fields_ok m x fv : fields_ok m x fv -> forall ns,
  incl ns (attr_names m) -> read_fields m x ns = Some (map fv ns).
Proof.
  intros H. induction ns as [|n r IH]; intros Hi; cbn; [reflexivity|].
  rewrite (H n) by (apply Hi; now left).
  rewrite IH by (intros a Ha; apply Hi; now right). reflexivity.
Qed.

Lemma read_attrs_ok m x fv : fields_ok m x fv -> forall ns,
  incl ns (attr_names m) -> read_attrs m x ns = Some (fields_store fv ns).
Proof.
  intros H. induction ns as [|n r IH]; intros Hi; cbn; [reflexivity|].
  rewrite (H n) by (apply Hi; now left).
  rewrite IH by (intros a Ha; apply Hi; now right). reflexivity.
Qed.

(** The hash an instance with field values [fv] and no cached code answers. *)
Definition hash_spec (m : mro) (fv : fname -> val) : hres :=
  if negb (hashable m) then HTypeErr
  else if forallb val_hashable (map fv (attr_names m)) then HVal (map fv (attr_names m))
  else HTypeErr.

Lemma compute_hash_ok m x fv : fields_ok m x fv ->
  compute_hash m x =
  if forallb val_hashable (map fv (attr_names m)) then HVal (map fv (attr_names m)) else HTypeErr.
Proof.
  intros H. unfold compute_hash. rewrite (read_fields_ok m x fv H) by apply incl_refl. reflexivity.
Qed.

Lemma do_hash_uncached m x fv :
  fields_ok m x fv -> (leaf_cache m = true -> getattr m x KCache = Some PNone) ->
  fst (do_hash m x) = hash_spec m fv.
Proof.
  intros H Hc. unfold do_hash, hash_spec. destruct (negb (hashable m)); [reflexivity|].
  rewrite (compute_hash_ok m x fv H).
  destruct (leaf_cache m); [|reflexivity]. rewrite Hc by reflexivity.
  destruct (forallb val_hashable (map fv (attr_names m))); reflexivity.
Qed.

Lemma do_hash_cached m x h :
  hashable m = true -> leaf_cache m = true -> getattr m x KCache = Some (PWrap h) ->
  fst (do_hash m x) = HVal h.
Proof. intros Hh Hc Hg. unfold do_hash. rewrite Hh, Hc, Hg. reflexivity. Qed.

(** [hash()] keeps the invariant; what it may store is the code of the current values. *)
Lemma do_hash_state m x fv : fields_ok m x fv ->
  snd (do_hash m x) = x \/
  (getattr m x KCache = Some PNone /\
   forallb val_hashable (map fv (attr_names m)) = true /\
   snd (do_hash m x) = obj_setattr m x KCache (PWrap (map fv (attr_names m)))).
Proof.
  intros H. unfold do_hash. destruct (negb (hashable m)); [now left|].
  destruct (leaf_cache m); [|now left].
  destruct (getattr m x KCache) as [[v| |h]|] eqn:E; try (now left).
  rewrite (compute_hash_ok m x fv H).
  destruct (forallb val_hashable (map fv (attr_names m))) eqn:F; [|now left].
  right. cbn. auto.
Qed.

Lemma do_hash_preserves m x fv :
  fields_ok m x fv -> cache_ok m x -> coherent m x fv ->
  fields_ok m (snd (do_hash m x)) fv /\ cache_ok m (snd (do_hash m x))
  /\ coherent m (snd (do_hash m x)) fv.
Proof.
  intros H C Co. destruct (do_hash_state m x fv H) as [E|(E1 & E2 & E3)].
  - rewrite E. auto.
  - rewrite E3. repeat split.
    + intros n Hn. rewrite getattr_set_other by discriminate. now apply H.
    + intros _. right. eexists. apply getattr_set_same.
    + rewrite getattr_set_same in H0. inversion H0; subst. reflexivity.
    + rewrite getattr_set_same in H0. inversion H0; subst. assumption.
Qed.

Lemma do_eq_ok m x y fv : fields_ok m x fv -> fields_ok m y fv -> forall ns,
  incl ns (attr_names m) -> do_eq m y x ns = EqTrue.
Proof.
  intros Hx Hy. induction ns as [|n r IH]; intros Hi; cbn; [reflexivity|].
  rewrite (Hx n), (Hy n) by (apply Hi; now left). rewrite val_eqb_refl.
  apply IH. intros a Ha. apply Hi. now right.
Qed.

Lemma field_stats_ok m x y fv : fields_ok m x fv -> fields_ok m y fv -> forall ns,
  incl ns (attr_names m) -> all_feq (map (field_stat m x y) ns) = true.
Proof.
  intros Hx Hy. induction ns as [|n r IH]; intros Hi; cbn; [reflexivity|].
  unfold field_stat at 1. rewrite (Hx n), (Hy n) by (apply Hi; now left).
  rewrite val_eqb_refl. cbn. apply IH. intros a Ha. apply Hi. now right.
Qed.

(** ** Histories *)

Definition upd (fv : fname -> val) (n : fname) (v : val) : fname -> val :=
  fun k => if Nat.eqb k n then v else fv k.

(** The field values after a history (an assignment to a frozen instance fails). *)
Fixpoint hist_fv (m : mro) (fv : fname -> val) (h : list preop) : fname -> val :=
  match h with
  | [] => fv
  | PHash :: r => hist_fv m fv r
  | PMut n v :: r => hist_fv m (if eff_frozen m then fv else upd fv n v) r
  end.

Lemma mutate_fields_ok m x fv n v :
  fields_ok m x fv -> fields_ok m (obj_setattr m x (KF n) (PV v)) (upd fv n v).
Proof.
  intros H k Hk. unfold upd. destruct (Nat.eqb k n) eqn:E.
  - apply Nat.eqb_eq in E. subst. apply getattr_set_same.
  - apply Nat.eqb_neq in E. rewrite getattr_set_other by congruence. now apply H.
Qed.

Lemma hist_fields_cache m : forall h x fv,
  fields_ok m x fv -> cache_ok m x ->
  fields_ok m (apply_hist m x h) (hist_fv m fv h) /\ cache_ok m (apply_hist m x h).
Proof.
  induction h as [|p r IH]; intros x fv H C; cbn [apply_hist hist_fv]; [auto|].
  destruct p as [|n v]; cbn [apply_pre].
  - destruct (do_hash_state m x fv H) as [E|(E1 & E2 & E3)].
    + rewrite E. now apply IH.
    + rewrite E3. apply IH.
      * intros k Hk. rewrite getattr_set_other by discriminate. now apply H.
      * intros _. right. eexists. apply getattr_set_same.
  - destruct (eff_frozen m); [now apply IH|].
    apply IH; [now apply mutate_fields_ok|].
    intros Hc. rewrite getattr_set_other by discriminate. now apply C.
Qed.

(** As long as no field is assigned after a hash, a cached code is current. *)
Lemma hist_coherent m : forall h x fv hashed,
  fields_ok m x fv -> coherent m x fv ->
  (hashed = false -> forall c, getattr m x KCache <> Some (PWrap c)) ->
  eff_frozen m || negb (mut_after_hash hashed h) = true ->
  coherent m (apply_hist m x h) (hist_fv m fv h).
Proof.
  induction h as [|p r IH]; intros x fv hashed H Co Hn G; cbn [apply_hist hist_fv]; [assumption|].
  destruct p as [|n v]; cbn [apply_pre].
  - cbn [mut_after_hash] in G.
    destruct (do_hash_state m x fv H) as [E|(E1 & E2 & E3)].
    + rewrite E. apply (IH x fv true); auto; try (intros C; discriminate).
    + rewrite E3. apply (IH _ fv true); auto; try (intros C; discriminate).
      * intros k Hk. rewrite getattr_set_other by discriminate. now apply H.
      * intros c Hc. rewrite getattr_set_same in Hc. inversion Hc; subst. auto.
  - cbn [mut_after_hash] in G. destruct (eff_frozen m) eqn:F.
    + apply (IH x fv hashed); auto.
    + cbn in G. apply negb_true_iff, orb_false_iff in G as [G1 G2]. subst hashed.
      apply (IH _ _ false).
      * now apply mutate_fields_ok.
      * intros c Hc. rewrite getattr_set_other in Hc by discriminate.
        exfalso. eapply Hn; eauto.
      * intros _ c Hc. rewrite getattr_set_other in Hc by discriminate.
        eapply Hn; eauto.
      * rewrite G2. reflexivity.
Qed.

(** ** Transfer through a generated (or equivalent user-written) pair *)

Definition old_proto (o : op) : bool :=
  match o with OPickle p => Nat.ltb p 2 | _ => false end.

Definition is_nil {A : Type} (l : list A) : bool := match l with [] => true | _ => false end.

Lemma op_eq_legacy_dec (o : op) : {o = OLegacy} + {o <> OLegacy}.
Proof. destruct o; try (right; discriminate). now left. Qed.

Lemma run_nonlegacy m x o : o <> OLegacy ->
  run m x o = match reduce m x o with
              | inr e => e
              | inl (st, has_state) =>
                  if has_state then reconstruct m (xfer_state o st) else XOk empty
              end.
Proof. destruct o; intros H; try reflexivity. contradiction. Qed.

Lemma get_fields_store fv : forall ns n,
  In n ns -> get (fields_store fv ns) (KF n) = Some (PV (fv n)).
Proof.
  induction ns as [|a r IH]; intros n H; [destruct H|]. cbn.
  destruct (Nat.eqb n a) eqn:E.
  - apply Nat.eqb_eq in E. now subst.
  - apply IH. destruct H as [->|H]; [|assumption]. rewrite Nat.eqb_refl in E. discriminate.
Qed.

Lemma pick_fields_store fv all : forall ns,
  incl ns all -> pick (fields_store fv all) ns = fields_store fv ns.
Proof.
  induction ns as [|n r IH]; intros Hi; [reflexivity|]. unfold pick in *. cbn.
  rewrite get_fields_store by (apply Hi; now left). cbn. f_equal.
  apply IH. intros a Ha. apply Hi. now right.
Qed.

Lemma xfer_fields_store o fv ns : xfer_store o (fields_store fv ns) = fields_store fv ns.
Proof.
  unfold xfer_store, fields_store. rewrite map_map. apply map_ext. intros n. cbn.
  now rewrite xfer_pv.
Qed.

Lemma combine_fields_store fv : forall ns,
  combine (map KF ns) (map snd (fields_store fv ns)) = fields_store fv ns.
Proof. unfold fields_store. induction ns as [|n r IH]; cbn; [reflexivity | now rewrite IH]. Qed.

(** [slots_setstate] of a class [r] whose closure lists every field of the
    instance's class restores every field and resets the cache. *)
Lemma gen_setstate_fields m r fv st :
  attr_names r = attr_names m ->
  st = StDict (fields_store fv (attr_names r))
  \/ st = StTuple (map snd (fields_store fv (attr_names r))) ->
  fields_ok m (gen_setstate m r st empty) fv /\
  (leaf_cache r = true -> getattr m (gen_setstate m r st empty) KCache = Some PNone).
Proof.
  intros Hn Hst. unfold gen_setstate.
  assert (F : fields_ok m (match st with
                           | StTuple vs => set_all m empty (combine (map KF (attr_names r)) vs)
                           | StDict d => set_all m empty (pick d (attr_names r))
                           | _ => empty end) fv).
  { destruct Hst as [-> | ->].
    - rewrite pick_fields_store by apply incl_refl.
      intros n H. apply set_fields_ok. now rewrite Hn.
    - rewrite combine_fields_store. intros n H. apply set_fields_ok. now rewrite Hn. }
  destruct (leaf_cache r).
  - split; [|intros _; apply getattr_set_same].
    intros n H. rewrite getattr_set_other by discriminate. now apply F.
  - split; [exact F | discriminate].
Qed.

(** The generated [__setstate__] ALWAYS leaves the cache of a caching class at None. *)
Lemma setstate_resets_l m r st y :
  leaf_cache r = true -> getattr m (gen_setstate m r st y) KCache = Some PNone.
Proof. intros H. unfold gen_setstate. rewrite H. apply getattr_set_same. Qed.

Lemma reduce_generated m r x fv o :
  resolve m = RGen r \/ resolve m = RUser r ->
  attr_names r = attr_names m -> fields_ok m x fv ->
  reduce m x o = inl (StDict (fields_store fv (attr_names m)),
                      if old_proto o then negb (is_nil (attr_names m)) else true).
Proof.
  intros Hr Hn H. unfold reduce.
  assert (E : option_map StDict (read_attrs m x (attr_names r))
              = Some (StDict (fields_store fv (attr_names m)))).
  { rewrite (read_attrs_ok m x fv H) by (rewrite Hn; apply incl_refl). now rewrite Hn. }
  fold (old_proto o).
  destruct Hr as [Hr|Hr]; rewrite Hr, E; rewrite andb_false_r; cbn [andb];
    destruct (old_proto o); try reflexivity;
    destruct (attr_names m); reflexivity.
Qed.

Lemma getattr_empty m k : getattr m empty k = None.
Proof. unfold getattr. destruct (is_slot m k); reflexivity. Qed.

Lemma run_generated m r x fv o :
  (resolve m = RGen r \/ (resolve m = RUser r /\ o <> OLegacy)) ->
  attr_names r = attr_names m -> fields_ok m x fv ->
  exists y, run m x o = XOk y /\ fields_ok m y fv /\
    (leaf_cache r = true -> old_proto o && is_nil (attr_names m) = false ->
     getattr m y KCache = Some PNone).
Proof.
  intros Hr Hn H.
  destruct (op_eq_legacy_dec o) as [->|Hol].
  - destruct Hr as [Hr|[_ C]]; [|contradiction].
    cbn [run]. rewrite Hr.
    rewrite (read_attrs_ok m x fv H) by (rewrite Hn; apply incl_refl).
    eexists. split; [reflexivity|].
    destruct (gen_setstate_fields m r fv (StTuple (map snd (fields_store fv (attr_names r)))) Hn)
      as [F Cc]; [now right|].
    split; [exact F | intros Hc _; now apply Cc].
  - rewrite run_nonlegacy by assumption.
    assert (Hr' : resolve m = RGen r \/ resolve m = RUser r) by (destruct Hr as [?|[? _]]; auto).
    rewrite (reduce_generated m r x fv o Hr' Hn H).
    destruct (old_proto o && is_nil (attr_names m)) eqn:E.
    + apply andb_true_iff in E as [E1 E2]. rewrite E1, E2. cbn.
      eexists. split; [reflexivity|]. split; [|discriminate].
      intros n Hin. destruct (attr_names m); [destruct Hin | discriminate].
    + assert (Hs : (if old_proto o then negb (is_nil (attr_names m)) else true) = true).
      { destruct (old_proto o); [|reflexivity]. cbn in E. now rewrite E. }
      rewrite Hs. unfold reconstruct. cbn [xfer_state]. rewrite xfer_fields_store.
      destruct (gen_setstate_fields m r fv (StDict (fields_store fv (attr_names r))) Hn)
        as [F Cc]; [now left|].
      rewrite <- Hn.
      destruct Hr' as [Hr2|Hr2]; rewrite Hr2; eexists; (split; [reflexivity|]);
        (split; [exact F | intros Hc _; now apply Cc]).
Qed.

(** ** Transfer through the default reduce protocol *)

Lemma slot_values_in x : forall ks k v,
  In k ks -> get (i_slots x) k = Some v -> In (k, v) (slot_values x ks).
Proof.
  induction ks as [|a r IH]; intros k v Hin Hg; [destruct Hin|]. cbn.
  destruct Hin as [->|Hin].
  - rewrite Hg. now left.
  - destruct (get (i_slots x) a); [right|]; now apply IH.
Qed.

Lemma slot_values_sound x : forall ks k v,
  In (k, v) (slot_values x ks) -> In k ks /\ get (i_slots x) k = Some v.
Proof.
  induction ks as [|a r IH]; intros k v H; [destruct H|]. cbn in H.
  destruct (get (i_slots x) a) eqn:E.
  - destruct H as [H|H].
    + inversion H; subst. split; [now left | assumption].
    + apply IH in H as [H1 H2]. split; [now right | assumption].
  - apply IH in H as [H1 H2]. split; [now right | assumption].
Qed.

Lemma xfer_store_in o s k v : In (k, v) (xfer_store o s) -> exists v0, v = xfer o v0 /\ In (k, v0) s.
Proof.
  intros H. apply in_map_iff in H as ([k0 v0] & E & Hin). cbn in E. inversion E; subst.
  eauto.
Qed.

Lemma in_xfer_store o s k v : In (k, v) s -> In (k, xfer o v) (xfer_store o s).
Proof. intros H. apply in_map_iff. exists (k, v). split; [reflexivity | assumption]. Qed.

(** Every attribute of the copy is the wire image of the original's attribute. *)
Lemma default_pointwise m x o :
  resolve m = RDefault -> o <> OLegacy ->
  old_proto o && slots_truthy m = false ->
  (eff_frozen m = false \/ slotnames m = []) ->
  exists y, run m x o = XOk y /\
            forall k, getattr m y k = option_map (xfer o) (getattr m x k).
Proof.
  intros Hr Hol Hp Hf. rewrite run_nonlegacy by assumption.
  unfold reduce. rewrite Hr. fold (old_proto o). rewrite andb_true_r, Hp.
  unfold default_getstate.
  remember (slot_values x (slotnames m)) as svs eqn:SV.
  assert (Hnone : forall k, is_slot m k = true -> get (i_slots x) k = None ->
                            ~ In k (map fst (xfer_store o svs))).
  { intros k Hs Hg C. apply in_map_iff in C as ([k0 v0] & E & Hin). cbn in E. subst k0.
    apply xfer_store_in in Hin as (v1 & _ & Hin). rewrite SV in Hin.
    apply slot_values_sound in Hin as [_ Hin]. congruence. }
  assert (Hnot : forall k, is_slot m k = false -> ~ In k (map fst (xfer_store o svs))).
  { intros k Hs C. apply in_map_iff in C as ([k0 v0] & E & Hin). cbn in E. subst k0.
    apply xfer_store_in in Hin as (v1 & _ & Hin). rewrite SV in Hin.
    apply slot_values_sound in Hin as [Hin _]. apply is_slot_in in Hin. congruence. }
  assert (Hsome : forall k v, is_slot m k = true -> get (i_slots x) k = Some v ->
                  In (k, xfer o v) (xfer_store o svs) /\
                  forall v', In (k, v') (xfer_store o svs) -> v' = xfer o v).
  { intros k v Hs Hg. split.
    - apply in_xfer_store. rewrite SV. apply slot_values_in; [now apply is_slot_in | assumption].
    - intros v' Hin. apply xfer_store_in in Hin as (v1 & -> & Hin). rewrite SV in Hin.
      apply slot_values_sound in Hin as [_ Hin]. congruence. }
  destruct svs as [|p sv].
  - (* no slot holds a value *)
    assert (Hs0 : forall k, is_slot m k = true -> get (i_slots x) k = None).
    { intros k Hs. destruct (get (i_slots x) k) eqn:E; [|reflexivity].
      destruct (Hsome k p Hs E) as [[] _]. }
    destruct (i_dict x) as [|e d] eqn:D.
    + assert (Hh : (if old_proto o then truthy StNone else not_none StNone) = false)
        by (destruct (old_proto o); reflexivity).
      rewrite Hh. eexists. split; [reflexivity|]. intros k. rewrite getattr_empty.
      unfold getattr. destruct (is_slot m k) eqn:Hs; [now rewrite Hs0 | now rewrite D].
    + assert (Hh : (if old_proto o then truthy (StDict (e :: d)) else not_none (StDict (e :: d))) = true)
        by (destruct (old_proto o); reflexivity).
      rewrite Hh. unfold reconstruct. rewrite Hr. cbn [xfer_state default_setstate].
      eexists. split; [reflexivity|]. intros k. unfold getattr; cbn [i_dict i_slots empty].
      destruct (is_slot m k) eqn:Hs.
      * now rewrite Hs0.
      * rewrite app_nil_r, get_xfer_store, D. reflexivity.
  - (* some slots hold values: (dict-or-None, slots) *)
    assert (Hne : slotnames m <> []).
    { intros C. rewrite C in SV. discriminate. }
    assert (Hfz : eff_frozen m = false) by (destruct Hf as [?|?]; [assumption | contradiction]).
    match goal with |- context [StPair ?d _] => set (dopt := d) end.
    assert (Hh : (if old_proto o then truthy (StPair dopt (p :: sv))
                  else not_none (StPair dopt (p :: sv))) = true)
      by (destruct (old_proto o); reflexivity).
    rewrite Hh. unfold reconstruct. rewrite Hr. cbn [xfer_state default_setstate].
    set (y1 := match option_map (xfer_store o) dopt with
               | Some l => MkI (l ++ i_dict empty) (i_slots empty)
               | None => empty end).
    assert (Hy1s : forall k, get (i_slots y1) k = None).
    { intros k. unfold y1. destruct (option_map (xfer_store o) dopt); reflexivity. }
    assert (Hy1d : forall k, get (i_dict y1) k = option_map (xfer o) (get (i_dict x) k)).
    { intros k. unfold y1, dopt. destruct (i_dict x) as [|e d] eqn:D; cbn [option_map];
        [reflexivity|].
      cbn [i_dict empty]. rewrite app_nil_r. now rewrite get_xfer_store. }
    destruct (xfer_store o (p :: sv)) as [|q qs] eqn:Q; [discriminate|]. rewrite <- Q in *.
    rewrite Hfz. eexists. split; [reflexivity|]. intros k.
    destruct (is_slot m k) eqn:Hs.
    + destruct (get (i_slots x) k) as [v|] eqn:G.
      * destruct (Hsome k v Hs G) as [Hin Hu].
        rewrite (getattr_set_all_in m _ y1 k (xfer o v) Hin Hu).
        unfold getattr. now rewrite Hs, G.
      * rewrite getattr_set_all_notin by (now apply Hnone).
        unfold getattr. now rewrite Hs, Hy1s, G.
    + rewrite getattr_set_all_notin by (now apply Hnot).
      unfold getattr. now rewrite Hs, Hy1d.
Qed.

(** ** The guard and the round-trip theorem *)

Definition is_copy (o : op) : bool := match o with OCopy => true | _ => false end.
Definition is_legacy (o : op) : bool := match o with OLegacy => true | _ => false end.

(** [wf m o h]: the class chain / operation / history combinations for which the
    round trip is claimed.  Each conjunct excludes one refuted family (see the
    [_refuted] witnesses below). *)
Definition wf (m : mro) (o : op) (h : list preop) : bool :=
  match resolve m with
  | RGen r =>
      (* the pair in force lists every field of the class and resets its cache (K4) *)
      list_eqb Nat.eqb (attr_names r) (attr_names m)
      && implb (leaf_cache m) (leaf_cache r)
      (* an empty state is falsy: protocols 0/1 never call __setstate__ (K12) *)
      && negb (old_proto o && is_nil (attr_names m) && leaf_cache m)
  | RUser r =>
      negb (is_legacy o)
      && list_eqb Nat.eqb (attr_names r) (attr_names m)
      && implb (leaf_cache m) (leaf_cache r)
      && negb (old_proto o && is_nil (attr_names m) && leaf_cache m)
  | RDefault =>
      negb (is_legacy o)
      (* copyreg refuses __slots__ without __getstate__ under protocols 0/1 (K5) *)
      && negb (old_proto o && slots_truthy m)
      (* slot state is re-assigned with setattr: impossible when frozen (K5) *)
      && (negb (eff_frozen m) || is_nil (slotnames m))
      (* a shallow copy shares the cache wrapper: stale after hash-then-assign (K2) *)
      && negb (is_copy o && leaf_cache m && stale m h)
  end.

Lemma names_eqb_eq a b : list_eqb Nat.eqb a b = true -> a = b.
Proof. apply (list_eqb_spec Nat.eqb Nat.eqb_eq). Qed.

Lemma transfer m x fv o h :
  wf m o h = true -> fields_ok m x fv -> cache_ok m x ->
  exists y, run m x o = XOk y /\ fields_ok m y fv /\
    (leaf_cache m = true ->
       getattr m y KCache = Some PNone \/
       (stale m h = false /\ getattr m y KCache = getattr m x KCache)).
Proof.
  unfold wf. intros W H C.
  destruct (resolve m) as [r|r|] eqn:Hr.
  - apply andb_true_iff in W as [W W3]. apply andb_true_iff in W as [W1 W2].
    apply names_eqb_eq in W1.
    destruct (run_generated m r x fv o (or_introl Hr) W1 H) as (y & R & F & Cc).
    exists y. split; [assumption|]. split; [assumption|]. intros Hc. left.
    rewrite Hc in W2, W3. cbn in W2. rewrite andb_true_r in W3.
    apply Cc; [assumption | now apply negb_true_iff].
  - apply andb_true_iff in W as [W W3]. apply andb_true_iff in W as [W W2].
    apply andb_true_iff in W as [W0 W1]. apply names_eqb_eq in W1.
    assert (Hol : o <> OLegacy) by (intros ->; discriminate).
    destruct (run_generated m r x fv o (or_intror (conj Hr Hol)) W1 H) as (y & R & F & Cc).
    exists y. split; [assumption|]. split; [assumption|]. intros Hc. left.
    rewrite Hc in W2, W3. cbn in W2. rewrite andb_true_r in W3.
    apply Cc; [assumption | now apply negb_true_iff].
  - apply andb_true_iff in W as [W W4]. apply andb_true_iff in W as [W W3].
    apply andb_true_iff in W as [W1 W2].
    assert (Hol : o <> OLegacy) by (intros ->; discriminate).
    assert (Hf : eff_frozen m = false \/ slotnames m = []).
    { apply orb_true_iff in W3 as [W3|W3]; [left; now apply negb_true_iff|].
      right. destruct (slotnames m); [reflexivity | discriminate]. }
    destruct (default_pointwise m x o Hr Hol (proj1 (negb_true_iff _) W2) Hf) as (y & R & P).
    exists y. split; [assumption|]. split.
    + intros n Hn. rewrite P, (H n Hn). cbn. now rewrite xfer_pv.
    + intros Hc. rewrite P. destruct o; try contradiction.
      * right. rewrite Hc in W4. cbn in W4. split; [now apply negb_true_iff|].
        destruct (getattr m x KCache); reflexivity.
      * left. destruct (C Hc) as [E|[c E]]; rewrite E; reflexivity.
      * left. destruct (C Hc) as [E|[c E]]; rewrite E; reflexivity.
Qed.

Lemma lookup_val_map fv : forall ns n, In n ns -> lookup_val ns (map fv ns) n = fv n.
Proof.
  induction ns as [|a r IH]; intros n H; [destruct H|]. cbn.
  destruct (Nat.eqb a n) eqn:E.
  - apply Nat.eqb_eq in E. now subst.
  - apply IH. destruct H as [->|H]; [|assumption]. rewrite Nat.eqb_refl in E. discriminate.
Qed.

Lemma hash_spec_ext m fv fv' :
  map fv' (attr_names m) = map fv (attr_names m) -> hash_spec m fv' = hash_spec m fv.
Proof. intros E. unfold hash_spec. now rewrite E. Qed.

(** The hash of a fresh instance built from the copy's field values. *)
Lemma fresh_hash_ok m y fv :
  fields_ok m y fv -> fresh_hash m y = hash_spec m fv.
Proof.
  intros H. unfold fresh_hash. rewrite (read_fields_ok m y fv H) by apply incl_refl.
  rewrite (do_hash_uncached m _ (lookup_val (attr_names m) (map fv (attr_names m)))).
  - apply hash_spec_ext. apply map_ext_in. intros n Hn. now apply lookup_val_map.
  - apply init_fields_ok.
  - intros Hc. now apply init_cache_none.
Qed.

Lemma hash_spec_cases m fv :
  hash_spec m fv = HTypeErr \/
  (hash_spec m fv = HVal (map fv (attr_names m)) /\ hashable m = true
   /\ forallb val_hashable (map fv (attr_names m)) = true).
Proof.
  unfold hash_spec. destruct (hashable m); cbn; [|now left].
  destruct (forallb val_hashable (map fv (attr_names m))); [right; auto | now left].
Qed.

Lemma post_from_invariants m h x y fv :
  fields_ok m x fv -> fields_ok m y fv -> cache_ok m x ->
  (leaf_cache m = true -> stale m h = false -> coherent m x fv) ->
  (leaf_cache m = true ->
     getattr m y KCache = Some PNone \/
     (stale m h = false /\ getattr m y KCache = getattr m x KCache)) ->
  post_ok m h (observe_ok m x y) = true.
Proof.
  intros Hx Hy Cx Co Cy. unfold post_ok, observe_ok. cbn [o_tag o_fields o_eq o_horig o_hash].
  rewrite (field_stats_ok m x y fv Hx Hy) by apply incl_refl.
  rewrite map_length, Nat.eqb_refl, (do_eq_ok m x y fv Hx Hy) by apply incl_refl.
  cbn [andb]. unfold hash_obs. rewrite (fresh_hash_ok m y fv Hy).
  destruct (hashable m) eqn:Hh.
  2:{ unfold do_hash at 1. rewrite Hh. reflexivity. }
  destruct (leaf_cache m) eqn:Hc.
  2:{ rewrite (do_hash_uncached m x fv Hx), (do_hash_uncached m y fv Hy) by (rewrite Hc; discriminate).
      destruct (hash_spec_cases m fv) as [E|(E & _)]; rewrite E; [reflexivity|].
      cbn [hstat_of]. now rewrite hres_eqb_refl. }
  specialize (Co eq_refl). specialize (Cy eq_refl).
  destruct (Cx Hc) as [Ex|[c Ex]].
  - (* the original has no cached code *)
    assert (Ey : getattr m y KCache = Some PNone).
    { destruct Cy as [E|[_ E]]; [assumption | congruence]. }
    rewrite (do_hash_uncached m x fv Hx), (do_hash_uncached m y fv Hy) by auto.
    destruct (hash_spec_cases m fv) as [E|(E & _)]; rewrite E; [reflexivity|].
    cbn [hstat_of]. now rewrite hres_eqb_refl.
  - (* the original answers a cached code *)
    rewrite (do_hash_cached m x c Hh Hc Ex). cbn [hstat_of].
    destruct Cy as [Ey|[St Ey]].
    + rewrite (do_hash_uncached m y fv Hy) by auto.
      destruct (stale m h) eqn:St.
      * destruct (hash_spec_cases m fv) as [E|(E & _)]; rewrite E; [reflexivity|].
        rewrite hres_eqb_refl. now rewrite orb_true_r.
      * destruct (Co eq_refl c Ex) as [Ec Ehh]. subst c.
        unfold hash_spec. rewrite Hh, Ehh. cbn [negb]. now rewrite hres_eqb_refl.
    + rewrite Ex in Ey. rewrite (do_hash_cached m y c Hh Hc Ey).
      destruct (Co St c Ex) as [Ec Ehh]. subst c.
      unfold hash_spec. rewrite Hh, Ehh. cbn [negb]. now rewrite hres_eqb_refl.
Qed.

(** *** The round trip, for every guarded chain, operation, history and values. *)
Theorem roundtrip_post_l : forall m fv h o,
  wf m o h = true -> post_ok m h (observe m fv h o) = true.
Proof.
  intros m fv h o W.
  set (x0 := init m fv).
  assert (F0 : fields_ok m x0 fv) by apply init_fields_ok.
  assert (C0 : cache_ok m x0) by (intros Hc; left; now apply init_cache_none).
  destruct (hist_fields_cache m h x0 fv F0 C0) as [Fx Cx].
  assert (Co : leaf_cache m = true -> stale m h = false ->
               coherent m (apply_hist m x0 h) (hist_fv m fv h)).
  { intros Hc St. apply (hist_coherent m h x0 fv false); auto.
    - intros c E. unfold x0 in E. rewrite init_cache_none in E by assumption. discriminate.
    - intros _ c E. unfold x0 in E. rewrite init_cache_none in E by assumption. discriminate.
    - unfold stale in St. rewrite Hc in St. cbn in St.
      destruct (eff_frozen m); [reflexivity|]. cbn in *. now rewrite St. }
  destruct (transfer m _ _ o h W Fx Cx) as (y & R & Fy & Cy).
  unfold observe. fold x0. rewrite R.
  now apply (post_from_invariants m h _ y (hist_fv m fv h)).
Qed.

(** *** A cached hash code is not carried over (except by a shallow copy through the
    default protocol, which is K2). *)
Theorem cache_not_carried_l : forall m fv h o,
  wf m o h = true -> leaf_cache m = true ->
  (is_copy o = true -> resolve m <> RDefault) ->
  exists y, run m (apply_hist m (init m fv) h) o = XOk y /\ getattr m y KCache = Some PNone.
Proof.
  intros m fv h o W Hc Hnc.
  set (x0 := init m fv).
  assert (F0 : fields_ok m x0 fv) by apply init_fields_ok.
  assert (C0 : cache_ok m x0) by (intros _; left; now apply init_cache_none).
  destruct (hist_fields_cache m h x0 fv F0 C0) as [Fx Cx].
  unfold wf in W.
  destruct (resolve m) as [r|r|] eqn:Hr.
  - apply andb_true_iff in W as [W W3]. apply andb_true_iff in W as [W1 W2].
    apply names_eqb_eq in W1.
    destruct (run_generated m r _ _ o (or_introl Hr) W1 Fx) as (y & R & _ & Cc).
    exists y. split; [assumption|]. rewrite Hc in W2, W3. cbn in W2. rewrite andb_true_r in W3.
    apply Cc; [assumption | now apply negb_true_iff].
  - apply andb_true_iff in W as [W W3]. apply andb_true_iff in W as [W W2].
    apply andb_true_iff in W as [W0 W1]. apply names_eqb_eq in W1.
    assert (Hol : o <> OLegacy) by (intros ->; discriminate).
    destruct (run_generated m r _ _ o (or_intror (conj Hr Hol)) W1 Fx) as (y & R & _ & Cc).
    exists y. split; [assumption|]. rewrite Hc in W2, W3. cbn in W2. rewrite andb_true_r in W3.
    apply Cc; [assumption | now apply negb_true_iff].
  - apply andb_true_iff in W as [W W4]. apply andb_true_iff in W as [W W3].
    apply andb_true_iff in W as [W1 W2].
    assert (Hol : o <> OLegacy) by (intros ->; discriminate).
    assert (Hf : eff_frozen m = false \/ slotnames m = []).
    { apply orb_true_iff in W3 as [W3|W3]; [left; now apply negb_true_iff|].
      right. destruct (slotnames m); [reflexivity | discriminate]. }
    destruct (default_pointwise m (apply_hist m x0 h) o Hr Hol (proj1 (negb_true_iff _) W2) Hf)
      as (y & R & P).
    exists y. split; [assumption|]. rewrite P.
    destruct o; try contradiction.
    + exfalso. now apply Hnc.
    + destruct (Cx Hc) as [E|[c E]]; rewrite E; reflexivity.
    + destruct (Cx Hc) as [E|[c E]]; rewrite E; reflexivity.
Qed.

(** ** Which hierarchies satisfy the guard *)

(** The decision is: the explicit flag, else follow [slots] — or regenerate when an
    attrs-generated pair would be inherited — unless the class body brings its own
    pair (auto-detected, or simply hiding the inherited one). *)
Lemma gs_decision_table_l c inh :
  gs_decision c inh =
  match s_gs c with
  | Some flag => flag
  | None => negb (s_autodetect c && s_usergs c) && (s_slots c || (negb (s_usergs c) && inh))
  end.
Proof.
  unfold gs_decision.
  destruct (s_gs c), (s_slots c), (s_autodetect c), (s_usergs c), inh; reflexivity.
Qed.

Lemma names_eqb_refl l : list_eqb Nat.eqb l l = true.
Proof. now apply (list_eqb_spec Nat.eqb Nat.eqb_eq). Qed.

(** A class that generates its own pair (any mixture of bases below it). *)
Lemma wf_leaf_generated_l c bases o h :
  gs_decision c (is_gen (resolve bases)) = true ->
  old_proto o && is_nil (attr_names (c :: bases)) && s_cache c = false ->
  wf (c :: bases) o h = true.
Proof.
  intros Hd Hk. unfold wf. cbn [resolve]. unfold gs_of. rewrite Hd.
  rewrite names_eqb_refl. cbn [leaf_cache] in *. rewrite Hk.
  destruct (s_cache c); reflexivity.
Qed.

Definition plain_slots (c : cspec) : Prop :=
  s_slots c = true /\ s_gs c = None /\ s_usergs c = false.
Definition plain_dict (c : cspec) : Prop :=
  s_slots c = false /\ s_gs c = None /\ s_usergs c = false.

(** Single build mode, all slotted, default [getstate_setstate]: every operation,
    every history (except the field-less caching class under protocols 0/1). *)
Lemma wf_all_slots_l c bases o h :
  Forall plain_slots (c :: bases) ->
  old_proto o && is_nil (attr_names (c :: bases)) && s_cache c = false ->
  wf (c :: bases) o h = true.
Proof.
  intros Hall Hk. inversion Hall as [|? ? (Hs & Hg & Hu) _]; subst.
  apply wf_leaf_generated_l; [|assumption].
  unfold gs_decision. now rewrite Hg, Hu, Hs, andb_false_r.
Qed.

(** Since the K4 fix: a class with default arguments below a class whose pair is
    attrs-generated regenerates its own pair — dict or slotted alike. *)
Lemma wf_regenerates_l c bases o h :
  s_gs c = None -> s_usergs c = false -> is_gen (resolve bases) = true ->
  old_proto o && is_nil (attr_names (c :: bases)) && s_cache c = false ->
  wf (c :: bases) o h = true.
Proof.
  intros Hg Hu Hi Hk. apply wf_leaf_generated_l; [|assumption].
  unfold gs_decision. rewrite Hg, Hu, Hi, andb_false_r. cbn. apply orb_true_r.
Qed.

Lemma all_dict_facts : forall m, Forall plain_dict m ->
  resolve m = RDefault /\ slotnames m = [] /\ slots_truthy m = false.
Proof.
  induction m as [|c bases IH]; intros H; [auto|].
  inversion H as [|? ? (Hs & Hg & Hu) Hb]; subst.
  destruct (IH Hb) as (I1 & I2 & I3). cbn [resolve slotnames slots_truthy].
  rewrite I1. unfold gs_of, gs_decision. rewrite Hg, Hu, Hs, andb_false_r. cbn. auto.
Qed.

(** Single build mode, all dict classes: every operation and history except the
    shallow copy of a stale cache (K2). *)
Lemma wf_all_dict_l m o h :
  Forall plain_dict m -> o <> OLegacy ->
  is_copy o && leaf_cache m && stale m h = false ->
  wf m o h = true.
Proof.
  intros Hall Hol Hk. destruct (all_dict_facts m Hall) as (H1 & H2 & H3).
  unfold wf. rewrite H1, H2, H3, Hk.
  rewrite !andb_false_r. cbn.
  rewrite orb_true_r, !andb_true_r.
  destruct o; try reflexivity. exfalso. now apply Hol.
Qed.

(** ** Non-vacuity and the refuted full-strength statements *)

Definition ex_dict_cache : cspec := C false false true false None false false true [0].
Definition ex_slots_base : cspec := C true false false true None false false true [0].
Definition ex_slots_leaf : cspec := C true false true true None false false true [1; 2].
Definition ex_dict_leaf : cspec := C false false false false None false false false [1].
Definition ex_dict_leaf_optout : cspec := C false false false false (Some false) false false false [1].
Definition ex_fv (n : fname) : val := VH (10 + n).

(** The guard holds and the theorem applies: slotted caching class over a slotted
    base, hash-then-assign history, every kind of operation. *)
Example wf_example :
  forallb (fun o => wf [ex_slots_leaf; ex_slots_base] o [PHash; PMut 1 (VH 7); PHash])
          [OCopy; ODeep; OPickle 0; OPickle 1; OPickle 2; OPickle 5; OLegacy] = true
  /\ observe [ex_slots_leaf; ex_slots_base] ex_fv [PHash; PMut 1 (VH 7)] (OPickle 0)
     = Ob TOk [FEq; FEq; FEq] EqTrue HsOk (HoVal true false).
Proof. split; vm_compute; reflexivity. Qed.

(** Slotted class above a dict base (mixed chain): guarded and fine. *)
Example wf_mixed_example :
  wf [ex_slots_leaf; ex_dict_cache] ODeep [PHash] = true
  /\ observe [ex_slots_leaf; ex_dict_cache] ex_fv [PHash] ODeep
     = Ob TOk [FEq; FEq; FEq] EqTrue HsOk (HoVal true true).
Proof. split; vm_compute; reflexivity. Qed.

(** K2: shallow copy of a dict caching class after hash-then-assign answers the
    stale code (equal to the original's, different from a fresh instance's). *)
Lemma K2_refuted_l :
  observe [ex_dict_cache] ex_fv [PHash; PMut 0 (VH 7)] OCopy
  = Ob TOk [FEq] EqTrue HsOk (HoVal false true)
  /\ post_ok [ex_dict_cache] [PHash; PMut 0 (VH 7)]
       (observe [ex_dict_cache] ex_fv [PHash; PMut 0 (VH 7)] OCopy) = false
  /\ post_ok [ex_dict_cache] [PHash; PMut 0 (VH 7)]
       (observe [ex_dict_cache] ex_fv [PHash; PMut 0 (VH 7)] ODeep) = true.
Proof. repeat split; vm_compute; reflexivity. Qed.

(** K2 also for a slotted class that opted out of the generated pair. *)
Lemma K2_slots_refuted_l :
  let c := C true false true false (Some false) false false true [0] in
  post_ok [c] [PHash; PMut 0 (VH 7)] (observe [c] ex_fv [PHash; PMut 0 (VH 7)] OCopy) = false.
Proof. vm_compute; reflexivity. Qed.

(** K4 (narrowed by the fix): a class that explicitly opts out
    ([getstate_setstate=False]) below a class whose pair is generated still inherits
    that pair and loses its own fields, under every operation … *)
Lemma K4_refuted_l :
  forallb (fun o =>
     match observe [ex_dict_leaf_optout; ex_slots_base] ex_fv [] o with
     | Ob TOk [FEq; FMissing] EqAttrErr _ _ => true
     | _ => false
     end) [OCopy; ODeep; OPickle 0; OPickle 2; OPickle 5; OLegacy] = true.
Proof. vm_compute; reflexivity. Qed.

(** … while with the default [getstate_setstate=None] the same class now
    regenerates its own pair and round-trips. *)
Lemma K4_fixed_l :
  forallb (fun o =>
     wf [ex_dict_leaf; ex_slots_base] o []
     && post_ok [ex_dict_leaf; ex_slots_base] []
          (observe [ex_dict_leaf; ex_slots_base] ex_fv [] o))
    [OCopy; ODeep; OPickle 0; OPickle 2; OPickle 5; OLegacy] = true
  /\ gs_kinds [ex_dict_leaf; ex_slots_base] = [GGen; GGen].
Proof. split; vm_compute; reflexivity. Qed.

(** K4, cache variant (explicit opt-out): no field lost, but the inherited
    [__setstate__] of a base without [cache_hash] leaves the subclass's cache unset. *)
Lemma K4_cache_refuted_l :
  let leaf := C false false true false (Some false) false false true [] in
  observe [leaf; ex_slots_base] ex_fv [] ODeep = Ob TOk [FEq] EqTrue HsOk HoAttrErr.
Proof. vm_compute; reflexivity. Qed.

(** K5: slots + getstate_setstate=False: protocols 0/1 raise TypeError; frozen
    instances cannot be reconstructed at all. *)
Lemma K5_refuted_l :
  let c := C true false false true (Some false) false false false [0] in
  let f := C true true false true (Some false) false false false [0] in
  o_tag (observe [c] ex_fv [] (OPickle 0)) = TTypeError
  /\ o_tag (observe [c] ex_fv [] (OPickle 1)) = TTypeError
  /\ post_ok [c] [] (observe [c] ex_fv [] (OPickle 2)) = true
  /\ forallb (fun o => match o_tag (observe [f] ex_fv [] o) with TFrozen => true | _ => false end)
       [OCopy; ODeep; OPickle 2; OPickle 5] = true.
Proof. repeat split; vm_compute; reflexivity. Qed.

(** K12: a field-less caching class with a generated pair under protocols 0/1. *)
Lemma K12_refuted_l :
  let c := C true false true false None false false true [] in
  observe [c] ex_fv [] (OPickle 1) = Ob TOk [] EqTrue HsOk HoAttrErr
  /\ post_ok [c] [] (observe [c] ex_fv [] (OPickle 2)) = true.
Proof. split; vm_compute; reflexivity. Qed.

(** Hence the unguarded statement is false of the faithful model. *)
Lemma roundtrip_unguarded_refuted_l :
  exists m fv h o, post_ok m h (observe m fv h o) = false.
Proof.
  exists [ex_dict_leaf_optout; ex_slots_base], ex_fv, [], OCopy. vm_compute; reflexivity.
Qed.
