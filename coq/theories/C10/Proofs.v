(** * C10 — proofs (in progress). *)
From Coq Require Import List Bool Arith.
Import ListNotations.
From Attrs Require Import C10.Model.

Lemma deep_never_wrap v : match deep_pv v with PWrap _ => False | _ => True end.
Proof. destruct v; exact Logic.I. Qed.
