(** * C10 — tie by translation: the state-transfer code regenerated from the CURRENT source
    text ([Gen/C10_State.v], written by harness/translate_c10.py on every run) coincides on EVERY
    input with the functions of [C10/Model.v] that the property theorems are stated about.  A source
    change that alters one of these functions makes a lemma below fail to compile: a
    proof-obligation failure of ./check C10, which then searches for a concrete failing input with
    its correspondence.  The lemmas are proved pointwise (extensional fold lemmas, case analysis),
    never by comparing text: renamed locals, swapped branches, an equivalent condition still pass. *)
From Coq Require Import List Bool String.
Import ListNotations.
From Attrs Require Import Gen.Decide Gen.C10_State C10.Model.
Open Scope string_scope.

Lemma tie_fully_translated : c10_fully_translated = true.
Proof. reflexivity. Qed.

(** No field is called [__weakref__] (field names of the model are not that literal). *)
Definition no_literal_name : string -> fname -> bool := fun _ _ => false.

Lemma filter_all {A} (p : A -> bool) : forall l, (forall x, p x = true) -> filter p l = l.
Proof. induction l as [|a l IH]; intros H; cbn; [reflexivity|]. now rewrite H, IH. Qed.

(** ** [slots_getstate] = [read_attrs] *)

Lemma dict_comp_read_attrs m i (f : fname -> key * option pv) :
  (forall n, f n = (KF n, getattr m i (KF n))) ->
  forall ns, dict_comp f ns = read_attrs m i ns.
Proof.
  intros Hf. induction ns as [|n r IH]; cbn; [reflexivity|].
  rewrite Hf, IH. cbn. reflexivity.
Qed.

Lemma tie_getstate : forall m r i,
  t_make_getstate (getattr m) no_literal_name (attr_names r) (leaf_cache r) i
  = read_attrs m i (attr_names r).
Proof.
  intros m r i. unfold t_make_getstate, t_slots_getstate.
  rewrite filter_all by reflexivity.
  apply dict_comp_read_attrs. intros n. reflexivity.
Qed.

(** ** [slots_setstate] = [gen_setstate] *)

Lemma d_lookup_get : forall d k, d_lookup d k = get d k.
Proof. induction d as [|[k' v] r IH]; intros k; cbn; [reflexivity|]. now rewrite IH. Qed.

Lemma set_all_app m : forall (a b : store) y, set_all m y (a ++ b)%list = set_all m (set_all m y a) b.
Proof. induction a as [|[k v] a IH]; intros b y; cbn; [reflexivity | apply IH]. Qed.

(** the dict branch, for ANY loop body that is pointwise "store it if the state has it" *)
Lemma fold_dict_gen m d (f : inst -> fname -> inst) :
  (forall s n, f s n = match get d (KF n) with Some v => obj_setattr m s (KF n) v | None => s end) ->
  forall ns y, fold_left f ns y = set_all m y (pick d ns).
Proof.
  intros Hf. induction ns as [|n r IH]; intros y; [reflexivity|].
  cbn [fold_left]. rewrite IH, Hf. unfold pick. cbn [flat_map]. fold (pick d r).
  rewrite set_all_app. destruct (get d (KF n)); reflexivity.
Qed.

(** the legacy tuple branch, for ANY loop body that is pointwise "store the paired value" *)
Lemma fold_tuple_gen m (f : inst -> fname * pv -> inst) :
  (forall s n v, f s (n, v) = obj_setattr m s (KF n) v) ->
  forall ns vs y, fold_left f (combine ns vs) y = set_all m y (combine (map KF ns) vs).
Proof.
  intros Hf. induction ns as [|n r IH]; intros vs y; [reflexivity|].
  destruct vs as [|v vs]; [reflexivity|]. cbn [combine map fold_left set_all]. now rewrite IH, Hf.
Qed.

(** For every state ([StDict]: what [slots_getstate] produces; [StTuple]: the pre-22.2 format;
    the other two constructors are never fed to a generated [__setstate__]). *)
Lemma tie_setstate : forall m r st y,
  t_make_setstate (obj_setattr m) no_literal_name (attr_names r) (leaf_cache r) y st
  = gen_setstate m r st y.
Proof.
  intros m r st y. unfold t_make_setstate, t_slots_setstate, gen_setstate, for_each, py_zip.
  rewrite filter_all by reflexivity.
  assert (Hd : forall d ns z,
    fold_left (fun self name =>
       match get d (KF name) with Some v => obj_setattr m self (KF name) v | None => self end) ns z
    = set_all m z (pick d ns)) by (intros; now apply fold_dict_gen).
  destruct st as [|d|dd ss|vs]; cbv zeta; cbn [st_is_tuple st_tuple_items negb];
    destruct (leaf_cache r); try f_equal.
  all: try (apply fold_tuple_gen; intros; reflexivity).
  all: try (apply fold_dict_gen; intros s n; unfold st_has, st_get, st_lookup;
            rewrite d_lookup_get; destruct (get d (KF n)); reflexivity).
  all: try (induction (attr_names r) as [|n l IH] in y |- *; cbn; [reflexivity | apply IH]).
Qed.

(** ** When the pair is installed: exactly when the decision says so *)
Lemma tie_installs : forall gs names cache slots, t_installs gs names cache slots = gs.
Proof. intros [] [|n l] [] []; reflexivity. Qed.

(** ** What is installed under which key *)
Lemma tie_installed :
  t_installed = [("__getstate__", "getstate"); ("__setstate__", "setstate")].
Proof. reflexivity. Qed.

(** ** [_inherits_attrs_getstate] = "the pair the class would inherit is attrs-generated" *)

(** [getattr(cls, name)] for the class [c] over [bases], as far as the decision looks: its own
    body's pair hides everything; else what the bases resolve to ([object.__getstate__] or a
    user function count as "other"). *)
Definition cls_getattr (c : cspec) (bases : mro) (name : string) : option fkind :=
  if String.eqb name "__getstate__" then
    Some (if s_usergs c then FOther
          else match resolve bases with RGen _ => FGenerated | _ => FOther end)
  else None.

(** function attributes: only the generated [__getstate__] carries the marker that
    [_make_getstate_setstate] sets. *)
Definition fn_getattr (f : fkind) (name : string) : option pyv :=
  match f with
  | FGenerated => if String.eqb name t_marker_name then Some t_marker_value else None
  | FOther => None
  end.

Lemma tie_inherits : forall c bases,
  t_inherits_attrs_getstate (cls_getattr c bases) fn_getattr
  = negb (s_usergs c) && is_gen (resolve bases).
Proof.
  intros c bases. unfold t_inherits_attrs_getstate, cls_getattr, fn_getattr.
  destruct (s_usergs c), (resolve bases); reflexivity.
Qed.

(** ** The decision: the translated call site + the translated
    [_determine_whether_to_implement] = [gs_decision] *)

Definition injb (b : bool) : pyv := if b then PVTrue else PVFalse.
Definition inj_flag (f : option bool) : pyv := match f with None => PVNone | Some b => injb b end.
(** [_has_own_attribute(cls, dunder)]: the class body defines both methods or none *)
Definition has_own (c : cspec) (d : string) : bool :=
  s_usergs c && (String.eqb d "__getstate__" || String.eqb d "__setstate__").

Lemma tie_gs_decision : forall c bases,
  determine_whether_to_implement (has_own c) (inj_flag (s_gs c)) (injb (s_autodetect c))
    (injb (t_gs_default (s_slots c)
             (t_inherits_attrs_getstate (cls_getattr c bases) fn_getattr)))
    t_gs_dunders
  = PRet [injb (gs_decision c (is_gen (resolve bases)))].
Proof.
  intros c bases. rewrite tie_inherits.
  unfold determine_whether_to_implement, gs_decision, has_own, t_gs_default, t_gs_dunders.
  destruct (s_gs c) as [[]|], (s_autodetect c), (s_usergs c), (s_slots c), (is_gen (resolve bases));
    reflexivity.
Qed.
