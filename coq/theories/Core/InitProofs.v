(** * Proofs about the generated initializer (shared by C01, C02, C05, C06, C12). *)

From Coq Require Import List Bool String Arith Lia.
Import ListNotations.
From Attrs Require Import Core.Attr Core.Init.
Open Scope string_scope.
Open Scope list_scope.

(** ** Association lists *)

Lemma lookup_update_same n v l : lookup n (update n v l) = Some v.
Proof.
  induction l as [|[m w] r IH]; cbn.
  - now rewrite String.eqb_refl.
  - destruct (String.eqb n m) eqn:E; cbn; rewrite E; [reflexivity | exact IH].
Qed.

Lemma lookup_update_other n m v l : n <> m -> lookup n (update m v l) = lookup n l.
Proof.
  intros Hne. induction l as [|[p w] r IH]; cbn.
  - destruct (String.eqb n m) eqn:E; [apply String.eqb_eq in E; contradiction | reflexivity].
  - destruct (String.eqb m p) eqn:E; cbn.
    + apply String.eqb_eq in E; subst p.
      destruct (String.eqb n m) eqn:E2; [apply String.eqb_eq in E2; contradiction | reflexivity].
    + destruct (String.eqb n p); [reflexivity | exact IH].
Qed.

(** ** Reads after stores *)

Definition storable (k : cls_spec) (n : string) : Prop := is_slot k n = true \/ k_has_dict k = true.

Lemma obj_setattr_ok k i n v :
  storable k n -> exists i', obj_setattr k i n v = Ok i' /\
    read k i' n = Ok v /\ (forall m, m <> n -> read k i' m = read k i m) /\ i_args i' = i_args i.
Proof.
  intros Hs. unfold obj_setattr. destruct (is_slot k n) eqn:E.
  - eexists; split; [reflexivity|]. repeat split.
    + unfold read. rewrite E. cbn. now rewrite lookup_update_same.
    + intros m Hm. unfold read. destruct (is_slot k m); cbn; [|reflexivity].
      now rewrite lookup_update_other.
  - destruct Hs as [H|H]; [congruence|]. rewrite H.
    eexists; split; [reflexivity|]. repeat split.
    + unfold read. rewrite E. cbn. now rewrite lookup_update_same.
    + intros m Hm. unfold read. destruct (is_slot k m); cbn; [reflexivity|].
      now rewrite lookup_update_other.
Qed.

Lemma dict_store_ok k i n v :
  k_has_dict k = true -> is_slot k n = false ->
  exists i', dict_store k i n v = Ok i' /\
    read k i' n = Ok v /\ (forall m, m <> n -> read k i' m = read k i m) /\ i_args i' = i_args i.
Proof.
  intros Hd Hs. unfold dict_store. rewrite Hd. eexists; split; [reflexivity|]. repeat split.
  - unfold read. rewrite Hs. cbn. now rewrite lookup_update_same.
  - intros m Hm. unfold read. destruct (is_slot k m); cbn; [reflexivity|].
    now rewrite lookup_update_other.
Qed.

(** ** Well-formed class specifications *)

Record wf (k : cls_spec) : Prop := {
  wf_names : NoDup (map a_name (k_attrs k));
  wf_dict : k_slots k = false -> k_has_dict k = true;
  wf_cache_name : ~ In HASH_CACHE (map a_name (k_attrs k))
}.

Lemma attr_name_storable k a : wf k -> In a (k_attrs k) -> storable k (a_name a).
Proof.
  intros W Hin. unfold storable. destruct (k_slots k) eqn:E.
  - left. unfold is_slot, slot_names. rewrite E. apply mem_str_In. apply in_or_app. right.
    apply in_or_app. left. now apply in_map.
  - right. now apply (wf_dict k W).
Qed.

Lemma cache_storable k : wf k -> k_cache_hash k = true -> storable k HASH_CACHE.
Proof.
  intros W Hc. unfold storable. destruct (k_slots k) eqn:E.
  - left. unfold is_slot, slot_names. rewrite E, Hc. apply mem_str_In.
    apply in_or_app. right. apply in_or_app. right. now left.
  - right. now apply (wf_dict k W).
Qed.

(** ** Consistency of the two hook computations: a field that [add_setattr] hooks is
    never assigned with a plain [self.x = ...] by the generated initializer. *)

Lemma in_sa_implies_has_on_setattr o a :
  in_sa_attrs o a = true -> field_has_on_setattr (has_cls_on_setattr o) a = true.
Proof.
  unfold in_sa_attrs, field_has_on_setattr. destruct (a_on_setattr a); cbn; auto; try discriminate.
Qed.

Lemma hooked_names_spec k a hooked :
  wf k -> In a (k_attrs k) -> k_frozen k = false ->
  class_setattr k = HookedSetattr hooked -> mem_str (a_name a) hooked = true ->
  in_sa_attrs (effective_cls_on_setattr k) a = true.
Proof.
  intros W Hin Hfr Hcs Hmem. unfold class_setattr in Hcs. rewrite Hfr in Hcs.
  assert (Hh : hooked = map a_name (filter (in_sa_attrs (effective_cls_on_setattr k)) (k_attrs k))).
  { destruct (filter (in_sa_attrs (effective_cls_on_setattr k)) (k_attrs k)) as [|x l] eqn:E;
      [discriminate|]. inversion Hcs; reflexivity. }
  clear Hcs. subst hooked.
  apply mem_str_In in Hmem. apply in_map_iff in Hmem as (a' & Hn & Hf).
  apply filter_In in Hf as [Hin' Hsa].
  assert (a' = a) as ->; [|exact Hsa].
  pose proof (wf_names k W) as ND. clear - ND Hin Hin' Hn.
  induction (k_attrs k) as [|y r IH]; [destruct Hin|].
  cbn in ND. inversion ND as [|? ? Hnotin ND']; subst.
  destruct Hin as [->|Hin], Hin' as [->|Hin']; auto.
  - exfalso. apply Hnotin. rewrite <- Hn. now apply in_map.
  - exfalso. apply Hnotin. rewrite Hn. now apply in_map.
Qed.

(** ** Sequencing *)

Lemma exec_body_app k f von en : forall b1 b2 s,
  exec_body k f von en s (b1 ++ b2) =
  match exec_body k f von en s b1 with
  | Finished s' => exec_body k f von en s' b2
  | o => o
  end.
Proof.
  induction b1 as [|c r IH]; intros b2 s; cbn; [reflexivity|].
  destruct (exec_stmt k f von en s c); [apply IH | reflexivity].
Qed.

(** ** The specification of what a field ends up holding *)

Definition env_get (en : env) (al : string) : val :=
  match lookup al en with Some v => v | None => VNothing end.

Definition raw_value (a : attribute) (en : env) : val :=
  if a_init a then
    match a_default a with
    | DFactory fn ts => if is_nothing (env_get en (alias_of a))
                        then VApp fn (if ts then [VSelf] else []) else env_get en (alias_of a)
    | _ => env_get en (alias_of a)
    end
  else
    match a_default a with
    | DFactory fn ts => VApp fn (if ts then [VSelf] else [])
    | _ => VDefault (a_name a)
    end.

Definition converted (a : attribute) (v : val) : val :=
  match conv_call_of a with
  | NoConv => v
  | ConvCall fn ts tf => VApp fn (conv_args (ConvCall fn ts tf) (a_name a) v)
  end.

(** THE specification: converter(argument | default | fresh factory value). *)
Definition spec_value (a : attribute) (en : env) : val := converted a (raw_value a en).

Definition conv_events (c : conv_call) (fld : string) (v : val) : list event :=
  match c with
  | NoConv => []
  | ConvCall fn ts tf => [EvConverter fld fn (conv_args c fld v)]
  end.

Definition conv_result (c : conv_call) (fld : string) (v : val) : val :=
  match c with
  | NoConv => v
  | ConvCall fn ts tf => VApp fn (conv_args c fld v)
  end.

Definition factory_events (a : attribute) (en : env) : list event :=
  match a_default a with
  | DFactory fn ts =>
      if (if a_init a then is_nothing (env_get en (alias_of a)) else true)
      then [EvFactory (a_name a) fn ts] else []
  | _ => []
  end.

(** Events one field contributes when nothing raises. *)
Definition field_events (a : attribute) (en : env) : list event :=
  factory_events a en ++ conv_events (conv_call_of a) (a_name a) (raw_value a en).

Definition bound (en : env) (a : attribute) : Prop :=
  a_init a = true -> exists v, lookup (alias_of a) en = Some v.

(** ** One store *)

Lemma do_store_field k s how a has_cls v :
  wf k -> In a (k_attrs k) ->
  has_cls = has_cls_on_setattr (effective_cls_on_setattr k) ->
  how = choose_setter k a (field_has_on_setattr has_cls a) ->
  (k_frozen k = true -> field_has_on_setattr has_cls a = false) ->
  exists i', do_store k no_fault s how (a_name a) v = Finished {| s_inst := i'; s_trace := s_trace s |} /\
    read k i' (a_name a) = Ok v /\
    (forall m, m <> a_name a -> read k i' m = read k (s_inst s) m) /\
    i_args i' = i_args (s_inst s).
Proof.
  intros W Hin Hcls Hhow Hfz.
  pose proof (attr_name_storable k a W Hin) as St.
  unfold choose_setter in Hhow.
  destruct (k_frozen k) eqn:Fz.
  - (* frozen *)
    specialize (Hfz eq_refl).
    destruct (k_slots k) eqn:Sl.
    + subst how. cbn. destruct (obj_setattr_ok k (s_inst s) (a_name a) v St) as (i' & -> & R1 & R2 & R3).
      exists i'. auto.
    + assert (Hd : k_has_dict k = true) by (apply (wf_dict k W); exact Sl).
      assert (Hsl : is_slot k (a_name a) = is_slot_attr k (a_name a)).
      { unfold is_slot, slot_names, is_slot_attr. rewrite Sl. now rewrite app_nil_r. }
      rewrite Hfz in Hhow. cbn [orb] in Hhow.
      assert (Hcase : how = if is_slot_attr k (a_name a) then SetCached else SetInstDict).
      { destruct (conv_call_of a); exact Hhow. }
      clear Hhow. destruct (is_slot_attr k (a_name a)) eqn:E; subst how; cbn.
      * destruct (obj_setattr_ok k (s_inst s) (a_name a) v St) as (i' & -> & R1 & R2 & R3).
        exists i'. auto.
      * try rewrite E in Hsl.
        destruct (dict_store_ok k (s_inst s) (a_name a) v Hd Hsl) as (i' & -> & R1 & R2 & R3).
        exists i'. auto.
  - (* not frozen *)
    destruct (field_has_on_setattr has_cls a) eqn:Hs; subst how; cbn.
    + destruct (obj_setattr_ok k (s_inst s) (a_name a) v St) as (i' & -> & R1 & R2 & R3).
      exists i'. auto.
    + unfold plain_assign.
      destruct (class_setattr k) as [| |hooked] eqn:Cs.
      * destruct (obj_setattr_ok k (s_inst s) (a_name a) v St) as (i' & -> & R1 & R2 & R3).
        exists i'. auto.
      * unfold class_setattr in Cs. rewrite Fz in Cs.
        destruct (filter _ _); discriminate.
      * destruct (mem_str (a_name a) hooked) eqn:M.
        -- pose proof (hooked_names_spec k a hooked W Hin Fz Cs M) as Hsa.
           apply in_sa_implies_has_on_setattr in Hsa. rewrite <- Hcls in Hsa. congruence.
        -- destruct (obj_setattr_ok k (s_inst s) (a_name a) v St) as (i' & -> & R1 & R2 & R3).
           exists i'. auto.
Qed.

(** ** One field, no faults *)

Lemma apply_conv_nofault s c fld v :
  apply_conv no_fault s c fld v =
  (Finished {| s_inst := s_inst s; s_trace := s_trace s ++ conv_events c fld v |},
   Some (conv_result c fld v)).
Proof.
  destruct c as [|fn ts tf]; cbn.
  - rewrite app_nil_r. destruct s; reflexivity.
  - reflexivity.
Qed.

Lemma exec_store_nofault k s en how a has_cls e evs raw :
  wf k -> In a (k_attrs k) ->
  has_cls = has_cls_on_setattr (effective_cls_on_setattr k) ->
  how = choose_setter k a (field_has_on_setattr has_cls a) ->
  (k_frozen k = true -> field_has_on_setattr has_cls a = false) ->
  eval_vexpr no_fault s en e =
    (Finished {| s_inst := s_inst s; s_trace := s_trace s ++ evs |}, Some raw) ->
  exists i',
    exec_store k no_fault s en how (a_name a) (conv_call_of a) e =
      Finished {| s_inst := i';
                  s_trace := s_trace s ++ evs ++ conv_events (conv_call_of a) (a_name a) raw |} /\
    read k i' (a_name a) = Ok (conv_result (conv_call_of a) (a_name a) raw) /\
    (forall m, m <> a_name a -> read k i' m = read k (s_inst s) m) /\
    i_args i' = i_args (s_inst s).
Proof.
  intros W Hin Hcls Hhow Hfz He. unfold exec_store. rewrite He. rewrite apply_conv_nofault. cbn [s_inst s_trace].
  destruct (do_store_field k
              {| s_inst := s_inst s;
                 s_trace := (s_trace s ++ evs) ++ conv_events (conv_call_of a) (a_name a) raw |}
              how a has_cls (conv_result (conv_call_of a) (a_name a) raw) W Hin Hcls Hhow Hfz)
    as (i' & Hd & R1 & R2 & R3).
  exists i'. cbn [s_inst s_trace] in *. rewrite Hd. rewrite <- app_assoc. auto.
Qed.

Lemma frozen_no_hooks k sc :
  make_init_script k = GenOk sc -> k_frozen k = true ->
  forall a, In a (k_attrs k) ->
    field_has_on_setattr (has_cls_on_setattr (effective_cls_on_setattr k)) a = false.
Proof.
  unfold make_init_script. intros H Fz a Hin. rewrite Fz in H. cbn [andb] in H.
  destruct (has_cls_on_setattr (effective_cls_on_setattr k)) eqn:Hc; [discriminate|].
  destruct (existsb (fun a0 => negb (os_is_none (a_on_setattr a0))) (k_attrs k)) eqn:Ex; [discriminate|].
  unfold field_has_on_setattr. rewrite andb_false_r, orb_false_r.
  destruct (negb (os_is_none (a_on_setattr a))) eqn:N; [|reflexivity].
  exfalso. assert (existsb (fun a0 => negb (os_is_none (a_on_setattr a0))) (k_attrs k) = true).
  { apply existsb_exists. exists a. auto. }
  congruence.
Qed.

Lemma conv_result_converted a v : conv_result (conv_call_of a) (a_name a) v = converted a v.
Proof. unfold converted. destruct (conv_call_of a); reflexivity. Qed.

Lemma exec_field k sc von en s a :
  wf k -> make_init_script k = GenOk sc -> In a (k_attrs k) -> participates a = true -> bound en a ->
  exists i',
    exec_body k no_fault von en s
      (fst (field_script k (has_cls_on_setattr (effective_cls_on_setattr k)) a)) =
      Finished {| s_inst := i'; s_trace := s_trace s ++ field_events a en |} /\
    read k i' (a_name a) = Ok (spec_value a en) /\
    (forall m, m <> a_name a -> read k i' m = read k (s_inst s) m) /\
    i_args i' = i_args (s_inst s).
Proof.
  intros W G Hin Hp Hb.
  set (has_cls := has_cls_on_setattr (effective_cls_on_setattr k)).
  assert (Hfz : k_frozen k = true -> field_has_on_setattr has_cls a = false).
  { intros Fz. eapply frozen_no_hooks; eauto. }
  assert (Hsame : forall st0, {| s_inst := s_inst st0; s_trace := s_trace st0 |} = st0)
    by (intros []; reflexivity).
  unfold spec_value, field_events. rewrite <- conv_result_converted.
  (* it suffices to exhibit the raw value and the factory events of each shape *)
  assert (Hgoal : forall e evs raw,
    fst (field_script k has_cls a) = [SStore (choose_setter k a (field_has_on_setattr has_cls a))
                                         (a_name a) (conv_call_of a) e] \/
    (exists al t el, fst (field_script k has_cls a) = [SIfNotNothing al t el] /\
       exists v, lookup al en = Some v /\
       (if is_nothing v then el else t) =
         SStore (choose_setter k a (field_has_on_setattr has_cls a)) (a_name a) (conv_call_of a) e) ->
    eval_vexpr no_fault s en e =
      (Finished {| s_inst := s_inst s; s_trace := s_trace s ++ evs |}, Some raw) ->
    raw_value a en = raw -> factory_events a en = evs ->
    exists i',
      exec_body k no_fault von en s (fst (field_script k has_cls a)) =
        Finished {| s_inst := i';
                    s_trace := s_trace s ++ factory_events a en ++
                               conv_events (conv_call_of a) (a_name a) (raw_value a en) |} /\
      read k i' (a_name a) = Ok (conv_result (conv_call_of a) (a_name a) (raw_value a en)) /\
      (forall m, m <> a_name a -> read k i' m = read k (s_inst s) m) /\
      i_args i' = i_args (s_inst s)).
  { intros e evs raw Hshape He Hraw Hevs.
    destruct (exec_store_nofault k s en _ a has_cls e evs raw W Hin eq_refl eq_refl Hfz He)
      as (i' & Hx & R1 & R2 & R3).
    exists i'. rewrite Hraw, Hevs. repeat split; auto.
    destruct Hshape as [-> | (al & t & el & -> & v & Hv & Hsel)].
    - cbn [exec_body exec_stmt]. now rewrite Hx.
    - cbn [exec_body exec_stmt]. rewrite Hv, Hsel. now rewrite Hx. }
  unfold participates in Hp.
  destruct (a_init a) eqn:Ei.
  - destruct (Hb Ei) as (v & Hv).
    assert (Eg : env_get en (alias_of a) = v) by (unfold env_get; now rewrite Hv).
    destruct (a_default a) as [| |fn ts] eqn:Ed.
    + apply (Hgoal (XArg (alias_of a)) [] v).
      * left. unfold field_script. rewrite Ei, Ed. reflexivity.
      * cbn. rewrite Hv, app_nil_r, Hsame. reflexivity.
      * unfold raw_value. now rewrite Ei, Ed.
      * unfold factory_events. now rewrite Ed.
    + apply (Hgoal (XArg (alias_of a)) [] v).
      * left. unfold field_script. rewrite Ei, Ed. reflexivity.
      * cbn. rewrite Hv, app_nil_r, Hsame. reflexivity.
      * unfold raw_value. now rewrite Ei, Ed.
      * unfold factory_events. now rewrite Ed.
    + destruct (is_nothing v) eqn:En.
      * apply (Hgoal (XFactory (a_name a) fn ts) [EvFactory (a_name a) fn ts]
                 (VApp fn (if ts then [VSelf] else []))).
        -- right. unfold field_script. rewrite Ei, Ed. cbn [negb fst].
           do 3 eexists. split; [reflexivity|]. exists v. split; [exact Hv|]. now rewrite En.
        -- reflexivity.
        -- unfold raw_value. now rewrite Ei, Ed, Eg, En.
        -- unfold factory_events. now rewrite Ed, Ei, Eg, En.
      * apply (Hgoal (XArg (alias_of a)) [] v).
        -- right. unfold field_script. rewrite Ei, Ed. cbn [negb fst].
           do 3 eexists. split; [reflexivity|]. exists v. split; [exact Hv|]. now rewrite En.
        -- cbn. rewrite Hv, app_nil_r, Hsame. reflexivity.
        -- unfold raw_value. now rewrite Ei, Ed, Eg, En.
        -- unfold factory_events. now rewrite Ed, Ei, Eg, En.
  - cbn [orb] in Hp. unfold has_default in Hp.
    destruct (a_default a) as [| |fn ts] eqn:Ed; [discriminate| |].
    + apply (Hgoal (XDefault (a_name a)) [] (VDefault (a_name a))).
      * left. unfold field_script. rewrite Ei, Ed. reflexivity.
      * cbn. rewrite app_nil_r, Hsame. reflexivity.
      * unfold raw_value. now rewrite Ei, Ed.
      * unfold factory_events. now rewrite Ed.
    + apply (Hgoal (XFactory (a_name a) fn ts) [EvFactory (a_name a) fn ts]
               (VApp fn (if ts then [VSelf] else []))).
      * left. unfold field_script. rewrite Ei, Ed. reflexivity.
      * reflexivity.
      * unfold raw_value. now rewrite Ei, Ed.
      * unfold factory_events. now rewrite Ed, Ei.
Qed.

(** ** All fields, no faults *)

Lemma exec_fields k sc von en :
  wf k -> make_init_script k = GenOk sc ->
  forall (l : list attribute) s,
  (forall a, In a l -> In a (k_attrs k) /\ participates a = true /\ bound en a) ->
  NoDup (map a_name l) ->
  exists i',
    exec_body k no_fault von en s
      (flat_map (fun a => fst (field_script k (has_cls_on_setattr (effective_cls_on_setattr k)) a)) l) =
      Finished {| s_inst := i'; s_trace := s_trace s ++ flat_map (fun a => field_events a en) l |} /\
    (forall a, In a l -> read k i' (a_name a) = Ok (spec_value a en)) /\
    (forall m, ~ In m (map a_name l) -> read k i' m = read k (s_inst s) m) /\
    i_args i' = i_args (s_inst s).
Proof.
  intros W G. induction l as [|a r IH]; intros s Hall ND.
  - exists (s_inst s). cbn. rewrite app_nil_r. destruct s; cbn. repeat split; tauto.
  - cbn [flat_map]. rewrite exec_body_app.
    destruct (Hall a (or_introl eq_refl)) as (Hin & Hp & Hb).
    destruct (exec_field k sc von en s a W G Hin Hp Hb) as (i1 & E1 & R1 & O1 & A1).
    rewrite E1. inversion ND as [|? ? Hnotin ND']; subst.
    destruct (IH {| s_inst := i1; s_trace := s_trace s ++ field_events a en |}
                (fun b Hb' => Hall b (or_intror Hb')) ND') as (i2 & E2 & R2 & O2 & A2).
    exists i2. cbn [s_inst s_trace] in *. rewrite E2. rewrite <- app_assoc. repeat split.
    + intros b [->|Hb']; [|now apply R2].
      rewrite O2; [exact R1 | exact Hnotin].
    + intros m Hm. cbn in Hm. rewrite O2; [apply O1|]; intro; apply Hm; auto.
    + congruence.
Qed.

(** ** Validators *)

Definition validator_events (k : cls_spec) (en : env) (snap : list (string * option val))
  (l : list attribute) : list event :=
  flat_map (fun a => match a_validator a with
                     | Some v => [EvValidator (a_name a) v (spec_value a en) snap]
                     | None => []
                     end) l.

Lemma run_validators_nofault k en : forall (l : list attribute) s,
  (forall a, In a l -> read k (s_inst s) (a_name a) = Ok (spec_value a en)) ->
  run_validators k no_fault s
    (flat_map (fun a => match a_validator a with Some v => [(a_name a, v)] | None => [] end) l) =
  Finished {| s_inst := s_inst s;
              s_trace := s_trace s ++ validator_events k en (snapshot k (s_inst s)) l |}.
Proof.
  induction l as [|a r IH]; intros s Hr.
  - cbn. rewrite app_nil_r. destruct s; reflexivity.
  - unfold validator_events. cbn [flat_map].
    destruct (a_validator a) as [v|] eqn:Ev.
    + cbn [app run_validators]. rewrite (Hr a (or_introl eq_refl)). cbn.
      rewrite (IH {| s_inst := s_inst s; s_trace := s_trace s ++ [EvValidator (a_name a) v (spec_value a en) (snapshot k (s_inst s))] |}).
      * cbn [s_inst s_trace]. rewrite <- app_assoc. reflexivity.
      * intros b Hb. apply Hr. now right.
    + cbn [app]. apply IH. intros b Hb. apply Hr. now right.
Qed.

Lemma read_all_ok k i en : forall (l : list attribute),
  (forall a, In a l -> read k i (a_name a) = Ok (spec_value a en)) ->
  read_all k i (map a_name l) = Ok (map (fun a => spec_value a en) l).
Proof.
  induction l as [|a r IH]; intros H; cbn; [reflexivity|].
  rewrite (H a (or_introl eq_refl)). rewrite IH; [reflexivity|]. intros b Hb. apply H. now right.
Qed.

(** ** The calling convention binds every parameter *)

Lemma lookup_in_keys n (l : alist) : In n (map fst l) -> exists v, lookup n l = Some v.
Proof.
  induction l as [|[m w] r IH]; cbn; [tauto|]. intros [->|H].
  - rewrite String.eqb_refl. eauto.
  - destruct (String.eqb n m); eauto.
Qed.

Lemma bind_pos_keys : forall ps args en rest,
  bind_pos ps args = Some (en, rest) -> map fst en ++ map fst rest = map fst ps.
Proof.
  induction ps as [|p ps IH]; intros args en rest H; destruct args as [|v vs]; cbn in H.
  - inversion H; reflexivity.
  - discriminate.
  - inversion H; reflexivity.
  - destruct (bind_pos ps vs) as [[en' rest']|] eqn:E; [|discriminate].
    inversion H; subst. cbn. f_equal. eapply IH; eauto.
Qed.

Lemma bind_rest_keys : forall ps kw en, bind_rest ps kw = Some en -> map fst en = map fst ps.
Proof.
  induction ps as [|p ps IH]; intros kw en H; cbn in H.
  - inversion H; reflexivity.
  - destruct (match lookup (fst p) kw with Some v => Some v | None => default_val p end); [|discriminate].
    destruct (bind_rest ps kw) eqn:E; [|discriminate]. inversion H; subst. cbn. f_equal. eapply IH; eauto.
Qed.

Lemma bind_call_keys sc pos kw en :
  bind_call sc pos kw = Bound en ->
  map fst en = map fst (pos_params sc) ++ map fst (kw_params sc).
Proof.
  unfold bind_call. destruct (bind_pos (pos_params sc) pos) as [[enp rest]|] eqn:Ep; [|discriminate].
  destruct (negb _); [discriminate|]. destruct (existsb _ kw); [discriminate|].
  destruct (bind_rest (rest ++ kw_params sc) kw) as [enr|] eqn:Er; [|discriminate].
  intros H; inversion H; subst. rewrite map_app. rewrite (bind_rest_keys _ _ _ Er). rewrite map_app.
  rewrite app_assoc. now rewrite (bind_pos_keys _ _ _ _ Ep).
Qed.

Lemma param_of_init_attr k a :
  In a (k_attrs k) -> a_init a = true ->
  In (alias_of a)
     (map fst (params_of k (has_cls_on_setattr (effective_cls_on_setattr k)) false) ++
      map fst (params_of k (has_cls_on_setattr (effective_cls_on_setattr k)) true)).
Proof.
  intros Hin Hi. set (hc := has_cls_on_setattr (effective_cls_on_setattr k)).
  assert (Hf : In a (filtered_attrs k)).
  { apply filter_In. split; [exact Hin|]. unfold participates. now rewrite Hi. }
  assert (Hs : exists p, snd (field_script k hc a) = Some (a_kw_only a, (alias_of a, p))).
  { unfold field_script. rewrite Hi. cbn [negb]. destruct (a_default a); cbn [snd]; eauto. }
  destruct Hs as (p & Hs).
  assert (forall kwf, a_kw_only a = kwf -> In (alias_of a) (map fst (params_of k hc kwf))).
  { intros kwf Hk. apply in_map_iff. exists (alias_of a, p). split; [reflexivity|].
    unfold params_of. apply in_flat_map. exists a. split; [exact Hf|]. rewrite Hs, Hk.
    rewrite Bool.eqb_reflx. now left. }
  apply in_or_app. destruct (a_kw_only a) eqn:Ek; [right|left]; now apply H.
Qed.

Lemma bind_call_bound k sc pos kw en :
  make_init_script k = GenOk sc -> bind_call sc pos kw = Bound en ->
  forall a, In a (k_attrs k) -> bound en a.
Proof.
  intros G B a Hin Hi. apply lookup_in_keys. rewrite (bind_call_keys _ _ _ _ B).
  unfold make_init_script in G.
  destruct (k_frozen k && has_cls_on_setattr (effective_cls_on_setattr k)); [discriminate|].
  destruct (k_frozen k && existsb _ (k_attrs k)); [discriminate|].
  inversion G; subst; cbn [pos_params kw_params]. now apply param_of_init_attr.
Qed.

(** ** The whole initializer, no faults: C01's stored values and C02's trace *)

Definition pre_events (k : cls_spec) (en : env) : list event :=
  if k_pre_init k then
    let hc := has_cls_on_setattr (effective_cls_on_setattr k) in
    [if k_pre_init_has_args k then
       EvPreInit (map (fun al => env_get en al) (map fst (params_of k hc false)))
                 (map (fun al => (al, env_get en al)) (map fst (params_of k hc true)))
     else EvPreInit [] []]
  else [].

Definition spec_snapshot (k : cls_spec) (en : env) : list (string * option val) :=
  map (fun a => (a_name a, if participates a then Some (spec_value a en) else None)) (k_attrs k).

Definition expected_trace (k : cls_spec) (validators_on : bool) (en : env) : list event :=
  pre_events k en ++
  flat_map (fun a => field_events a en) (filtered_attrs k) ++
  (if validators_on then validator_events k en (spec_snapshot k en) (filtered_attrs k) else []) ++
  (if k_post_init k then [EvPostInit] else []).

Definition expected_args (k : cls_spec) (en : env) : option (list val) :=
  if k_is_exc k then Some (map (fun a => spec_value a en) (filter a_init (filtered_attrs k)))
  else None.

Lemma read_empty k n : read k empty_inst n = Raise EAttributeError.
Proof. unfold read. destruct (is_slot k n); reflexivity. Qed.

Lemma NoDup_map_filter {A B} (f : A -> B) (p : A -> bool) : forall l,
  NoDup (map f l) -> NoDup (map f (filter p l)).
Proof.
  induction l as [|x r IH]; intros H; cbn; [constructor|].
  inversion H as [|? ? Hn H']; subst. destruct (p x); cbn; [|now apply IH].
  constructor; [|now apply IH]. intros Hin. apply Hn.
  apply in_map_iff in Hin as (y & Hy & Hf). apply filter_In in Hf as [Hf _].
  apply in_map_iff. eauto.
Qed.

Lemma validated_nil_events k en snap : forall l,
  flat_map (fun a => match a_validator a with Some v => [(a_name a, v)] | None => [] end) l = [] ->
  validator_events k en snap l = [].
Proof.
  induction l as [|a r IH]; intros H; [reflexivity|]. unfold validator_events in *. cbn in *.
  destruct (a_validator a); [discriminate|]. cbn in *. now apply IH.
Qed.

Lemma snapshot_spec k en i :
  (forall a, In a (k_attrs k) -> participates a = true -> read k i (a_name a) = Ok (spec_value a en)) ->
  (forall a, In a (k_attrs k) -> participates a = false -> read k i (a_name a) = Raise EAttributeError) ->
  snapshot k i = spec_snapshot k en.
Proof.
  intros H1 H2. unfold snapshot, spec_snapshot. apply map_ext_in. intros a Hin.
  destruct (participates a) eqn:P; [rewrite (H1 a Hin P) | rewrite (H2 a Hin P)]; reflexivity.
Qed.

Lemma in_filtered k a : In a (filtered_attrs k) <-> In a (k_attrs k) /\ participates a = true.
Proof. unfold filtered_attrs. apply filter_In. Qed.

Lemma NoDup_map_inj {A B} (f : A -> B) : forall (l : list A) a b,
  NoDup (map f l) -> In a l -> In b l -> f a = f b -> a = b.
Proof.
  induction l as [|y r IH]; intros a b ND Ha Hb E; [destruct Ha|].
  cbn in ND. inversion ND as [|? ? Hn ND']; subst. destruct Ha as [->|Ha], Hb as [->|Hb]; auto.
  - exfalso. apply Hn. rewrite E. now apply in_map.
  - exfalso. apply Hn. rewrite <- E. now apply in_map.
Qed.

Lemma name_in_attrs_unique k a b :
  wf k -> In a (k_attrs k) -> In b (k_attrs k) -> a_name a = a_name b -> a = b.
Proof. intros W. apply NoDup_map_inj. apply (wf_names k W). Qed.

Theorem run_init_nofault k sc von pos kw en :
  wf k -> make_init_script k = GenOk sc -> bind_call sc pos kw = Bound en ->
  exists i,
    run_init k no_fault von pos kw = InitDone i (expected_trace k von en) /\
    (forall a, In a (k_attrs k) -> participates a = true -> read k i (a_name a) = Ok (spec_value a en)) /\
    (forall a, In a (k_attrs k) -> participates a = false -> read k i (a_name a) = Raise EAttributeError) /\
    (forall m, ~ In m (map a_name (k_attrs k)) -> m <> HASH_CACHE -> read k i m = Raise EAttributeError) /\
    (k_cache_hash k = true -> read k i HASH_CACHE = Ok VNone) /\
    i_args i = expected_args k en.
Proof.
  intros W G B.
  pose proof (bind_call_bound k sc pos kw en G B) as Hbound.
  unfold run_init. rewrite G, B.
  set (hc := has_cls_on_setattr (effective_cls_on_setattr k)).
  (* the body *)
  pose proof G as G'. unfold make_init_script in G'. fold hc in G'.
  destruct (k_frozen k && hc) eqn:F1; [discriminate|].
  destruct (k_frozen k && existsb (fun a => negb (os_is_none (a_on_setattr a))) (k_attrs k)) eqn:F2;
    [discriminate|].
  inversion G' as [Hsc]. clear G'. cbn [body].
  (* 1. pre-init *)
  rewrite exec_body_app.
  set (s0 := {| s_inst := empty_inst; s_trace := [] |}).
  assert (E1 : exec_body k no_fault von en s0
                 (if k_pre_init k
                  then [SPreInit (if k_pre_init_has_args k
                                  then Some (map fst (params_of k hc false), map fst (params_of k hc true))
                                  else None)]
                  else []) =
               Finished {| s_inst := empty_inst; s_trace := pre_events k en |}).
  { unfold pre_events. fold hc. destruct (k_pre_init k); [|reflexivity].
    destruct (k_pre_init_has_args k); reflexivity. }
  rewrite E1. clear E1.
  (* 2. binders *)
  rewrite exec_body_app.
  set (s1 := {| s_inst := empty_inst; s_trace := pre_events k en |}).
  assert (E2 : exec_body k no_fault von en s1
                 ((if needs_cached_setattr k hc then [SBindSetattr] else []) ++
                  (if k_frozen k && negb (k_slots k) then [SBindInstDict] else [])) = Finished s1).
  { rewrite exec_body_app.
    assert (Ea : exec_body k no_fault von en s1 (if needs_cached_setattr k hc then [SBindSetattr] else [])
                 = Finished s1) by (destruct (needs_cached_setattr k hc); reflexivity).
    rewrite Ea. destruct (k_frozen k && negb (k_slots k)) eqn:Fd; [|reflexivity].
    apply andb_true_iff in Fd as [_ Fd]. apply negb_true_iff in Fd.
    cbn. now rewrite (wf_dict k W Fd). }
  rewrite E2. clear E2.
  (* 3. the stores *)
  rewrite exec_body_app.
  destruct (exec_fields k sc von en W G (filtered_attrs k) s1) as (i3 & E3 & R3 & O3 & A3).
  { intros a Ha. apply in_filtered in Ha as [Ha Hp]. auto. }
  { apply NoDup_map_filter. apply (wf_names k W). }
  fold hc in E3. rewrite E3. clear E3. unfold s1 in *. cbn [s_inst s_trace] in *.
  assert (Rp : forall a, In a (k_attrs k) -> participates a = true ->
                         read k i3 (a_name a) = Ok (spec_value a en)).
  { intros a Ha Hp. apply R3. now apply in_filtered. }
  assert (Rn : forall a, In a (k_attrs k) -> participates a = false ->
                         read k i3 (a_name a) = Raise EAttributeError).
  { intros a Ha Hp. rewrite O3; [apply read_empty|].
    intros Hin. apply in_map_iff in Hin as (b & Hn & Hb). apply in_filtered in Hb as [Hb Hpb].
    assert (b = a) by (eapply name_in_attrs_unique; eauto). subst. congruence. }
  assert (Ro : forall m, ~ In m (map a_name (k_attrs k)) -> read k i3 m = Raise EAttributeError).
  { intros m Hm. rewrite O3; [apply read_empty|]. intros Hin. apply Hm.
    apply in_map_iff in Hin as (b & Hn & Hb). apply in_filtered in Hb as [Hb _].
    apply in_map_iff. eauto. }
  (* 4. validators *)
  rewrite exec_body_app.
  set (s3 := {| s_inst := i3;
                s_trace := pre_events k en ++ flat_map (fun a => field_events a en) (filtered_attrs k) |}).
  assert (E4 : exec_body k no_fault von en s3
                 (match validated k with [] => [] | vs => [SValidators vs] end) =
               Finished {| s_inst := i3;
                           s_trace := s_trace s3 ++
                             (if von then validator_events k en (spec_snapshot k en) (filtered_attrs k)
                              else []) |}).
  { unfold validated. 
    destruct (flat_map (fun a => match a_validator a with Some v => [(a_name a, v)] | None => [] end)
                       (filtered_attrs k)) as [|p vs] eqn:Ev.
    - cbn. rewrite (validated_nil_events k en _ _ Ev). destruct von; now rewrite app_nil_r.
    - cbn [exec_body exec_stmt]. destruct von.
      + rewrite <- Ev. rewrite (run_validators_nofault k en (filtered_attrs k) s3).
        * unfold s3 at 1 3. cbn [s_inst]. now rewrite (snapshot_spec k en i3 Rp Rn).
        * intros a Ha. apply in_filtered in Ha as [Ha Hp]. now apply Rp.
      + now rewrite app_nil_r. }
  rewrite E4. clear E4. cbn [s_trace] in *.
  (* 5. post-init *)
  rewrite exec_body_app.
  match goal with |- context [exec_body k no_fault von en ?st (if k_post_init k then _ else _)] =>
    set (s4 := st) end.
  assert (E5 : exec_body k no_fault von en s4 (if k_post_init k then [SPostInit] else []) =
               Finished {| s_inst := i3; s_trace := s_trace s4 ++ (if k_post_init k then [EvPostInit] else []) |}).
  { destruct (k_post_init k); cbn; [reflexivity|]. now rewrite app_nil_r. }
  rewrite E5. clear E5.
  assert (Htrace : s_trace s4 ++ (if k_post_init k then [EvPostInit] else []) = expected_trace k von en).
  { unfold s4, s3, expected_trace. cbn [s_trace]. now rewrite <- !app_assoc. }
  rewrite Htrace. clear Htrace.
  (* 6. hash cache *)
  rewrite exec_body_app.
  set (s5 := {| s_inst := i3; s_trace := expected_trace k von en |}).
  assert (E6 : exists i6,
    exec_body k no_fault von en s5
      (if k_cache_hash k then [SHashCacheInit (hash_cache_setter k)] else []) =
      Finished {| s_inst := i6; s_trace := expected_trace k von en |} /\
    (forall m, m <> HASH_CACHE -> read k i6 m = read k i3 m) /\
    (k_cache_hash k = true -> read k i6 HASH_CACHE = Ok VNone) /\ i_args i6 = i_args i3).
  { destruct (k_cache_hash k) eqn:Ch.
    - pose proof (cache_storable k W Ch) as St.
      cbn [exec_body exec_stmt]. unfold hash_cache_setter.
      destruct (k_frozen k) eqn:Fz.
      + destruct (k_slots k || is_slot_attr k HASH_CACHE) eqn:Sl.
        * cbn. destruct (obj_setattr_ok k i3 HASH_CACHE VNone St) as (i6 & -> & Q1 & Q2 & Q3).
          exists i6. auto.
        * apply orb_false_iff in Sl as [Sl Sa].
          assert (Hs : is_slot k HASH_CACHE = false).
          { unfold is_slot, slot_names. rewrite Sl, app_nil_r. exact Sa. }
          cbn. destruct (dict_store_ok k i3 HASH_CACHE VNone (wf_dict k W Sl) Hs) as (i6 & -> & Q1 & Q2 & Q3).
          exists i6. auto.
      + cbn. unfold plain_assign. unfold s5. cbn [s_inst s_trace].
        assert (Hnot : forall hooked, class_setattr k = HookedSetattr hooked -> mem_str HASH_CACHE hooked = false).
        { intros hooked Cs. unfold class_setattr in Cs. rewrite Fz in Cs.
          destruct (mem_str HASH_CACHE hooked) eqn:M; [|reflexivity]. exfalso.
          apply (wf_cache_name k W).
          destruct (filter (in_sa_attrs (effective_cls_on_setattr k)) (k_attrs k)) as [|x l] eqn:Ef;
            [discriminate|].
          assert (hooked = map a_name (filter (in_sa_attrs (effective_cls_on_setattr k)) (k_attrs k)))
            by (rewrite Ef; inversion Cs; reflexivity).
          subst hooked. apply mem_str_In in M. apply in_map_iff in M as (b & Hb1 & Hb2).
          apply filter_In in Hb2 as [Hb2 _]. apply in_map_iff. eauto. }
        destruct (class_setattr k) as [| |hooked] eqn:Cs.
        * destruct (obj_setattr_ok k i3 HASH_CACHE VNone St) as (i6 & -> & Q1 & Q2 & Q3). exists i6. auto.
        * unfold class_setattr in Cs. rewrite Fz in Cs.
          match type of Cs with context [filter ?p ?l] => destruct (filter p l) end; discriminate.
        * rewrite (Hnot hooked eq_refl).
          destruct (obj_setattr_ok k i3 HASH_CACHE VNone St) as (i6 & -> & Q1 & Q2 & Q3). exists i6. auto.
    - exists i3. cbn. repeat split; auto. discriminate. }
  destruct E6 as (i6 & E6 & Q2 & Q1 & Q3). rewrite E6. clear E6.
  assert (Hname : forall a, In a (k_attrs k) -> a_name a <> HASH_CACHE).
  { intros a Ha E. apply (wf_cache_name k W). rewrite <- E. now apply in_map. }
  (* 7. exception args *)
  unfold expected_args.
  destruct (k_is_exc k) eqn:Ex.
  - cbn [exec_body exec_stmt s_inst s_trace].
    rewrite (read_all_ok k i6 en (filter a_init (filtered_attrs k))).
    + eexists. split; [reflexivity|]. cbn [i_slots i_dict i_args].
      assert (Hr : forall m, read k {| i_slots := i_slots i6; i_dict := i_dict i6;
                                       i_args := Some (map (fun a => spec_value a en)
                                                           (filter a_init (filtered_attrs k))) |} m
                             = read k i6 m) by reflexivity.
      repeat split.
      * intros a Ha Hp. rewrite Hr, Q2; auto.
      * intros a Ha Hp. rewrite Hr, Q2; auto.
      * intros m Hm Hc. rewrite Hr, Q2; auto.
      * intros Hc. rewrite Hr. auto.
    + intros a Ha. apply filter_In in Ha as [Ha _]. apply in_filtered in Ha as [Ha Hp].
      rewrite Q2; auto.
  - cbn [exec_body]. exists i6. split; [reflexivity|]. repeat split.
    + intros a Ha Hp. rewrite Q2; auto.
    + intros a Ha Hp. rewrite Q2; auto.
    + intros m Hm Hc. rewrite Q2; auto.
    + exact Q1.
    + rewrite Q3, A3. reflexivity.
Qed.
