(** * Property-level consequences for the initializer (C01, C02). *)

From Coq Require Import List Bool String Arith Lia.
Import ListNotations.
From Attrs Require Import Core.Attr Core.Init Core.InitProofs Core.Faults.
Open Scope string_scope.
Open Scope list_scope.

(** ** Signature *)

Definition pdef (a : attribute) : pdefault :=
  match a_default a with
  | DNothing => PMandatory
  | DValue => PDefaultOf (a_name a)
  | DFactory _ _ => PNothing
  end.

Lemma params_of_spec k hc kw :
  params_of k hc kw =
  map (fun a => (alias_of a, pdef a))
      (filter (fun a => a_init a && Bool.eqb (a_kw_only a) kw) (k_attrs k)).
Proof.
  unfold params_of, filtered_attrs. induction (k_attrs k) as [|a r IH]; [reflexivity|].
  cbn [filter]. unfold participates at 1.
  destruct (a_init a) eqn:Ei; cbn [orb andb].
  - cbn [flat_map]. rewrite IH. unfold field_script. rewrite Ei. cbn [negb]. unfold pdef.
    destruct (a_default a) eqn:Ed; cbn [snd]; destruct (Bool.eqb (a_kw_only a) kw);
      cbn [map app]; rewrite ?Ed; reflexivity.
  - destruct (has_default a) eqn:Hd; [|exact IH].
    cbn [flat_map]. rewrite IH. unfold field_script. rewrite Ei. cbn [negb].
    destruct (a_default a); reflexivity.
Qed.

Theorem init_signature_l k sc :
  make_init_script k = GenOk sc ->
  pos_params sc = map (fun a => (alias_of a, pdef a))
                      (filter (fun a => a_init a && negb (a_kw_only a)) (k_attrs k)) /\
  kw_params sc = map (fun a => (alias_of a, pdef a))
                     (filter (fun a => a_init a && a_kw_only a) (k_attrs k)).
Proof.
  unfold make_init_script. destruct (k_frozen k && _); [discriminate|].
  destruct (k_frozen k && existsb _ _); [discriminate|]. intros H; inversion H; subst; cbn [pos_params kw_params].
  rewrite !params_of_spec. split; f_equal; apply filter_ext; intros a;
    destruct (a_kw_only a); reflexivity.
Qed.

(** A parameter is optional iff its field has a default. *)
Lemma pdef_optional a : (pdef a <> PMandatory) <-> has_default a = true.
Proof. unfold pdef, has_default. destruct (a_default a); split; intros; try congruence; try discriminate. Qed.

(** ** Annotations *)
Theorem init_annotations_l k sc :
  make_init_script k = GenOk sc ->
  annotations sc = flat_map field_annotation (filter participates (k_attrs k)).
Proof.
  unfold make_init_script. destruct (k_frozen k && _); [discriminate|].
  destruct (k_frozen k && existsb _ _); [discriminate|]. intros H; inversion H; reflexivity.
Qed.

(** ** TypeError: a call that does not bind runs nothing *)
Theorem init_typeerror_l k sc f von pos kw :
  make_init_script k = GenOk sc -> bind_call sc pos kw = BindTypeError ->
  run_init k f von pos kw = InitTypeError.
Proof. intros G B. unfold run_init. now rewrite G, B. Qed.

(** ** Mode independence: the value a field ends up with is a function of the field
    tuple and the call only. *)
Theorem init_mode_independent_l k1 k2 sc1 sc2 von1 von2 pos kw en :
  wf k1 -> wf k2 -> k_attrs k1 = k_attrs k2 ->
  make_init_script k1 = GenOk sc1 -> make_init_script k2 = GenOk sc2 ->
  bind_call sc1 pos kw = Bound en ->
  bind_call sc2 pos kw = Bound en /\
  exists i1 i2 t1 t2,
    run_init k1 no_fault von1 pos kw = InitDone i1 t1 /\
    run_init k2 no_fault von2 pos kw = InitDone i2 t2 /\
    forall a, In a (k_attrs k1) -> read k1 i1 (a_name a) = read k2 i2 (a_name a).
Proof.
  intros W1 W2 E G1 G2 B1.
  assert (B2 : bind_call sc2 pos kw = Bound en).
  { destruct (init_signature_l k1 sc1 G1) as [P1 K1]. destruct (init_signature_l k2 sc2 G2) as [P2 K2].
    unfold bind_call in *. rewrite P2, K2, <- E, <- P1, <- K1. exact B1. }
  split; [exact B2|].
  destruct (run_init_nofault k1 sc1 von1 pos kw en W1 G1 B1) as (i1 & R1 & A1 & N1 & _).
  destruct (run_init_nofault k2 sc2 von2 pos kw en W2 G2 B2) as (i2 & R2 & A2 & N2 & _).
  exists i1, i2, (expected_trace k1 von1 en), (expected_trace k2 von2 en).
  split; [exact R1|]. split; [exact R2|].
  intros a Ha. destruct (participates a) eqn:P.
  - rewrite (A1 a Ha P). rewrite E in Ha. now rewrite (A2 a Ha P).
  - rewrite (N1 a Ha P). rewrite E in Ha. now rewrite (N2 a Ha P).
Qed.

(** ** Trace facts (C02) *)

Definition is_hook (ev : event) : bool := match ev with EvHook _ _ _ => true | _ => false end.

Lemma no_hooks_l k von en : forallb (fun ev => negb (is_hook ev)) (expected_trace k von en) = true.
Proof.
  unfold expected_trace. rewrite !forallb_app. repeat (apply andb_true_iff; split).
  - unfold pre_events. destruct (k_pre_init k); [|reflexivity]. destruct (k_pre_init_has_args k); reflexivity.
  - induction (filtered_attrs k) as [|a r IH]; [reflexivity|]. cbn [flat_map]. rewrite forallb_app, IH, andb_true_r.
    unfold field_events, factory_events. rewrite forallb_app. apply andb_true_iff. split.
    + destruct (a_default a); try reflexivity. destruct (if a_init a then _ else true); reflexivity.
    + destruct (conv_call_of a); reflexivity.
  - destruct von; [|reflexivity]. unfold validator_events.
    induction (filtered_attrs k) as [|a r IH]; [reflexivity|]. cbn [flat_map]. rewrite forallb_app, IH, andb_true_r.
    destruct (a_validator a); reflexivity.
  - destruct (k_post_init k); reflexivity.
Qed.

Lemma validators_see_full_instance_l k en snap l ev :
  In ev (validator_events k en snap l) ->
  exists a v, In a l /\ a_validator a = Some v /\ ev = EvValidator (a_name a) v (spec_value a en) snap.
Proof.
  unfold validator_events. intros H. apply in_flat_map in H as (a & Ha & Hev).
  destruct (a_validator a) as [v|] eqn:E; [|destruct Hev]. destruct Hev as [<-|[]]. eauto.
Qed.

(** Fully populated: the snapshot the validators see holds every participating field. *)
Lemma spec_snapshot_full k en a :
  In a (k_attrs k) -> participates a = true -> In (a_name a, Some (spec_value a en)) (spec_snapshot k en).
Proof.
  intros Ha P. unfold spec_snapshot. apply in_map_iff. exists a. split; [now rewrite P | exact Ha].
Qed.

(** Each step at most once per field. *)
Lemma field_events_once a en :
  List.length (factory_events a en) <= 1 /\
  List.length (conv_events (conv_call_of a) (a_name a) (raw_value a en)) <= 1.
Proof.
  unfold factory_events. split.
  - destruct (a_default a); cbn; try lia. destruct (if a_init a then _ else true); cbn; lia.
  - destruct (conv_call_of a); cbn; lia.
Qed.

(** The factory runs only when no value was supplied. *)
Lemma factory_only_without_value a en :
  a_init a = true -> is_nothing (env_get en (alias_of a)) = false -> factory_events a en = [].
Proof. intros Hi Hn. unfold factory_events. destruct (a_default a); auto. now rewrite Hi, Hn. Qed.

(** ** Fault propagation for the whole initializer *)

Lemma first_fault_single j : forall n lo, lo <= j < lo + n ->
  first_fault (fun i => Nat.eqb i j) lo n = Some j.
Proof.
  induction n as [|n IH]; intros lo H; [lia|]. cbn. destruct (Nat.eqb lo j) eqn:E.
  - apply Nat.eqb_eq in E. now subst.
  - apply Nat.eqb_neq in E. apply IH. lia.
Qed.

Theorem fault_propagation_l k sc f von pos kw en :
  wf k -> make_init_script k = GenOk sc -> bind_call sc pos kw = Bound en ->
  run_init k f von pos kw =
  match first_fault f 0 (List.length (expected_trace k von en)) with
  | None => run_init k no_fault von pos kw
  | Some j => InitRaised (EUser j) (firstn (S j) (expected_trace k von en))
  end.
Proof.
  intros W G B.
  destruct (run_init_nofault k sc von pos kw en W G B) as (i & R & _).
  unfold run_init in *. rewrite G, B in *. rewrite exec_body_faults. cbn [s_trace List.length].
  destruct (exec_body k no_fault von en {| s_inst := empty_inst; s_trace := [] |} (body sc)) as [s|e t] eqn:E;
    [|discriminate].
  inversion R; subst. unfold cutoff. cbn [trace_of]. rewrite Nat.sub_0_r.
  destruct (first_fault f 0 (List.length (s_trace s))); reflexivity.
Qed.

Corollary single_fault_l k sc von pos kw en j :
  wf k -> make_init_script k = GenOk sc -> bind_call sc pos kw = Bound en ->
  j < List.length (expected_trace k von en) ->
  run_init k (fun i => Nat.eqb i j) von pos kw =
  InitRaised (EUser j) (firstn (S j) (expected_trace k von en)).
Proof.
  intros W G B Hj. rewrite (fault_propagation_l k sc _ von pos kw en W G B).
  rewrite first_fault_single; [reflexivity | lia].
Qed.

(** ** Non-vacuity: a concrete class meeting every hypothesis, with a factory, a
    converter, a validator, a private name, hooks and both kinds of hook. *)
Definition example_attr (n : string) (d : default_kind) (c : conv_kind) (v : option string) (i kwo : bool) : attribute :=
  {| a_name := n; a_default := d; a_validator := v; a_repr := true; a_eq := true; a_eq_key := None;
     a_order := true; a_order_key := None; a_hash := None; a_init := i; a_type := None; a_converter := c;
     a_kw_only := kwo; a_inherited := false; a_on_setattr := OsNone;
     a_alias := Some (default_init_alias_for n) |}.

Definition example_spec : cls_spec :=
  {| k_attrs := [example_attr "_x" DNothing (CPlain "cx" false) (Some "vx") true false;
                 example_attr "y" (DFactory "fy" true) (CConverter "cy" true true false) None true false;
                 example_attr "z" DValue CNone (Some "vz") false false;
                 example_attr "w" DNothing CNone None true true];
     k_frozen := true; k_slots := false; k_cache_hash := true; k_is_exc := false;
     k_pre_init := true; k_pre_init_has_args := true; k_post_init := true;
     k_on_setattr := COsNone; k_mro_slots := ["y"]; k_has_dict := true |}.

Example example_wf : wf example_spec.
Proof.
  split.
  - apply (NoDup_count_occ' string_dec). intros x Hx. cbn in Hx.
    destruct Hx as [<-|[<-|[<-|[<-|[]]]]]; reflexivity.
  - reflexivity.
  - cbn. intros [H|[H|[H|[H|[]]]]]; discriminate H.
Qed.

Example example_runs :
  match make_init_script example_spec with
  | GenOk sc =>
      match bind_call sc [VTok 1] [("w", VTok 2)] with
      | Bound en =>
          match run_init example_spec no_fault true [VTok 1] [("w", VTok 2)] with
          | InitDone i t =>
              t = expected_trace example_spec true en /\ List.length t = 7 /\
              read example_spec i "_x" = Ok (VApp "cx" [VTok 1]) /\
              read example_spec i "y" = Ok (VApp "cy" [VApp "fy" [VSelf]; VSelf; VAttr "y"]) /\
              read example_spec i "z" = Ok (VDefault "z")
          | _ => False
          end
      | BindTypeError => False
      end
  | GenValueError => False
  end.
Proof. vm_compute. repeat split. Qed.
