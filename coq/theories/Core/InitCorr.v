(** * Correspondence for the initializer model (used by the C01, C02, C05, C12 checks).
    A case is one class specification plus a list of calls with what the real
    generated __init__ did; [coqc] evaluates [run_init] on the same calls. *)
From Coq Require Import List Bool String Arith.
Import ListNotations.
From Attrs Require Import Base Core.Attr Core.Init.
Open Scope string_scope.
Open Scope list_scope.

(** ** Decidable equality on the observable types *)

Definition hook_eqb (a b : hook) : bool :=
  match a, b with
  | HUser f, HUser g => String.eqb f g
  | HConvert, HConvert | HValidate, HValidate | HFrozen, HFrozen => true
  | _, _ => false
  end.

Definition vals_eqb := list_eqb val_eqb.
Definition oval_eqb := option_eqb val_eqb.

Definition snap_eqb (a b : list (string * option val)) : bool :=
  list_eqb (fun x y => String.eqb (fst x) (fst y) && oval_eqb (snd x) (snd y)) a b.

Definition event_eqb (a b : event) : bool :=
  match a, b with
  | EvPreInit p k, EvPreInit p' k' =>
      vals_eqb p p' && list_eqb (fun x y => String.eqb (fst x) (fst y) && val_eqb (snd x) (snd y)) k k'
  | EvFactory f n s, EvFactory f' n' s' => String.eqb f f' && String.eqb n n' && Bool.eqb s s'
  | EvConverter f n a, EvConverter f' n' a' =>
      (* the observed side uses "" when one Converter object serves several fields: the callable cannot
         know which field it is converting (its symbol and arguments are still compared) *)
      (String.eqb f' "" || String.eqb f f') && String.eqb n n' && vals_eqb a a'
  | EvValidator f v x s, EvValidator f' v' x' s' =>
      String.eqb f f' && String.eqb v v' && val_eqb x x' && snap_eqb s s'
  | EvPostInit, EvPostInit => true
  | EvHook f h v, EvHook f' h' v' => String.eqb f f' && hook_eqb h h' && val_eqb v v'
  | _, _ => false
  end.

Definition trace_eqb := list_eqb event_eqb.

(** ** Observations *)

Inductive observed :=
| ObsTypeError                                   (* the call was rejected, nothing ran *)
| ObsDone (state : list (string * option val))   (* every field: value or unset *)
          (cache : option val)                   (* the hash cache attribute, if readable *)
          (args : option (list val))             (* BaseException.args for auto_exc classes *)
          (trace : list event)
| ObsRaised (idx : nat) (trace : list event)     (* the marked exception of callback idx came out *)
| ObsOther (what : string).                      (* anything else (never predicted) *)

Definition observed_eqb (a b : observed) : bool :=
  match a, b with
  | ObsTypeError, ObsTypeError => true
  | ObsDone s c g t, ObsDone s' c' g' t' =>
      snap_eqb s s' && oval_eqb c c' && option_eqb vals_eqb g g' && trace_eqb t t'
  | ObsRaised i t, ObsRaised i' t' => Nat.eqb i i' && trace_eqb t t'
  | ObsOther x, ObsOther y => String.eqb x y
  | _, _ => false
  end.

Record call := {
  c_pos : list val;
  c_kw : list (string * val);
  c_fault : option nat;           (* the callback with this trace index raises *)
  c_validators_on : bool
}.

Definition fault_of (o : option nat) : faults :=
  fun i => match o with Some j => Nat.eqb i j | None => false end.

Definition model_call (k : cls_spec) (c : call) : observed :=
  match run_init k (fault_of (c_fault c)) (c_validators_on c) (c_pos c) (c_kw c) with
  | InitDefError => ObsOther "definition rejected"
  | InitTypeError => ObsTypeError
  | InitDone i t =>
      ObsDone (snapshot k i)
              (if k_cache_hash k then match read k i HASH_CACHE with Ok v => Some v | Raise _ => None end
               else None)
              (if k_is_exc k then i_args i else None)
              t
  | InitRaised (EUser n) t => ObsRaised n t
  | InitRaised ETypeError _ => ObsOther "TypeError"
  | InitRaised EAttributeError _ => ObsOther "AttributeError"
  | InitRaised EFrozenInstance _ => ObsOther "FrozenInstanceError"
  | InitRaised EFrozenAttribute _ => ObsOther "FrozenAttributeError"
  end.

(** Signature as [inspect.signature] shows it: (name, keyword-only?, has default?). *)
Definition sig_of (sc : init_script) : list (string * bool * bool) :=
  map (fun p => (fst p, false, match snd p with PMandatory => false | _ => true end)) (pos_params sc) ++
  map (fun p => (fst p, true, match snd p with PMandatory => false | _ => true end)) (kw_params sc).

Definition annot_eqb (a b : annot) : bool :=
  match a, b with
  | AType s, AType t | AConvParam s, AConvParam t => String.eqb s t
  | _, _ => false
  end.

Inductive definition :=
| DefRejected                                     (* ValueError at class definition *)
| DefOk (sig : list (string * bool * bool)) (ann : list (string * annot)).

Record case := {
  cs_spec : cls_spec;
  cs_def : definition;
  cs_calls : list (call * observed)
}.

Definition sig_eqb (a b : list (string * bool * bool)) : bool :=
  list_eqb (fun x y => String.eqb (fst (fst x)) (fst (fst y)) && Bool.eqb (snd (fst x)) (snd (fst y))
                       && Bool.eqb (snd x) (snd y)) a b.

Definition ann_eqb (a b : list (string * annot)) : bool :=
  list_eqb (fun x y => String.eqb (fst x) (fst y) && annot_eqb (snd x) (snd y)) a b.

Definition check_def (c : case) : bool :=
  match make_init_script (cs_spec c), cs_def c with
  | GenValueError, DefRejected => true
  | GenOk sc, DefOk sg an => sig_eqb (sig_of sc) sg && ann_eqb (annotations sc) an
  | _, _ => false
  end.

Definition check_case (c : case) : bool :=
  check_def c &&
  forallb (fun p => observed_eqb (model_call (cs_spec c) (fst p)) (snd p)) (cs_calls c).

(** What the model predicts, for replay files. *)
Definition model_of (c : case) :=
  (match make_init_script (cs_spec c) with
   | GenValueError => DefRejected
   | GenOk sc => DefOk (sig_of sc) (annotations sc)
   end,
   map (fun p => model_call (cs_spec c) (fst p)) (cs_calls c)).

(** ** Script-level tie (translation validation of the generator).

    The harness parses the source text of the REAL generated initializer (the text
    [inspect.getsource] returns) into the statement language; [script_case_ok] checks
    that it is literally the script the model's generator produces for the same
    specification.  Where it holds, the theorems about [make_init_script] speak about
    the real script of that class for ALL calls, not only the sampled ones. *)

Definition vexpr_eqb (a b : vexpr) : bool :=
  match a, b with
  | XArg x, XArg y | XDefault x, XDefault y => String.eqb x y
  | XFactory f n s, XFactory f' n' s' => String.eqb f f' && String.eqb n n' && Bool.eqb s s'
  | _, _ => false
  end.

Definition setter_eqb (a b : setter) : bool :=
  match a, b with
  | SetCached, SetCached | SetPlain, SetPlain | SetInstDict, SetInstDict => true
  | _, _ => false
  end.

Definition conv_call_eqb (a b : conv_call) : bool :=
  match a, b with
  | NoConv, NoConv => true
  | ConvCall f s t, ConvCall f' s' t' => String.eqb f f' && Bool.eqb s s' && Bool.eqb t t'
  | _, _ => false
  end.

Definition strs_eqb := list_eqb String.eqb.

Fixpoint stmt_eqb (a b : stmt) {struct a} : bool :=
  match a, b with
  | SPreInit None, SPreInit None => true
  | SPreInit (Some ([], [])), SPreInit None => true   (* an empty forwarded list is the same text *)
  | SPreInit (Some (p, k)), SPreInit (Some (p', k')) => strs_eqb p p' && strs_eqb k k'
  | SBindSetattr, SBindSetattr | SBindInstDict, SBindInstDict | SPostInit, SPostInit => true
  | SStore h f c e, SStore h' f' c' e' =>
      setter_eqb h h' && String.eqb f f' && conv_call_eqb c c' && vexpr_eqb e e'
  | SIfNotNothing al t e, SIfNotNothing al' t' e' =>
      String.eqb al al' && stmt_eqb t t' && stmt_eqb e e'
  | SValidators vs, SValidators vs' =>
      list_eqb (fun x y => String.eqb (fst x) (fst y) && String.eqb (snd x) (snd y)) vs vs'
  | SHashCacheInit h, SHashCacheInit h' => setter_eqb h h'
  | SExcInit l, SExcInit l' => strs_eqb l l'
  | _, _ => false
  end.

Definition pdefault_eqb (a b : pdefault) : bool :=
  match a, b with
  | PMandatory, PMandatory | PNothing, PNothing => true
  | PDefaultOf x, PDefaultOf y => String.eqb x y
  | _, _ => false
  end.

Definition params_eqb :=
  list_eqb (fun (x y : string * pdefault) => String.eqb (fst x) (fst y) && pdefault_eqb (snd x) (snd y)).

(** In the parsed text a converter/factory/validator is known by the FIELD whose helper
    name it carries, not by the user's symbol: compare modulo that renaming by
    rewriting the model's script to field-named symbols. *)
Definition field_named_vexpr (e : vexpr) : vexpr :=
  match e with XFactory f _ s => XFactory f f s | x => x end.
Definition field_named_conv (fld : string) (c : conv_call) : conv_call :=
  match c with ConvCall _ s t => ConvCall fld s t | NoConv => NoConv end.
Fixpoint field_named (s : stmt) : stmt :=
  match s with
  | SStore h f c e => SStore h f (field_named_conv f c) (field_named_vexpr e)
  | SIfNotNothing al t e => SIfNotNothing al (field_named t) (field_named e)
  | SValidators vs => SValidators (map (fun p => (fst p, fst p)) vs)
  | x => x
  end.

Record script_case := {
  sc_spec : cls_spec;
  sc_pos : list (string * pdefault);
  sc_kw : list (string * pdefault);
  sc_body : list stmt
}.

Definition script_case_ok (c : script_case) : bool :=
  match make_init_script (sc_spec c) with
  | GenValueError => false
  | GenOk sc =>
      params_eqb (pos_params sc) (sc_pos c) && params_eqb (kw_params sc) (sc_kw c) &&
      list_eqb stmt_eqb (map field_named (body sc)) (sc_body c)
  end.

Definition script_model_of (c : script_case) :=
  match make_init_script (sc_spec c) with
  | GenValueError => None
  | GenOk sc => Some (pos_params sc, kw_params sc, map field_named (body sc))
  end.
