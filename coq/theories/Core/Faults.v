(** * Fault propagation for the initializer interpreter.

    For an arbitrary fault oracle [f], running the generated initializer equals
    running it fault-free and cutting the run at the first callback index where
    [f] fires: the marked exception of exactly that callback comes out and the
    trace is the fault-free trace up to and including that callback — no later
    step runs.  Proved generically for every program of the statement language. *)

From Coq Require Import List Bool String Arith Lia.
Import ListNotations.
From Attrs Require Import Core.Attr Core.Init.
Open Scope list_scope.

Definition trace_of (o : outcome) : list event :=
  match o with Finished s => s_trace s | Raised _ t => t end.

(** least [j] in [lo, lo+n) with [f j] *)
Fixpoint first_fault (f : faults) (lo n : nat) : option nat :=
  match n with
  | 0 => None
  | S n' => if f lo then Some lo else first_fault f (S lo) n'
  end.

Definition cutoff (f : faults) (lo : nat) (o : outcome) : outcome :=
  match first_fault f lo (List.length (trace_of o) - lo) with
  | None => o
  | Some j => Raised (EUser j) (firstn (S j) (trace_of o))
  end.

Definition extends (t t' : list event) : Prop := exists d, t' = t ++ d.

Lemma extends_refl t : extends t t.
Proof. exists []. now rewrite app_nil_r. Qed.

Lemma extends_trans a b c : extends a b -> extends b c -> extends a c.
Proof. intros [d ->] [e ->]. exists (d ++ e). now rewrite app_assoc. Qed.

Lemma first_fault_split f : forall a lo b,
  first_fault f lo (a + b) =
  match first_fault f lo a with Some j => Some j | None => first_fault f (lo + a) b end.
Proof.
  induction a as [|a IH]; intros lo b; cbn.
  - now rewrite Nat.add_0_r.
  - destruct (f lo); [reflexivity|]. rewrite IH. now rewrite Nat.add_succ_r.
Qed.

Lemma first_fault_bound f : forall n lo j, first_fault f lo n = Some j -> lo <= j < lo + n /\ f j = true.
Proof.
  induction n as [|n IH]; intros lo j H; cbn in H; [discriminate|].
  destruct (f lo) eqn:E.
  - inversion H; subst. split; [lia | exact E].
  - apply IH in H. destruct H as [H1 H2]. split; [lia | exact H2].
Qed.

Lemma first_fault_nofault lo n : first_fault no_fault lo n = None.
Proof. revert lo; induction n; intros; cbn; auto. Qed.

(** A computation is [good] when it only ever extends the trace and its behaviour
    under any oracle is the cut of its fault-free behaviour. *)
Definition comp := faults -> st -> outcome.

Definition good (C : comp) : Prop :=
  (forall s, extends (s_trace s) (trace_of (C no_fault s))) /\
  (forall f s, C f s = cutoff f (List.length (s_trace s)) (C no_fault s)).

Definition bind (C1 C2 : comp) : comp :=
  fun f s => match C1 f s with Finished s' => C2 f s' | o => o end.

Definition cb_then (ev : st -> event) (K : comp) : comp :=
  fun f s => match callback f s (ev s) with
             | Ok s' => K f s'
             | Raise e => Raised e (s_trace s ++ [ev s])
             end.

Lemma good_pure (C : comp) :
  (forall f s, C f s = C no_fault s) ->
  (forall s, trace_of (C no_fault s) = s_trace s) -> good C.
Proof.
  intros Hf Ht. split.
  - intros s. rewrite Ht. apply extends_refl.
  - intros f s. rewrite Hf. unfold cutoff. rewrite Ht, Nat.sub_diag. reflexivity.
Qed.

Lemma firstn_app_exact {A} (l d : list A) : firstn (List.length l) (l ++ d) = l.
Proof. rewrite firstn_app, Nat.sub_diag, firstn_all. cbn. now rewrite app_nil_r. Qed.

Lemma good_cb_then ev K : good K -> good (cb_then ev K).
Proof.
  intros [Kp Kc]. split.
  - intros s. unfold cb_then, callback. cbn.
    eapply extends_trans; [|apply Kp]. cbn. now exists [ev s].
  - intros f s. unfold cb_then at 1. unfold callback.
    set (s' := {| s_inst := s_inst s; s_trace := s_trace s ++ [ev s] |}).
    assert (Enf : cb_then ev K no_fault s = K no_fault s') by reflexivity.
    rewrite Enf. destruct (Kp s') as [d Hd]. cbn [s_trace s'] in Hd.
    unfold cutoff. rewrite Hd. rewrite !app_length. cbn [List.length].
    assert (Hlen : List.length (s_trace s) + 1 + List.length d - List.length (s_trace s)
                   = S (List.length d)) by lia.
    rewrite Hlen. cbn [first_fault]. destruct (f (List.length (s_trace s))) eqn:Ef.
    + f_equal.
      assert (Hl : S (List.length (s_trace s)) = List.length (s_trace s ++ [ev s]))
        by (rewrite app_length; cbn; lia).
      rewrite Hl. now rewrite firstn_app_exact.
    + rewrite Kc. unfold cutoff. rewrite Hd. cbn [s_trace s']. rewrite !app_length. cbn [List.length].
      assert (Hlen2 : List.length (s_trace s) + 1 + List.length d - (List.length (s_trace s) + 1)
                      = List.length d) by lia.
      rewrite Hlen2. rewrite Nat.add_1_r. reflexivity.
Qed.

Lemma good_bind C1 C2 : good C1 -> good C2 -> good (bind C1 C2).
Proof.
  intros [P1 Q1] [P2 Q2]. split.
  - intros s. unfold bind. specialize (P1 s). destruct (C1 no_fault s) as [s1|e t] eqn:E1; [|exact P1].
    eapply extends_trans; [exact P1 | apply P2].
  - intros f s. unfold bind. rewrite Q1. specialize (P1 s).
    set (lo := List.length (s_trace s)).
    destruct (C1 no_fault s) as [s1|e t1] eqn:E1.
    + cbn [trace_of] in P1. destruct P1 as [d1 Hd1].
      destruct (P2 s1) as [d2 Hd2].
      unfold cutoff. cbn [trace_of]. rewrite Hd2, Hd1, !app_length.
      assert (L1 : lo + List.length d1 - lo = List.length d1) by lia.
      assert (L2 : lo + List.length d1 + List.length d2 - lo = List.length d1 + List.length d2) by lia.
      fold lo. rewrite L1, L2. rewrite first_fault_split.
      destruct (first_fault f lo (List.length d1)) as [j|] eqn:Ej.
      * f_equal. apply first_fault_bound in Ej as [Hb _].
        rewrite (firstn_app (S j) (s_trace s ++ d1)).
        assert (Z : S j - List.length (s_trace s ++ d1) = 0) by (rewrite app_length; fold lo; lia).
        rewrite Z. cbn [firstn]. now rewrite app_nil_r.
      * rewrite Q2. unfold cutoff. rewrite Hd2, Hd1, !app_length. fold lo.
        assert (L3 : lo + List.length d1 + List.length d2 - (lo + List.length d1) = List.length d2) by lia.
        rewrite L3. reflexivity.
    + unfold cutoff. cbn [trace_of].
      destruct (first_fault f lo (List.length t1 - lo)); reflexivity.
Qed.

Lemma good_ext (C C' : comp) : (forall f s, C f s = C' f s) -> good C' -> good C.
Proof.
  intros E [P Q]. split.
  - intros s. rewrite E. apply P.
  - intros f s. rewrite !E. apply Q.
Qed.

(** ** Every construct of the interpreter is good *)

Section Interp.
Variable k : cls_spec.
Variable von : bool.
Variable en : env.

Lemma good_obj_store n v :
  good (fun _ s => match obj_setattr k (s_inst s) n v with
                   | Ok i => Finished {| s_inst := i; s_trace := s_trace s |}
                   | Raise e => Raised e (s_trace s)
                   end).
Proof. apply good_pure; [reflexivity|]. intros s. destruct (obj_setattr k (s_inst s) n v); reflexivity. Qed.

Lemma good_do_store how n v : good (fun f s => do_store k f s how n v).
Proof.
  destruct how; cbn [do_store].
  - apply good_obj_store.
  - unfold plain_assign. destruct (class_setattr k) as [| |hooked].
    + apply good_obj_store.
    + apply good_pure; reflexivity.
    + destruct (mem_str n hooked).
      * apply (good_ext _ (cb_then (fun _ => EvHook n HValidate v)
                 (fun _ s1 => match obj_setattr k (s_inst s1) n v with
                              | Ok i => Finished {| s_inst := i; s_trace := s_trace s1 |}
                              | Raise e => Raised e (s_trace s1)
                              end))).
        -- intros f s. unfold cb_then. destruct (callback f s _); reflexivity.
        -- apply good_cb_then. apply good_obj_store.
      * apply good_obj_store.
  - apply good_pure; [reflexivity|]. intros s. destruct (dict_store k (s_inst s) n v); reflexivity.
Qed.

Lemma good_conv_store how fld c v :
  good (fun f s => match apply_conv f s c fld v with
                   | (Finished s2, Some w) => do_store k f s2 how fld w
                   | (o, _) => o
                   end).
Proof.
  destruct c as [|fn ts tf]; cbn [apply_conv].
  - apply good_do_store.
  - apply (good_ext _ (cb_then (fun _ => EvConverter fld fn (conv_args (ConvCall fn ts tf) fld v))
             (fun f s2 => do_store k f s2 how fld (VApp fn (conv_args (ConvCall fn ts tf) fld v))))).
    + intros f s. unfold cb_then. destruct (callback f s _); reflexivity.
    + apply good_cb_then. apply good_do_store.
Qed.

Lemma good_exec_store how fld c e : good (fun f s => exec_store k f s en how fld c e).
Proof.
  unfold exec_store. destruct e as [al | fl | fl fn ws]; cbn [eval_vexpr].
  - destruct (lookup al en) as [v|].
    + apply good_conv_store.
    + apply good_pure; reflexivity.
  - apply good_conv_store.
  - apply (good_ext _ (cb_then (fun _ => EvFactory fl fn ws)
             (fun f s1 => match apply_conv f s1 c fld (VApp fn (if ws then [VSelf] else [])) with
                          | (Finished s2, Some w) => do_store k f s2 how fld w
                          | (o, _) => o
                          end))).
    + intros f s. unfold cb_then. destruct (callback f s _); reflexivity.
    + apply good_cb_then. apply good_conv_store.
Qed.

Lemma good_run_validators : forall vs, good (fun f s => run_validators k f s vs).
Proof.
  induction vs as [|[fld v] rest IH]; cbn [run_validators].
  - apply good_pure; reflexivity.
  - (* the read is a pure test on the instance; split on it pointwise *)
    split.
    + intros s. destruct (read k (s_inst s) fld) as [value|e]; [|apply extends_refl].
      pose proof (good_cb_then (fun s0 => EvValidator fld v value (snapshot k (s_inst s0)))
                    (fun f s' => run_validators k f s' rest) IH) as [P _].
      apply (P s).
    + intros f s. destruct (read k (s_inst s) fld) as [value|e].
      * pose proof (good_cb_then (fun s0 => EvValidator fld v value (snapshot k (s_inst s0)))
                      (fun f s' => run_validators k f s' rest) IH) as [_ Q].
        apply (Q f s).
      * unfold cutoff. cbn. now rewrite Nat.sub_diag.
Qed.

Lemma good_exec_stmt c : good (fun f s => exec_stmt k f von en s c).
Proof.
  destruct c as [args | | | how fld cv e | al t e | vs | | how | flds]; cbn [exec_stmt].
  - apply (good_ext _ (cb_then
             (fun _ => match args with
                       | None => EvPreInit [] []
                       | Some (pos, kw) =>
                           EvPreInit (map (fun a => match lookup a en with Some v => v | None => VNothing end) pos)
                                     (map (fun a => (a, match lookup a en with Some v => v | None => VNothing end)) kw)
                       end)
             (fun _ s' => Finished s'))).
    + intros f s. unfold cb_then. destruct args as [[pos kw]|]; destruct (callback f s _); reflexivity.
    + apply good_cb_then. apply good_pure; reflexivity.
  - apply good_pure; reflexivity.
  - apply good_pure; [reflexivity|]. intros s. destruct (k_has_dict k); reflexivity.
  - apply good_exec_store.
  - destruct (lookup al en) as [v|]; [|apply good_pure; reflexivity].
    destruct (if is_nothing v then e else t); try (apply good_pure; reflexivity).
    apply good_exec_store.
  - destruct von; [apply good_run_validators | apply good_pure; reflexivity].
  - apply (good_ext _ (cb_then (fun _ => EvPostInit) (fun _ s' => Finished s'))).
    + intros f s. unfold cb_then. destruct (callback f s _); reflexivity.
    + apply good_cb_then. apply good_pure; reflexivity.
  - apply good_do_store.
  - apply good_pure; [reflexivity|]. intros s. destruct (read_all k (s_inst s) flds); reflexivity.
Qed.

Lemma good_exec_body : forall b, good (fun f s => exec_body k f von en s b).
Proof.
  induction b as [|c r IH]; cbn [exec_body].
  - apply good_pure; reflexivity.
  - apply (good_bind (fun f s => exec_stmt k f von en s c) (fun f s => exec_body k f von en s r)).
    + apply good_exec_stmt.
    + exact IH.
Qed.

End Interp.

(** ** The fault-propagation theorem *)

Theorem exec_body_faults k f von en s b :
  exec_body k f von en s b =
  cutoff f (List.length (s_trace s)) (exec_body k no_fault von en s b).
Proof. apply (proj2 (good_exec_body k von en b)). Qed.
