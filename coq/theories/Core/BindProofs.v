(** * The calling convention of the generated initializer: exactly when a call is a
    TypeError, and what every parameter is bound to otherwise. *)

From Coq Require Import List Bool String Arith Lia.
Import ListNotations.
From Attrs Require Import Core.Attr Core.Init Core.InitProofs.
Open Scope string_scope.
Open Scope list_scope.

Lemma bind_pos_none : forall ps args, bind_pos ps args = None <-> List.length args > List.length ps.
Proof.
  induction ps as [|p ps IH]; intros [|v vs]; cbn; split; intros H; try discriminate; try lia; auto.
  - destruct (bind_pos ps vs) as [[en rest]|] eqn:E; [discriminate|]. apply IH in E. lia.
  - destruct (bind_pos ps vs) as [[en rest]|] eqn:E; [|reflexivity].
    assert (List.length vs > List.length ps) by lia. apply IH in H0. congruence.
Qed.

Lemma bind_pos_some : forall ps args en rest,
  bind_pos ps args = Some (en, rest) ->
  map fst en = map fst (firstn (List.length args) ps) /\ map snd en = args /\
  rest = skipn (List.length args) ps /\ List.length args <= List.length ps.
Proof.
  induction ps as [|p ps IH]; intros [|v vs] en rest H; cbn in H.
  - inversion H; subst; cbn; auto.
  - discriminate.
  - inversion H; subst; cbn; repeat split; auto; lia.
  - destruct (bind_pos ps vs) as [[en' rest']|] eqn:E; [|discriminate]. inversion H; subst.
    destruct (IH vs en' rest E) as (A & B & C & D). cbn. repeat split; try congruence; lia.
Qed.

Definition provided (kw : alist) (p : string * pdefault) : bool :=
  mem_str (fst p) (map fst kw) || match snd p with PMandatory => false | _ => true end.

Lemma lookup_none_not_in n (l : alist) : lookup n l = None <-> ~ In n (map fst l).
Proof.
  induction l as [|[m w] r IH]; cbn; [tauto|]. destruct (String.eqb n m) eqn:E.
  - apply String.eqb_eq in E; subst. split; [discriminate | intros H; exfalso; apply H; auto].
  - apply String.eqb_neq in E. rewrite IH. split; [intros H [H1|H1]; [congruence|auto] | intros H H1; apply H; auto].
Qed.

Lemma lookup_some_in n (l : alist) v : lookup n l = Some v -> In n (map fst l).
Proof.
  induction l as [|[m w] r IH]; cbn; [discriminate|]. destruct (String.eqb n m) eqn:E.
  - apply String.eqb_eq in E. auto.
  - auto.
Qed.

Lemma bind_rest_none : forall ps kw,
  bind_rest ps kw = None <->
  exists p, In p ps /\ snd p = PMandatory /\ ~ In (fst p) (map fst kw).
Proof.
  induction ps as [|p ps IH]; intros kw; cbn.
  - split; [discriminate | intros (p & [] & _)].
  - destruct (lookup (fst p) kw) as [v|] eqn:El.
    + destruct (bind_rest ps kw) eqn:Er.
      * split; [discriminate|]. intros (q & [E|Hq] & Hm & Hn).
        -- subst q. exfalso. apply Hn. eapply lookup_some_in; eauto.
        -- assert (bind_rest ps kw = None) by (apply IH; eauto). congruence.
      * split; [|reflexivity]. intros _. apply IH in Er as (q & Hq & Hm & Hn). eauto.
    + apply lookup_none_not_in in El. unfold default_val. destruct (snd p) eqn:Es.
      * split; [|reflexivity]. intros _. exists p. auto.
      * destruct (bind_rest ps kw) eqn:Er.
        -- split; [discriminate|]. intros (q & [E|Hq] & Hm & Hn); [subst q; congruence|].
           assert (bind_rest ps kw = None) by (apply IH; eauto). congruence.
        -- split; [|reflexivity]. intros _. apply IH in Er as (q & Hq & Hm & Hn). eauto.
      * destruct (bind_rest ps kw) eqn:Er.
        -- split; [discriminate|]. intros (q & [E|Hq] & Hm & Hn); [subst q; congruence|].
           assert (bind_rest ps kw = None) by (apply IH; eauto). congruence.
        -- split; [|reflexivity]. intros _. apply IH in Er as (q & Hq & Hm & Hn). eauto.
Qed.

(** The four causes of a TypeError, stated over the signature and the call. *)
Definition surplus (sc : init_script) (pos : list val) : Prop :=
  List.length pos > List.length (pos_params sc).
Definition unknown_keyword (sc : init_script) (kw : alist) : Prop :=
  exists n, In n (map fst kw) /\ ~ In n (map fst (pos_params sc) ++ map fst (kw_params sc)).
Definition duplicate_argument (sc : init_script) (pos : list val) (kw : alist) : Prop :=
  exists n, In n (map fst kw) /\ In n (map fst (firstn (List.length pos) (pos_params sc))).
Definition missing_argument (sc : init_script) (pos : list val) (kw : alist) : Prop :=
  exists p, In p (skipn (List.length pos) (pos_params sc) ++ kw_params sc) /\
            snd p = PMandatory /\ ~ In (fst p) (map fst kw).

Theorem bind_typeerror_iff_l sc pos kw :
  bind_call sc pos kw = BindTypeError <->
  surplus sc pos \/ unknown_keyword sc kw \/ duplicate_argument sc pos kw \/ missing_argument sc pos kw.
Proof.
  unfold bind_call, surplus, unknown_keyword, duplicate_argument, missing_argument.
  destruct (bind_pos (pos_params sc) pos) as [[enp rest]|] eqn:Ep.
  - destruct (bind_pos_some _ _ _ _ Ep) as (Hn & Hv & Hr & Hl).
    assert (NS : ~ List.length pos > List.length (pos_params sc)) by lia.
    destruct (forallb (fun p => mem_str (fst p) (map fst (pos_params sc) ++ map fst (kw_params sc))) kw) eqn:Ef; cbn [negb].
    + assert (NU : ~ exists n, In n (map fst kw) /\ ~ In n (map fst (pos_params sc) ++ map fst (kw_params sc))).
      { intros (n & Hin & Hnot). apply in_map_iff in Hin as (p & <- & Hp).
        rewrite forallb_forall in Ef. specialize (Ef p Hp). apply mem_str_In in Ef. contradiction. }
      destruct (existsb (fun p => mem_str (fst p) (map fst enp)) kw) eqn:Ee.
      * split; [intros _|reflexivity]. right; right; left.
        apply existsb_exists in Ee as (p & Hp & Hm). apply mem_str_In in Hm.
        exists (fst p). split; [now apply in_map | now rewrite <- Hn].
      * assert (ND : ~ exists n, In n (map fst kw) /\ In n (map fst (firstn (List.length pos) (pos_params sc)))).
        { intros (n & Hin & Hd). apply in_map_iff in Hin as (p & <- & Hp).
          assert (existsb (fun p => mem_str (fst p) (map fst enp)) kw = true).
          { apply existsb_exists. exists p. split; [exact Hp|]. apply mem_str_In. now rewrite Hn. }
          congruence. }
        destruct (bind_rest (rest ++ kw_params sc) kw) as [enr|] eqn:Er.
        -- split; [discriminate|]. intros [H|[H|[H|H]]]; try contradiction.
           exfalso. assert (bind_rest (rest ++ kw_params sc) kw = None) by (apply bind_rest_none; now rewrite Hr).
           congruence.
        -- split; [intros _|reflexivity]. right; right; right. apply bind_rest_none in Er. now rewrite Hr in Er.
    + split; [intros _|reflexivity]. right; left.
      assert (exists p, In p kw /\ mem_str (fst p) (map fst (pos_params sc) ++ map fst (kw_params sc)) = false)
        as (p & Hp & Hm).
      { clear - Ef. induction kw as [|x r IH]; cbn in Ef; [discriminate|].
        apply andb_false_iff in Ef as [H|H]; [exists x; cbn; auto|].
        destruct (IH H) as (p & Hp & Hm). exists p. cbn; auto. }
      exists (fst p). split; [now apply in_map|]. intros Hin. apply mem_str_In in Hin. congruence.
  - split; [intros _|reflexivity]. left. now apply bind_pos_none.
Qed.

(** What a binding call binds: positional arguments in order, then keyword or default. *)
Lemma lookup_app_l n (a b : alist) v : lookup n a = Some v -> lookup n (a ++ b) = Some v.
Proof.
  induction a as [|[m w] r IH]; cbn; [discriminate|]. destruct (String.eqb n m); auto.
Qed.

Lemma lookup_app_r n (a b : alist) : ~ In n (map fst a) -> lookup n (a ++ b) = lookup n b.
Proof.
  induction a as [|[m w] r IH]; cbn; [reflexivity|]. intros H.
  destruct (String.eqb n m) eqn:E; [apply String.eqb_eq in E; subst; exfalso; auto | apply IH; auto].
Qed.

Lemma bind_rest_value : forall ps kw en p,
  bind_rest ps kw = Some en -> NoDup (map fst ps) -> In p ps ->
  lookup (fst p) en = match lookup (fst p) kw with Some v => Some v | None => default_val p end.
Proof.
  induction ps as [|q ps IH]; intros kw en p H ND Hin; [destruct Hin|]. cbn in H.
  destruct (match lookup (fst q) kw with Some v => Some v | None => default_val q end) as [v|] eqn:Ev; [|discriminate].
  destruct (bind_rest ps kw) as [en'|] eqn:Er; [|discriminate]. inversion H; subst. clear H.
  inversion ND as [|? ? Hn ND']; subst. cbn [lookup fst].
  destruct Hin as [->|Hin].
  - rewrite String.eqb_refl. now rewrite Ev.
  - destruct (String.eqb (fst p) (fst q)) eqn:E.
    + apply String.eqb_eq in E. exfalso. apply Hn. rewrite <- E. now apply in_map.
    + eapply IH; eauto.
Qed.

Lemma NoDup_app_r {A} (l1 l2 : list A) : NoDup (l1 ++ l2) -> NoDup l2.
Proof. induction l1 as [|x r IH]; cbn; [auto|]. intros H. inversion H; auto. Qed.

Theorem bound_keyword_or_default_l sc pos kw en p :
  bind_call sc pos kw = Bound en -> NoDup (map fst (pos_params sc ++ kw_params sc)) ->
  In p (skipn (List.length pos) (pos_params sc) ++ kw_params sc) ->
  lookup (fst p) en = match lookup (fst p) kw with Some v => Some v | None => default_val p end.
Proof.
  unfold bind_call. intros H ND Hin.
  destruct (bind_pos (pos_params sc) pos) as [[enp rest]|] eqn:Ep; [|discriminate].
  destruct (negb _); [discriminate|]. destruct (existsb _ kw); [discriminate|].
  destruct (bind_rest (rest ++ kw_params sc) kw) as [enr|] eqn:Er; [|discriminate].
  inversion H; subst. clear H. destruct (bind_pos_some _ _ _ _ Ep) as (Hn & Hv & Hr & Hl). subst rest.
  assert (Hsplit : pos_params sc = firstn (List.length pos) (pos_params sc) ++ skipn (List.length pos) (pos_params sc))
    by (symmetry; apply firstn_skipn).
  rewrite Hsplit, <- app_assoc, map_app in ND. pose proof (NoDup_app_r _ _ ND) as ND2.
  rewrite lookup_app_r.
  - eapply bind_rest_value; eauto.
  - rewrite Hn. intros Hc.
    assert (HB : In (fst p) (map fst (skipn (List.length pos) (pos_params sc) ++ kw_params sc)))
      by now apply in_map.
    clear - ND Hc HB.
    induction (map fst (firstn (List.length pos) (pos_params sc))) as [|a A IH]; [destruct Hc|].
    cbn in ND. inversion ND as [|? ? Hnot ND']; subst. destruct Hc as [->|Hc].
    + apply Hnot. apply in_or_app. now right.
    + now apply IH.
Qed.

Lemma bind_pos_lookup : forall ps args en rest i p v,
  bind_pos ps args = Some (en, rest) -> NoDup (map fst ps) ->
  nth_error ps i = Some p -> nth_error args i = Some v -> lookup (fst p) en = Some v.
Proof.
  induction ps as [|q ps IH]; intros [|a args] en rest i p v H ND Hp Hv; cbn in H;
    try (destruct i; discriminate).
  destruct (bind_pos ps args) as [[en' rest']|] eqn:E; [|discriminate]. inversion H; subst. clear H.
  inversion ND as [|? ? Hn ND']; subst. destruct i as [|i]; cbn in Hp, Hv.
  - inversion Hp; inversion Hv; subst. cbn. now rewrite String.eqb_refl.
  - cbn [lookup fst]. destruct (String.eqb (fst p) (fst q)) eqn:Eq.
    + apply String.eqb_eq in Eq. exfalso. apply Hn. rewrite <- Eq. apply in_map.
      eapply nth_error_In; eauto.
    + eapply IH; eauto.
Qed.

Theorem bound_positional_l sc pos kw en i p v :
  bind_call sc pos kw = Bound en -> NoDup (map fst (pos_params sc ++ kw_params sc)) ->
  nth_error (pos_params sc) i = Some p -> nth_error pos i = Some v ->
  lookup (fst p) en = Some v.
Proof.
  unfold bind_call. intros H ND Hp Hv.
  destruct (bind_pos (pos_params sc) pos) as [[enp rest]|] eqn:Ep; [|discriminate].
  destruct (negb _); [discriminate|]. destruct (existsb _ kw); [discriminate|].
  destruct (bind_rest (rest ++ kw_params sc) kw) as [enr|]; [|discriminate].
  inversion H; subst. apply lookup_app_l. eapply bind_pos_lookup; eauto.
  rewrite map_app in ND. clear - ND. induction (map fst (pos_params sc)) as [|a A IH]; [constructor|].
  cbn in ND. inversion ND; subst. constructor; [|auto]. intros Hc. apply H1. apply in_or_app. now left.
Qed.
