(** * Tie by translation: the decision functions regenerated from the CURRENT source text
    ([Gen/Decide.v], written by harness/translate.py on every run) coincide on EVERY
    input with the hand-written model functions the property theorems of C03, C09 and
    C14 are stated about.  A source change that alters one of these functions makes a
    lemma below fail to compile: a proof-obligation failure of the checks that list this
    file, which then search for a concrete failing input with their correspondence. *)
From Coq Require Import List Bool String.
Import ListNotations.
From Attrs Require Import Base Gen.Decide.
From Attrs Require C03.Common C14.Model.
Open Scope string_scope.

(** ** [_determine_attrs_eq_order] vs [C03.Common.determine_attrs_eq_order] *)

Definition inj3 (t : C03.Common.tri) : pyv :=
  match t with C03.Common.TN => PVNone | C03.Common.TT => PVTrue | C03.Common.TF => PVFalse end.

Definition inj_res3 (r : C03.Common.res (C03.Common.tri * C03.Common.tri)) : pres :=
  match r with
  | C03.Common.VErr => PRaise "ValueError"
  | C03.Common.Ok (a, b) => PRet [inj3 a; inj3 b]
  end.

Lemma translated_attrs_eq_order_c03 : forall cmp eq order d,
  Gen.Decide.determine_attrs_eq_order (inj3 cmp) (inj3 eq) (inj3 order) (inj3 d) =
  inj_res3 (C03.Common.determine_attrs_eq_order cmp eq order d).
Proof. intros [] [] [] []; reflexivity. Qed.

(** ** [_determine_whether_to_implement] vs [C03.Common.whether_to_implement] *)

Definition injb (b : bool) : pyv := if b then PVTrue else PVFalse.

Lemma translated_whether_c03 : forall flag auto_detect default (has_own : string -> bool) dunders,
  Gen.Decide.determine_whether_to_implement has_own (inj3 flag) (injb auto_detect) (injb default) dunders =
  PRet [injb (C03.Common.whether_to_implement flag auto_detect (existsb has_own dunders) default)].
Proof.
  intros [] [] [] has_own dunders; cbn; destruct (existsb has_own dunders); reflexivity.
Qed.

(** ** the same two functions as C14's model states them *)

Definition inj14 (t : C14.Model.tri) : pyv :=
  match t with C14.Model.tN => PVNone | C14.Model.tT => PVTrue | C14.Model.tF => PVFalse end.

Lemma translated_attrs_eq_order_c14 : forall cmp eq order,
  Gen.Decide.determine_attrs_eq_order (inj14 cmp) (inj14 eq) (inj14 order) PVNone =
  match C14.Model.determine_attrs_eq_order cmp eq order with
  | None => PRaise "ValueError"
  | Some (a, b) => PRet [inj14 a; inj14 b]
  end.
Proof. intros [] [] []; reflexivity. Qed.

Lemma c14_whether_shape : forall c flag ad dunders default,
  C14.Model.determine_whether_to_implement c flag ad dunders default =
  match flag with
  | C14.Model.tT => true
  | C14.Model.tF => false
  | C14.Model.tN => if negb ad then default
                    else if existsb (C14.Model.has_own_attribute c) dunders then false else default
  end.
Proof. intros c [] ad dunders default; reflexivity. Qed.

Lemma translated_whether_generic : forall (A : Type) (own : A -> bool) (names : list A) (enc : A -> string)
  (dec : string -> bool),
  (forall a, In a names -> dec (enc a) = own a) ->
  forall flag ad default,
  Gen.Decide.determine_whether_to_implement dec (inj14 flag) (injb ad) (injb default) (map enc names) =
  PRet [injb (match flag with
              | C14.Model.tT => true
              | C14.Model.tF => false
              | C14.Model.tN => if negb ad then default else if existsb own names then false else default
              end)].
Proof.
  intros A own names enc dec H flag ad default.
  assert (E : existsb (fun d => dec d) (map enc names) = existsb own names).
  { clear flag ad default. induction names as [|a r IH]; [reflexivity|]. cbn.
    rewrite (H a (or_introl eq_refl)). f_equal. apply IH. intros b Hb. apply H. now right. }
  unfold Gen.Decide.determine_whether_to_implement. rewrite E.
  destruct flag, ad, default, (existsb own names); reflexivity.
Qed.

(** C14's function is the translated one, for any injective-enough naming of its dunders. *)
Theorem translated_whether_c14_full : forall (c : C14.Model.cfg) (enc : C14.Model.dn -> string) (dec : string -> bool)
  dunders, (forall d, In d dunders -> dec (enc d) = C14.Model.has_own_attribute c d) ->
  forall flag ad default,
  Gen.Decide.determine_whether_to_implement dec (inj14 flag) (injb ad) (injb default) (map enc dunders) =
  PRet [injb (C14.Model.determine_whether_to_implement c flag ad dunders default)].
Proof.
  intros c enc dec dunders H flag ad default. rewrite c14_whether_shape.
  now apply (translated_whether_generic C14.Model.dn (C14.Model.has_own_attribute c) dunders enc dec).
Qed.
