(** * Tie by translation: the decision functions regenerated from the CURRENT source text
    ([Gen/Decide.v], written by harness/translate.py on every run) coincide on EVERY
    input with the hand-written model functions the property theorems of C03, C09 and
    C14 are stated about.  A source change that alters one of these functions makes a
    lemma below fail to compile: a proof-obligation failure of the checks that list this
    file, which then search for a concrete failing input with their correspondence. *)
From Coq Require Import List Bool String.
Import ListNotations.
From Attrs Require Import Base Gen.Decide.
From Attrs Require C03.Common C14.Model.
Open Scope string_scope.

(** ** [_determine_attrs_eq_order] vs [C03.Common.determine_attrs_eq_order] *)

Definition inj3 (t : C03.Common.tri) : pyv :=
  match t with C03.Common.TN => PVNone | C03.Common.TT => PVTrue | C03.Common.TF => PVFalse end.

Definition inj_res3 (r : C03.Common.res (C03.Common.tri * C03.Common.tri)) : pres :=
  match r with
  | C03.Common.VErr => PRaise "ValueError"
  | C03.Common.Ok (a, b) => PRet [inj3 a; inj3 b]
  end.

Lemma translated_attrs_eq_order_c03 : forall cmp eq order d,
  Gen.Decide.determine_attrs_eq_order (inj3 cmp) (inj3 eq) (inj3 order) (inj3 d) =
  inj_res3 (C03.Common.determine_attrs_eq_order cmp eq order d).
Proof. intros [] [] [] []; reflexivity. Qed.

(** ** [_determine_whether_to_implement] vs [C03.Common.whether_to_implement] *)

Definition injb (b : bool) : pyv := if b then PVTrue else PVFalse.

Lemma translated_whether_c03 : forall flag auto_detect default (has_own : string -> bool) dunders,
  Gen.Decide.determine_whether_to_implement has_own (inj3 flag) (injb auto_detect) (injb default) dunders =
  PRet [injb (C03.Common.whether_to_implement flag auto_detect (existsb has_own dunders) default)].
Proof.
  intros [] [] [] has_own dunders; cbn; destruct (existsb has_own dunders); reflexivity.
Qed.

(** ** the same two functions as C14's model states them *)

Definition inj14 (t : C14.Model.tri) : pyv :=
  match t with C14.Model.tN => PVNone | C14.Model.tT => PVTrue | C14.Model.tF => PVFalse end.

Lemma translated_attrs_eq_order_c14 : forall cmp eq order,
  Gen.Decide.determine_attrs_eq_order (inj14 cmp) (inj14 eq) (inj14 order) PVNone =
  match C14.Model.determine_attrs_eq_order cmp eq order with
  | None => PRaise "ValueError"
  | Some (a, b) => PRet [inj14 a; inj14 b]
  end.
Proof. intros [] [] []; reflexivity. Qed.

Lemma c14_whether_shape : forall c flag ad dunders default,
  C14.Model.determine_whether_to_implement c flag ad dunders default =
  match flag with
  | C14.Model.tT => true
  | C14.Model.tF => false
  | C14.Model.tN => if negb ad then default
                    else if existsb (C14.Model.has_own_attribute c) dunders then false else default
  end.
Proof. intros c [] ad dunders default; reflexivity. Qed.

Lemma translated_whether_generic : forall (A : Type) (own : A -> bool) (names : list A) (enc : A -> string)
  (dec : string -> bool),
  (forall a, In a names -> dec (enc a) = own a) ->
  forall flag ad default,
  Gen.Decide.determine_whether_to_implement dec (inj14 flag) (injb ad) (injb default) (map enc names) =
  PRet [injb (match flag with
              | C14.Model.tT => true
              | C14.Model.tF => false
              | C14.Model.tN => if negb ad then default else if existsb own names then false else default
              end)].
Proof.
  intros A own names enc dec H flag ad default.
  assert (E : existsb (fun d => dec d) (map enc names) = existsb own names).
  { clear flag ad default. induction names as [|a r IH]; [reflexivity|]. cbn.
    rewrite (H a (or_introl eq_refl)). f_equal. apply IH. intros b Hb. apply H. now right. }
  unfold Gen.Decide.determine_whether_to_implement. rewrite E.
  destruct flag, ad, default, (existsb own names); reflexivity.
Qed.

(** C14's function is the translated one, for any injective-enough naming of its dunders. *)
Theorem translated_whether_c14_full : forall (c : C14.Model.cfg) (enc : C14.Model.dn -> string) (dec : string -> bool)
  dunders, (forall d, In d dunders -> dec (enc d) = C14.Model.has_own_attribute c d) ->
  forall flag ad default,
  Gen.Decide.determine_whether_to_implement dec (inj14 flag) (injb ad) (injb default) (map enc dunders) =
  PRet [injb (C14.Model.determine_whether_to_implement c flag ad dunders default)].
Proof.
  intros c enc dec dunders H flag ad default. rewrite c14_whether_shape.
  now apply (translated_whether_generic C14.Model.dn (C14.Model.has_own_attribute c) dunders enc dec).
Qed.

(** ** The hash decision block of [attrs().wrap] vs [C04.Model.decide] *)
From Attrs Require C04.Model.

Definition inj_h (h : C04.Model.harg) : pyv :=
  match h with
  | C04.Model.HN => PVNone | C04.Model.HT => PVTrue | C04.Model.HF => PVFalse
  | C04.Model.HX => PVOther 0
  end.

(** The hash block as C04's [decide] has it, as a function of the resolved inputs. *)
Definition hash_block_model (h : C04.Model.harg) (ad own eq exc frz cache : bool) : C04.Model.kind :=
  let h := if C04.Model.harg_eqb h C04.Model.HN && ad && own then C04.Model.HF else h in
  if C04.Model.harg_eqb h C04.Model.HX then C04.Model.Err C04.Model.ETypeError
  else if C04.Model.harg_eqb h C04.Model.HF || (C04.Model.harg_eqb h C04.Model.HN && negb eq) || exc then
    if cache then C04.Model.Err C04.Model.ETypeError else C04.Model.Untouched
  else if C04.Model.harg_eqb h C04.Model.HT || (C04.Model.harg_eqb h C04.Model.HN && eq && frz) then
    C04.Model.Generated
  else if cache then C04.Model.Err C04.Model.ETypeError else C04.Model.Unhashable.

Definition inj_kind (k : C04.Model.kind) : pres :=
  match k with
  | C04.Model.Generated => PAct "add_hash"
  | C04.Model.Unhashable => PAct "make_unhashable"
  | C04.Model.Untouched => PFellOff
  | C04.Model.Err C04.Model.ETypeError => PRaise "TypeError"
  | C04.Model.Err C04.Model.EValueError => PRaise "ValueError"
  end.

Lemma translated_hash_block : forall h ad own eq exc frz cache (has_own : string -> bool),
  has_own "__hash__" = own ->
  Gen.Decide.hash_block has_own (inj_h h) (injb ad) (injb eq) (injb exc) (injb frz) (injb cache) =
  inj_kind (hash_block_model h ad own eq exc frz cache).
Proof.
  intros h ad own eq exc frz cache has_own H. unfold Gen.Decide.hash_block. rewrite H.
  destruct h, ad, own, eq, exc, frz, cache; reflexivity.
Qed.

(** ... and that function is literally the hash part of [C04.Model.decide]. *)
Lemma c04_decide_uses_hash_block : forall c eq_,
  C04.Model.attrs_eq (C04.Model.c_cmp c) (C04.Model.c_eq c) = Some eq_ ->
  C04.Model.decide c =
  let k := hash_block_model (C04.Model.eff_hash c) (C04.Model.auto_detect c) (C04.Model.dict_has_hash c)
             (C04.Model.eq_flag c eq_) (C04.Model.is_exc c) (C04.Model.is_frozen c) (C04.Model.c_cache c) in
  match k with
  | C04.Model.Err e => C04.Model.Err e
  | _ => if C04.Model.init_generated c then k
         else if C04.Model.c_cache c then C04.Model.Err C04.Model.ETypeError else k
  end.
Proof.
  intros c eq_ H. unfold C04.Model.decide, C04.Model.hash_local, hash_block_model. rewrite H.
  destruct (C04.Model.eff_hash c), (C04.Model.auto_detect c), (C04.Model.dict_has_hash c),
    (C04.Model.eq_flag c eq_), (C04.Model.is_exc c), (C04.Model.is_frozen c), (C04.Model.c_cache c),
    (C04.Model.init_generated c); reflexivity.
Qed.
