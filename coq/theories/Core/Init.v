(** * The generated initializer: script generator and interpreter.

    Mirrors [_make_init_script], [_attrs_to_init_script], [_determine_setters],
    [_is_slot_attr], [Converter._fmt_converter_call] of [attr/_make.py] and the part
    of [_ClassBuilder.add_setattr] that decides which fields are hooked.  The
    generator emits a small statement language with exactly the constructs the real
    generator writes as text; the interpreter gives those constructs their Python
    meaning over a two-layer instance (slots + [__dict__]) with a callback trace
    and a fault oracle.  Definitions only. *)

From Coq Require Import List Bool String Arith.
Import ListNotations.
From Attrs Require Import Core.Attr.
Open Scope string_scope.
Open Scope list_scope.

(** ** Class-level inputs of the generator *)

Inductive cls_on_setattr :=
| COsNone | COsNoOp
| COsDefault                      (* the _DEFAULT_ON_SETATTR object (define's default) *)
| COsSingle (h : hook)            (* a bare hook function, e.g. setters.validate *)
| COsPipe (hs : list hook).       (* setters.pipe(...) / a list *)

Record cls_spec := {
  k_attrs : list attribute;       (* the final field tuple (aliases resolved) *)
  k_frozen : bool;                (* frozen=True or a frozen base class *)
  k_slots : bool;
  k_cache_hash : bool;
  k_is_exc : bool;                (* auto_exc and BaseException subclass *)
  k_pre_init : bool;
  k_pre_init_has_args : bool;
  k_post_init : bool;
  k_on_setattr : cls_on_setattr;  (* as passed to the builder *)
  k_mro_slots : list string;      (* names declared in __slots__ of classes in cls.__mro__[1:-1] *)
  k_has_dict : bool               (* instances have a __dict__ *)
}.

Definition HASH_CACHE : string := "_attrs_cached_hash".

(** [_ClassBuilder.__init__]: "pretend like there's no on_setattr" *)
Definition any_validator (l : list attribute) : bool :=
  existsb (fun a => match a_validator a with Some _ => true | None => false end) l.
Definition any_converter (l : list attribute) : bool :=
  existsb (fun a => match a_converter a with CNone => false | _ => true end) l.

Definition effective_cls_on_setattr (k : cls_spec) : cls_on_setattr :=
  if k_frozen k then k_on_setattr k else
  match k_on_setattr k with
  | COsDefault =>
      if negb (any_validator (k_attrs k) || any_converter (k_attrs k)) then COsNone else COsDefault
  | COsSingle HValidate => if negb (any_validator (k_attrs k)) then COsNone else COsSingle HValidate
  | COsSingle HConvert => if negb (any_converter (k_attrs k)) then COsNone else COsSingle HConvert
  | o => o
  end.

Definition has_cls_on_setattr (o : cls_on_setattr) : bool :=
  match o with COsNone | COsNoOp => false | _ => true end.

Definition cls_hooks (o : cls_on_setattr) : list hook :=
  match o with
  | COsNone | COsNoOp => []
  | COsDefault => [HConvert; HValidate]
  | COsSingle h => [h]
  | COsPipe hs => hs
  end.

(** ** The statement language *)

Inductive vexpr :=
| XArg (alias : string)                       (* the parameter *)
| XDefault (fld : string)                     (* attr_dict['fld'].default *)
| XFactory (fld : string) (fn : string) (with_self : bool).   (* __attr_factory_fld(self?) *)

Inductive setter := SetCached | SetPlain | SetInstDict.
  (* _setattr('n', v)  |  self.n = v  |  _inst_dict['n'] = v *)

Inductive conv_call :=
| NoConv
| ConvCall (fn : string) (takes_self takes_field : bool).

Inductive stmt :=
| SPreInit (args : option (list string * list string))
| SBindSetattr                                (* _setattr = _cached_setattr_get(self) *)
| SBindInstDict                               (* _inst_dict = self.__dict__ *)
| SStore (how : setter) (fld : string) (c : conv_call) (e : vexpr)
| SIfNotNothing (alias : string) (then_ else_ : stmt)
| SValidators (vs : list (string * string))   (* (field, validator symbol) *)
| SPostInit
| SHashCacheInit (how : setter)
| SExcInit (flds : list string).

Inductive pdefault := PMandatory | PDefaultOf (fld : string) | PNothing.

Inductive annot := AType (t : string) | AConvParam (fn : string).

Record init_script := {
  pos_params : list (string * pdefault);
  kw_params : list (string * pdefault);
  body : list stmt;
  annotations : list (string * annot)
}.

Inductive gen_result := GenOk (s : init_script) | GenValueError.

(** ** The generator *)

Definition os_is_none (o : on_setattr) : bool := match o with OsNone => true | _ => false end.
Definition os_is_noop (o : on_setattr) : bool := match o with OsNoOp => true | _ => false end.

(** [_is_slot_attr] after the F11 repair: a name is a slot attribute when a class in
    the MRO declares a slot of that name. *)
Definition is_slot_attr (k : cls_spec) (name : string) : bool := mem_str name (k_mro_slots k).

Definition field_has_on_setattr (has_cls : bool) (a : attribute) : bool :=
  negb (os_is_none (a_on_setattr a)) || (negb (os_is_noop (a_on_setattr a)) && has_cls).

Definition conv_call_of (a : attribute) : conv_call :=
  match a_converter a with
  | CNone => NoConv
  | CPlain fn _ => ConvCall fn false false          (* Converter(a.converter) *)
  | CConverter fn ts tf _ => ConvCall fn ts tf
  end.

(** [_determine_setters]: which store form a field gets. *)
Definition choose_setter (k : cls_spec) (a : attribute) (has_on_setattr : bool) : setter :=
  if k_frozen k then
    if k_slots k then SetCached
    else
      match conv_call_of a with
      | NoConv => if is_slot_attr k (a_name a) then SetCached else SetInstDict
      | ConvCall _ _ _ =>
          if has_on_setattr || is_slot_attr k (a_name a) then SetCached else SetInstDict
      end
  else if has_on_setattr then SetCached else SetPlain.

Definition participates (a : attribute) : bool := a_init a || has_default a.

(** The statements and the parameter one field contributes. *)
Definition field_script (k : cls_spec) (has_cls : bool) (a : attribute)
  : list stmt * option (bool * (string * pdefault)) :=
  let hs := field_has_on_setattr has_cls a in
  let how := choose_setter k a hs in
  let c := conv_call_of a in
  let name := a_name a in
  let al := alias_of a in
  if negb (a_init a) then
    match a_default a with
    | DFactory fn ts => ([SStore how name c (XFactory name fn ts)], None)
    | DValue => ([SStore how name c (XDefault name)], None)
    | DNothing => ([], None)                      (* filtered out before *)
    end
  else
    match a_default a with
    | DValue => ([SStore how name c (XArg al)], Some (a_kw_only a, (al, PDefaultOf name)))
    | DFactory fn ts =>
        ([SIfNotNothing al (SStore how name c (XArg al)) (SStore how name c (XFactory name fn ts))],
         Some (a_kw_only a, (al, PNothing)))
    | DNothing => ([SStore how name c (XArg al)], Some (a_kw_only a, (al, PMandatory)))
    end.

Definition field_annotation (a : attribute) : list (string * annot) :=
  if a_init a then
    match a_converter a, a_type a with
    | CNone, Some t => [(alias_of a, AType t)]
    | CNone, None => []
    | CPlain fn true, _ | CConverter fn _ _ true, _ => [(alias_of a, AConvParam fn)]
    | _, _ => []
    end
  else [].

Definition filtered_attrs (k : cls_spec) : list attribute :=
  filter participates (k_attrs k).

Definition needs_cached_setattr (k : cls_spec) (has_cls : bool) : bool :=
  k_cache_hash k || k_frozen k ||
  existsb (fun a => negb (os_is_none (a_on_setattr a)) ||
                    (has_cls && negb (os_is_noop (a_on_setattr a)))) (filtered_attrs k).

Definition hash_cache_setter (k : cls_spec) : setter :=
  if k_frozen k then
    (if k_slots k || is_slot_attr k HASH_CACHE then SetCached else SetInstDict)
  else SetPlain.

Definition params_of (k : cls_spec) (has_cls : bool) (kw : bool) : list (string * pdefault) :=
  flat_map (fun a => match snd (field_script k has_cls a) with
                     | Some (kwo, p) => if Bool.eqb kwo kw then [p] else []
                     | None => []
                     end) (filtered_attrs k).

Definition validated (k : cls_spec) : list (string * string) :=
  flat_map (fun a => match a_validator a with Some v => [(a_name a, v)] | None => [] end)
           (filtered_attrs k).

Definition make_init_script (k : cls_spec) : gen_result :=
  let o := effective_cls_on_setattr k in
  let has_cls := has_cls_on_setattr o in
  if k_frozen k && has_cls then GenValueError
  else if k_frozen k && existsb (fun a => negb (os_is_none (a_on_setattr a))) (k_attrs k)
  then GenValueError
  else
    let pos := params_of k has_cls false in
    let kw := params_of k has_cls true in
    let pre :=
      if k_pre_init k then
        [SPreInit (if k_pre_init_has_args k then Some (map fst pos, map fst kw) else None)]
      else [] in
    let bind := (if needs_cached_setattr k has_cls then [SBindSetattr] else [])
                ++ (if k_frozen k && negb (k_slots k) then [SBindInstDict] else []) in
    let stores := flat_map (fun a => fst (field_script k has_cls a)) (filtered_attrs k) in
    let vals := match validated k with [] => [] | vs => [SValidators vs] end in
    let post := if k_post_init k then [SPostInit] else [] in
    let cache := if k_cache_hash k then [SHashCacheInit (hash_cache_setter k)] else [] in
    let exc := if k_is_exc k
               then [SExcInit (map a_name (filter a_init (filtered_attrs k)))] else [] in
    GenOk {| pos_params := pos; kw_params := kw;
             body := pre ++ bind ++ stores ++ vals ++ post ++ cache ++ exc;
             annotations := flat_map field_annotation (filtered_attrs k) |}.

(** ** Which fields [add_setattr] hooks, and the resulting class [__setattr__] *)

Definition effective_hooks (o : cls_on_setattr) (a : attribute) : list hook :=
  match a_on_setattr a with
  | OsPipe hs => hs                     (* a.on_setattr or cls: field level wins *)
  | OsNoOp => []                        (* NO_OP is truthy: wins, and means none *)
  | OsNone => cls_hooks o
  end.

Definition in_sa_attrs (o : cls_on_setattr) (a : attribute) : bool :=
  match a_on_setattr a with
  | OsPipe _ => true
  | OsNoOp => false
  | OsNone => has_cls_on_setattr o
  end.

Inductive setattr_kind :=
| RawSetattr
| FrozenSetattr
| HookedSetattr (hooked : list string).

Definition class_setattr (k : cls_spec) : setattr_kind :=
  if k_frozen k then FrozenSetattr
  else
    let o := effective_cls_on_setattr k in
    match filter (in_sa_attrs o) (k_attrs k) with
    | [] => RawSetattr
    | l => HookedSetattr (map a_name l)
    end.

(** ** Instances and the interpreter *)

Definition alist := list (string * val).

Fixpoint lookup (n : string) (l : alist) : option val :=
  match l with
  | [] => None
  | (m, v) :: r => if String.eqb n m then Some v else lookup n r
  end.

Fixpoint update (n : string) (v : val) (l : alist) : alist :=
  match l with
  | [] => [(n, v)]
  | (m, w) :: r => if String.eqb n m then (m, v) :: r else (m, w) :: update n v r
  end.

Record inst := {
  i_slots : alist;
  i_dict : alist;
  i_args : option (list val)       (* BaseException.args once set *)
}.

Definition empty_inst : inst := {| i_slots := []; i_dict := []; i_args := None |}.

(** Names that have a slot descriptor on the class of the instance. *)
Definition slot_names (k : cls_spec) : list string :=
  k_mro_slots k ++
  (if k_slots k then map a_name (k_attrs k) ++ (if k_cache_hash k then [HASH_CACHE] else [])
   else []).

Definition is_slot (k : cls_spec) (n : string) : bool := mem_str n (slot_names k).

Inductive exc :=
| EUser (n : nat)            (* the marked exception raised by the callback at trace index n *)
| ETypeError
| EAttributeError
| EFrozenInstance
| EFrozenAttribute.

Inductive res (A : Type) := Ok (a : A) | Raise (e : exc).
Arguments Ok {A} a.
Arguments Raise {A} e.

(** [object.__setattr__(self, n, v)] *)
Definition obj_setattr (k : cls_spec) (i : inst) (n : string) (v : val) : res inst :=
  if is_slot k n then Ok {| i_slots := update n v (i_slots i); i_dict := i_dict i; i_args := i_args i |}
  else if k_has_dict k then Ok {| i_slots := i_slots i; i_dict := update n v (i_dict i); i_args := i_args i |}
  else Raise EAttributeError.

(** [self.__dict__[n] = v] *)
Definition dict_store (k : cls_spec) (i : inst) (n : string) (v : val) : res inst :=
  if k_has_dict k then Ok {| i_slots := i_slots i; i_dict := update n v (i_dict i); i_args := i_args i |}
  else Raise EAttributeError.

(** [getattr(self, n)]: data descriptors (slots) win over the instance dict. *)
Definition read (k : cls_spec) (i : inst) (n : string) : res val :=
  if is_slot k n then match lookup n (i_slots i) with Some v => Ok v | None => Raise EAttributeError end
  else match lookup n (i_dict i) with Some v => Ok v | None => Raise EAttributeError end.

(** Callback events, in the order they happen. *)
Inductive event :=
| EvPreInit (pos : list val) (kw : list (string * val))
| EvFactory (fld fn : string) (with_self : bool)
| EvConverter (fld fn : string) (args : list val)
| EvValidator (fld v : string) (value : val) (snapshot : list (string * option val))
| EvPostInit
| EvHook (fld : string) (h : hook) (value : val).

(** Interpreter state: instance, trace (most recent last), environment. *)
Record st := { s_inst : inst; s_trace : list event }.

Definition faults := nat -> bool.     (* does the callback at this trace index raise? *)
Definition no_fault : faults := fun _ => false.

(** Run one callback: append its event; if the oracle says so it raises. *)
Definition callback (f : faults) (s : st) (ev : event) : res st :=
  let idx := List.length (s_trace s) in
  let s' := {| s_inst := s_inst s; s_trace := s_trace s ++ [ev] |} in
  if f idx then Raise (EUser idx) else Ok s'.

Definition trace_on_raise (f : faults) (s : st) (ev : event) : list event := s_trace s ++ [ev].

(** Results carry the trace also when raising. *)
Inductive outcome := Finished (s : st) | Raised (e : exc) (trace : list event).

Definition env := alist.

Definition eval_vexpr (f : faults) (s : st) (en : env) (e : vexpr) : outcome * option val :=
  match e with
  | XArg al => match lookup al en with
               | Some v => (Finished s, Some v)
               | None => (Raised ETypeError (s_trace s), None)
               end
  | XDefault fld => (Finished s, Some (VDefault fld))
  | XFactory fld fn ws =>
      let ev := EvFactory fld fn ws in
      match callback f s ev with
      | Ok s' => (Finished s', Some (VApp fn (if ws then [VSelf] else [])))
      | Raise e => (Raised e (s_trace s ++ [ev]), None)
      end
  end.

Definition conv_args (c : conv_call) (fld : string) (v : val) : list val :=
  match c with
  | NoConv => [v]
  | ConvCall _ ts tf => v :: (if ts then [VSelf] else []) ++ (if tf then [VAttr fld] else [])
  end.

Definition apply_conv (f : faults) (s : st) (c : conv_call) (fld : string) (v : val)
  : outcome * option val :=
  match c with
  | NoConv => (Finished s, Some v)
  | ConvCall fn ts tf =>
      let args := conv_args c fld v in
      let ev := EvConverter fld fn args in
      match callback f s ev with
      | Ok s' => (Finished s', Some (VApp fn args))
      | Raise e => (Raised e (s_trace s ++ [ev]), None)
      end
  end.

(** The class [__setattr__] as seen by [self.n = v] inside [__init__]. *)
Definition plain_assign (k : cls_spec) (f : faults) (s : st) (n : string) (v : val) : outcome :=
  match class_setattr k with
  | FrozenSetattr => Raised EFrozenInstance (s_trace s)
  | RawSetattr =>
      match obj_setattr k (s_inst s) n v with
      | Ok i => Finished {| s_inst := i; s_trace := s_trace s |}
      | Raise e => Raised e (s_trace s)
      end
  | HookedSetattr hooked =>
      if mem_str n hooked then
        (* a hook would run: it is a callback like any other (the theorem
           [no_hooks_during_init] says this never happens inside __init__) *)
        let ev := EvHook n HValidate v in
        match callback f s ev with
        | Raise e => Raised e (s_trace s ++ [ev])
        | Ok s1 =>
            match obj_setattr k (s_inst s1) n v with
            | Ok i => Finished {| s_inst := i; s_trace := s_trace s1 |}
            | Raise e => Raised e (s_trace s1)
            end
        end
      else
        match obj_setattr k (s_inst s) n v with
        | Ok i => Finished {| s_inst := i; s_trace := s_trace s |}
        | Raise e => Raised e (s_trace s)
        end
  end.

Definition do_store (k : cls_spec) (f : faults) (s : st) (how : setter) (n : string) (v : val) : outcome :=
  match how with
  | SetPlain => plain_assign k f s n v
  | SetCached =>
      match obj_setattr k (s_inst s) n v with
      | Ok i => Finished {| s_inst := i; s_trace := s_trace s |}
      | Raise e => Raised e (s_trace s)
      end
  | SetInstDict =>
      match dict_store k (s_inst s) n v with
      | Ok i => Finished {| s_inst := i; s_trace := s_trace s |}
      | Raise e => Raised e (s_trace s)
      end
  end.

Definition exec_store (k : cls_spec) (f : faults) (s : st) (en : env)
  (how : setter) (fld : string) (c : conv_call) (e : vexpr) : outcome :=
  match eval_vexpr f s en e with
  | (Finished s1, Some v) =>
      match apply_conv f s1 c fld v with
      | (Finished s2, Some w) => do_store k f s2 how fld w
      | (o, _) => o
      end
  | (o, _) => o
  end.

Definition snapshot (k : cls_spec) (i : inst) : list (string * option val) :=
  map (fun a => (a_name a, match read k i (a_name a) with Ok v => Some v | Raise _ => None end))
      (k_attrs k).

Fixpoint run_validators (k : cls_spec) (f : faults) (s : st) (vs : list (string * string)) : outcome :=
  match vs with
  | [] => Finished s
  | (fld, v) :: rest =>
      match read k (s_inst s) fld with
      | Raise e => Raised e (s_trace s)
      | Ok value =>
          let ev := EvValidator fld v value (snapshot k (s_inst s)) in
          match callback f s ev with
          | Ok s' => run_validators k f s' rest
          | Raise e => Raised e (s_trace s ++ [ev])
          end
      end
  end.

Fixpoint read_all (k : cls_spec) (i : inst) (ns : list string) : res (list val) :=
  match ns with
  | [] => Ok []
  | n :: r => match read k i n with
              | Raise e => Raise e
              | Ok v => match read_all k i r with Ok vs => Ok (v :: vs) | Raise e => Raise e end
              end
  end.

Definition is_nothing (v : val) : bool := match v with VNothing => true | _ => false end.

Definition exec_stmt (k : cls_spec) (f : faults) (validators_on : bool) (en : env) (s : st) (c : stmt) : outcome :=
  match c with
  | SPreInit args =>
      let ev := match args with
                | None => EvPreInit [] []
                | Some (pos, kw) =>
                    EvPreInit (map (fun a => match lookup a en with Some v => v | None => VNothing end) pos)
                              (map (fun a => (a, match lookup a en with Some v => v | None => VNothing end)) kw)
                end in
      match callback f s ev with
      | Ok s' => Finished s'
      | Raise e => Raised e (s_trace s ++ [ev])
      end
  | SBindSetattr => Finished s
  | SBindInstDict => if k_has_dict k then Finished s else Raised EAttributeError (s_trace s)
  | SStore how fld cv e => exec_store k f s en how fld cv e
  | SIfNotNothing al t e =>
      match lookup al en with
      | None => Raised ETypeError (s_trace s)
      | Some v =>
          match (if is_nothing v then e else t) with
          | SStore how fld cv ex => exec_store k f s en how fld cv ex
          | _ => Raised ETypeError (s_trace s)       (* the generator never nests anything else *)
          end
      end
  | SValidators vs => if validators_on then run_validators k f s vs else Finished s
  | SPostInit =>
      match callback f s EvPostInit with
      | Ok s' => Finished s'
      | Raise e => Raised e (s_trace s ++ [EvPostInit])
      end
  | SHashCacheInit how => do_store k f s how HASH_CACHE VNone
  | SExcInit flds =>
      match read_all k (s_inst s) flds with
      | Ok vs => Finished {| s_inst := {| i_slots := i_slots (s_inst s); i_dict := i_dict (s_inst s);
                                          i_args := Some vs |};
                             s_trace := s_trace s |}
      | Raise e => Raised e (s_trace s)
      end
  end.

Fixpoint exec_body (k : cls_spec) (f : faults) (validators_on : bool) (en : env) (s : st) (b : list stmt) : outcome :=
  match b with
  | [] => Finished s
  | c :: r =>
      match exec_stmt k f validators_on en s c with
      | Finished s' => exec_body k f validators_on en s' r
      | o => o
      end
  end.

(** ** The calling convention *)

Inductive bind_result := Bound (en : env) | BindTypeError.

Definition default_val (p : string * pdefault) : option val :=
  match snd p with
  | PMandatory => None
  | PDefaultOf fld => Some (VDefault fld)
  | PNothing => Some VNothing
  end.

(** Bind positional arguments to the positional parameters, left to right. *)
Fixpoint bind_pos (ps : list (string * pdefault)) (args : list val) : option (env * list (string * pdefault)) :=
  match args, ps with
  | [], _ => Some ([], ps)
  | _ :: _, [] => None                                   (* too many positional arguments *)
  | v :: vs, p :: ps' =>
      match bind_pos ps' vs with
      | Some (en, rest) => Some ((fst p, v) :: en, rest)
      | None => None
      end
  end.

(** Remaining parameters take their keyword argument or their default. *)
Fixpoint bind_rest (ps : list (string * pdefault)) (kw : alist) : option env :=
  match ps with
  | [] => Some []
  | p :: ps' =>
      match (match lookup (fst p) kw with Some v => Some v | None => default_val p end) with
      | None => None                                     (* missing argument *)
      | Some v => match bind_rest ps' kw with Some en => Some ((fst p, v) :: en) | None => None end
      end
  end.

Fixpoint nodup_keys (kw : alist) : bool :=
  match kw with
  | [] => true
  | (n, _) :: r => negb (mem_str n (map fst r)) && nodup_keys r
  end.

Definition bind_call (sc : init_script) (pos : list val) (kw : alist) : bind_result :=
  match bind_pos (pos_params sc) pos with
  | None => BindTypeError
  | Some (en_pos, rest_pos) =>
      let all_names := map fst (pos_params sc) ++ map fst (kw_params sc) in
      if negb (forallb (fun p => mem_str (fst p) all_names) kw) then BindTypeError     (* unknown keyword *)
      else if existsb (fun p => mem_str (fst p) (map fst en_pos)) kw then BindTypeError (* duplicate *)
      else
        match bind_rest (rest_pos ++ kw_params sc) kw with
        | None => BindTypeError
        | Some en_rest => Bound (en_pos ++ en_rest)
        end
  end.

(** ** Constructing an instance *)

Inductive init_result :=
| InitDefError                                   (* the class definition is rejected (ValueError) *)
| InitTypeError                                  (* the call does not bind; nothing ran *)
| InitDone (i : inst) (trace : list event)
| InitRaised (e : exc) (trace : list event).

Definition run_init (k : cls_spec) (f : faults) (validators_on : bool) (pos : list val) (kw : alist)
  : init_result :=
  match make_init_script k with
  | GenValueError => InitDefError
  | GenOk sc =>
      match bind_call sc pos kw with
      | BindTypeError => InitTypeError
      | Bound en =>
          match exec_body k f validators_on en {| s_inst := empty_inst; s_trace := [] |} (body sc) with
          | Finished s => InitDone (s_inst s) (s_trace s)
          | Raised e t => InitRaised e t
          end
      end
  end.
