(** * Core data shared by the class-level models: symbolic values and the
    [Attribute] record of [attr/_make.py].

    Values are symbolic: caller-supplied arguments are opaque tokens, user
    callables (factories, converters, hooks, key functions) are uninterpreted
    function symbols whose application builds a term.  Verdicts are therefore
    parametric in the data. *)

From Coq Require Import List Bool String Ascii.
Import ListNotations.
Open Scope string_scope.

Inductive val :=
| VTok (n : nat)                          (* opaque caller-supplied object *)
| VNone
| VNothing                                (* attr.NOTHING *)
| VBool (b : bool)
| VDefault (fld : string)                 (* the object given as default= of field fld *)
| VSelf                                   (* the instance under construction / assignment *)
| VAttr (fld : string)                    (* the Attribute object of field fld *)
| VApp (fn : string) (args : list val).   (* result of calling user callable fn on args *)

Fixpoint val_eqb (a b : val) {struct a} : bool :=
  match a, b with
  | VTok n, VTok m => Nat.eqb n m
  | VNone, VNone | VNothing, VNothing | VSelf, VSelf => true
  | VBool x, VBool y => Bool.eqb x y
  | VDefault f, VDefault g | VAttr f, VAttr g => String.eqb f g
  | VApp f xs, VApp g ys =>
      String.eqb f g &&
      (fix go (xs ys : list val) : bool :=
         match xs, ys with
         | [], [] => true
         | x :: xs', y :: ys' => val_eqb x y && go xs' ys'
         | _, _ => false
         end) xs ys
  | _, _ => false
  end.

(** The [default] of an Attribute. *)
Inductive default_kind :=
| DNothing                                  (* NOTHING: mandatory *)
| DValue                                    (* a plain value: [VDefault name] *)
| DFactory (fn : string) (takes_self : bool).

(** The [converter] of an Attribute: [None], a plain callable (wrapped in
    [Converter(c)] by the init generator) or a [Converter] instance.
    [annotated]: the converter's first parameter carries a type annotation. *)
Inductive conv_kind :=
| CNone
| CPlain (fn : string) (annotated : bool)
| CConverter (fn : string) (takes_self takes_field : bool) (annotated : bool).

(** A single [on_setattr] hook. *)
Inductive hook :=
| HUser (fn : string)        (* user callable (instance, attribute, value) -> value *)
| HConvert                   (* setters.convert *)
| HValidate                  (* setters.validate *)
| HFrozen.                   (* setters.frozen *)

(** The [on_setattr] of an Attribute or of the class: [None], [setters.NO_OP],
    or a pipe of hooks (a single hook is a one-element pipe). *)
Inductive on_setattr :=
| OsNone
| OsNoOp
| OsPipe (hs : list hook).

(** [eq]/[order] settings after [_determine_attrib_eq_order]. *)
Record attribute := {
  a_name : string;
  a_default : default_kind;
  a_validator : option string;        (* symbolic validator (an and_ of several is one symbol list elsewhere) *)
  a_repr : bool;
  a_eq : bool;
  a_eq_key : option string;
  a_order : bool;
  a_order_key : option string;
  a_hash : option bool;
  a_init : bool;
  a_type : option string;             (* annotation / type= tag *)
  a_converter : conv_kind;
  a_kw_only : bool;
  a_inherited : bool;
  a_on_setattr : on_setattr;
  a_alias : option string             (* None until resolved by _transform_attrs *)
}.

Definition set_inherited (a : attribute) (b : bool) : attribute :=
  {| a_name := a_name a; a_default := a_default a; a_validator := a_validator a;
     a_repr := a_repr a; a_eq := a_eq a; a_eq_key := a_eq_key a; a_order := a_order a;
     a_order_key := a_order_key a; a_hash := a_hash a; a_init := a_init a; a_type := a_type a;
     a_converter := a_converter a; a_kw_only := a_kw_only a; a_inherited := b;
     a_on_setattr := a_on_setattr a; a_alias := a_alias a |}.

Definition set_kw_only (a : attribute) (b : bool) : attribute :=
  {| a_name := a_name a; a_default := a_default a; a_validator := a_validator a;
     a_repr := a_repr a; a_eq := a_eq a; a_eq_key := a_eq_key a; a_order := a_order a;
     a_order_key := a_order_key a; a_hash := a_hash a; a_init := a_init a; a_type := a_type a;
     a_converter := a_converter a; a_kw_only := b; a_inherited := a_inherited a;
     a_on_setattr := a_on_setattr a; a_alias := a_alias a |}.

Definition set_alias (a : attribute) (al : option string) : attribute :=
  {| a_name := a_name a; a_default := a_default a; a_validator := a_validator a;
     a_repr := a_repr a; a_eq := a_eq a; a_eq_key := a_eq_key a; a_order := a_order a;
     a_order_key := a_order_key a; a_hash := a_hash a; a_init := a_init a; a_type := a_type a;
     a_converter := a_converter a; a_kw_only := a_kw_only a; a_inherited := a_inherited a;
     a_on_setattr := a_on_setattr a; a_alias := al |}.

(** [str.lstrip("_")] *)
Fixpoint lstrip_underscores (s : string) : string :=
  match s with
  | String c rest => if Ascii.eqb c "_"%char then lstrip_underscores rest else s
  | EmptyString => EmptyString
  end.

(** [_default_init_alias_for] *)
Definition default_init_alias_for (name : string) : string := lstrip_underscores name.

(** Alias resolution at the end of [_transform_attrs]: [if not a.alias: alias = default]
    (an explicit empty alias is falsy and is replaced too). *)
Definition resolve_alias (a : attribute) : attribute :=
  match a_alias a with
  | Some al => if String.eqb al "" then set_alias a (Some (default_init_alias_for (a_name a))) else a
  | None => set_alias a (Some (default_init_alias_for (a_name a)))
  end.

Definition alias_of (a : attribute) : string :=
  match a_alias a with Some al => al | None => default_init_alias_for (a_name a) end.

Definition has_default (a : attribute) : bool :=
  match a_default a with DNothing => false | _ => true end.

Fixpoint mem_str (s : string) (l : list string) : bool :=
  match l with [] => false | x :: r => String.eqb s x || mem_str s r end.

Lemma mem_str_In s l : mem_str s l = true <-> In s l.
Proof.
  induction l as [|x r IH]; cbn; [split; [discriminate | tauto]|].
  rewrite orb_true_iff, IH, String.eqb_eq. split; intros [H|H]; auto.
Qed.

(** ** [lstrip] specification: the name is some underscores followed by the alias,
    and the alias does not start with an underscore. *)
Fixpoint underscores (k : nat) : string :=
  match k with 0 => "" | S k' => String "_"%char (underscores k') end.

Lemma lstrip_spec_l (s : string) :
  exists k, s = underscores k ++ lstrip_underscores s /\
            (forall r, lstrip_underscores s <> String "_"%char r).
Proof.
  induction s as [|c rest IH]; cbn.
  - exists 0. split; [reflexivity | intros r H; discriminate].
  - destruct (Ascii.eqb c "_"%char) eqn:E.
    + apply Ascii.eqb_eq in E; subst c. destruct IH as (k & Hk & Hn).
      exists (S k). cbn. split; [congruence | exact Hn].
    + exists 0. cbn. split; [reflexivity|]. intros r H. inversion H; subst.
      rewrite Ascii.eqb_refl in E. discriminate.
Qed.
