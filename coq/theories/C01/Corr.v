(** C01 uses the shared initializer correspondence. *)
From Attrs Require Export Base Core.Attr Core.Init Core.InitCorr.
