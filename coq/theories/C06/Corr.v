(** * C06 — correspondence: one case = one chain of class definitions (head = class
    under test), the observed state of a fresh instance, and assignment histories with
    what the real [__setattr__] did after every step.  [coqc] evaluates the model on
    the same histories. *)
From Coq Require Import List Bool String Arith.
Import ListNotations.
From Attrs Require Import Base Core.Attr Core.Init Core.InitProofs Core.InitCorr C06.Model.
Open Scope string_scope.
Open Scope list_scope.

(** Outcome of one assignment as the harness sees it. *)
Inductive otag := OOk | OMarker (idx : nat) | OExc (cls_name : string).

Definition otag_eqb (a b : otag) : bool :=
  match a, b with
  | OOk, OOk => true
  | OMarker n, OMarker m => Nat.eqb n m
  | OExc x, OExc y => String.eqb x y
  | _, _ => false
  end.

Definition exc_name (e : exc) : string :=
  match e with
  | EUser _ => "Marker"
  | ETypeError => "TypeError"
  | EAttributeError => "AttributeError"
  | EFrozenInstance => "FrozenInstanceError"
  | EFrozenAttribute => "FrozenAttributeError"
  end.

Definition otag_of (t : tag) : otag :=
  match t with TOk => OOk | TMarker n => OMarker n | TExc e => OExc (exc_name e) end.

(** ** Interpretation of callable symbols

    The model is parametric in what user callables return ([VApp fn args]).  The harness
    also uses callables that return [None] (a "blank -> None" converter, a hook without a
    return statement); their symbols carry the prefix "nil_".  The prediction is the
    symbolic prediction under the homomorphism that interprets those symbols; the model
    never branches on an assigned value, so this is the model's answer for those callables. *)
Definition returns_none (fn : string) : bool := String.prefix "nil_" fn.

Fixpoint interp (v : val) : val :=
  match v with
  | VApp fn args => if returns_none fn then VNone else VApp fn (map interp args)
  | v => v
  end.

Definition interp_snap (l : list (string * option val)) : list (string * option val) :=
  map (fun p => (fst p, match snd p with Some v => Some (interp v) | None => None end)) l.

Definition interp_event (e : event) : event :=
  match e with
  | EvPreInit p k => EvPreInit (map interp p) (map (fun q => (fst q, interp (snd q))) k)
  | EvFactory f n s => EvFactory f n s
  | EvConverter f n a => EvConverter f n (map interp a)
  | EvValidator f v x s => EvValidator f v (interp x) (interp_snap s)
  | EvPostInit => EvPostInit
  | EvHook f h v => EvHook f h (interp v)
  end.

(** (outcome, names whose value changed with their new value, callbacks of this step) *)
Definition sobs := (otag * list (string * option val) * list event)%type.

Definition sobs_eqb (a b : sobs) : bool :=
  otag_eqb (fst (fst a)) (fst (fst b)) && snap_eqb (snd (fst a)) (snd (fst b)) && trace_eqb (snd a) (snd b).

Record run := {
  r_von : bool;                        (* validators globally enabled *)
  r_fault : option nat;                (* the callback with this index (over the history) raises *)
  r_ops : list (string * val);
  r_seen : list sobs
}.

(** The metamorphic observation for define's default: [o.f = x] against [C(f=x)]. *)
Record meta := {
  m_field : string;
  m_x : val;
  m_assign : option val;               (* value read back after the assignment *)
  m_assign_events : list event;
  m_init : option val;                 (* value of the field of a fresh C(..., f=x) *)
  m_init_events : list event           (* the constructor's callbacks belonging to f *)
}.

Record case := {
  cs_chain : list cls;
  cs_accepted : bool;                  (* the head's definition did not raise ValueError *)
  cs_init : list (string * option val);(* fields then extra names: state after construction *)
  cs_runs : list run;
  cs_meta : list meta;
  cs_flag : bool;                      (* harness: the MRO has the "slotted confused" shape *)
  cs_model_layer : bool                (* true: compare with the faithful model; false: with the property *)
}.

Definition inst_of (k : cls_spec) (state : list (string * option val)) : inst :=
  fold_left (fun i p => match snd p with
                        | Some v => match obj_setattr k i (fst p) v with Ok i' => i' | Raise _ => i end
                        | None => i
                        end) state empty_inst.

Definition snap_names (k : cls_spec) (i : inst) (names : list string) : list (string * option val) :=
  map (fun n => (n, match read k i n with Ok v => Some v | Raise _ => None end)) names.

Fixpoint diff_state (old new : list (string * option val)) : list (string * option val) :=
  match old, new with
  | o :: old', n :: new' => (if oval_eqb (snd o) (snd n) then [] else [n]) ++ diff_state old' new'
  | _, _ => new
  end.

Fixpoint obs_history (k : cls_spec) (names : list string) (prev : st) (h : list (tag * st)) : list sobs :=
  match h with
  | [] => []
  | (t, s) :: r =>
      (otag_of t,
       diff_state (interp_snap (snap_names k (s_inst prev) names)) (interp_snap (snap_names k (s_inst s) names)),
       map interp_event (skipn (List.length (s_trace prev)) (s_trace s))) :: obs_history k names s r
  end.

Definition model_run (k : cls_spec) (impl : sa_impl) (init : list (string * option val)) (r : run) : list sobs :=
  let s0 := {| s_inst := inst_of k init; s_trace := [] |} in
  obs_history k (map fst init) s0 (run_history k impl (r_von r) (fault_of (r_fault r)) s0 (r_ops r)).

Definition runs_ok (k : cls_spec) (impl : sa_impl) (c : case) : bool :=
  forallb (fun r => list_eqb sobs_eqb (model_run k impl (cs_init c) r) (r_seen r)) (cs_runs c).

(** ** The metamorphic check *)

Fixpoint find_attr (n : string) (l : list attribute) : option attribute :=
  match l with
  | [] => None
  | a :: r => if String.eqb n (a_name a) then Some a else find_attr n r
  end.

Definition meta_ok (k : cls_spec) (m : meta) : bool :=
  match find_attr (m_field m) (k_attrs k), k_on_setattr k with
  | Some a, COsDefault =>
      os_is_none (a_on_setattr a) && a_init a && negb (k_frozen k) &&
      let w := converted a (m_x m) in
      let evs := map interp_event
                   (conv_events (conv_call_of a) (a_name a) (m_x m) ++
                    match a_validator a with Some vn => [EvValidator (a_name a) vn w []] | None => [] end) in
      oval_eqb (m_assign m) (Some (interp w)) && oval_eqb (m_init m) (Some (interp w)) &&
      trace_eqb (map strip_snap (m_assign_events m)) evs &&
      trace_eqb (map strip_snap (m_init_events m)) evs
  | _, _ => false
  end.

(** ** The check *)

Definition cls_no_user (x : cls) : bool :=
  match x with Plain => true | Attrs c => match c_user_setattr c with None => true | Some _ => false end end.

(** The property's own reading of "hooks on a frozen class": frozen by the class's argument
    or by ANY frozen base, hooks asked for at class level or on any field. *)
Definition hooks_requested (hd : acls) : bool :=
  has_cls_on_setattr (c_on_setattr hd) ||
  existsb (fun a => negb (os_is_none (a_on_setattr a))) (c_attrs hd).

Definition must_reject (hd : acls) (rest : list cstate) : bool :=
  (c_frozen_arg hd || base_frozen rest) && hooks_requested hd.

Definition check_case (c : case) : bool :=
  match cs_chain c with
  | Attrs hd :: basesl =>
      match build_chain basesl with
      | None => false                                  (* the harness only builds on finished bases *)
      | Some rest =>
          match build_attrs hd rest, built_spec hd rest with
          | Some d, Some k =>
              cs_accepted c &&
              let model_ok := runs_ok k (lookup_setattr (d :: rest)) c in
              let prop_ok :=
                negb (must_reject hd rest) &&
                (negb (forallb cls_no_user (cs_chain c)) ||
                 (runs_ok k (expected_impl k rest) c && forallb (meta_ok k) (cs_meta c))) in
              if cs_model_layer c then model_ok && (prop_ok || cs_flag c) else prop_ok
          | _, _ => negb (cs_accepted c)
          end
      end
  | _ => false
  end.

(** What the model predicts, for replay files: (accepted?, resolved __setattr__ kind,
    per run the predicted observations). *)
Definition impl_kind (i : sa_impl) : string :=
  match i with SaObject => "object" | SaFrozen => "frozen" | SaHooked _ => "hooked" | SaUser _ => "user" end.

Definition model_of (c : case) :=
  match cs_chain c with
  | Attrs hd :: basesl =>
      match build_chain basesl with
      | None => (false, "bases rejected", "", [])
      | Some rest =>
          match build_attrs hd rest, built_spec hd rest with
          | Some d, Some k =>
              (true, impl_kind (lookup_setattr (d :: rest)), impl_kind (expected_impl k rest),
               map (model_run k (lookup_setattr (d :: rest)) (cs_init c)) (cs_runs c))
          | _, _ => (false, "rejected", "", [])
          end
      end
  | _ => (false, "malformed case", "", [])
  end.

(** ** Soundness of the comparison: [true] means the observation equals the model. *)

Lemma runs_ok_sound k impl c :
  runs_ok k impl c = true ->
  forall r, In r (cs_runs c) ->
    list_eqb sobs_eqb (model_run k impl (cs_init c) r) (r_seen r) = true.
Proof. unfold runs_ok. intros H r Hin. rewrite forallb_forall in H. now apply H. Qed.
