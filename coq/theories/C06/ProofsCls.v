(** * C06 — which [__setattr__] a class ends up with, and the definition-time rejections. *)
From Coq Require Import List Bool String Arith Lia.
Import ListNotations.
From Attrs Require Import Core.Attr Core.Init Core.InitProofs C06.Model C06.Proofs.
Open Scope string_scope.
Open Scope list_scope.

(** ** A frozen class never gets a hook table *)

Lemma frozen_table_rejected k :
  k_frozen k = true -> nonempty (sa_table k) = true -> make_init_script k = GenValueError.
Proof.
  intros Fz Hne. rewrite nonempty_sa_table in Hne. apply existsb_exists in Hne as (a & Hin & Hsa).
  unfold make_init_script. rewrite Fz. cbn [andb].
  destruct (has_cls_on_setattr (effective_cls_on_setattr k)) eqn:Hc; [reflexivity|].
  assert (Hex : existsb (fun a0 => negb (os_is_none (a_on_setattr a0))) (k_attrs k) = true).
  { apply existsb_exists. exists a. split; [exact Hin|].
    unfold in_sa_attrs in Hsa. destruct (a_on_setattr a); cbn; congruence. }
  now rewrite Hex.
Qed.

(** ** Rejections *)

Lemma frozen_hooks_script k :
  k_frozen k = true ->
  (has_cls_on_setattr (k_on_setattr k) = true \/
   existsb (fun a => negb (os_is_none (a_on_setattr a))) (k_attrs k) = true) ->
  make_init_script k = GenValueError.
Proof.
  intros Fz H. unfold make_init_script, effective_cls_on_setattr. rewrite Fz. cbn [andb].
  destruct (has_cls_on_setattr (k_on_setattr k)) eqn:Hc; [reflexivity|].
  destruct H as [H|H]; [discriminate|]. now rewrite H.
Qed.

(** Hooks (class-level or on any field, NO_OP included at field level) on a class that
    is frozen, by its own argument or by inheritance: ValueError. *)
Lemma hooks_rejected_on_frozen_l c rest :
  is_frozen c rest = true ->
  (has_cls_on_setattr (c_on_setattr c) = true \/
   existsb (fun a => negb (os_is_none (a_on_setattr a))) (c_attrs c) = true) ->
  build_attrs c rest = None.
Proof.
  intros Fz H. unfold build_attrs.
  destruct (builder_on_setattr c rest) as [o|] eqn:Eb; [|reflexivity].
  rewrite Fz. destruct (has_custom_setattr c && true); [reflexivity|].
  destruct (negb (c_frozen_arg c) && nonempty (sa_table (spec_of c true o)) && has_custom_setattr c);
    [reflexivity|].
  assert (Hs : make_init_script (spec_of c true o) = GenValueError).
  { apply frozen_hooks_script; [reflexivity|]. cbn [k_on_setattr k_attrs spec_of].
    destruct H as [H|H]; [|now right].
    unfold builder_on_setattr in Eb. destruct (c_api c).
    - inversion Eb; subst. now left.
    - unfold define_wrap in Eb. rewrite H in Eb.
      destruct (base_frozen rest) eqn:Bf; [discriminate|].
      (* the class's own frozen=True *)
      assert (Fa : c_frozen_arg c = true).
      { unfold is_frozen, has_frozen_base_class in Fz. rewrite Bf in Fz.
        destruct (c_frozen_arg c); [reflexivity|]. destruct (c_user_setattr c); discriminate. }
      rewrite Fa in Eb. cbn in Eb. inversion Eb; subst. now left. }
  now rewrite Hs.
Qed.

(** In particular below a frozen class, as long as the class body writes no [__setattr__]
    of its own (which hides the inherited one from [_has_frozen_base_class]). *)
Lemma hooks_rejected_under_frozen_base_l c rest :
  base_frozen rest = true -> c_user_setattr c = None ->
  (has_cls_on_setattr (c_on_setattr c) = true \/
   existsb (fun a => negb (os_is_none (a_on_setattr a))) (c_attrs c) = true) ->
  build_attrs c rest = None.
Proof.
  intros Bf Hu H. apply hooks_rejected_on_frozen_l; [|exact H].
  unfold is_frozen, has_frozen_base_class. rewrite Hu, Bf. apply orb_true_r.
Qed.

(** [define] with explicit hooks below a frozen class: ValueError, whatever else. *)
Lemma define_hooks_under_frozen_base_l c rest :
  c_api c = ApiDefine -> base_frozen rest = true -> has_cls_on_setattr (c_on_setattr c) = true ->
  build_attrs c rest = None.
Proof.
  intros Ha Hb Hh. unfold build_attrs, builder_on_setattr, define_wrap. now rewrite Ha, Hb, Hh.
Qed.

(** An auto-detected own [__setattr__] and any effective hook: ValueError. *)
Lemma hooks_rejected_with_own_setattr_l c rest o :
  has_custom_setattr c = true -> builder_on_setattr c rest = Some o ->
  c_frozen_arg c = false ->
  existsb (in_sa_attrs (effective_cls_on_setattr (spec_of c (is_frozen c rest) o))) (c_attrs c) = true ->
  build_attrs c rest = None.
Proof.
  intros Hc Hb Hf He. unfold build_attrs. rewrite Hb, Hc, Hf. cbn [andb negb].
  destruct (is_frozen c rest); [reflexivity|].
  rewrite nonempty_sa_table. cbn [k_attrs spec_of] in *. now rewrite He.
Qed.

(** ... and these are the only reasons: a mutable class without a detected own
    [__setattr__] is always accepted. *)
Lemma mutable_class_accepted_l c rest :
  is_frozen c rest = false -> base_frozen rest = false -> has_custom_setattr c = false ->
  exists d, build_attrs c rest = Some d.
Proof.
  intros Fz Bf Hc. unfold build_attrs.
  assert (Hb : exists o, builder_on_setattr c rest = Some o).
  { unfold builder_on_setattr, define_wrap. rewrite Bf. destruct (c_api c); eauto. }
  destruct Hb as (o & ->). rewrite Fz, Hc. cbn [andb]. rewrite andb_false_r.
  unfold make_init_script. cbn [k_frozen spec_of andb]. eauto.
Qed.

(** ** The invariant of finished chains *)

Definition inv (l : list cstate) : Prop :=
  (is_sa_hooked (lookup_setattr l) = true -> lookup_own l = true) /\
  (lookup_own l = true ->
     is_sa_hooked (lookup_setattr l) = true \/ is_sa_frozen (lookup_setattr l) = true) /\
  Forall (fun d => d_own d = Some true -> exists t, d_setattr d = Some (SaHooked t)) l.

Lemma inv_nil : inv [].
Proof. repeat split; try discriminate. constructor. Qed.

Lemma inv_plain rest : inv rest -> inv ({| d_setattr := None; d_own := None |} :: rest).
Proof.
  intros (I1 & I2 & I3). repeat split; cbn; auto. constructor; [discriminate | exact I3].
Qed.

(** What [build_attrs] returns when it returns. *)
Lemma build_attrs_inv_shape c rest d :
  build_attrs c rest = Some d ->
  exists o, builder_on_setattr c rest = Some o /\
    let k := spec_of c (is_frozen c rest) o in
    let adds := negb (c_frozen_arg c) && nonempty (sa_table k) in
    (is_frozen c rest = true -> adds = false) /\
    (adds = true -> has_custom_setattr c = false) /\
    d = finish_class c rest
          (if adds then Some (SaHooked (sa_table k))
           else if is_frozen c rest then Some SaFrozen else user_impl c)
          (if adds then Some true else None)
          (is_frozen c rest || adds).
Proof.
  unfold build_attrs. intros H.
  destruct (builder_on_setattr c rest) as [o|]; [|discriminate]. exists o. split; [reflexivity|].
  cbn zeta.
  destruct (has_custom_setattr c && is_frozen c rest) eqn:E1; [discriminate|].
  set (k := spec_of c (is_frozen c rest) o) in *.
  set (adds := negb (c_frozen_arg c) && nonempty (sa_table k)) in *.
  destruct (adds && has_custom_setattr c) eqn:E2; [discriminate|].
  destruct (make_init_script k) as [sc|] eqn:E3; [|discriminate].
  inversion H; subst d. repeat split.
  - intros Fz. destruct adds eqn:Ea; [|reflexivity]. exfalso.
    apply andb_true_iff in Ea as [_ Hne].
    rewrite (frozen_table_rejected k) in E3; [discriminate | exact Fz | exact Hne].
  - intros Ha. rewrite Ha in E2. exact E2.
Qed.

Lemma user_impl_not_hooked c : forall t, user_impl c <> Some (SaHooked t).
Proof. intros t. unfold user_impl. destruct (c_user_setattr c); discriminate. Qed.

Lemma inv_hooked rest t : inv rest -> inv ({| d_setattr := Some (SaHooked t); d_own := Some true |} :: rest).
Proof.
  intros (I1 & I2 & I3). repeat split; cbn [lookup_setattr lookup_own d_setattr d_own is_sa_hooked]; auto.
  constructor; [intros _; eexists; reflexivity | exact I3].
Qed.

Lemma inv_own_false rest i :
  inv rest -> is_sa_hooked i = false -> inv ({| d_setattr := Some i; d_own := Some false |} :: rest).
Proof.
  intros (I1 & I2 & I3) Hi. repeat split; cbn [lookup_setattr lookup_own d_setattr d_own].
  - rewrite Hi. discriminate.
  - discriminate.
  - constructor; [discriminate | exact I3].
Qed.

Lemma inv_frozen rest : inv rest -> inv ({| d_setattr := Some SaFrozen; d_own := None |} :: rest).
Proof.
  intros (I1 & I2 & I3). repeat split; cbn [lookup_setattr lookup_own d_setattr d_own is_sa_hooked is_sa_frozen].
  - discriminate.
  - intros _. now right.
  - constructor; [discriminate | exact I3].
Qed.

Lemma inv_inherit_false rest :
  inv rest -> is_sa_hooked (lookup_setattr rest) = false ->
  inv ({| d_setattr := None; d_own := Some false |} :: rest).
Proof.
  intros (I1 & I2 & I3) Hh. repeat split; cbn [lookup_setattr lookup_own d_setattr d_own].
  - rewrite Hh. discriminate.
  - discriminate.
  - constructor; [discriminate | exact I3].
Qed.

Lemma inv_own_none rest i :
  inv rest -> is_sa_hooked i = false -> lookup_own rest = false ->
  inv ({| d_setattr := Some i; d_own := None |} :: rest).
Proof.
  intros (I1 & I2 & I3) Hi Ho. repeat split; cbn [lookup_setattr lookup_own d_setattr d_own].
  - rewrite Hi. discriminate.
  - rewrite Ho. discriminate.
  - constructor; [discriminate | exact I3].
Qed.

(** One class on top of a chain that satisfies the invariant, outside the gap of the
    slotted build: the invariant is kept. *)
Lemma build_attrs_inv c rest d :
  inv rest -> slotted_confused c rest = false -> build_attrs c rest = Some d -> inv (d :: rest).
Proof.
  intros I Hcf Hb.
  destruct (build_attrs_inv_shape c rest d Hb) as (o & _ & Hfa & Hac & ->).
  set (k := spec_of c (is_frozen c rest) o) in *.
  set (adds := negb (c_frozen_arg c) && nonempty (sa_table k)) in *.
  clearbody adds. clear Hb.
  unfold finish_class. destruct adds.
  - (* the class writes its own table *)
    rewrite orb_true_r. cbn [negb andb]. destruct (c_slots c); now apply inv_hooked.
  - rewrite orb_false_r. destruct (is_frozen c rest) eqn:Fz.
    + cbn [negb andb]. destruct (c_slots c); now apply inv_frozen.
    + (* mutable, nothing written *)
      cbn [negb andb]. unfold user_impl.
      destruct (c_slots c) eqn:Sl.
      * (* slotted build *)
        destruct (negb (has_custom_setattr c) && immediate_base_own rest) eqn:Er.
        -- now apply inv_own_false.
        -- destruct (c_user_setattr c) as [tg|] eqn:Eu; [now apply inv_own_false|].
           apply inv_inherit_false; [exact I|].
           unfold slotted_confused in Hcf. rewrite Sl in Hcf. cbn [andb] in Hcf.
           unfold has_custom_setattr in Er. rewrite Eu, andb_false_r in Er. cbn [negb andb] in Er.
           rewrite Er in Hcf. cbn [negb] in Hcf. now rewrite andb_true_r in Hcf.
      * (* dict build *)
        destruct (lookup_own rest) eqn:Eo.
        -- destruct (negb (has_custom_setattr c)) eqn:En; [now apply inv_own_false|].
           destruct (c_user_setattr c) as [tg|] eqn:Eu; [now apply inv_own_false|].
           exfalso. unfold has_custom_setattr in En. rewrite Eu, andb_false_r in En. discriminate.
        -- destruct (c_user_setattr c) as [tg|] eqn:Eu; [now apply inv_own_none|].
           destruct I as (I1 & I2 & I3). repeat split; cbn [lookup_setattr lookup_own d_setattr d_own]; auto.
           constructor; [discriminate | exact I3].
Qed.

(** ** Resolution *)

(** Outside the gap, and when the class body writes no [__setattr__] itself: the class
    uses its OWN table (built from its own fields and its own class-level hook) or, if
    it hooks nothing, nothing attrs-made: an inherited generated [__setattr__] is reset
    to object's.  A base's class-level hook never applies. *)
Lemma hook_resolution_l c rest d k :
  inv rest -> slotted_confused c rest = false -> c_user_setattr c = None ->
  build_attrs c rest = Some d -> built_spec c rest = Some k ->
  lookup_setattr (d :: rest) = expected_impl k rest.
Proof.
  intros (I1 & I2 & I3) Hcf Hu Hb Hk.
  destruct (build_attrs_inv_shape c rest d Hb) as (o & Ho & Hfa & Hac & ->).
  unfold built_spec in Hk. rewrite Ho in Hk. inversion Hk; subst k. clear Hk.
  set (k := spec_of c (is_frozen c rest) o) in *.
  set (adds := negb (c_frozen_arg c) && nonempty (sa_table k)) in *.
  assert (Hcust : has_custom_setattr c = false).
  { unfold has_custom_setattr. rewrite Hu. apply andb_false_r. }
  assert (Hui : user_impl c = None) by (unfold user_impl; now rewrite Hu).
  unfold expected_impl, finish_class. cbn [k_frozen spec_of k]. rewrite Hcust, Hui. cbn [negb andb].
  destruct (is_frozen c rest) eqn:Fz.
  - rewrite (Hfa eq_refl). cbn [orb]. destruct (c_slots c); reflexivity.
  - cbn [orb].
    assert (Fa : c_frozen_arg c = false).
    { unfold is_frozen in Fz. apply orb_false_iff in Fz. tauto. }
    assert (Hadds : adds = nonempty (sa_table k)) by (unfold adds; now rewrite Fa).
    destruct (sa_table k) as [|e t] eqn:Et.
    + (* hooks nothing *)
      rewrite Hadds. cbn [nonempty negb andb].
      destruct (c_slots c) eqn:Sl.
      * destruct (immediate_base_own rest) eqn:Ei; cbn [lookup_setattr d_setattr].
        -- (* the immediate base wrote a table: reset *)
           assert (Hh : is_sa_hooked (lookup_setattr rest) = true).
           { destruct rest as [|b r]; [discriminate|]. cbn in Ei.
             destruct (d_own b) as [[|]|] eqn:Eo; try discriminate.
             inversion I3 as [|? ? Hb3 _]; subst. destruct (Hb3 Eo) as (t' & Ht').
             cbn. now rewrite Ht'. }
           now rewrite Hh.
        -- unfold slotted_confused in Hcf. rewrite Sl, Ei in Hcf. cbn in Hcf.
           rewrite andb_true_r in Hcf. now rewrite Hcf.
      * destruct (lookup_own rest) eqn:Eo; cbn [lookup_setattr d_setattr].
        -- assert (Hor : is_sa_hooked (lookup_setattr rest) = true \/ is_sa_frozen (lookup_setattr rest) = true)
             by (first [apply (I2 eq_refl) | apply (I2 Eo)]).
           destruct Hor as [Hh|Hf]; [now rewrite Hh|].
           (* a frozen base would have made this class frozen *)
           exfalso. unfold is_frozen, has_frozen_base_class, base_frozen in Fz.
           rewrite Hu, Hf, orb_true_r in Fz. discriminate.
        -- destruct (is_sa_hooked (lookup_setattr rest)) eqn:Hh; [|reflexivity].
           first [pose proof (I1 eq_refl) as Hx | pose proof (I1 Hh) as Hx]; congruence.
    + (* writes its own table *)
      rewrite Hadds. cbn [nonempty]. destruct (c_slots c); reflexivity.
Qed.

(** Whole chains. *)
Fixpoint chain_confused (l : list cls) : bool :=
  match l with
  | [] => false
  | x :: r =>
      chain_confused r ||
      match x, build_chain r with
      | Attrs c, Some rest => slotted_confused c rest
      | _, _ => false
      end
  end.

Lemma chain_inv : forall l sts, chain_confused l = false -> build_chain l = Some sts -> inv sts.
Proof.
  induction l as [|x r IH]; intros sts Hc Hb; cbn in Hb.
  - inversion Hb. apply inv_nil.
  - cbn in Hc. apply orb_false_iff in Hc as [Hc1 Hc2].
    destruct (build_chain r) as [rest|] eqn:Er; [|discriminate].
    specialize (IH rest Hc1 eq_refl).
    destruct x as [|c]; cbn in Hb.
    + inversion Hb. now apply inv_plain.
    + destruct (build_attrs c rest) as [d|] eqn:Ed; [|discriminate]. inversion Hb; subst.
      eapply build_attrs_inv; eauto.
Qed.

Lemma hook_resolution_chain_l c r d rest k :
  chain_confused (Attrs c :: r) = false ->
  build_chain (Attrs c :: r) = Some (d :: rest) ->
  c_user_setattr c = None -> built_spec c rest = Some k ->
  lookup_setattr (d :: rest) = expected_impl k rest.
Proof.
  intros Hc Hb Hu Hk. cbn in Hc. apply orb_false_iff in Hc as [Hc1 Hc2].
  cbn in Hb. destruct (build_chain r) as [rest'|] eqn:Er; [|discriminate].
  destruct (build_attrs c rest') as [d'|] eqn:Ed; [|discriminate]. inversion Hb; subst.
  eapply hook_resolution_l; eauto. eapply chain_inv; eauto.
Qed.

(** The builder's class-level hook of a mutable class is a function of the class's own
    arguments only. *)
Definition own_cls_on_setattr (c : acls) : cls_on_setattr :=
  match c_api c with
  | ApiAttrs => c_on_setattr c
  | ApiDefine => if cos_is_none (c_on_setattr c) then COsDefault else c_on_setattr c
  end.

Lemma builder_on_setattr_mutable c rest o :
  is_frozen c rest = false -> c_user_setattr c = None -> builder_on_setattr c rest = Some o ->
  o = own_cls_on_setattr c.
Proof.
  intros Fz Hu Hb. unfold is_frozen, has_frozen_base_class in Fz. rewrite Hu in Fz.
  apply orb_false_iff in Fz as [Fa Bf].
  unfold builder_on_setattr, define_wrap, own_cls_on_setattr in *. rewrite Fa, Bf in Hb.
  destruct (c_api c); inversion Hb; reflexivity.
Qed.

(** Two levels: whatever the base class is and whatever hooks it has, the subclass's
    [__setattr__] is determined by the subclass's own specification. *)
Lemma base_hooks_not_inherited_l b c db d :
  build_chain [Attrs c; Attrs b] = Some [d; db] ->
  c_user_setattr c = None -> is_frozen c [db] = false ->
  let k := spec_of c false (own_cls_on_setattr c) in
  lookup_setattr [d; db] =
  match sa_table k with
  | [] => if is_sa_hooked (lookup_setattr [db]) then SaObject else lookup_setattr [db]
  | t => SaHooked t
  end.
Proof.
  intros Hb Hu Fz k.
  assert (Hcf : chain_confused [Attrs c; Attrs b] = false).
  { cbn. cbn in Hb. destruct (build_attrs b []) as [db'|] eqn:Eb; [|discriminate].
    destruct (build_attrs c [db']) as [d'|] eqn:Ec; [|discriminate]. inversion Hb; subst.
    assert (Ib : inv [db]).
    { eapply build_attrs_inv; [apply inv_nil | | exact Eb]. unfold slotted_confused. cbn.
      now rewrite andb_false_r. }
    unfold slotted_confused. cbn [orb]. rewrite andb_false_r. cbn [orb].
    destruct (c_slots c); [|reflexivity]. cbn [andb].
    destruct (is_sa_hooked (lookup_setattr [db])) eqn:Hh; [|reflexivity].
    destruct Ib as (I1 & _ & _). specialize (I1 Hh). cbn in I1. cbn.
    destruct (d_own db) as [[|]|]; try discriminate. reflexivity. }
  assert (Hk : exists o, builder_on_setattr c [db] = Some o).
  { cbn in Hb. destruct (build_attrs b []); [|discriminate].
    destruct (build_attrs c [c0]) eqn:Ec; [|discriminate]. inversion Hb; subst.
    unfold build_attrs in Ec. destruct (builder_on_setattr c [db]); [eauto | discriminate]. }
  destruct Hk as (o & Ho).
  pose proof (builder_on_setattr_mutable c [db] o Fz Hu Ho) as ->.
  rewrite (hook_resolution_chain_l c [Attrs b] d [db] (spec_of c (is_frozen c [db]) (own_cls_on_setattr c)) Hcf Hb Hu).
  - rewrite Fz. unfold expected_impl. reflexivity.
  - unfold built_spec. now rewrite Ho.
Qed.

(** ** The gap: "slotted confused" *)

Definition plain_attr (n : string) (o : on_setattr) : attribute :=
  {| a_name := n; a_default := DNothing; a_validator := None; a_repr := true; a_eq := true;
     a_eq_key := None; a_order := true; a_order_key := None; a_hash := None; a_init := true;
     a_type := None; a_converter := CNone; a_kw_only := false; a_inherited := false;
     a_on_setattr := o; a_alias := Some n |}.

Definition slotted_cls (attrs : list attribute) : acls :=
  {| c_api := ApiAttrs; c_attrs := attrs; c_slots := true; c_frozen_arg := false;
     c_on_setattr := COsNone; c_auto_detect := false; c_user_setattr := None;
     c_mro_slots := []; c_has_dict := false |}.

(** test_slotted_confused: A hooks x with setters.frozen; plain B(A); slotted C(B)
    redefines x without hooks and still runs A's hook. *)
Definition confused_chain : list cls :=
  [Attrs (slotted_cls [plain_attr "x" OsNone]); Plain;
   Attrs (slotted_cls [plain_attr "x" (OsPipe [HFrozen])])].

Lemma hook_resolution_refuted_l :
  exists c r d rest k,
    build_chain (Attrs c :: r) = Some (d :: rest) /\ c_user_setattr c = None /\
    built_spec c rest = Some k /\
    expected_impl k rest = SaObject /\
    is_sa_hooked (lookup_setattr (d :: rest)) = true /\
    chain_confused (Attrs c :: r) = true.
Proof.
  exists (slotted_cls [plain_attr "x" OsNone]), (tl confused_chain).
  eexists. eexists. eexists. vm_compute. repeat split; reflexivity.
Qed.

(** The guard [c_user_setattr c = None] of [hooks_rejected_under_frozen_base_l] is needed:
    attr.s(on_setattr=h) on a subclass of a frozen class whose body defines
    [__setattr__] is accepted and mutable. *)
Definition frozen_root : acls :=
  {| c_api := ApiAttrs; c_attrs := [plain_attr "x" OsNone]; c_slots := false; c_frozen_arg := true;
     c_on_setattr := COsNone; c_auto_detect := false; c_user_setattr := None;
     c_mro_slots := []; c_has_dict := true |}.

Definition hooked_body_setattr : acls :=
  {| c_api := ApiAttrs; c_attrs := [plain_attr "x" OsNone]; c_slots := false; c_frozen_arg := false;
     c_on_setattr := COsSingle (HUser "h"); c_auto_detect := false; c_user_setattr := Some "U";
     c_mro_slots := []; c_has_dict := true |}.

Lemma hooks_under_frozen_base_refuted_l :
  exists c rest d,
    build_chain [Attrs frozen_root] = Some rest /\ base_frozen rest = true /\
    has_cls_on_setattr (c_on_setattr c) = true /\
    build_attrs c rest = Some d /\ is_sa_hooked (lookup_setattr (d :: rest)) = true.
Proof.
  exists hooked_body_setattr. eexists. eexists. vm_compute. repeat split; reflexivity.
Qed.
