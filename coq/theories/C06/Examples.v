(** * C06 — non-vacuity: the hypotheses of the property theorems are satisfiable, on a
    concrete class, and the conclusions compute to what one expects. *)
From Coq Require Import List Bool String Arith.
Import ListNotations.
From Attrs Require Import Core.Attr Core.Init Core.InitProofs Core.InitCorr Core.Faults
  C06.Model C06.Proofs C06.ProofsCls C06.ProofsAssign.
Open Scope string_scope.
Open Scope list_scope.

Definition fld (n : string) (v : option string) (c : conv_kind) (o : on_setattr) : attribute :=
  {| a_name := n; a_default := DNothing; a_validator := v; a_repr := true; a_eq := true;
     a_eq_key := None; a_order := true; a_order_key := None; a_hash := None; a_init := true;
     a_type := None; a_converter := c; a_kw_only := false; a_inherited := false;
     a_on_setattr := o; a_alias := Some n |}.

Definition fx := fld "x" (Some "vx") (CConverter "cx" true true false) OsNone.
Definition fy := fld "y" (Some "vy") CNone (OsPipe [HUser "h1"; HValidate; HUser "h2"]).
Definition fz := fld "z" None (CPlain "cz" false) OsNoOp.

(** @define class K: x, y, z as above (a dict class). *)
Definition ex_c : acls :=
  {| c_api := ApiDefine; c_attrs := [fx; fy; fz]; c_slots := false; c_frozen_arg := false;
     c_on_setattr := COsNone; c_auto_detect := true; c_user_setattr := None;
     c_mro_slots := []; c_has_dict := true |}.

Definition ex_k : cls_spec := spec_of ex_c false COsDefault.

Example ex_built : built_spec ex_c [] = Some ex_k.
Proof. reflexivity. Qed.

Definition s0 : st :=
  {| s_inst := {| i_slots := []; i_dict := [("x", VTok 1); ("y", VTok 2); ("z", VTok 3)]; i_args := None |};
     s_trace := [] |}.

Lemma ex_nodup : NoDup (map a_name (k_attrs ex_k)).
Proof. cbn. repeat constructor; cbn; intuition discriminate. Qed.

Lemma ex_wf : wf ex_k.
Proof.
  constructor; [exact ex_nodup | reflexivity |].
  cbn. unfold HASH_CACHE. intuition discriminate.
Qed.

(** setattr_stores_chain: the field-level list on y runs left to right. *)
Example ex_find_y : sa_find "y" (sa_table ex_k) = Some (fy, [HUser "h1"; HValidate; HUser "h2"]).
Proof. reflexivity. Qed.

Example ex_chain_y :
  chain_ref true fy (snapshot ex_k (s_inst s0)) [HUser "h1"; HValidate; HUser "h2"] (VTok 9) =
  ([EvHook "y" (HUser "h1") (VTok 9);
    EvValidator "y" "vy" (VApp "h1" [VTok 9]) [("x", Some (VTok 1)); ("y", Some (VTok 2)); ("z", Some (VTok 3))];
    EvHook "y" (HUser "h2") (VApp "h1" [VTok 9])],
   Some (VApp "h2" [VApp "h1" [VTok 9]])).
Proof. reflexivity. Qed.

Example ex_storable : storable ex_k "y".
Proof. right. reflexivity. Qed.

(** setattr_failure_atomic: the validator of y (callback 1) raises. *)
Example ex_atomic :
  exists s', setattr_op ex_k (SaHooked (sa_table ex_k)) true "y" (VTok 9) (fault_of (Some 1)) s0
             = AFail (EUser 1) s' /\ s_inst s' = s_inst s0 /\ List.length (s_trace s') = 2.
Proof. eexists. vm_compute. repeat split; reflexivity. Qed.

(** NO_OP at field level overrides the class-level default; a non-field name. *)
Example ex_unhooked : in_sa_attrs (effective_cls_on_setattr ex_k) fz = false.
Proof. reflexivity. Qed.

Example ex_nonfield : ~ In "nf" (map a_name (k_attrs ex_k)).
Proof. cbn. intuition discriminate. Qed.

(** define's default applies to x: convert (instance and field passed), then validate. *)
Example ex_default_x :
  default_events ex_k fx (VTok 7) [] =
  [EvConverter "x" "cx" [VTok 7; VSelf; VAttr "x"];
   EvValidator "x" "vx" (VApp "cx" [VTok 7; VSelf; VAttr "x"]) []].
Proof. reflexivity. Qed.

Example ex_init_script : exists sc, make_init_script ex_k = GenOk sc /\
  bind_call sc [VTok 7; VTok 8; VTok 9] [] = Bound [("x", VTok 7); ("y", VTok 8); ("z", VTok 9)].
Proof. eexists. split; reflexivity. Qed.

(** hook_resolution / base_hooks_not_inherited: a base with a class-level user hook, a
    subclass without any hook: the subclass gets object's __setattr__ (both builds). *)
Definition base_c : acls :=
  {| c_api := ApiAttrs; c_attrs := [fld "x" None CNone OsNone]; c_slots := false; c_frozen_arg := false;
     c_on_setattr := COsSingle (HUser "h"); c_auto_detect := false; c_user_setattr := None;
     c_mro_slots := []; c_has_dict := true |}.

Definition sub_c (slots : bool) : acls :=
  {| c_api := ApiAttrs; c_attrs := [fld "x" None CNone OsNone; fld "w" None CNone OsNone];
     c_slots := slots; c_frozen_arg := false; c_on_setattr := COsNone; c_auto_detect := false;
     c_user_setattr := None; c_mro_slots := []; c_has_dict := true |}.

Example ex_two_level : forall slots,
  exists d db, build_chain [Attrs (sub_c slots); Attrs base_c] = Some [d; db] /\
    is_sa_hooked (lookup_setattr [db]) = true /\ lookup_setattr [d; db] = SaObject /\
    chain_confused [Attrs (sub_c slots); Attrs base_c] = false.
Proof. intros [|]; do 2 eexists; vm_compute; repeat split; reflexivity. Qed.

(** ... and a subclass with its own class-level hook uses that one for the inherited field. *)
Definition sub_hooked : acls :=
  {| c_api := ApiAttrs; c_attrs := [fld "x" None CNone OsNone];
     c_slots := true; c_frozen_arg := false; c_on_setattr := COsSingle (HUser "g"); c_auto_detect := false;
     c_user_setattr := None; c_mro_slots := []; c_has_dict := true |}.

Example ex_sub_hook :
  exists d db, build_chain [Attrs sub_hooked; Attrs base_c] = Some [d; db] /\
    target (lookup_setattr [d; db]) "x" = Some (fld "x" None CNone OsNone, [HUser "g"]).
Proof. do 2 eexists. vm_compute. split; reflexivity. Qed.

(** Rejections. *)
Definition frozen_hooked : acls :=
  {| c_api := ApiAttrs; c_attrs := [fld "x" None CNone (OsPipe [HValidate])]; c_slots := false;
     c_frozen_arg := true; c_on_setattr := COsNone; c_auto_detect := false; c_user_setattr := None;
     c_mro_slots := []; c_has_dict := true |}.

Example ex_frozen_rejected : is_frozen frozen_hooked [] = true /\ build_attrs frozen_hooked [] = None.
Proof. split; reflexivity. Qed.

Definition frozen_base : acls :=
  {| c_api := ApiAttrs; c_attrs := [fld "x" None CNone OsNone]; c_slots := false;
     c_frozen_arg := true; c_on_setattr := COsNone; c_auto_detect := false; c_user_setattr := None;
     c_mro_slots := []; c_has_dict := true |}.

Definition define_hooked_sub : acls :=
  {| c_api := ApiDefine; c_attrs := [fld "x" None CNone OsNone]; c_slots := true;
     c_frozen_arg := false; c_on_setattr := COsSingle HValidate; c_auto_detect := true; c_user_setattr := None;
     c_mro_slots := []; c_has_dict := true |}.

Example ex_inherited_frozen_rejected :
  exists db, build_chain [Attrs frozen_base] = Some [db] /\ base_frozen [db] = true /\
             build_attrs define_hooked_sub [db] = None.
Proof. eexists. vm_compute. repeat split; reflexivity. Qed.

Definition own_setattr_hooked : acls :=
  {| c_api := ApiDefine; c_attrs := [fld "x" (Some "v") CNone OsNone]; c_slots := true;
     c_frozen_arg := false; c_on_setattr := COsNone; c_auto_detect := true; c_user_setattr := Some "U";
     c_mro_slots := []; c_has_dict := false |}.

Example ex_own_setattr_rejected :
  has_custom_setattr own_setattr_hooked = true /\ build_attrs own_setattr_hooked [] = None.
Proof. split; reflexivity. Qed.
