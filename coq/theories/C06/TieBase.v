(** * C06 — the Python primitives the regenerated code ([Gen/C06_setters.v]) is written in.

    The translator (harness/translate_c06.py) turns the bodies of [setters.pipe / frozen /
    validate / convert], of the [__setattr__] closure and of the table loop of
    [_ClassBuilder.add_setattr] into continuation-passing Gallina over the value universe
    [tv] below.  What a primitive means (calling a validator, a converter object, a hook,
    [object.__setattr__], attribute reads of an [Attribute], truthiness, [is]) is fixed
    here, by hand, over the types of the shared model. *)
From Coq Require Import List Bool String Arith.
Import ListNotations.
From Attrs Require Import Core.Attr Core.Init C06.Model.
Open Scope string_scope.
Open Scope list_scope.

(** What [a.on_setattr] / [self._on_setattr] evaluate to. *)
Inductive osv := OVNone | OVNoOp | OVHooks (hs : list hook).

Inductive tv :=
| TV (v : val)                               (* an object the model tracks symbolically; None = [TV VNone] *)
| TBool (b : bool)
| TStr (s : string)
| TAttrib (a : attribute)                    (* an Attribute object *)
| TValidator (o : option string)             (* attrib.validator *)
| TConverter (fld : string) (c : conv_kind)  (* attrib.converter (of the field it was made for) *)
| THook (h : hook)                           (* one on_setattr callable *)
| TChain (hs : list hook)                    (* the hook stored in the sa_attrs table (a pipe or a single hook) *)
| TOn (o : osv)                              (* an on_setattr setting *)
| TEntry (a : attribute) (hs : list hook)    (* the tuple (a, on_setattr) *)
| TDefault                                   (* the _DEFAULT_ON_SETATTR object *)
| TBad.                                      (* anything the primitives give no meaning to *)

(** [cx_callable_truthy]: the truth value of the user's callable objects (hooks, validators,
    converters).  A callable object may define [__bool__] / [__len__] and be falsy, so the tie
    lemmas quantify over it: code that decides "is there a hook / validator / converter" by
    truthiness instead of [is not None] cannot be proved equal to the model. *)
Record ctx := { cx_k : cls_spec; cx_von : bool; cx_callable_truthy : bool }.

Definition to_val (x : tv) : val :=
  match x with
  | TV v => v
  | TAttrib a => VAttr (a_name a)
  | TBool b => VBool b
  | _ => VNone
  end.

Definition tv_is_none (x : tv) : bool :=
  match x with
  | TV VNone | TValidator None | TConverter _ CNone | TOn OVNone => true
  | _ => false
  end.

(** [x is y] for the singletons the code compares with. *)
Definition tv_is (x y : tv) : bool :=
  match y with
  | TV VNone => tv_is_none x
  | TBool b => match x with TBool c => Bool.eqb b c | _ => false end
  | TOn OVNoOp => match x with TOn OVNoOp => true | _ => false end
  | _ => false
  end.

(** Truthiness: None and False are falsy; NO_OP (a bare [object()]), the default pipe (a
    function), Attribute objects and tokens are truthy; a user callable is what the context says. *)
Definition tv_truthy (cx : ctx) (x : tv) : bool :=
  match x with
  | TBool b => b
  | TBad => false
  | TValidator (Some _) | THook _ | TChain _ | TOn (OVHooks _) => cx_callable_truthy cx
  | TConverter _ CNone => false
  | TConverter _ _ => cx_callable_truthy cx
  | _ => negb (tv_is_none x)
  end.

(** [x or y] *)
Definition tv_or (cx : ctx) (x y : tv) : tv := if tv_truthy cx x then x else y.

Definition tv_isinstance_converter (x : tv) : bool :=
  match x with TConverter _ (CConverter _ _ _ _) => true | _ => false end.

(** [_config._run_validators] *)
Definition t_run_validators (cx : ctx) : tv := TBool (cx_von cx).

(** [obj.field] for the attribute reads the code makes. *)
Definition t_attr (x : tv) (field : string) : tv :=
  match x with
  | TAttrib a =>
      if String.eqb field "validator" then TValidator (a_validator a)
      else if String.eqb field "converter" then TConverter (a_name a) (a_converter a)
      else if String.eqb field "name" then TStr (a_name a)
      else if String.eqb field "inherited" then TBool (a_inherited a)
      else if String.eqb field "on_setattr" then
        TOn (match a_on_setattr a with OsNone => OVNone | OsNoOp => OVNoOp | OsPipe hs => OVHooks hs end)
      else TBad
  | _ => TBad
  end.

Definition t_raise (e : exc) : acomp := fun _ s => AFail e s.

Definition t_done : tv -> acomp := fun _ _ s => ADone s.

(** Calling an object. *)
Definition t_call (cx : ctx) (f : tv) (args : list tv) (K : tv -> acomp) : acomp :=
  match f, args with
  | TValidator (Some vn), [_; TAttrib a; x] =>                   (* v(instance, attrib, value): returns None *)
      acb (fun s => EvValidator (a_name a) vn (to_val x) (snapshot (cx_k cx) (s_inst s))) (K (TV VNone))
  | TConverter fld (CPlain fn _), [x] =>                          (* a plain callable *)
      acb (fun _ => EvConverter fld fn [to_val x]) (K (TV (VApp fn [to_val x])))
  | TConverter fld (CConverter fn ts tf _), [x; i; fl] =>         (* Converter.__call__: the four lambdas *)
      let args' := to_val x :: (if ts then [to_val i] else []) ++ (if tf then [to_val fl] else []) in
      acb (fun _ => EvConverter fld fn args') (K (TV (VApp fn args')))
  | THook h, [_; TAttrib a; x] =>                                 (* a hook (instance, attrib, value) *)
      run_hook (cx_k cx) (cx_von cx) a h (to_val x) (fun w => K (TV w))
  | TChain hs, [_; TAttrib a; x] =>                               (* the table's hook *)
      run_chain (cx_k cx) (cx_von cx) a hs (to_val x) (fun w => K (TV w))
  | _, _ => t_raise ETypeError
  end.

(** [_OBJ_SETATTR(self, name, value)] *)
Definition t_obj_setattr (cx : ctx) (args : list tv) (K : tv -> acomp) : acomp :=
  match args with
  | [_; TStr n; x] =>
      fun f s => match obj_setattr (cx_k cx) (s_inst s) n (to_val x) with
                 | Ok i => K (TV VNone) f {| s_inst := i; s_trace := s_trace s |}
                 | Raise e => AFail e s
                 end
  | _ => t_raise ETypeError
  end.

(** [for x in xs: <body updating one carried variable>] *)
Fixpoint t_for (xs : list tv) (body : tv -> tv -> (tv -> acomp) -> acomp) (acc : tv)
  (K : tv -> acomp) : acomp :=
  match xs with
  | [] => K acc
  | x :: r => body x acc (fun acc' => t_for r body acc' K)
  end.

(** [sa_attrs[name]]: [None] = KeyError. *)
Definition t_lookup (tbl : list sa_entry) (key : tv) : option (tv * tv) :=
  match key with
  | TStr n => match sa_find n tbl with
              | Some (a, hs) => Some (TAttrib a, TChain hs)
              | None => None
              end
  | _ => None
  end.

(** A dict under construction: [d[key] = value] replaces an existing key in place, else appends. *)
Fixpoint dict_set (d : list (string * tv)) (key : string) (v : tv) : list (string * tv) :=
  match d with
  | [] => [(key, v)]
  | (k', w) :: r => if String.eqb key k' then (k', v) :: r else (k', w) :: dict_set r key v
  end.

Fixpoint dict_get (d : list (string * tv)) (key : string) : option tv :=
  match d with
  | [] => None
  | (k', w) :: r => if String.eqb key k' then Some w else dict_get r key
  end.

Definition t_dict_set (d : list (string * tv)) (key : tv) (v : tv) : list (string * tv) :=
  match key with TStr n => dict_set d n v | _ => d end.

(** the tuple [a, on_setattr] *)
Definition t_pair (x y : tv) : tv :=
  match x, y with
  | TAttrib a, TOn (OVHooks hs) => TEntry a hs
  | _, _ => TBad
  end.

(** pure loop over a list with one carried value *)
Definition t_fold {S : Type} (xs : list tv) (body : tv -> S -> S) (acc : S) : S :=
  fold_left (fun st x => body x st) xs acc.

(** the builder's class-level setting as an object *)
Definition osv_of_cls (o : cls_on_setattr) : osv :=
  match o with
  | COsNone => OVNone
  | COsNoOp => OVNoOp
  | other => OVHooks (cls_hooks other)
  end.

(** an on_setattr= argument / what the builder is handed, as an object *)
Definition tv_of_cls (o : cls_on_setattr) : tv :=
  match o with COsDefault => TDefault | other => TOn (osv_of_cls other) end.
