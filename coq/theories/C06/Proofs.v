(** * C06 — proofs about the generated [__setattr__] and the hook chains. *)
From Coq Require Import List Bool String Arith Lia.
Import ListNotations.
From Attrs Require Import Core.Attr Core.Init Core.InitProofs Core.Faults C06.Model.
Open Scope string_scope.
Open Scope list_scope.

(** ** Fault propagation: every construct is [good] in the sense of [Core/Faults.v] *)

Definition oc (C : acomp) : comp := fun f s => to_outcome (C f s).

Lemma oc_acb ev K f s : oc (acb ev K) f s = cb_then ev (oc K) f s.
Proof. unfold oc, acb, cb_then, callback. destruct (f (List.length (s_trace s))); reflexivity. Qed.

Lemma good_acb ev K : good (oc K) -> good (oc (acb ev K)).
Proof.
  intros H. apply (good_ext _ (cb_then ev (oc K))).
  - intros f s. apply oc_acb.
  - now apply good_cb_then.
Qed.

Lemma good_store k n v : good (oc (store k n v)).
Proof.
  apply good_pure; [reflexivity|]. intros s. unfold oc, store.
  destruct (obj_setattr k (s_inst s) n v); reflexivity.
Qed.

Lemma good_fail e : good (oc (fun _ s => AFail e s)).
Proof. apply good_pure; reflexivity. Qed.

Lemma good_run_hook k von a h v K :
  (forall w, good (oc (K w))) -> good (oc (run_hook k von a h v K)).
Proof.
  intros HK. destruct h as [fn| | |]; cbn [run_hook].
  - apply good_acb, HK.
  - destruct (a_converter a) as [|fn an|fn ts tf an]; [apply HK | apply good_acb, HK | apply good_acb, HK].
  - destruct (negb von); [apply HK|]. destruct (a_validator a); [apply good_acb, HK | apply HK].
  - apply good_fail.
Qed.

Lemma good_run_chain k von a K : (forall w, good (oc (K w))) ->
  forall hs v, good (oc (run_chain k von a hs v K)).
Proof.
  intros HK. induction hs as [|h r IH]; intros v; cbn [run_chain]; [apply HK|].
  apply good_run_hook. intros w. apply IH.
Qed.

Lemma good_setattr_op k impl von n v : good (oc (setattr_op k impl von n v)).
Proof.
  destruct impl as [| |tbl|tg]; cbn [setattr_op].
  - apply good_store.
  - apply good_fail.
  - destruct (sa_find n tbl) as [[a hs]|]; [|apply good_store].
    apply good_run_chain. intros w. apply good_store.
  - apply good_acb, good_store.
Qed.

(** For ANY fault oracle the assignment is the fault-free assignment cut at the first
    callback the oracle makes raise. *)
Lemma setattr_faults k impl von n v f s :
  to_outcome (setattr_op k impl von n v f s) =
  cutoff f (List.length (s_trace s)) (to_outcome (setattr_op k impl von n v no_fault s)).
Proof. apply (proj2 (good_setattr_op k impl von n v) f s). Qed.

(** ** A failing assignment leaves the instance alone *)

Definition keeps_inst (C : acomp) : Prop :=
  forall f s e s', C f s = AFail e s' -> s_inst s' = s_inst s.

Lemma keeps_acb ev K : keeps_inst K -> keeps_inst (acb ev K).
Proof.
  intros HK f s e s' H. unfold acb in H. destruct (f (List.length (s_trace s))).
  - inversion H; reflexivity.
  - apply HK in H. exact H.
Qed.

Lemma keeps_store k n v : keeps_inst (store k n v).
Proof.
  intros f s e s' H. unfold store in H. destruct (obj_setattr k (s_inst s) n v); inversion H; reflexivity.
Qed.

Lemma keeps_run_hook k von a h v K : (forall w, keeps_inst (K w)) -> keeps_inst (run_hook k von a h v K).
Proof.
  intros HK. destruct h as [fn| | |]; cbn [run_hook].
  - apply keeps_acb, HK.
  - destruct (a_converter a); [apply HK | apply keeps_acb, HK | apply keeps_acb, HK].
  - destruct (negb von); [apply HK|]. destruct (a_validator a); [apply keeps_acb, HK | apply HK].
  - intros f s e s' H. inversion H; reflexivity.
Qed.

Lemma keeps_run_chain k von a K : (forall w, keeps_inst (K w)) ->
  forall hs v, keeps_inst (run_chain k von a hs v K).
Proof.
  intros HK. induction hs as [|h r IH]; intros v; cbn [run_chain]; [apply HK|].
  apply keeps_run_hook. intros w. apply IH.
Qed.

Lemma keeps_setattr_op k impl von n v : keeps_inst (setattr_op k impl von n v).
Proof.
  destruct impl as [| |tbl|tg]; cbn [setattr_op].
  - apply keeps_store.
  - intros f s e s' H. inversion H; reflexivity.
  - destruct (sa_find n tbl) as [[a hs]|]; [|apply keeps_store].
    apply keeps_run_chain. intros w. apply keeps_store.
  - apply keeps_acb, keeps_store.
Qed.

(** THE atomicity theorem: whatever raises (a hook, a converter, a validator, the
    final store), for any oracle: the instance is exactly the previous one, and the
    exception and the callbacks that ran are those of the fault-free run cut at the
    first raising callback. *)
Lemma setattr_failure_atomic_l k impl von n v f s e s' :
  setattr_op k impl von n v f s = AFail e s' ->
  s_inst s' = s_inst s /\
  (forall m, read k (s_inst s') m = read k (s_inst s) m) /\
  Raised e (s_trace s') =
    cutoff f (List.length (s_trace s)) (to_outcome (setattr_op k impl von n v no_fault s)).
Proof.
  intros H. pose proof (keeps_setattr_op k impl von n v f s e s' H) as Hi.
  split; [exact Hi|]. split; [intros m; now rewrite Hi|].
  rewrite <- setattr_faults, H. reflexivity.
Qed.

(** The complete case split under an arbitrary oracle. *)
Lemma setattr_under_faults_l k impl von n v f s :
  let r0 := setattr_op k impl von n v no_fault s in
  let lo := List.length (s_trace s) in
  match first_fault f lo (List.length (trace_of (to_outcome r0)) - lo) with
  | Some j => exists s', setattr_op k impl von n v f s = AFail (EUser j) s' /\
                         s_inst s' = s_inst s /\
                         s_trace s' = firstn (S j) (trace_of (to_outcome r0)) /\ f j = true
  | None => setattr_op k impl von n v f s = r0
  end.
Proof.
  intros r0 lo. pose proof (setattr_faults k impl von n v f s) as Hc.
  fold r0 in Hc. fold lo in Hc. unfold cutoff in Hc.
  destruct (first_fault f lo (List.length (trace_of (to_outcome r0)) - lo)) as [j|] eqn:Ef.
  - destruct (setattr_op k impl von n v f s) as [s1|e s1] eqn:E; cbn in Hc; [discriminate|].
    inversion Hc; subst. exists s1. repeat split.
    + eapply keeps_setattr_op; eauto.
    + assumption.
    + apply first_fault_bound in Ef. tauto.
  - destruct (setattr_op k impl von n v f s) as [s1|e s1] eqn:E;
      destruct r0 as [s2|e2 s2] eqn:E0; cbn in Hc; try discriminate.
    + now inversion Hc.
    + inversion Hc; subst.
      pose proof (keeps_setattr_op k impl von n v f s e2 s1 E) as Hk1.
      pose proof (keeps_setattr_op k impl von n v no_fault s e2 s2 E0) as Hk2.
      destruct s1 as [i1 t1], s2 as [i2 t2]; cbn in *. congruence.
Qed.

(** ** Fault-free chains against the pure reference *)

Definition with_trace (s : st) (evs : list event) : st :=
  {| s_inst := s_inst s; s_trace := s_trace s ++ evs |}.

Lemma with_trace_nil s : with_trace s [] = s.
Proof. unfold with_trace. rewrite app_nil_r. destruct s; reflexivity. Qed.

Lemma with_trace_app s a b : with_trace (with_trace s a) b = with_trace s (a ++ b).
Proof. unfold with_trace; cbn. now rewrite app_assoc. Qed.

Lemma run_hook_nofault k von a h v K s :
  run_hook k von a h v K no_fault s =
  match hook_ref von a (snapshot k (s_inst s)) h v with
  | (evs, Some w) => K w no_fault (with_trace s evs)
  | (evs, None) => AFail EFrozenAttribute (with_trace s evs)
  end.
Proof.
  destruct h as [fn| | |]; cbn [run_hook hook_ref].
  - reflexivity.
  - destruct (a_converter a); [now rewrite with_trace_nil | reflexivity | reflexivity].
  - destruct (negb von); [now rewrite with_trace_nil|].
    destruct (a_validator a); [reflexivity | now rewrite with_trace_nil].
  - now rewrite with_trace_nil.
Qed.

Lemma run_chain_nofault k von a K : forall hs v s,
  run_chain k von a hs v K no_fault s =
  match chain_ref von a (snapshot k (s_inst s)) hs v with
  | (evs, Some w) => K w no_fault (with_trace s evs)
  | (evs, None) => AFail EFrozenAttribute (with_trace s evs)
  end.
Proof.
  induction hs as [|h r IH]; intros v s; cbn [run_chain chain_ref].
  - now rewrite with_trace_nil.
  - rewrite run_hook_nofault.
    destruct (hook_ref von a (snapshot k (s_inst s)) h v) as [evs [w|]]; [|reflexivity].
    rewrite IH. cbn [with_trace s_inst].
    destruct (chain_ref von a (snapshot k (s_inst s)) r w) as [evs' [w'|]]; cbn [fst snd];
      now rewrite with_trace_app.
Qed.

(** The value a chain computes: a left fold (setters.pipe), hook by hook. *)
Definition hook_value (a : attribute) (h : hook) (v : val) : val :=
  match h with
  | HUser fn => VApp fn [v]
  | HConvert => converted a v
  | HValidate | HFrozen => v
  end.

Lemma converter_call_args_conv a fn ts tf an v :
  a_converter a = CConverter fn ts tf an ->
  converter_call_args ts tf (a_name a) v = conv_args (conv_call_of a) (a_name a) v.
Proof. intros E. unfold conv_call_of. rewrite E. destruct ts, tf; reflexivity. Qed.

Lemma hook_ref_value von a snap h v :
  h <> HFrozen -> snd (hook_ref von a snap h v) = Some (hook_value a h v).
Proof.
  intros Hn. destruct h as [fn| | |]; cbn; try reflexivity.
  - unfold converted, conv_call_of. destruct (a_converter a) as [|fn an|fn ts tf an]; cbn; try reflexivity.
    destruct ts, tf; reflexivity.
  - destruct (negb von); [reflexivity|]. destruct (a_validator a); reflexivity.
  - congruence.
Qed.

Lemma chain_ref_value von a snap : forall hs v,
  ~ In HFrozen hs -> snd (chain_ref von a snap hs v) = Some (fold_left (fun acc h => hook_value a h acc) hs v).
Proof.
  induction hs as [|h r IH]; intros v Hn; cbn [chain_ref fold_left]; [reflexivity|].
  assert (Hh : h <> HFrozen) by (intros ->; apply Hn; now left).
  pose proof (hook_ref_value von a snap h v Hh) as Hv.
  destruct (hook_ref von a snap h v) as [evs [w|]]; cbn in Hv; [|discriminate].
  inversion Hv; subst. cbn [snd]. apply IH. intros Hin. apply Hn. now right.
Qed.

Lemma chain_ref_frozen von a snap : forall hs v,
  In HFrozen hs -> snd (chain_ref von a snap hs v) = None.
Proof.
  induction hs as [|h r IH]; intros v Hin; [destruct Hin|]. cbn [chain_ref].
  destruct h as [fn| | |].
  - cbn. apply IH. destruct Hin as [H|H]; [discriminate | exact H].
  - destruct (hook_ref von a snap HConvert v) as [evs [w|]] eqn:E.
    + cbn [snd]. apply IH. destruct Hin as [H|H]; [discriminate | exact H].
    + reflexivity.
  - destruct (hook_ref von a snap HValidate v) as [evs [w|]] eqn:E.
    + cbn [snd]. apply IH. destruct Hin as [H|H]; [discriminate | exact H].
    + reflexivity.
  - reflexivity.
Qed.

(** ** One assignment, no faults *)

Lemma store_ok k n v s :
  storable k n ->
  exists i', store k n v no_fault s = ADone {| s_inst := i'; s_trace := s_trace s |} /\
    read k i' n = Ok v /\ (forall m, m <> n -> read k i' m = read k (s_inst s) m).
Proof.
  intros St. destruct (obj_setattr_ok k (s_inst s) n v St) as (i' & E & R1 & R2 & _).
  exists i'. unfold store. rewrite E. auto.
Qed.

Lemma store_not_storable k n v f s :
  is_slot k n = false -> k_has_dict k = false -> store k n v f s = AFail EAttributeError s.
Proof. intros H1 H2. unfold store, obj_setattr. now rewrite H1, H2. Qed.

(** A hooked field: the chain's result is stored, its callbacks are the trace, all
    other names are untouched. *)
Lemma setattr_stores_chain_l k tbl von n v a hs s evs w :
  sa_find n tbl = Some (a, hs) ->
  chain_ref von a (snapshot k (s_inst s)) hs v = (evs, Some w) ->
  storable k n ->
  exists i', setattr_op k (SaHooked tbl) von n v no_fault s =
               ADone {| s_inst := i'; s_trace := s_trace s ++ evs |} /\
    read k i' n = Ok w /\ (forall m, m <> n -> read k i' m = read k (s_inst s) m).
Proof.
  intros Hf Hc St. cbn [setattr_op]. rewrite Hf, run_chain_nofault, Hc.
  destruct (store_ok k n w (with_trace s evs) St) as (i' & E & R1 & R2).
  exists i'. rewrite E. cbn. auto.
Qed.

Lemma setattr_chain_frozen_l k tbl von n v a hs s evs :
  sa_find n tbl = Some (a, hs) ->
  chain_ref von a (snapshot k (s_inst s)) hs v = (evs, None) ->
  setattr_op k (SaHooked tbl) von n v no_fault s = AFail EFrozenAttribute (with_trace s evs).
Proof. intros Hf Hc. cbn [setattr_op]. now rewrite Hf, run_chain_nofault, Hc. Qed.

(** ** Plain stores *)

Lemma setattr_not_in_table k tbl von n v f s :
  sa_find n tbl = None -> setattr_op k (SaHooked tbl) von n v f s = store k n v f s.
Proof. intros H. cbn [setattr_op]. now rewrite H. Qed.

Section Table.
Variable o : cls_on_setattr.

Let F := fun a : attribute => if in_sa_attrs o a then [(a, effective_hooks o a)] else [].

Lemma sa_find_notin : forall (l : list attribute) n,
  ~ In n (map a_name l) -> sa_find n (flat_map F l) = None.
Proof.
  induction l as [|x r IH]; intros n Hn; [reflexivity|]. cbn [flat_map]. unfold F at 1.
  assert (Hx : String.eqb n (a_name x) = false).
  { apply String.eqb_neq. intros E. apply Hn. left. now rewrite E. }
  assert (Hr : sa_find n (flat_map F r) = None) by (apply IH; intros H; apply Hn; now right).
  destruct (in_sa_attrs o x); cbn; [rewrite Hx|]; exact Hr.
Qed.

Lemma sa_find_in : forall (l : list attribute) a,
  NoDup (map a_name l) -> In a l ->
  sa_find (a_name a) (flat_map F l) = if in_sa_attrs o a then Some (a, effective_hooks o a) else None.
Proof.
  induction l as [|x r IH]; intros a ND Hin; [destruct Hin|].
  cbn in ND. inversion ND as [|? ? Hnot ND']; subst. cbn [flat_map]. unfold F at 1.
  destruct Hin as [->|Hin].
  - destruct (in_sa_attrs o a) eqn:E; cbn.
    + now rewrite String.eqb_refl.
    + now apply sa_find_notin.
  - assert (Hx : String.eqb (a_name a) (a_name x) = false).
    { apply String.eqb_neq. intros E. apply Hnot. rewrite <- E. now apply in_map. }
    destruct (in_sa_attrs o x); cbn; [rewrite Hx|]; now apply IH.
Qed.
End Table.

Lemma sa_table_find k a :
  NoDup (map a_name (k_attrs k)) -> In a (k_attrs k) ->
  sa_find (a_name a) (sa_table k) =
  if in_sa_attrs (effective_cls_on_setattr k) a
  then Some (a, effective_hooks (effective_cls_on_setattr k) a) else None.
Proof. intros ND Hin. unfold sa_table. now apply sa_find_in. Qed.

Lemma sa_table_nonfield k n :
  ~ In n (map a_name (k_attrs k)) -> sa_find n (sa_table k) = None.
Proof. intros H. unfold sa_table. now apply sa_find_notin. Qed.

(** The effective chain of a field, spelled out: the field-level hook if given, NO_OP
    = none, else the class-level one of the class being defined (after the builder's
    reset), lists in the order given. *)
Lemma effective_chain_l k a :
  NoDup (map a_name (k_attrs k)) -> In a (k_attrs k) ->
  sa_find (a_name a) (sa_table k) =
  match a_on_setattr a with
  | OsPipe hs => Some (a, hs)
  | OsNoOp => None
  | OsNone => if has_cls_on_setattr (effective_cls_on_setattr k)
              then Some (a, cls_hooks (effective_cls_on_setattr k)) else None
  end.
Proof.
  intros ND Hin. rewrite (sa_table_find k a ND Hin). unfold in_sa_attrs, effective_hooks.
  destruct (a_on_setattr a); reflexivity.
Qed.

Lemma nonempty_sa_table k :
  nonempty (sa_table k) = existsb (in_sa_attrs (effective_cls_on_setattr k)) (k_attrs k).
Proof.
  unfold sa_table. induction (k_attrs k) as [|x r IH]; [reflexivity|]. cbn [flat_map existsb].
  destruct (in_sa_attrs (effective_cls_on_setattr k) x); [reflexivity | exact IH].
Qed.

Lemma setattr_nonfield_plain_l k von n v f s :
  ~ In n (map a_name (k_attrs k)) ->
  setattr_op k (SaHooked (sa_table k)) von n v f s = store k n v f s.
Proof. intros H. apply setattr_not_in_table. now apply sa_table_nonfield. Qed.

Lemma setattr_unhooked_plain_l k a von v f s :
  NoDup (map a_name (k_attrs k)) -> In a (k_attrs k) ->
  in_sa_attrs (effective_cls_on_setattr k) a = false ->
  setattr_op k (SaHooked (sa_table k)) von (a_name a) v f s = store k (a_name a) v f s.
Proof.
  intros ND Hin Hsa. apply setattr_not_in_table.
  rewrite (sa_table_find k a ND Hin). now rewrite Hsa.
Qed.
