(** * C06 — tie by translation: the on_setattr code regenerated from the CURRENT source text
    ([Gen/C06_setters.v], written by harness/translate_c06.py on every run) coincides, for EVERY
    input, with the functions of [C06/Model.v] the property theorems are stated about.  A source
    change that alters the logic of one of these functions makes a lemma below fail to compile: a
    proof-obligation failure of ./check C06. *)
From Coq Require Import List Bool String Arith.
Import ListNotations.
From Attrs Require Import Core.Attr Core.Init C06.Model C06.Proofs C06.TieBase Gen.C06_setters.
Open Scope string_scope.
Open Scope list_scope.

Definition cx_of (k : cls_spec) (von : bool) (ct : bool) : ctx :=
  {| cx_k := k; cx_von := von; cx_callable_truthy := ct |}.
Definition self : tv := TV VSelf.

Lemma tie_fully_translated : c06_fully_translated = true.
Proof. reflexivity. Qed.

(** ** setters.py *)

(** [setters.frozen] *)
Lemma tie_frozen : forall k von ct a v K,
  t_frozen (cx_of k von ct) self (TAttrib a) (TV v) K = run_hook k von a HFrozen v (fun w => K (TV w)).
Proof. reflexivity. Qed.

(** [setters.validate]: the global switch, "no validator", the call, the value returned. *)
Lemma tie_validate : forall k von ct a v K,
  t_validate (cx_of k von ct) self (TAttrib a) (TV v) K = run_hook k von a HValidate v (fun w => K (TV w)).
Proof.
  intros k von ct a v K. unfold t_validate. cbn.
  destruct von; cbn; try reflexivity; destruct (a_validator a); reflexivity.
Qed.

(** [setters.convert]: no converter / plain callable [c(v)] / Converter object [c(v, instance, attrib)]. *)
Lemma tie_convert : forall k von ct a v K,
  t_convert (cx_of k von ct) self (TAttrib a) (TV v) K = run_hook k von a HConvert v (fun w => K (TV w)).
Proof.
  intros k von ct a v K. unfold t_convert. cbn.
  destruct (a_converter a) as [|fn an|fn [] [] an]; reflexivity.
Qed.

(** the continuation of a hook only matters pointwise *)
Lemma run_hook_ext k von a h v (K1 K2 : val -> acomp) :
  (forall w, K1 w = K2 w) -> run_hook k von a h v K1 = run_hook k von a h v K2.
Proof.
  intros H. destruct h as [fn| | |]; cbn [run_hook].
  - now rewrite H.
  - destruct (a_converter a); now rewrite H.
  - destruct (negb von); [apply H|]. destruct (a_validator a); now rewrite H.
  - reflexivity.
Qed.

(** [setters.pipe]: the loop is the model's left-to-right chain, for chains of any length. *)
Lemma tie_pipe : forall k von ct a hs v K,
  t_pipe (cx_of k von ct) (map THook hs) self (TAttrib a) (TV v) K =
  run_chain k von a hs v (fun w => K (TV w)).
Proof.
  intros k von ct a hs. unfold t_pipe. induction hs as [|h r IH]; intros v K; cbn [map t_for run_chain].
  - reflexivity.
  - cbn [t_call to_val cx_of cx_k cx_von]. apply run_hook_ext. intros w. apply IH.
Qed.

(** ** [_ClassBuilder.add_setattr] *)

(** The generated [__setattr__]: table lookup with KeyError fallback, the hook's RETURN value is
    what [_OBJ_SETATTR] stores, and the store is the last thing that happens. *)
Lemma tie_setattr : forall k von ct tbl n v,
  t_setattr (cx_of k von ct) tbl self (TStr n) (TV v) t_done = setattr_op k (SaHooked tbl) von n v.
Proof.
  intros k von ct tbl n v. unfold t_setattr. cbn [t_lookup setattr_op].
  destruct (sa_find n tbl) as [[a hs]|]; reflexivity.
Qed.

(** One round of the loop that fills [sa_attrs]. *)
Definition table_step (o : cls_on_setattr) (x : tv) (d : list (string * tv)) : list (string * tv) :=
  match x with
  | TAttrib a => if in_sa_attrs o a then dict_set d (a_name a) (TEntry a (effective_hooks o a)) else d
  | _ => d
  end.

Lemma dict_get_set_same d n e : dict_get (dict_set d n e) n = Some e.
Proof.
  induction d as [|[k' w] r IH]; cbn.
  - now rewrite String.eqb_refl.
  - destruct (String.eqb n k') eqn:E; cbn; rewrite E; [reflexivity | exact IH].
Qed.

Lemma dict_get_set_other d n m e : n <> m -> dict_get (dict_set d m e) n = dict_get d n.
Proof.
  intros Hne. induction d as [|[k' w] r IH]; cbn.
  - destruct (String.eqb n m) eqn:E; [apply String.eqb_eq in E; contradiction | reflexivity].
  - destruct (String.eqb m k') eqn:E; cbn.
    + apply String.eqb_eq in E; subst k'.
      destruct (String.eqb n m) eqn:E2; [apply String.eqb_eq in E2; contradiction | reflexivity].
    + destruct (String.eqb n k'); [reflexivity | exact IH].
Qed.

Definition entry_tv (e : option sa_entry) : option tv :=
  match e with Some (a, hs) => Some (TEntry a hs) | None => None end.

Lemma table_fold o : forall (l : list attribute) d n,
  NoDup (map a_name l) ->
  dict_get (fold_left (fun st x => table_step o x st) (map TAttrib l) d) n =
  match sa_find n (flat_map (fun a => if in_sa_attrs o a then [(a, effective_hooks o a)] else []) l) with
  | Some (a, hs) => Some (TEntry a hs)
  | None => dict_get d n
  end.
Proof.
  induction l as [|x r IH]; intros d n ND; cbn [map fold_left flat_map]; [reflexivity|].
  cbn in ND. inversion ND as [|? ? Hnot ND']; subst. rewrite (IH _ n ND'). cbn [table_step].
  destruct (in_sa_attrs o x) eqn:Hs; cbn [app sa_find fst].
  - destruct (String.eqb n (a_name x)) eqn:E.
    + apply String.eqb_eq in E; subst n.
      rewrite (sa_find_notin o r (a_name x) Hnot). apply dict_get_set_same.
    + destruct (sa_find n _) as [[a hs]|]; [reflexivity|].
      apply dict_get_set_other. intros ->. now rewrite String.eqb_refl in E.
  - reflexivity.
Qed.

(** The loop body computes exactly [in_sa_attrs] / [effective_hooks]: field-level hook first
    ([a.on_setattr or self._on_setattr]), NO_OP truthy-but-excluded, the tuple stored under the
    field's name. *)
Lemma tie_sa_step : forall cx o a d,
  t_sa_step cx (TOn (osv_of_cls o)) (TAttrib a) d = table_step o (TAttrib a) d.
Proof.
  intros cx o a d. unfold t_sa_step, table_step, in_sa_attrs, effective_hooks. cbn.
  destruct (a_on_setattr a) as [| |hs]; destruct o as [| | |h|hs']; reflexivity.
Qed.

Lemma t_sa_attrs_fold cx o : forall (l : list attribute) d,
  fold_left (fun st x => t_sa_step cx (TOn (osv_of_cls o)) x st) (map TAttrib l) d =
  fold_left (fun st x => table_step o x st) (map TAttrib l) d.
Proof.
  induction l as [|a r IH]; intros d; cbn [map fold_left]; [reflexivity|].
  now rewrite tie_sa_step, IH.
Qed.

(** The whole table: what the regenerated loop leaves in the dict is the model's [sa_table],
    key by key, for any number of fields. *)
Lemma tie_sa_attrs : forall cx k n,
  NoDup (map a_name (k_attrs k)) ->
  dict_get (t_sa_attrs cx (map TAttrib (k_attrs k)) (TOn (osv_of_cls (effective_cls_on_setattr k)))) n =
  entry_tv (sa_find n (sa_table k)).
Proof.
  intros cx k n ND. unfold t_sa_attrs, t_fold.
  etransitivity; [|exact (table_fold (effective_cls_on_setattr k) (k_attrs k) [] n ND)].
  f_equal. apply t_sa_attrs_fold.
Qed.

(** ** [define.wrap] *)

(** Which on_setattr the class builder is handed: the default pipe for a mutable class without
    an explicit setting, NO_OP below a frozen base, ValueError ([None]) for explicit hooks there. *)
Lemma tie_define_wrap : forall cx arg fz bases,
  t_define_wrap cx (tv_of_cls arg) (TBool fz) bases =
  option_map tv_of_cls (define_wrap arg fz (existsb (fun b => b) bases)).
Proof.
  intros cx arg fz bases. unfold t_define_wrap, define_wrap.
  destruct (existsb (fun b => b) bases); destruct arg as [| | |h|hs], fz; reflexivity.
Qed.
