(** * C06 — define's default chain against construction; histories of assignments. *)
From Coq Require Import List Bool String Arith Lia.
Import ListNotations.
From Attrs Require Import Core.Attr Core.Init Core.InitProofs Core.Faults C06.Model C06.Proofs.
Open Scope string_scope.
Open Scope list_scope.

(** What a mutable class that writes no [__setattr__] in its body should resolve to
    when nothing is inherited. *)
Definition own_impl (k : cls_spec) : sa_impl :=
  match sa_table k with [] => SaObject | t => SaHooked t end.

(** ** define's default: convert, then validate *)

Definition default_events (k : cls_spec) (a : attribute) (x : val) (snap : list (string * option val))
  : list event :=
  conv_events (conv_call_of a) (a_name a) x ++
  match a_validator a with
  | Some vn => [EvValidator (a_name a) vn (converted a x) snap]
  | None => []
  end.

Lemma chain_ref_default a snap x :
  chain_ref true a snap [HConvert; HValidate] x =
  (conv_events (conv_call_of a) (a_name a) x ++
   match a_validator a with Some vn => [EvValidator (a_name a) vn (converted a x) snap] | None => [] end,
   Some (converted a x)).
Proof.
  cbn [chain_ref hook_ref negb]. unfold converted, conv_events, conv_call_of.
  destruct (a_converter a) as [|fn an|fn ts tf an]; cbn [fst snd app].
  - destruct (a_validator a); reflexivity.
  - destruct (a_validator a); reflexivity.
  - assert (E : converter_call_args ts tf (a_name a) x = conv_args (ConvCall fn ts tf) (a_name a) x)
      by (destruct ts, tf; reflexivity).
    rewrite E. destruct (a_validator a); reflexivity.
Qed.

(** The class-level part of the assignment: under define's default, a field without a
    field-level hook stores [converted a x] and calls exactly [converter; validator]. *)
Lemma define_default_assign_l k a x s :
  NoDup (map a_name (k_attrs k)) -> In a (k_attrs k) -> k_frozen k = false ->
  k_on_setattr k = COsDefault -> a_on_setattr a = OsNone -> storable k (a_name a) ->
  exists i',
    setattr_op k (own_impl k) true (a_name a) x no_fault s =
      ADone {| s_inst := i';
               s_trace := s_trace s ++ default_events k a x (snapshot k (s_inst s)) |} /\
    read k i' (a_name a) = Ok (converted a x) /\
    (forall m, m <> a_name a -> read k i' m = read k (s_inst s) m).
Proof.
  intros ND Hin Fz Hd Hos St.
  pose proof (effective_chain_l k a ND Hin) as Hf. rewrite Hos in Hf.
  unfold effective_cls_on_setattr in Hf. rewrite Fz, Hd in Hf.
  destruct (negb (any_validator (k_attrs k) || any_converter (k_attrs k))) eqn:Hany.
  - (* no field validates or converts: the hook was dropped, and this field has neither *)
    cbn in Hf. apply negb_true_iff in Hany. apply orb_false_iff in Hany as [Hv Hc].
    assert (Av : a_validator a = None).
    { destruct (a_validator a) eqn:E; [|reflexivity]. exfalso.
      assert (any_validator (k_attrs k) = true); [|congruence].
      apply existsb_exists. exists a. now rewrite E. }
    assert (Ac : a_converter a = CNone).
    { destruct (a_converter a) eqn:E; [reflexivity| |]; exfalso;
        (assert (any_converter (k_attrs k) = true); [|congruence]);
        apply existsb_exists; exists a; now rewrite E. }
    assert (Hop : setattr_op k (own_impl k) true (a_name a) x no_fault s = store k (a_name a) x no_fault s).
    { unfold own_impl. destruct (sa_table k) as [|e t] eqn:Et; [reflexivity|].
      apply setattr_not_in_table. exact Hf. }
    rewrite Hop. destruct (store_ok k (a_name a) x s St) as (i' & E & R1 & R2).
    exists i'. rewrite E. unfold default_events, converted, conv_events, conv_call_of.
    rewrite Ac, Av. cbn. rewrite app_nil_r. auto.
  - cbn in Hf.
    assert (Ht : own_impl k = SaHooked (sa_table k)).
    { unfold own_impl. destruct (sa_table k); [discriminate | reflexivity]. }
    rewrite Ht.
    destruct (setattr_stores_chain_l k (sa_table k) true (a_name a) x a [HConvert; HValidate] s
                _ _ Hf (chain_ref_default a (snapshot k (s_inst s)) x) St) as (i' & E & R1 & R2).
    exists i'. rewrite E. unfold default_events. auto.
Qed.

Lemma raw_value_arg a en x :
  a_init a = true -> lookup (alias_of a) en = Some x -> is_nothing x = false -> raw_value a en = x.
Proof.
  intros Hi Hl Hn. unfold raw_value, env_get. rewrite Hi, Hl.
  destruct (a_default a); try reflexivity. now rewrite Hn.
Qed.

Lemma field_events_arg a en x :
  a_init a = true -> lookup (alias_of a) en = Some x -> is_nothing x = false ->
  field_events a en = conv_events (conv_call_of a) (a_name a) x.
Proof.
  intros Hi Hl Hn. unfold field_events. rewrite (raw_value_arg a en x Hi Hl Hn).
  unfold factory_events, env_get. rewrite Hi, Hl, Hn. destruct (a_default a); reflexivity.
Qed.

(** THE metamorphic theorem: with define's default, [o.f = x] on any instance leaves the
    value that constructing with [f=x] stores ([spec_value] of Core), and the callbacks
    of the assignment are the field's part of the constructor's callbacks: the same
    converter call, then the same validator call on the same value. *)
Lemma define_assign_equals_init_l k sc pos kw en a x s :
  wf k -> make_init_script k = GenOk sc -> bind_call sc pos kw = Bound en ->
  In a (k_attrs k) -> k_frozen k = false -> k_on_setattr k = COsDefault ->
  a_on_setattr a = OsNone -> a_init a = true ->
  lookup (alias_of a) en = Some x -> is_nothing x = false ->
  exists i0 i',
    (* construction with f = x *)
    run_init k no_fault true pos kw = InitDone i0 (expected_trace k true en) /\
    read k i0 (a_name a) = Ok (converted a x) /\
    (* assignment of x on an arbitrary instance *)
    setattr_op k (own_impl k) true (a_name a) x no_fault s =
      ADone {| s_inst := i'; s_trace := s_trace s ++ default_events k a x (snapshot k (s_inst s)) |} /\
    read k i' (a_name a) = Ok (converted a x) /\
    (forall m, m <> a_name a -> read k i' m = read k (s_inst s) m) /\
    (* the same callbacks *)
    field_events a en = conv_events (conv_call_of a) (a_name a) x /\
    (forall vn, a_validator a = Some vn ->
       In (EvValidator (a_name a) vn (converted a x) (spec_snapshot k en))
          (validator_events k en (spec_snapshot k en) (filtered_attrs k))) /\
    map strip_snap (default_events k a x (snapshot k (s_inst s))) =
      map strip_snap (field_events a en) ++
      match a_validator a with Some vn => [EvValidator (a_name a) vn (converted a x) []] | None => [] end.
Proof.
  intros W G B Hin Fz Hd Hos Hi Hl Hn.
  destruct (run_init_nofault k sc true pos kw en W G B) as (i0 & Hrun & Hp & _).
  assert (Hpart : participates a = true) by (unfold participates; now rewrite Hi).
  assert (Hsv : spec_value a en = converted a x).
  { unfold spec_value. now rewrite (raw_value_arg a en x Hi Hl Hn). }
  destruct (define_default_assign_l k a x s (wf_names k W) Hin Fz Hd Hos (attr_name_storable k a W Hin))
    as (i' & E & R1 & R2).
  exists i0, i'. repeat split; auto.
  - rewrite <- Hsv. now apply Hp.
  - now apply field_events_arg.
  - intros vn Hv. unfold validator_events. apply in_flat_map. exists a. split.
    + apply in_filtered. auto.
    + rewrite Hv, Hsv. now left.
  - rewrite (field_events_arg a en x Hi Hl Hn). unfold default_events. rewrite map_app. f_equal.
    destruct (a_validator a); reflexivity.
Qed.

(** Faults on the construction side: cut at the first raising callback (Core/Faults). *)
Lemma run_init_under_faults_l k sc pos kw en f :
  wf k -> make_init_script k = GenOk sc -> bind_call sc pos kw = Bound en ->
  exists i,
    run_init k no_fault true pos kw = InitDone i (expected_trace k true en) /\
    run_init k f true pos kw =
    match first_fault f 0 (List.length (expected_trace k true en)) with
    | Some j => InitRaised (EUser j) (firstn (S j) (expected_trace k true en))
    | None => InitDone i (expected_trace k true en)
    end.
Proof.
  intros W G B. destruct (run_init_nofault k sc true pos kw en W G B) as (i & Hrun & _).
  exists i. split; [exact Hrun|].
  unfold run_init in *. rewrite G, B in *. rewrite exec_body_faults. cbn [s_trace List.length].
  destruct (exec_body k no_fault true en {| s_inst := empty_inst; s_trace := [] |} (body sc)) as [s1|e t] eqn:E;
    [|discriminate].
  inversion Hrun; subst. unfold cutoff. cbn [trace_of]. rewrite Nat.sub_0_r.
  destruct (first_fault f 0 (List.length (s_trace s1))); reflexivity.
Qed.

(** ... and on the assignment side, for define's default: the assignment raises iff the
    oracle fires at its converter or validator callback, and then with exactly that
    callback's exception, before anything is stored. *)
Lemma define_assign_faults_l k a x s f :
  NoDup (map a_name (k_attrs k)) -> In a (k_attrs k) -> k_frozen k = false ->
  k_on_setattr k = COsDefault -> a_on_setattr a = OsNone -> storable k (a_name a) ->
  let evs := default_events k a x (snapshot k (s_inst s)) in
  let lo := List.length (s_trace s) in
  match first_fault f lo (List.length evs) with
  | Some j => exists s', setattr_op k (own_impl k) true (a_name a) x f s = AFail (EUser j) s' /\
                         s_inst s' = s_inst s /\
                         s_trace s' = s_trace s ++ firstn (S j - lo) evs
  | None => setattr_op k (own_impl k) true (a_name a) x f s =
            setattr_op k (own_impl k) true (a_name a) x no_fault s
  end.
Proof.
  intros ND Hin Fz Hd Hos St evs lo.
  destruct (define_default_assign_l k a x s ND Hin Fz Hd Hos St) as (i' & E & _).
  pose proof (setattr_under_faults_l k (own_impl k) true (a_name a) x f s) as H.
  cbn zeta in H. rewrite E in H. cbn [to_outcome trace_of s_trace] in H.
  fold evs in H. fold lo in H. rewrite app_length in H.
  replace (List.length (s_trace s) + List.length evs - lo) with (List.length evs) in H by (unfold lo; lia).
  destruct (first_fault f lo (List.length evs)) as [j|] eqn:Ef.
  - destruct H as (s' & H1 & H2 & H3 & _). exists s'. repeat split; auto.
    rewrite H3. apply first_fault_bound in Ef as [Hb _].
    rewrite firstn_app. fold lo. rewrite firstn_all2 by (fold lo; lia). reflexivity.
  - rewrite H, E. reflexivity.
Qed.

(** ** Histories *)

Lemma step_nofault_inst k impl von s op :
  s_inst (snd (step k impl von no_fault s op)) = step_spec k impl von (s_inst s) op.
Proof.
  destruct op as [n v]. unfold step, step_spec. cbn [fst snd].
  destruct impl as [| |tbl|tg]; cbn [setattr_op target].
  - unfold store. destruct (obj_setattr k (s_inst s) n v) as [i|[]]; reflexivity.
  - reflexivity.
  - destruct (sa_find n tbl) as [[a hs]|].
    + rewrite run_chain_nofault.
      destruct (chain_ref von a (snapshot k (s_inst s)) hs v) as [evs [w|]]; cbn [snd]; [|reflexivity].
      unfold store. cbn [with_trace s_inst].
      destruct (obj_setattr k (s_inst s) n w) as [i|[]]; reflexivity.
    + unfold store. destruct (obj_setattr k (s_inst s) n v) as [i|[]]; reflexivity.
  - unfold acb, store. cbn.
    destruct (obj_setattr k (s_inst s) n v) as [i|[]]; reflexivity.
Qed.

(** Under ANY oracle a step either completes with the fault-free effect or leaves the
    instance alone. *)
Lemma step_faults_inst k impl von f s op :
  s_inst (snd (step k impl von f s op)) =
  match fst (step k impl von f s op) with
  | TOk => step_spec k impl von (s_inst s) op
  | _ => s_inst s
  end.
Proof.
  pose proof (step_nofault_inst k impl von s op) as Hn.
  unfold step in *. destruct op as [n v]. cbn [fst snd] in *.
  destruct (setattr_op k impl von n v f s) as [s1|e s1] eqn:E.
  - cbn [fst snd]. rewrite <- Hn.
    pose proof (setattr_under_faults_l k impl von n v f s) as H. cbn zeta in H.
    destruct (first_fault f _ _) as [j|].
    + destruct H as (s' & H1 & _). congruence.
    + rewrite <- H, E. reflexivity.
  - pose proof (keeps_setattr_op k impl von n v f s e s1 E) as Hk.
    destruct e; cbn [fst snd]; exact Hk.
Qed.

Fixpoint hist_ok (k : cls_spec) (impl : sa_impl) (von : bool) (i : inst)
  (ops : list (string * val)) (h : list (tag * st)) : Prop :=
  match ops, h with
  | [], [] => True
  | op :: r, (t, s') :: h' =>
      s_inst s' = (match t with TOk => step_spec k impl von i op | _ => i end) /\
      hist_ok k impl von (s_inst s') r h'
  | _, _ => False
  end.

(** Any sequence of assignments under any oracle: the instance evolves by the
    single-assignment specification, step by step; failed steps change nothing. *)
Lemma assign_histories_l k impl von f : forall ops s,
  hist_ok k impl von (s_inst s) ops (run_history k impl von f s ops).
Proof.
  induction ops as [|op r IH]; intros s; cbn [run_history hist_ok]; [exact I|].
  destruct (step k impl von f s op) as [t s'] eqn:E. cbn [snd]. split.
  - pose proof (step_faults_inst k impl von f s op) as H. rewrite E in H. exact H.
  - apply IH.
Qed.

Definition final_inst (i : inst) (h : list (tag * st)) : inst :=
  match rev h with [] => i | p :: _ => s_inst (snd p) end.

Lemma final_inst_cons i p h : final_inst i (p :: h) = final_inst (s_inst (snd p)) h.
Proof.
  unfold final_inst. cbn [rev]. destruct (rev h) as [|q r] eqn:E; reflexivity.
Qed.

Lemma assign_histories_nofault_l k impl von : forall ops s,
  final_inst (s_inst s) (run_history k impl von no_fault s ops) =
  fold_left (step_spec k impl von) ops (s_inst s).
Proof.
  induction ops as [|op r IH]; intros s; [reflexivity|].
  cbn [run_history fold_left]. rewrite final_inst_cons, IH. now rewrite step_nofault_inst.
Qed.
