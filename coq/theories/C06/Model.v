(** * C06 — on_setattr: the generated [__setattr__], the built-in setters, the
    resolution of the class's [__setattr__] along the bases, and the definition-time
    rejections.

    Mirrors, on top of the shared class model ([Core/Attr.v], [Core/Init.v]):
    - [attr/setters.py]: [pipe], [frozen], [validate], [convert];
    - [_ClassBuilder.add_setattr] (the [sa_attrs] table and the closure it returns);
    - [_ClassBuilder.__init__] (frozen classes get [_frozen_setattrs]; the
      "pretend like there's no on_setattr" reset is Core's [effective_cls_on_setattr]);
    - [_patch_original_class] / [_create_slots_class]: the [__setattr__] reset and the
      [__attrs_own_setattr__] flag;
    - [attrs.wrap] ([has_own_setattr], [if not frozen: add_setattr()]) and
      [define.wrap] (default hook, frozen-base scan).
    Definitions only. *)

From Coq Require Import List Bool String Arith.
Import ListNotations.
From Attrs Require Import Core.Attr Core.Init.
Open Scope string_scope.
Open Scope list_scope.

(** ** Results that keep the interpreter state also when raising *)

Inductive aout := ADone (s : st) | AFail (e : exc) (s : st).

Definition acomp := faults -> st -> aout.

Definition to_outcome (o : aout) : outcome :=
  match o with ADone s => Finished s | AFail e s => Raised e (s_trace s) end.

(** One user callback: the event is appended, then the oracle decides. *)
Definition acb (ev : st -> event) (K : acomp) : acomp :=
  fun f s =>
    let s' := {| s_inst := s_inst s; s_trace := s_trace s ++ [ev s] |} in
    if f (List.length (s_trace s)) then AFail (EUser (List.length (s_trace s))) s' else K f s'.

(** ** [attr/setters.py] *)

(** [Converter.__init__]: the four [__call__] lambdas. *)
Definition converter_call_args (ts tf : bool) (fld : string) (v : val) : list val :=
  match ts, tf with
  | false, false => [v]
  | true, false => [v; VSelf]
  | false, true => [v; VAttr fld]
  | true, true => [v; VSelf; VAttr fld]
  end.

(** One hook applied to [v]; [K] receives the hook's return value.  [k] is the class of
    the instance (only the validators' view of the instance needs it), [a] the
    [Attribute] object stored in the table next to the hook. *)
Definition run_hook (k : cls_spec) (von : bool) (a : attribute) (h : hook) (v : val)
  (K : val -> acomp) : acomp :=
  match h with
  | HUser fn =>                                   (* hook(self, a, val) *)
      acb (fun _ => EvHook (a_name a) (HUser fn) v) (K (VApp fn [v]))
  | HConvert =>                                   (* setters.convert *)
      match a_converter a with
      | CNone => K v
      | CPlain fn _ => acb (fun _ => EvConverter (a_name a) fn [v]) (K (VApp fn [v]))
      | CConverter fn ts tf _ =>
          let args := converter_call_args ts tf (a_name a) v in
          acb (fun _ => EvConverter (a_name a) fn args) (K (VApp fn args))
      end
  | HValidate =>                                  (* setters.validate *)
      if negb von then K v
      else match a_validator a with
           | None => K v
           | Some vn => acb (fun s => EvValidator (a_name a) vn v (snapshot k (s_inst s))) (K v)
           end
  | HFrozen => fun _ s => AFail EFrozenAttribute s (* setters.frozen *)
  end.

(** [setters.pipe]: left to right, each hook receives the previous one's result. *)
Fixpoint run_chain (k : cls_spec) (von : bool) (a : attribute) (hs : list hook) (v : val)
  (K : val -> acomp) : acomp :=
  match hs with
  | [] => K v
  | h :: r => run_hook k von a h v (fun w => run_chain k von a r w K)
  end.

(** ** The generated [__setattr__] *)

(** [sa_attrs]: name -> (Attribute, hook) for every field whose effective hook is
    truthy and not NO_OP.  The class-level hook is the builder's [_on_setattr], i.e.
    after the reset of [_ClassBuilder.__init__]. *)
Definition sa_entry := (attribute * list hook)%type.

Definition sa_table (k : cls_spec) : list sa_entry :=
  let o := effective_cls_on_setattr k in
  flat_map (fun a => if in_sa_attrs o a then [(a, effective_hooks o a)] else []) (k_attrs k).

Fixpoint sa_find (n : string) (t : list sa_entry) : option sa_entry :=
  match t with
  | [] => None
  | e :: r => if String.eqb n (a_name (fst e)) then Some e else sa_find n r
  end.

(** [_OBJ_SETATTR(self, name, nval)] as the last statement. *)
Definition store (k : cls_spec) (n : string) (v : val) : acomp :=
  fun _ s => match obj_setattr k (s_inst s) n v with
             | Ok i => ADone {| s_inst := i; s_trace := s_trace s |}
             | Raise e => AFail e s
             end.

(** What [type(obj).__setattr__] resolves to. *)
Inductive sa_impl :=
| SaObject                            (* object.__setattr__ *)
| SaFrozen                            (* _frozen_setattrs *)
| SaHooked (tbl : list sa_entry)      (* the closure written by add_setattr *)
| SaUser (tag : string).              (* a __setattr__ written in a class body: it reports
                                         the call and delegates to object.__setattr__ *)

Definition setattr_op (k : cls_spec) (impl : sa_impl) (von : bool) (n : string) (v : val) : acomp :=
  match impl with
  | SaObject => store k n v
  | SaFrozen => fun _ s => AFail EFrozenInstance s
  | SaHooked tbl =>
      match sa_find n tbl with
      | Some (a, hs) => run_chain k von a hs v (fun w => store k n w)    (* else: nval = hook(self, a, val) *)
      | None => store k n v                                               (* except KeyError: nval = val *)
      end
  | SaUser tag => acb (fun _ => EvHook n (HUser tag) v) (store k n v)
  end.

(** ** Histories of assignments on one instance *)

Inductive tag := TOk | TMarker (idx : nat) | TExc (e : exc).

Definition step (k : cls_spec) (impl : sa_impl) (von : bool) (f : faults) (s : st)
  (op : string * val) : tag * st :=
  match setattr_op k impl von (fst op) (snd op) f s with
  | ADone s' => (TOk, s')
  | AFail (EUser n) s' => (TMarker n, s')
  | AFail e s' => (TExc e, s')
  end.

Fixpoint run_history (k : cls_spec) (impl : sa_impl) (von : bool) (f : faults) (s : st)
  (ops : list (string * val)) : list (tag * st) :=
  match ops with
  | [] => []
  | op :: r => let p := step k impl von f s op in p :: run_history k impl von f (snd p) r
  end.

(** ** Class definitions along a (linear) chain of bases *)

Inductive api := ApiAttrs | ApiDefine.

Record acls := {
  c_api : api;
  c_attrs : list attribute;            (* the class's final field tuple *)
  c_slots : bool;
  c_frozen_arg : bool;                 (* frozen= as passed *)
  c_on_setattr : cls_on_setattr;       (* on_setattr= as passed (never COsDefault) *)
  c_auto_detect : bool;
  c_user_setattr : option string;      (* the class body defines __setattr__ *)
  c_mro_slots : list string;
  c_has_dict : bool
}.

Inductive cls := Plain | Attrs (c : acls).

(** What a finished class's own [__dict__] says about setattr. *)
Record cstate := {
  d_setattr : option sa_impl;          (* own __setattr__ entry *)
  d_own : option bool                  (* own __attrs_own_setattr__ entry *)
}.

(** Attribute lookup along the MRO (nearest class first; [object] last). *)
Fixpoint lookup_setattr (l : list cstate) : sa_impl :=
  match l with
  | [] => SaObject
  | d :: r => match d_setattr d with Some i => i | None => lookup_setattr r end
  end.

Fixpoint lookup_own (l : list cstate) : bool :=
  match l with
  | [] => false
  | d :: r => match d_own d with Some b => b | None => lookup_own r end
  end.

Definition is_sa_frozen (i : sa_impl) : bool := match i with SaFrozen => true | _ => false end.
Definition is_sa_hooked (i : sa_impl) : bool := match i with SaHooked _ => true | _ => false end.

(** The scan of the bases in [define.wrap]. *)
Definition base_frozen (rest : list cstate) : bool := is_sa_frozen (lookup_setattr rest).


Definition cos_is_none (o : cls_on_setattr) : bool := match o with COsNone => true | _ => false end.

(** [define.wrap]: [None] = ValueError. *)
Definition define_wrap (arg : cls_on_setattr) (frozen_arg bfrozen : bool) : option cls_on_setattr :=
  let had := has_cls_on_setattr arg in
  let o := if negb frozen_arg && cos_is_none arg then COsDefault else arg in
  if bfrozen then (if had then None else Some COsNoOp) else Some o.

Definition builder_on_setattr (c : acls) (rest : list cstate) : option cls_on_setattr :=
  match c_api c with
  | ApiAttrs => Some (c_on_setattr c)
  | ApiDefine => define_wrap (c_on_setattr c) (c_frozen_arg c) (base_frozen rest)
  end.

Definition spec_of (c : acls) (frozen : bool) (o : cls_on_setattr) : cls_spec :=
  {| k_attrs := c_attrs c; k_frozen := frozen; k_slots := c_slots c; k_cache_hash := false;
     k_is_exc := false; k_pre_init := false; k_pre_init_has_args := false; k_post_init := false;
     k_on_setattr := o; k_mro_slots := c_mro_slots c; k_has_dict := c_has_dict c |}.

(** [_has_frozen_base_class(cls)] reads [cls.__setattr__]: a [__setattr__] written in the
    class body hides the inherited one ([define.wrap] scans the bases instead). *)
Definition has_frozen_base_class (c : acls) (rest : list cstate) : bool :=
  match c_user_setattr c with Some _ => false | None => base_frozen rest end.

Definition is_frozen (c : acls) (rest : list cstate) : bool :=
  c_frozen_arg c || has_frozen_base_class c rest.

Definition has_custom_setattr (c : acls) : bool :=
  c_auto_detect c && match c_user_setattr c with Some _ => true | None => false end.

Definition nonempty {A} (l : list A) : bool := match l with [] => false | _ => true end.

Definition immediate_base_own (rest : list cstate) : bool :=
  match rest with
  | d :: _ => match d_own d with Some true => true | _ => false end
  | [] => false
  end.

Definition user_impl (c : acls) : option sa_impl :=
  match c_user_setattr c with Some t => Some (SaUser t) | None => None end.

(** [build_class]: [_create_slots_class] / [_patch_original_class] given what the builder
    put into the class dict ([sa1], [own1]) and whether it wrote a [__setattr__]. *)
Definition finish_class (c : acls) (rest : list cstate) (sa1 : option sa_impl) (own1 : option bool)
  (wrote : bool) : cstate :=
  let custom := has_custom_setattr c in
  if c_slots c then                               (* _create_slots_class *)
    if wrote then {| d_setattr := sa1; d_own := own1 |}
    else {| d_setattr := if negb custom && immediate_base_own rest then Some SaObject else sa1;
            d_own := Some false |}
  else                                            (* _patch_original_class *)
    if negb wrote && lookup_own rest
    then {| d_setattr := if negb custom then Some SaObject else sa1; d_own := Some false |}
    else {| d_setattr := sa1; d_own := own1 |}.

(** [attrs.wrap] + [_ClassBuilder] for one class whose bases are finished.
    [None] = the definition raises ValueError. *)
Definition build_attrs (c : acls) (rest : list cstate) : option cstate :=
  match builder_on_setattr c rest with
  | None => None                                             (* define: frozen-ness was inherited *)
  | Some o =>
      let fz := is_frozen c rest in
      let custom := has_custom_setattr c in
      if custom && fz then None                              (* Can't freeze a class with a custom __setattr__ *)
      else
        let k := spec_of c fz o in
        (* _ClassBuilder.__init__ *)
        let sa0 := if fz then Some SaFrozen else user_impl c in
        (* if not frozen: builder.add_setattr() *)
        let tbl := sa_table k in
        let adds := negb (c_frozen_arg c) && nonempty tbl in
        if adds && custom then None                          (* Can't combine custom __setattr__ with hooks *)
        else
          let sa1 := if adds then Some (SaHooked tbl) else sa0 in
          let own1 := if adds then Some true else None in
          (* add_init / add_attrs_init -> _make_init_script *)
          match make_init_script k with
          | GenValueError => None                            (* Frozen classes can't use on_setattr *)
          | GenOk _ => Some (finish_class c rest sa1 own1 (fz || adds))
          end
  end.

Definition build_cls (x : cls) (rest : list cstate) : option cstate :=
  match x with
  | Plain => Some {| d_setattr := None; d_own := None |}
  | Attrs c => build_attrs c rest
  end.

(** The whole chain, nearest class first: the bases are built first. *)
Fixpoint build_chain (l : list cls) : option (list cstate) :=
  match l with
  | [] => Some []
  | x :: r =>
      match build_chain r with
      | None => None
      | Some rest => match build_cls x rest with
                     | Some d => Some (d :: rest)
                     | None => None
                     end
      end
  end.

(** The class spec the builder of [c] worked with (used for instances of [c]). *)
Definition built_spec (c : acls) (rest : list cstate) : option cls_spec :=
  match builder_on_setattr c rest with
  | None => None
  | Some o => Some (spec_of c (is_frozen c rest) o)
  end.

(** ** The property-level reference: what the class's [__setattr__] should be *)

(** The table of the class being defined if it hooks anything; otherwise nothing
    attrs-made is inherited: an inherited generated [__setattr__] is reset to
    object's, anything else is inherited as usual. *)
Definition expected_impl (k : cls_spec) (rest : list cstate) : sa_impl :=
  if k_frozen k then SaFrozen
  else match sa_table k with
       | [] => if is_sa_hooked (lookup_setattr rest) then SaObject else lookup_setattr rest
       | t => SaHooked t
       end.

(** The gap of [_create_slots_class] ("slotted confused"): only the immediate bases'
    own dicts are scanned. *)
Definition slotted_confused (c : acls) (rest : list cstate) : bool :=
  c_slots c && is_sa_hooked (lookup_setattr rest) && negb (immediate_base_own rest).

(** ** Pure reference semantics of a hook chain (no faults) *)

Definition hook_ref (von : bool) (a : attribute) (snap : list (string * option val)) (h : hook) (v : val)
  : list event * option val :=
  match h with
  | HUser fn => ([EvHook (a_name a) (HUser fn) v], Some (VApp fn [v]))
  | HConvert =>
      match a_converter a with
      | CNone => ([], Some v)
      | CPlain fn _ => ([EvConverter (a_name a) fn [v]], Some (VApp fn [v]))
      | CConverter fn ts tf _ =>
          let args := converter_call_args ts tf (a_name a) v in
          ([EvConverter (a_name a) fn args], Some (VApp fn args))
      end
  | HValidate =>
      if negb von then ([], Some v)
      else match a_validator a with
           | None => ([], Some v)
           | Some vn => ([EvValidator (a_name a) vn v snap], Some v)
           end
  | HFrozen => ([], None)
  end.

Fixpoint chain_ref (von : bool) (a : attribute) (snap : list (string * option val)) (hs : list hook) (v : val)
  : list event * option val :=
  match hs with
  | [] => ([], Some v)
  | h :: r =>
      match hook_ref von a snap h v with
      | (evs, Some w) => let p := chain_ref von a snap r w in (evs ++ fst p, snd p)
      | (evs, None) => (evs, None)
      end
  end.

(** Validator events up to the instance view they were given. *)
Definition strip_snap (e : event) : event :=
  match e with EvValidator f v x _ => EvValidator f v x [] | e => e end.

(** Which chain an assignment to [n] runs. *)
Definition target (impl : sa_impl) (n : string) : option sa_entry :=
  match impl with SaHooked tbl => sa_find n tbl | _ => None end.

(** The instance after one fault-free assignment (unchanged when it raises). *)
Definition step_spec (k : cls_spec) (impl : sa_impl) (von : bool) (i : inst) (op : string * val) : inst :=
  match impl with
  | SaFrozen => i
  | _ =>
      let w := match target impl (fst op) with
               | Some (a, hs) => snd (chain_ref von a (snapshot k i) hs (snd op))
               | None => Some (snd op)
               end in
      match w with
      | None => i
      | Some w => match obj_setattr k i (fst op) w with Ok i' => i' | Raise _ => i end
      end
  end.
