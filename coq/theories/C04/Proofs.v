(** * C04 — proofs.

    Part A: the decision table.  [spec_kind] is the property's decision list
    (DESIGN §7 (v)) written independently of [Model.decide]; [decide = spec_kind] is
    proved over the whole (finite) configuration space by computational reflection:
    both functions only depend on the resolved arguments, and the resolved space
    (884 736 points) is enumerated by the kernel.

    Part B: hash value / cache protocol, for arbitrary field lists, values, key
    functions and hash oracles. *)
From Coq Require Import List Bool ZArith Arith Lia.
Import ListNotations.
From Attrs Require Import Base C04.Model C04.Corr.
From Attrs Require Gen.C04_consts.

(** ** A.0 constants of the three front ends *)
Lemma consts_attrs :
  Gen.C04_consts.src_attrs =
  [Some (dflt_auto_detect ApiS); Some (dflt_auto_exc ApiS); Some (dflt_slots ApiS);
   Some (dflt_frozen ApiS); Some false (* cache_hash *); None (* eq *); None (* hash *);
   None (* unsafe_hash *); None (* init *); None (* cmp *)].
Proof. reflexivity. Qed.

Lemma consts_define :
  Gen.C04_consts.src_define =
  [Some (dflt_auto_detect ApiD); Some (dflt_auto_exc ApiD); Some (dflt_slots ApiD);
   Some (dflt_frozen ApiD); Some false; None; None; None; None].
Proof. reflexivity. Qed.

(** [attrs.frozen] is [partial(define, frozen=True, ...)]: only [frozen] differs. *)
Lemma consts_frozen :
  Gen.C04_consts.src_frozen_partial_of_define = true /\
  Gen.C04_consts.src_frozen_overrides =
    [None; None; None; Some (Some (dflt_frozen ApiF)); None; None; None; None; None] /\
  dflt_auto_detect ApiF = dflt_auto_detect ApiD /\ dflt_auto_exc ApiF = dflt_auto_exc ApiD /\
  dflt_slots ApiF = dflt_slots ApiD.
Proof. repeat split; reflexivity. Qed.

(** ** A.1 the property's decision list *)

(** the [eq=] / [cmp=] request *)
Definition eq_requested (c : cfg) : option bool :=
  match c_cmp c with Some v => Some v | None => c_eq c end.

(** "eq is on": requested, or unset and no own [__eq__]/[__ne__] auto-detected *)
Definition eq_on (c : cfg) : bool :=
  match eq_requested c with
  | Some v => v
  | None => negb (auto_detect c && (c_oeq c || c_one c))
  end.

(** "an auto_exc exception class" *)
Definition exc_class (c : cfg) : bool := auto_exc c && b_exc (c_base c).

(** "its own __hash__ was auto-detected" (only asked when unsafe_hash/hash is unset);
    a class body with [__eq__] and no [__hash__] owns [__hash__ = None]. *)
Definition own_hash_detected (c : cfg) : bool := auto_detect c && (c_ohash c || c_oeq c).

(** "frozen — also by inheritance" *)
Definition frozen_incl (c : cfg) : bool := frozen_arg c || b_frozen (c_base c).

Definition init_on (c : cfg) : bool :=
  match c_init c with Some v => v | None => negb (auto_detect c && c_oinit c) end.

(** The decision list.  [HF] with eq on is the excluded legacy row; it gets its
    documented outcome (nothing is written). *)
Definition table (c : cfg) : kind :=
  if exc_class c then Untouched else
  match eff_hash c with
  | HT => Generated
  | HF => Untouched
  | HN => if own_hash_detected c || negb (eq_on c) then Untouched
          else if frozen_incl c then Generated else Unhashable
  | HX => Err ETypeError
  end.

(** [cache_hash=True] is only accepted together with a generated hash and a
    generated [__init__]. *)
Definition spec_kind (c : cfg) : kind :=
  if c_cache c then
    match table c with
    | Generated => if init_on c then Generated else Err ETypeError
    | _ => Err ETypeError
    end
  else table c.

(** Well-formed arguments: [cmp] not mixed with [eq], the effective hash argument is
    None/True/False. *)
Definition validb (c : cfg) : bool :=
  negb (match c_cmp c, c_eq c with Some _, Some _ => true | _, _ => false end)
  && negb (harg_eqb (eff_hash c) HX).

Definition legacy_row (c : cfg) : bool := harg_eqb (eff_hash c) HF && eq_on c.

(** ** A.2 reflection machinery: finite quantifiers as booleans *)
Definition fa_bool (P : bool -> bool) : bool := P true && P false.
Definition fa_ob (P : option bool -> bool) : bool := P None && P (Some true) && P (Some false).
Definition fa_harg (P : harg -> bool) : bool := P HN && P HT && P HF && P HX.

Lemma fa_bool_spec P : fa_bool P = true -> forall x, P x = true.
Proof. unfold fa_bool. intros H x. apply andb_true_iff in H as [H1 H2]. destruct x; assumption. Qed.
Lemma fa_ob_spec P : fa_ob P = true -> forall x, P x = true.
Proof.
  unfold fa_ob. intros H x. apply andb_true_iff in H as [H H3]. apply andb_true_iff in H as [H1 H2].
  destruct x as [[|]|]; assumption.
Qed.
Lemma fa_harg_spec P : fa_harg P = true -> forall x, P x = true.
Proof.
  unfold fa_harg. intros H x. apply andb_true_iff in H as [H H4]. apply andb_true_iff in H as [H H3].
  apply andb_true_iff in H as [H1 H2]. destruct x; assumption.
Qed.

Definition kind_eqb (a b : kind) : bool :=
  match a, b with
  | Generated, Generated | Unhashable, Unhashable | Untouched, Untouched => true
  | Err e, Err e' => err_eqb e e'
  | _, _ => false
  end.
Lemma kind_eqb_eq a b : kind_eqb a b = true -> a = b.
Proof. destruct a as [| | |[|]], b as [| | |[|]]; cbn; congruence. Qed.

(** The canonical configuration with given RESOLVED arguments.  Every function of
    Part A factors through it ([canon_of]). *)
Definition canon (ad ax sl fz : bool) (cmp eq : option bool) (h u : harg)
           (oh oe on ca : bool) (ini : option bool) (oi bf bx : bool) : cfg :=
  Cf ApiS (Some ad) (Some ax) (Some sl) cmp eq h u (Some fz) oh oe on ca ini oi
     (B bf bx BHObj false).

Definition canon_of (c : cfg) : cfg :=
  canon (auto_detect c) (auto_exc c) (slots c) (frozen_arg c) (c_cmp c) (c_eq c) (c_hash c)
        (c_unsafe c) (c_ohash c) (c_oeq c) (c_one c) (c_cache c) (c_init c) (c_oinit c)
        (b_frozen (c_base c)) (b_exc (c_base c)).

Lemma decide_canon c : decide c = decide (canon_of c).
Proof. destruct c as [? ? ? ? ? ? ? ? ? ? ? ? ? ? ? [? ? ? ?]]. reflexivity. Qed.
Lemma spec_canon c : spec_kind c = spec_kind (canon_of c).
Proof. destruct c as [? ? ? ? ? ? ? ? ? ? ? ? ? ? ? [? ? ? ?]]. reflexivity. Qed.
Lemma valid_canon c : validb c = validb (canon_of c).
Proof. destruct c as [? ? ? ? ? ? ? ? ? ? ? ? ? ? ? [? ? ? ?]]. reflexivity. Qed.

(** [forall resolved arguments, P (canon ...)] as one boolean. *)
Definition fa_canon (P : cfg -> bool) : bool :=
  fa_bool (fun ad => fa_bool (fun ax => fa_bool (fun sl => fa_bool (fun fz =>
  fa_ob (fun cmp => fa_ob (fun eq => fa_harg (fun h => fa_harg (fun u =>
  fa_bool (fun oh => fa_bool (fun oe => fa_bool (fun on => fa_bool (fun ca =>
  fa_ob (fun ini => fa_bool (fun oi => fa_bool (fun bf => fa_bool (fun bx =>
    P (canon ad ax sl fz cmp eq h u oh oe on ca ini oi bf bx))))))))))))))))).

Lemma fa_canon_spec P : fa_canon P = true -> forall c, P (canon_of c) = true.
Proof.
  unfold fa_canon, canon_of. intros H c.
  pose proof (fa_bool_spec _ H (auto_detect c)) as H1; cbv beta in H1; clear H.
  pose proof (fa_bool_spec _ H1 (auto_exc c)) as H; cbv beta in H; clear H1.
  pose proof (fa_bool_spec _ H (slots c)) as H1; cbv beta in H1; clear H.
  pose proof (fa_bool_spec _ H1 (frozen_arg c)) as H; cbv beta in H; clear H1.
  pose proof (fa_ob_spec _ H (c_cmp c)) as H1; cbv beta in H1; clear H.
  pose proof (fa_ob_spec _ H1 (c_eq c)) as H; cbv beta in H; clear H1.
  pose proof (fa_harg_spec _ H (c_hash c)) as H1; cbv beta in H1; clear H.
  pose proof (fa_harg_spec _ H1 (c_unsafe c)) as H; cbv beta in H; clear H1.
  pose proof (fa_bool_spec _ H (c_ohash c)) as H1; cbv beta in H1; clear H.
  pose proof (fa_bool_spec _ H1 (c_oeq c)) as H; cbv beta in H; clear H1.
  pose proof (fa_bool_spec _ H (c_one c)) as H1; cbv beta in H1; clear H.
  pose proof (fa_bool_spec _ H1 (c_cache c)) as H; cbv beta in H; clear H1.
  pose proof (fa_ob_spec _ H (c_init c)) as H1; cbv beta in H1; clear H.
  pose proof (fa_bool_spec _ H1 (c_oinit c)) as H; cbv beta in H; clear H1.
  pose proof (fa_bool_spec _ H (b_frozen (c_base c))) as H1; cbv beta in H1; clear H.
  pose proof (fa_bool_spec _ H1 (b_exc (c_base c))) as H; cbv beta in H; clear H1.
  exact H.
Qed.

(** ** A.3 the table theorem *)
Definition table_ok (c : cfg) : bool := implb (validb c) (kind_eqb (decide c) (spec_kind c)).

Lemma table_ok_all : fa_canon table_ok = true.
Proof. vm_compute. reflexivity. Qed.

Theorem hash_decision_table_l : forall c, validb c = true -> decide c = spec_kind c.
Proof.
  intros c Hv. pose proof (fa_canon_spec _ table_ok_all c) as H. unfold table_ok in H.
  rewrite <- valid_canon, Hv in H. cbn in H. apply kind_eqb_eq in H.
  now rewrite decide_canon, spec_canon.
Qed.

(** Malformed arguments are rejected (the rest of the space). *)
Lemma malformed_rejected_l : forall c, validb c = false ->
  exists e, decide c = Err e.
Proof.
  intros c Hv.
  assert (H : implb (negb (validb (canon_of c)))
                (match decide (canon_of c) with Err _ => true | _ => false end) = true).
  { apply (fa_canon_spec (fun c => implb (negb (validb c)) (match decide c with Err _ => true | _ => false end))).
    vm_compute. reflexivity. }
  rewrite <- valid_canon, Hv, <- decide_canon in H. cbn in H.
  destruct (decide c) as [| | |e]; try discriminate. now exists e.
Qed.

(** ** A.4 the three "iff" sentences (no cache_hash: the class is accepted) *)
Lemma valid_eff_not_HX c : validb c = true -> eff_hash c <> HX.
Proof.
  unfold validb. intros H E. apply andb_true_iff in H as [_ H2]. rewrite E in H2. discriminate.
Qed.

Lemma decide_table c : validb c = true -> c_cache c = false -> decide c = table c.
Proof. intros Hv Hc. rewrite (hash_decision_table_l c Hv). unfold spec_kind. now rewrite Hc. Qed.

Theorem generated_iff_l : forall c, validb c = true -> c_cache c = false ->
  (decide c = Generated <->
   exc_class c = false /\
   (eff_hash c = HT \/
    (eff_hash c = HN /\ own_hash_detected c = false /\ eq_on c = true /\ frozen_incl c = true))).
Proof.
  intros c Hv Hc. rewrite (decide_table c Hv Hc). pose proof (valid_eff_not_HX c Hv) as HX'.
  unfold table.
  destruct (exc_class c), (eff_hash c), (own_hash_detected c), (eq_on c), (frozen_incl c); cbn;
    split; intros H; try discriminate; try congruence;
    repeat match goal with
           | H : _ /\ _ |- _ => destruct H
           | H : _ \/ _ |- _ => destruct H
           end; try discriminate; try congruence; auto 6.
Qed.

Theorem unhashable_iff_l : forall c, validb c = true -> c_cache c = false ->
  (decide c = Unhashable <->
   eff_hash c = HN /\ eq_on c = true /\ frozen_incl c = false /\
   exc_class c = false /\ own_hash_detected c = false).
Proof.
  intros c Hv Hc. rewrite (decide_table c Hv Hc). pose proof (valid_eff_not_HX c Hv) as HX'.
  unfold table.
  destruct (exc_class c), (eff_hash c), (own_hash_detected c), (eq_on c), (frozen_incl c); cbn;
    split; intros H; try discriminate; try congruence;
    repeat match goal with H : _ /\ _ |- _ => destruct H end; try discriminate; auto 6.
Qed.

(** Outside the legacy row. *)
Theorem untouched_iff_l : forall c, validb c = true -> c_cache c = false -> legacy_row c = false ->
  (decide c = Untouched <->
   exc_class c = true \/
   (eff_hash c <> HT /\ (eq_on c = false \/ own_hash_detected c = true))).
Proof.
  intros c Hv Hc Hl. rewrite (decide_table c Hv Hc). pose proof (valid_eff_not_HX c Hv) as HX'.
  unfold table. unfold legacy_row in Hl.
  destruct (exc_class c), (eff_hash c), (own_hash_detected c), (eq_on c), (frozen_incl c); cbn in *;
    split; intros H; try discriminate; try congruence; auto;
    repeat match goal with
           | H : _ /\ _ |- _ => destruct H
           | H : _ \/ _ |- _ => destruct H
           end; try discriminate; try congruence;
    try (right; split; [discriminate | auto]).
Qed.

(** The legacy row itself: nothing is written. *)
Theorem legacy_row_untouched_l : forall c, validb c = true -> c_cache c = false ->
  legacy_row c = true -> decide c = Untouched.
Proof.
  intros c Hv Hc Hl. rewrite (decide_table c Hv Hc). unfold table, legacy_row in *.
  destruct (exc_class c), (eff_hash c); cbn in *; try discriminate; reflexivity.
Qed.

(** The first sentence in its plain form: no exception class, no own [__hash__]. *)
Theorem generated_iff_plain_l : forall c, validb c = true -> c_cache c = false ->
  exc_class c = false -> own_hash_detected c = false ->
  (decide c = Generated <->
   eff_hash c = HT \/ (eff_hash c = HN /\ eq_on c = true /\ frozen_incl c = true)).
Proof.
  intros c Hv Hc He Ho. rewrite (generated_iff_l c Hv Hc). rewrite He, Ho. tauto.
Qed.

(** [cache_hash=True]: accepted iff the table generates a hash and [__init__] is generated. *)
Theorem cache_hash_accepted_iff_l : forall c, validb c = true -> c_cache c = true ->
  (decide c = Generated <-> table c = Generated /\ init_on c = true) /\
  (decide c <> Generated -> decide c = Err ETypeError).
Proof.
  intros c Hv Hc. rewrite (hash_decision_table_l c Hv). unfold spec_kind. rewrite Hc.
  destruct (table c) as [| | |e], (init_on c); split; try tauto; try (split; intros; try discriminate; tauto);
    try (split; [discriminate | intros [? ?]; discriminate]).
  all: try (intros _; reflexivity).
Qed.

(** ** A.5 what "untouched" leaves in the class dict *)

(** A class that had no [__hash__] entry gets [__hash__ = None] from an untouched
    build only in the legacy row (slotted build, generated [__eq__]). *)
Definition implicit_none_ok (c : cfg) : bool :=
  implb (validb c && kind_eqb (decide c) Untouched
         && entry_eqb (entry_before c) EAbsent && entry_eqb (final_entry c) ENone)
        (legacy_row c && slots c).

Theorem implicit_none_only_legacy_l : forall c, validb c = true -> decide c = Untouched ->
  entry_before c = EAbsent -> final_entry c = ENone -> legacy_row c = true /\ slots c = true.
Proof.
  intros c Hv Hd Hb Hf.
  assert (H : implicit_none_ok (canon_of c) = true).
  { apply fa_canon_spec. vm_compute. reflexivity. }
  unfold implicit_none_ok in H.
  replace (validb (canon_of c)) with true in H by (now rewrite <- valid_canon).
  replace (decide (canon_of c)) with Untouched in H by (now rewrite <- decide_canon).
  replace (entry_before (canon_of c)) with EAbsent in H
    by (rewrite <- Hb; destruct c as [? ? ? ? ? ? ? ? ? ? ? ? ? ? ? [? ? ? ?]]; reflexivity).
  replace (final_entry (canon_of c)) with ENone in H
    by (rewrite <- Hf; destruct c as [? ? ? ? ? ? ? ? ? ? ? ? ? ? ? [? ? ? ?]]; reflexivity).
  cbn in H. apply andb_true_iff in H.
  replace (legacy_row (canon_of c)) with (legacy_row c) in H
    by (destruct c as [? ? ? ? ? ? ? ? ? ? ? ? ? ? ? [? ? ? ?]]; reflexivity).
  replace (slots (canon_of c)) with (slots c) in H
    by (destruct c as [? ? ? ? ? ? ? ? ? ? ? ? ? ? ? [? ? ? ?]]; reflexivity).
  exact H.
Qed.

(** Outside the legacy row an untouched class keeps exactly the entry it had. *)
Theorem untouched_keeps_entry_l : forall c, validb c = true -> decide c = Untouched ->
  legacy_row c = false -> final_entry c = entry_before c.
Proof.
  intros c Hv Hd Hl. unfold final_entry. rewrite Hd.
  destruct (entry_before c) eqn:Eb; try reflexivity.
  destruct (slots c && eq_added c) eqn:Es; [|reflexivity].
  exfalso.
  assert (Hf : final_entry c = ENone) by (unfold final_entry; now rewrite Hd, Eb, Es).
  destruct (implicit_none_only_legacy_l c Hv Hd Eb Hf) as [Hl' _]. congruence.
Qed.

(** ** A.6 hashing an instance of a hashable class *)

(** K1: nothing own, the caching [__hash__] of the base is inherited, and the
    class's own generated [__init__] (which never calls the base's) built the instance. *)
Definition inherited_cache_uninitialised (c : cfg) : bool :=
  entry_eqb (final_entry c) EAbsent
  && (match b_hash (c_base c) with BHCache => true | _ => false end)
  && init_generated c.

Theorem hash_total_A_l : forall c,
  resolved_hashable c (final_entry c) = true ->
  constructible c = true ->
  inherited_cache_uninitialised c = false ->
  probe_of c = PReturns.
Proof.
  intros c Hh Hc Hk1. unfold probe_of. rewrite Hc. cbn.
  unfold inherited_cache_uninitialised in Hk1. unfold resolved_hashable in Hh.
  destruct (final_entry c); cbn in *; try discriminate.
  - reflexivity.
  - reflexivity.
  - destruct (b_hash (c_base c)); cbn in *; try discriminate; try reflexivity.
    now rewrite Hk1.
Qed.

(** The unguarded statement is false of the faithful model (and of the code). *)
Definition k1_witness : cfg :=
  Cf ApiS None None None None (Some false) HN HN None false false false false None false
     (B true false BHCache false).   (* @attr.s(eq=False) below @attr.s(frozen=True, cache_hash=True) *)

Theorem hash_total_refuted_K1_l :
  exists c, validb c = true /\ decide c = Untouched /\ table c = Untouched /\
            resolved_hashable c (final_entry c) = true /\ constructible c = true /\
            probe_of c = PAttributeError.
Proof. exists k1_witness. vm_compute. repeat split; reflexivity. Qed.

(** Non-vacuity of the table rows. *)
Example row_generated : decide (Cf ApiD None None None None None HN HN (Some true) false false false
                                  false None false (B false false BHObj false)) = Generated.
Proof. reflexivity. Qed.
Example row_unhashable : decide (Cf ApiD None None None None None HN HN None false false false
                                   false None false (B false false BHObj false)) = Unhashable.
Proof. reflexivity. Qed.
Example row_untouched_exc : decide (Cf ApiD None None None None None HN HT None false false false
                                      false None false (B false true BHObj false)) = Untouched.
Proof. reflexivity. Qed.
Example row_frozen_by_base : decide (Cf ApiS None None None None None HN HN None false false false
                                       false None false (B true false BHGen false)) = Generated.
Proof. reflexivity. Qed.
Example row_own_eq_detected : final_entry (Cf ApiD None None None None None HN HN None false true false
                                       false None false (B false false BHObj false)) = ENone.
Proof. reflexivity. Qed.

(** ** B.0 the key-presence tests of [Attribute.__init__], [_make_eq_script], [_make_hash_script] *)

(** Consistent tests: [__eq__] and [__hash__] apply a key to exactly the same fields. *)
Lemma keys_agree_l : forall ts, tests_consistent ts = true -> forall f, f_key_eq ts f = f_key ts f.
Proof.
  intros [[| |] [| |] [| |]] Hc; cbn in Hc; try discriminate;
    intros [h [| |[| | |]]]; reflexivity.
Qed.

(** Inconsistent tests (the attribute keeps a falsy key, [__eq__] applies it, [__hash__]
    tests truthiness): equal instances with different hashes. *)
Definition seed_tests : ktests := KT KIsNotNone KIsNotNone KTruthy.
Lemma inconsistent_tests_break_contract_l :
  tests_consistent seed_tests = false /\
  let fs := [F None (EqK K0f)] in
  eq_fields nat fkey seed_tests Nat.eqb fs [0] [2] = true /\
  hash_elems nat fkey seed_tests fs [0] <> hash_elems nat fkey seed_tests fs [2].
Proof. cbn. repeat split; try reflexivity. discriminate. Qed.

(** The tests found in the source of this run are consistent (regenerated on every run). *)
Lemma source_key_tests_consistent_l :
  match Gen.C04_consts.src_key_tests_read with
  | Some ts => tests_consistent ts = true
  | None => True   (* a site has a shape the reader does not recognise: nothing is claimed *)
  end.
Proof. vm_compute. first [reflexivity | exact I]. Qed.

(** ... and they honour every given key, falsy or not (fix cb57cf9). *)
Lemma honoured_keys_applied_l : forall ts, keys_honoured ts = true ->
  forall f, f_key ts f = f_key_given f /\ f_key_eq ts f = f_key_given f /\ attr_key ts f = f_key_given f.
Proof.
  intros [[| |] [| |] [| |]] Hh; cbn in Hh; try discriminate. intros f. repeat split.
Qed.
Lemma source_keys_honoured_l :
  match Gen.C04_consts.src_key_tests_read with
  | Some ts => keys_honoured ts = true
  | None => True
  end.
Proof. vm_compute. first [reflexivity | exact I]. Qed.

(** A falsy key callable that the attribute drops is dropped everywhere. *)
Example falsy_key_dropped_everywhere :
  let ts := KT KTruthy KTruthy KTruthy in
  attr_key ts (F None (EqK K0f)) = None /\ f_key_eq ts (F None (EqK K0f)) = None /\
  f_key ts (F None (EqK K0f)) = None /\ f_key ts (F None (EqK K0)) = Some K0.
Proof. repeat split. Qed.

(** The order found in the source of this run ends with the cache initialisation
    (regenerated on every run; [None] = shape not recognised, nothing is claimed). *)
Lemma source_init_tail_ends_with_cache_l :
  match Gen.C04_consts.src_init_tail_read with
  | Some t => ends_with_cache t = true
  | None => True
  end.
Proof. vm_compute. first [reflexivity | exact I]. Qed.

(** ** Part B *)
Section SemProofs.
  Variable val : Type.
  Variable key : keyid -> val -> val.
  Variable ts : ktests.
  Variable eh : Type.
  Variable ehash : val -> eh.
  Variable hres : Type.
  Variable H : Z -> list eh -> hres.
  Variable py_eq : val -> val -> bool.

  Notation keyed := (keyed val key ts).
  Notation keyed_eq := (keyed_eq val key ts).
  Notation hash_elems := (hash_elems val key ts).
  Notation compute := (compute val key ts eh ehash hres H).
  Notation eq_fields := (eq_fields val key ts py_eq).
  Notation inst := (inst val hres).
  Notation init := (init val hres).
  Notation do_hash := (do_hash val key ts eh ehash hres H).
  Notation step := (step val key ts eh ehash hres H).
  Notation run := (run val key ts eh ehash hres H).
  Notation op := (op val).

  (** *** frame: only the class salt and the keyed values of participating fields matter *)
  Inductive agree : list fld -> list val -> list val -> Prop :=
  | agree_nil : agree [] [] []
  | agree_in f fs a b xs ys :
      in_hash f = true -> keyed f a = keyed f b -> agree fs xs ys -> agree (f :: fs) (a :: xs) (b :: ys)
  | agree_out f fs a b xs ys :
      in_hash f = false -> agree fs xs ys -> agree (f :: fs) (a :: xs) (b :: ys).

  Lemma agree_elems fs xs ys : agree fs xs ys -> hash_elems fs xs = hash_elems fs ys.
  Proof.
    induction 1 as [|f fs a b xs ys Hin Hk _ IH|f fs a b xs ys Hin _ IH]; cbn.
    - reflexivity.
    - rewrite Hin. now rewrite Hk, IH.
    - rewrite Hin. exact IH.
  Qed.

  Theorem hash_frame_l : forall c xs ys, agree (flds c) xs ys -> compute c xs = compute c ys.
  Proof. intros c xs ys Ha. unfold Model.compute. now rewrite (agree_elems _ _ _ Ha). Qed.

  (** ... and of the class only through its salt and field list. *)
  Theorem hash_class_frame_l : forall c d xs,
    salt c = salt d -> flds c = flds d -> compute c xs = compute d xs.
  Proof. intros c d xs Hs Hf. unfold Model.compute. now rewrite Hs, Hf. Qed.

  (** *** the hash/eq contract *)
  Hypothesis ehash_respects_eq : forall a b, py_eq a b = true -> ehash a = ehash b.
  (** [__eq__] and [__hash__] decide in the same way whether a field has a key *)
  Hypothesis key_tests_consistent : tests_consistent ts = true.

  Lemma keyed_eq_keyed f v : keyed_eq f v = keyed f v.
  Proof. unfold Model.keyed_eq, Model.keyed. now rewrite (keys_agree_l ts key_tests_consistent f). Qed.

  Lemma eq_fields_elems fs : forall xs ys,
    forallb (fun f => implb (in_hash f) (f_eq_on f)) fs = true ->
    length xs = length ys ->
    eq_fields fs xs ys = true ->
    map ehash (hash_elems fs xs) = map ehash (hash_elems fs ys).
  Proof.
    induction fs as [|f fs IH]; intros xs ys Hw Hl He; [reflexivity|].
    destruct xs as [|x xs], ys as [|y ys]; cbn in Hl; try discriminate; [reflexivity|].
    cbn in Hw, He |- *. apply andb_true_iff in Hw as [Hf Hw]. apply andb_true_iff in He as [Hx He].
    injection Hl as Hl. specialize (IH xs ys Hw Hl He).
    destruct (in_hash f) eqn:Hin; [|exact IH].
    cbn in Hf. rewrite Hf in Hx. rewrite !keyed_eq_keyed in Hx.
    cbn. rewrite IH. f_equal. now apply ehash_respects_eq.
  Qed.

  Theorem hash_eq_contract_l : forall x y : obj val hres,
    (cid (o_cls _ _ x) = cid (o_cls _ _ y) -> o_cls _ _ x = o_cls _ _ y) ->
    hash_within_eq (o_cls _ _ x) = true ->
    length (vals (o_inst _ _ x)) = length (vals (o_inst _ _ y)) ->
    gen_eq val key ts hres py_eq x y = Some true ->
    compute (o_cls _ _ x) (vals (o_inst _ _ x)) = compute (o_cls _ _ y) (vals (o_inst _ _ y)).
  Proof.
    intros [cx ix] [cy iy] Hwf Hw Hl He. cbn in *. unfold gen_eq in He. cbn in He.
    destruct (Nat.eqb (cid cx) (cid cy)) eqn:Hc; [|discriminate].
    apply Nat.eqb_eq in Hc. specialize (Hwf Hc). subst cy. injection He as He.
    unfold Model.compute. f_equal. now apply eq_fields_elems.
  Qed.

  (** *** stability *)
  Theorem hash_stable_l : forall c i h i' comp,
    do_hash c i = Some (h, i', comp) ->
    exists comp', do_hash c i' = Some (h, i', comp').
  Proof.
    intros c i h i' comp. unfold Model.do_hash.
    destruct (cache c) eqn:Hc.
    - destruct (slot i) eqn:Hs; intros E; try discriminate.
      + injection E as <- <- <-. cbn. now exists false.
      + injection E as <- <- <-. rewrite Hs. now exists false.
    - intros E. injection E as <- <- <-. now exists true.
  Qed.

  (** *** the cache holds the uncached value as long as no field is assigned *)
  Definition slot_ok (c : cls) (i : inst) : Prop :=
    match slot i with CSome h => h = compute c (vals i) | _ => True end.

  Definition is_set (o : op) : bool := match o with OSet _ _ => true | _ => false end.

  Lemma init_slot_ok c vs : slot_ok c (init c vs).
  Proof. unfold slot_ok, Model.init; cbn. now destruct (cache c). Qed.

  Lemma step_slot_ok c i o : is_set o = false -> slot_ok c i -> slot_ok c (fst (step c i o)).
  Proof.
    unfold slot_ok. destruct o; cbn; intros Hs Hi; try discriminate.
    - unfold Model.do_hash. destruct (cache c); [|exact Hi].
      destruct (slot i) eqn:E; cbn; try rewrite E; auto.
    - destruct (slotted c); [cbn; now destruct (cache c) | exact Hi].
    - now destruct (cache c).
    - now destruct (cache c).
    - now destruct (cache c).
    - now destruct (cache c).
  Qed.

  Lemma hash_value_ok c i h i' comp :
    slot_ok c i -> do_hash c i = Some (h, i', comp) -> h = compute c (vals i).
  Proof.
    unfold slot_ok, Model.do_hash. destruct (cache c).
    - destruct (slot i); intros Hi E; try discriminate; injection E as <- <- <-; auto.
    - intros _ E. now injection E as <- <- <-.
  Qed.

  (** every [hash()] in the history returns the uncached hash of the current field values *)
  Fixpoint hashes_uncached (c : cls) (i : inst) (ops : list op) : Prop :=
    match ops with
    | [] => True
    | o :: r =>
        (match snd (step c i o) with MHashed h _ => h = compute c (vals i) | _ => True end)
        /\ hashes_uncached c (fst (step c i o)) r
    end.

  Theorem cached_equals_uncached_l : forall c ops i,
    forallb (fun o => negb (is_set o)) ops = true -> slot_ok c i -> hashes_uncached c i ops.
  Proof.
    intros c ops. induction ops as [|o r IH]; intros i Hn Hi; cbn; [exact I|].
    cbn in Hn. apply andb_true_iff in Hn as [Ho Hn]. apply negb_true_iff in Ho. split.
    - destruct o; cbn; auto.
      + destruct (do_hash c i) as [[[h i'] comp]|] eqn:E; cbn; auto.
        eapply hash_value_ok; eauto.
      + destruct (frozen c); cbn; auto.
    - apply IH; [exact Hn|]. now apply step_slot_ok.
  Qed.

  (** *** computed once per instance *)
  Definition hash_or_set (o : op) : bool :=
    match o with OHash | OSet _ _ => true | _ => false end.

  Lemma computations_after_cached c : forall ops i h,
    cache c = true -> slot i = CSome h -> forallb hash_or_set ops = true ->
    computations hres (run c i ops) = 0.
  Proof.
    induction ops as [|o r IH]; intros i h Hc Hs Ho; [reflexivity|].
    cbn in Ho. apply andb_true_iff in Ho as [Ho Hr].
    destruct o; cbn in Ho; try discriminate; cbn.
    - unfold Model.do_hash. rewrite Hc, Hs. cbn. now apply (IH i h).
    - destruct (frozen c); cbn; [now apply (IH i h)|]. now apply (IH _ h).
  Qed.

  (** With [cache_hash], over any interleaving of [hash()] calls and assignments on one
      instance whose cache slot was initialised, the hash is computed exactly once if
      [hash()] is called at all. *)
  Theorem cache_once_l : forall c ops i,
    cache c = true -> slot i = CNone -> forallb hash_or_set ops = true ->
    computations hres (run c i ops) = if existsb (fun o => negb (is_set o)) ops then 1 else 0.
  Proof.
    intros c ops. induction ops as [|o r IH]; intros i Hc Hs Ho; [reflexivity|].
    cbn in Ho. apply andb_true_iff in Ho as [Ho Hr].
    destruct o; cbn in Ho; try discriminate; cbn.
    - unfold Model.do_hash. rewrite Hc, Hs. cbn.
      f_equal. eapply computations_after_cached; eauto. reflexivity.
    - destruct (frozen c); cbn; now apply IH.
  Qed.

  (** n >= 1 consecutive calls: one computation, every call returns the uncached value. *)
  Theorem cache_once_repeat_l : forall c n vs,
    cache c = true ->
    run c (init c vs) (repeat OHash (S n)) =
    MHashed (compute c vs) true :: repeat (MHashed (compute c vs) false) n.
  Proof.
    intros c n vs Hc. cbn. unfold Model.do_hash, Model.init. rewrite Hc. cbn. f_equal.
    induction n as [|n IH]; [reflexivity|]. cbn. unfold Model.do_hash. rewrite Hc. cbn. now rewrite IH.
  Qed.

  Theorem uncached_every_time_l : forall c n vs,
    cache c = false ->
    run c (init c vs) (repeat OHash n) = repeat (MHashed (compute c vs) true) n.
  Proof.
    intros c n vs Hc. unfold Model.init. rewrite Hc.
    induction n as [|n IH]; [reflexivity|]. cbn. unfold Model.do_hash at 1. rewrite Hc. cbn. now rewrite IH.
  Qed.

  (** *** hashing never raises on instances built by the class's own initialiser *)
  Definition inited (c : cls) (i : inst) : Prop := cache c = true -> slot i <> Unset.

  Lemma init_inited c vs : inited c (init c vs).
  Proof. unfold inited, Model.init; cbn. intros ->. discriminate. Qed.

  Lemma step_inited c i o : inited c i -> inited c (fst (step c i o)).
  Proof.
    unfold inited. intros Hi Hc. specialize (Hi Hc). destruct o; cbn.
    - unfold Model.do_hash. rewrite Hc. destruct (slot i) eqn:E; cbn; congruence.
    - destruct (slotted c); cbn; [rewrite Hc; discriminate | exact Hi].
    - rewrite Hc. discriminate.
    - rewrite Hc. discriminate.
    - rewrite Hc. discriminate.
    - destruct (frozen c); cbn; exact Hi.
    - rewrite Hc. discriminate.
  Qed.

  Fixpoint hash_returns (c : cls) (i : inst) (ops : list op) : Prop :=
    match ops with
    | [] => True
    | o :: r => (match o with OHash => do_hash c i <> None | _ => True end)
                /\ hash_returns c (fst (step c i o)) r
    end.

  Theorem hash_total_l : forall c ops i, inited c i -> hash_returns c i ops.
  Proof.
    intros c ops. induction ops as [|o r IH]; intros i Hi; cbn; [exact I|]. split.
    - destruct o; auto. unfold Model.do_hash. destruct (cache c) eqn:Hc; [|discriminate].
      specialize (Hi Hc). destruct (slot i); congruence.
    - apply IH. now apply step_inited.
  Qed.

  (** *** construction with [__attrs_post_init__] *)

  (** When the cache initialisation is the last event of the [__init__] tail, every
      instance that construction hands out has an EMPTY cache, whatever the post-init
      program did (hashed [self], assigned fields): it is [slot_ok] and [inited], so all
      the theorems above apply to it. *)
  Lemma run_tail_post c i t post :
    run_tail val key ts eh ehash hres H c i (TPost :: t) post =
    match run_post val key ts eh ehash hres H c i post with
    | (Some i', ms) => let '(res, ms') := run_tail val key ts eh ehash hres H c i' t post in (res, ms ++ ms')
    | (None, ms) => (None, ms)
    end.
  Proof. reflexivity. Qed.
  Lemma run_tail_cache c i t post :
    run_tail val key ts eh ehash hres H c i (TCache :: t) post =
    run_tail val key ts eh ehash hres H c {| vals := vals i; slot := if cache c then CNone else slot i |} t post.
  Proof. reflexivity. Qed.

  Lemma run_tail_ends_fresh c post : forall tail i i' ms,
    ends_with_cache tail = true -> cache c = true ->
    run_tail val key ts eh ehash hres H c i tail post = (Some i', ms) -> slot i' = CNone.
  Proof.
    induction tail as [|e t IH]; intros i i' ms He Hc Hr; [discriminate|].
    destruct t as [|e' t'].
    - destruct e; [discriminate|]. cbn in Hr. rewrite Hc in Hr. now inversion Hr.
    - assert (He' : ends_with_cache (e' :: t') = true) by exact He.
      destruct e.
      + rewrite run_tail_post in Hr.
        destruct (run_post val key ts eh ehash hres H c i post) as [[i1|] ms1] eqn:Ep; [|discriminate].
        destruct (run_tail val key ts eh ehash hres H c i1 (e' :: t') post) as [res ms2] eqn:Et.
        inversion Hr; subst. exact (IH _ _ _ He' Hc Et).
      + rewrite run_tail_cache in Hr. exact (IH _ _ _ He' Hc Hr).
  Qed.

  Lemma run_post_keeps_unset c : cache c = false -> forall post i i' ms, slot i = Unset ->
    run_post val key ts eh ehash hres H c i post = (Some i', ms) -> slot i' = Unset.
  Proof.
    intros Ec. induction post as [|o r IH]; intros i i' ms Hs Hr; cbn in Hr.
    - inversion Hr; subst; exact Hs.
    - destruct o.
      + unfold Model.do_hash in Hr. rewrite Ec in Hr.
        destruct (run_post val key ts eh ehash hres H c i r) as [res m] eqn:E.
        cbn in Hr. inversion Hr; subst. eapply IH; eauto.
      + destruct (run_post val key ts eh ehash hres H c i r) as [res m] eqn:E.
        cbn in Hr. inversion Hr; subst. eapply IH; eauto.
      + destruct (run_post val key ts eh ehash hres H c i r) as [res m] eqn:E.
        cbn in Hr. inversion Hr; subst. eapply IH; eauto.
      + destruct (run_post val key ts eh ehash hres H c i r) as [res m] eqn:E.
        cbn in Hr. inversion Hr; subst. eapply IH; eauto.
      + destruct (run_post val key ts eh ehash hres H c i r) as [res m] eqn:E.
        cbn in Hr. inversion Hr; subst. eapply IH; eauto.
      + destruct (run_post val key ts eh ehash hres H c
                    {| vals := upd val (vals i) n v; slot := slot i |} r) as [res m] eqn:E.
        cbn in Hr. inversion Hr; subst. eapply IH; [|exact E]. exact Hs.
      + destruct (run_post val key ts eh ehash hres H c i r) as [res m] eqn:E.
        cbn in Hr. inversion Hr; subst. eapply IH; eauto.
  Qed.

  Lemma run_tail_keeps_unset c post : cache c = false -> forall tail i i' ms, slot i = Unset ->
    run_tail val key ts eh ehash hres H c i tail post = (Some i', ms) -> slot i' = Unset.
  Proof.
    intros Ec. induction tail as [|e t IH]; intros i i' ms Hs Hr.
    - cbn in Hr. inversion Hr; subst; exact Hs.
    - destruct e.
      + rewrite run_tail_post in Hr.
        destruct (run_post val key ts eh ehash hres H c i post) as [[i1|] ms1] eqn:Ep; [|discriminate].
        destruct (run_tail val key ts eh ehash hres H c i1 t post) as [res ms2] eqn:Et.
        inversion Hr; subst. eapply IH; [|exact Et]. eapply run_post_keeps_unset; eauto.
      + rewrite run_tail_cache, Ec in Hr. eapply IH; [|exact Hr]. exact Hs.
  Qed.

  Theorem construct_hands_out_fresh_l : forall tail c vs post i ms,
    ends_with_cache tail = true ->
    construct val key ts eh ehash hres H tail c vs post = (Some i, ms) ->
    slot_ok c i /\ inited c i.
  Proof.
    intros tail c vs post i ms He Hc. unfold Model.construct in Hc.
    destruct (cache c) eqn:Ec.
    - pose proof (run_tail_ends_fresh c post tail _ _ _ He Ec Hc) as Hs.
      split; [unfold slot_ok; now rewrite Hs | unfold inited; intros _; rewrite Hs; discriminate].
    - split; [|unfold inited; congruence].
      assert (Hs : slot i = Unset).
      { eapply (run_tail_keeps_unset c post Ec tail {| vals := vs; slot := Unset |}); [reflexivity | exact Hc]. }
      unfold slot_ok. now rewrite Hs.
  Qed.

  (** With the order post-init, then cache: the cache is not readable before construction
      completes — a post-init that hashes [self] of a caching class fails loudly. *)
  Theorem post_init_hash_refused_l : forall c vs post,
    cache c = true ->
    construct val key ts eh ehash hres H [TPost; TCache] c vs (OHash :: post) = (None, [MRaised]).
  Proof. intros c vs post Hc. unfold Model.construct. cbn. unfold Model.do_hash. now rewrite Hc. Qed.

  (** K1 on the instance level: the subclass's initialiser built the instance, the
      base's caching [__hash__] is applied to it. *)
  Theorem inherited_caching_hash_refuted_l : forall base sub vs,
    cache base = true -> cache sub = false -> do_hash base (init sub vs) = None.
  Proof. intros base sub vs Hb Hs. unfold Model.do_hash, Model.init. now rewrite Hb, Hs. Qed.
End SemProofs.

(** ** B, concrete: the free interpretation decides equality in every interpretation *)
Theorem free_complete_l : forall (eh hres : Type) (ehash : nat -> eh) (H : Z -> list eh -> hres) c xs ys,
  fcompute c xs = fcompute c ys ->
  compute nat fkey fts eh ehash hres H c xs = compute nat fkey fts eh ehash hres H c ys.
Proof.
  intros eh hres ehash H c xs ys. unfold fcompute, compute, fH. rewrite !map_id.
  intros E. injection E as E. now rewrite E.
Qed.

(** Non-vacuity / sharpness examples in the free interpretation. *)
Definition ex_cls (fs : list fld) (ca : bool) : cls := Cl 0 0%Z fs ca false false true.

(** a field with hash=True, eq=False breaks the contract: the hypothesis of
    [hash_eq_contract] is needed *)
Example contract_needs_hash_within_eq :
  let c := ex_cls [F (Some true) EqF] false in
  feq_fields c [0] [1] = true /\ fcompute c [0] <> fcompute c [1].
Proof. cbn. split; [reflexivity | discriminate]. Qed.

Example contract_example :
  let c := ex_cls [F None (EqK K0); F (Some false) EqT] false in
  feq_fields c [0; 1] [2; 1] = true /\ fcompute c [0; 1] = fcompute c [2; 1].
Proof. cbn. split; reflexivity. Qed.

Example frame_example :
  agree nat fkey fts [F None EqT; F (Some false) EqT] [1; 0] [1; 2].
Proof. apply agree_in; [reflexivity | reflexivity |]. apply agree_out; [reflexivity|]. constructor. Qed.

(** assignment after hashing: the cached value is stale — by design *)
Example cache_stale_after_set :
  let c := ex_cls [F None EqT] true in
  frun c [0] [OHash; OSet 0 1; OHash] =
    [MHashed (0%Z, [0]) true; MDone; MHashed (0%Z, [0]) false]
  /\ fcompute c [1] = (0%Z, [1]).
Proof. cbn. split; reflexivity. Qed.

(** shallow copy of a dict instance carries the cache, of a slotted one resets it *)
Example copy_dict_carries_cache :
  frun (Cl 0 0%Z [F None EqT] true false false true) [0] [OHash; OCopy; OHash]
  = [MHashed (0%Z, [0]) true; MDone; MHashed (0%Z, [0]) false].
Proof. reflexivity. Qed.
Example copy_slotted_resets_cache :
  frun (Cl 0 0%Z [F None EqT] true false true true) [0] [OHash; OCopy; OHash]
  = [MHashed (0%Z, [0]) true; MDone; MHashed (0%Z, [0]) true].
Proof. reflexivity. Qed.

(** ** B, for instances built by the class's own generated [__init__] *)
Section FromInit.
  Variable val : Type.
  Variable key : keyid -> val -> val.
  Variable ts : ktests.
  Variable eh : Type.
  Variable ehash : val -> eh.
  Variable hres : Type.
  Variable H : Z -> list eh -> hres.

  Theorem hash_total_init_l : forall c ops vs,
    hash_returns val key ts eh ehash hres H c (init val hres c vs) ops.
  Proof. intros. apply hash_total_l. apply init_inited. Qed.

  Theorem cached_equals_uncached_init_l : forall c ops vs,
    forallb (fun o => negb (is_set val o)) ops = true ->
    hashes_uncached val key ts eh ehash hres H c (init val hres c vs) ops.
  Proof. intros. apply cached_equals_uncached_l; [assumption | apply init_slot_ok]. Qed.

  Theorem cache_once_init_l : forall c ops vs,
    cache c = true -> forallb (hash_or_set val) ops = true ->
    computations hres (run val key ts eh ehash hres H c (init val hres c vs) ops)
    = if existsb (fun o => negb (is_set val o)) ops then 1 else 0.
  Proof.
    intros c ops vs Hc Ho. apply cache_once_l; auto. unfold init; cbn. now rewrite Hc.
  Qed.
End FromInit.

(** A class without a generated [__eq__] (class-level eq=False / own __eq__ detected) still applies
    the fields' eq keys in its generated hash. *)
Example key_applied_without_generated_eq :
  let c := Cl 0 0%Z [F None (EqK K0)] false false false false in
  fcompute c [0] = fcompute c [2] /\ fcompute c [0] <> fcompute c [1].
Proof. cbn. split; [reflexivity | discriminate]. Qed.

(** ** The script term denotes the model's hash computation: evaluating the elements
    of [make_hash_script c] on the field values gives exactly the tuple elements
    [hash_elems] that [compute] hashes; the store mode is the cache protocol of
    [do_hash] (none / frozen store / plain store). *)
Section ScriptDenotes.
  Variable val : Type.
  Variable key : keyid -> val -> val.
  Variable ts : ktests.
  Variable dv : val.

  Definition eval_elem (fs : list fld) (vs : list val) (e : helem) : val :=
    match e with
    | HField n => nth n vs dv
    | HKeyed n => match f_key ts (nth n fs (F None EqT)) with
                  | Some k => key k (nth n vs dv)
                  | None => nth n vs dv
                  end
    end.

  Lemma script_elems_denote_gen : forall fs vs pf pv,
    length pf = length pv -> length fs = length vs ->
    map (eval_elem (pf ++ fs) (pv ++ vs)) (script_elems ts (length pf) fs) = hash_elems val key ts fs vs.
  Proof.
    induction fs as [|f r IH]; intros vs pf pv Hp Hl; [reflexivity|].
    destruct vs as [|v vs]; [discriminate|]. cbn in Hl. injection Hl as Hl.
    assert (Hrec : map (eval_elem (pf ++ f :: r) (pv ++ v :: vs)) (script_elems ts (S (length pf)) r)
                   = hash_elems val key ts r vs).
    { specialize (IH vs (pf ++ [f]) (pv ++ [v])).
      rewrite !app_length in IH. cbn in IH. rewrite Nat.add_1_r in IH.
      rewrite <- !app_assoc in IH. cbn in IH. apply IH; [lia | exact Hl]. }
    cbn. destruct (in_hash f); [|exact Hrec].
    cbn. rewrite Hrec. f_equal.
    unfold keyed. destruct (f_key ts f) eqn:Ek; cbn.
    - rewrite nth_middle. rewrite Ek. rewrite Hp. now rewrite nth_middle.
    - rewrite Hp. now rewrite nth_middle.
  Qed.

  Theorem script_denotes_l : forall c vs, length (flds c) = length vs ->
    map (eval_elem (flds c) vs) (hs_elems (make_hash_script ts c)) = hash_elems val key ts (flds c) vs
    /\ hs_wrapper_arg (make_hash_script ts c) = cache c
    /\ (hs_store (make_hash_script ts c) = StReturn <-> cache c = false).
  Proof.
    intros c vs Hl. split; [|split].
    - exact (script_elems_denote_gen (flds c) vs [] [] eq_refl Hl).
    - reflexivity.
    - unfold make_hash_script; cbn. destruct (cache c), (frozen c); split; intros; congruence.
  Qed.
End ScriptDenotes.

(** The cache armed BEFORE post-init (and not reset after it): a post-init that hashes [self]
    and then assigns a hashed field leaves a stale cached hash. *)
Example cache_before_post_init_is_stale :
  let c := Cl 0 0%Z [F None EqT] true false false true in
  ends_with_cache [TCache; TPost] = false /\
  construct_run nat fkey fts nat (fun v => v) fhres fH [TCache; TPost] c [0] [OHash; OSet 0 1] [OHash]
  = [MHashed (0%Z, [0]) true; MDone; MHashed (0%Z, [0]) false] /\
  fcompute c [1] = (0%Z, [1]) /\
  construct_run nat fkey fts nat (fun v => v) fhres fH [TPost; TCache] c [0] [OHash; OSet 0 1] [OHash]
  = [MRaised].
Proof. cbn. repeat split; reflexivity. Qed.

(** ** B, for instances built by a generated [__init__] that runs a post-init program *)
Section FromConstruct.
  Variable val : Type.
  Variable key : keyid -> val -> val.
  Variable ts : ktests.
  Variable eh : Type.
  Variable ehash : val -> eh.
  Variable hres : Type.
  Variable H : Z -> list eh -> hres.

  Theorem constructed_instances_hash_correctly_l : forall tail c vs post i ms ops,
    ends_with_cache tail = true ->
    construct val key ts eh ehash hres H tail c vs post = (Some i, ms) ->
    hash_returns val key ts eh ehash hres H c i ops /\
    (forallb (fun o => negb (is_set val o)) ops = true ->
     hashes_uncached val key ts eh ehash hres H c i ops).
  Proof.
    intros tail c vs post i ms ops He Hc.
    destruct (construct_hands_out_fresh_l val key ts eh ehash hres H tail c vs post i ms He Hc) as [Hok Hin].
    split; [now apply hash_total_l | intros Hn; now apply cached_equals_uncached_l].
  Qed.
End FromConstruct.
