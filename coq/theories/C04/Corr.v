(** * C04 — correspondence: the check functions evaluated by [coqc] on what the
    harness observed on the real library.

    Three kinds of cases:
    - [CA]: one decorator configuration; observed: the exception class raised by the
      decorator, or the provenance of [__hash__] in the class [__dict__] plus what
      [hash(cls())] did.
    - [CM]: one class with a generated [__hash__] and a list of instances; observed:
      the ordered pairs that compare equal and the hash values as a PARTITION
      (labels numbered by first occurrence — never the numbers).
    - [CH]: one class and a history of operations on a lineage of instances;
      observed per [hash()] call: the label of the value and which fields' values
      were hashed / keyed during that call.

    The model is evaluated in its free interpretation: values are small naturals, the
    element hash is the identity, the tuple hash is the pair (salt, elements).
    Equality of free hashes therefore means "equal in EVERY interpretation of the
    oracles" ([Proofs.free_complete]) and is what the implementation must respect. *)
From Coq Require Import List Bool ZArith Arith.
Import ListNotations.
From Attrs Require Import Base C04.Model.
From Attrs Require Gen.C04_consts.

(** ** equality tests *)
Definition err_eqb (a b : err) : bool :=
  match a, b with ETypeError, ETypeError | EValueError, EValueError => true | _, _ => false end.
Definition entry_eqb (a b : entry) : bool :=
  match a, b with EGen, EGen | ENone, ENone | EUser, EUser | EAbsent, EAbsent => true | _, _ => false end.
Definition probe_eqb (a b : probe) : bool :=
  match a, b with
  | PReturns, PReturns | PTypeError, PTypeError | PAttributeError, PAttributeError
  | PNotProbed, PNotProbed => true
  | _, _ => false   (* POther never matches: an unexpected exception class is a discrepancy *)
  end.
Definition outcome_eqb (a b : outcome) : bool :=
  match a, b with
  | OClass e p, OClass e' p' => entry_eqb e e' && probe_eqb p p'
  | ORaise e, ORaise e' => err_eqb e e'
  | _, _ => false
  end.

Lemma outcome_eqb_sound a b : outcome_eqb a b = true -> a = b.
Proof.
  destruct a as [e p|e|], b as [e' p'|e'|]; cbn; try discriminate.
  - destruct e, e', p, p'; cbn; try discriminate; reflexivity.
  - destruct e, e'; cbn; try discriminate; reflexivity.
Qed.

(** The property itself, on the observation alone: an attrs class whose resolved
    [__hash__] is not [None] hashes without raising. *)
Definition resolved_hashable (c : cfg) (e : entry) : bool :=
  match e with
  | EGen | EUser => true
  | ENone => false
  | EAbsent => match b_hash (c_base c) with BHNone => false | _ => true end
  end.
Definition total_ok (c : cfg) (seen : outcome) : bool :=
  match seen with
  | OClass e p => if resolved_hashable c e then probe_eqb p PReturns || probe_eqb p PNotProbed else true
  | _ => true
  end.

(** ** the free interpretation *)
Definition fkey (k : keyid) (v : nat) : nat :=
  match k with K0 | K0f => Nat.modulo v 2 | K1 | K1f => 0 end.
(** The model follows the key-presence tests found in the source of this run. *)
Definition fts : ktests := Gen.C04_consts.src_key_tests.
Definition fhres := (Z * list nat)%type.
Definition fH (s : Z) (es : list nat) : fhres := (s, es).
Definition fhres_eqb (a b : fhres) : bool :=
  Z.eqb (fst a) (fst b) && list_eqb Nat.eqb (snd a) (snd b).

Definition fcompute (c : cls) (vs : list nat) : fhres :=
  compute nat fkey fts nat (fun v => v) fhres fH c vs.
Definition feq_fields (c : cls) (xs ys : list nat) : bool :=
  eq_fields nat fkey fts Nat.eqb (flds c) xs ys.
Definition frun (c : cls) (start : list nat) (ops : list (op nat)) : list (mobs fhres) :=
  run nat fkey fts nat (fun v => v) fhres fH c (init nat fhres c start) ops.

(** ** observations *)
Inductive hobs := HVal (label : nat) (hashed keyed : list nat) | HDone | HRaised.

Inductive case :=
| CA (c : cfg) (seen : outcome)
| CM (c : cls) (insts : list (list nat)) (seen_eq : list (nat * nat)) (seen_lab : list nat)
     (seen_keys : list bool)   (* per field: fields(cls).f.eq_key is not None *)
| CH (c : cls) (start : list nat) (ops : list (op nat)) (seen : list hobs)
(* construction of an instance of a class whose __attrs_post_init__ runs the program [post]
   (OHash = hash(self), OSet = object.__setattr__), then a history without evolve / fresh *)
| CP (c : cls) (start : list nat) (post ops : list (op nat)) (seen : list hobs).

(** every field that takes part in the hash takes part in equality *)
Definition hash_within_eq (c : cls) : bool :=
  forallb (fun f => implb (in_hash f) (f_eq_on f)) (flds c).

Definition all_pairs (n : nat) : list (nat * nat) :=
  flat_map (fun i => map (fun j => (i, j)) (seq 0 n)) (seq 0 n).

Definition pred_eq (c : cls) (insts : list (list nat)) : list (nat * nat) :=
  filter (fun p => feq_fields c (nth (fst p) insts []) (nth (snd p) insts []))
         (all_pairs (length insts)).

Definition pair_eqb (a b : nat * nat) : bool :=
  Nat.eqb (fst a) (fst b) && Nat.eqb (snd a) (snd b).

(** predicted-equal hashes carry the same label *)
Fixpoint respects_one (h : fhres) (l : nat) (rest : list (fhres * nat)) : bool :=
  match rest with
  | [] => true
  | (h', l') :: r => (if fhres_eqb h h' then Nat.eqb l l' else true) && respects_one h l r
  end.
Fixpoint respects (hl : list (fhres * nat)) : bool :=
  match hl with
  | [] => true
  | (h, l) :: r => respects_one h l r && respects r
  end.

(** The property on the observation alone: "the hash is a function only of the class and
    the hash-participating fields' KEYED values", with "keyed" read off the class itself
    (a field is keyed iff its Attribute advertises an eq_key): instances whose
    participating keyed values agree carry the same label. *)
Definition advertised_fld (f : fld) (present : bool) : fld :=
  if present then f else F (f_hash f) (match f_eq f with EqK _ => EqT | e => e end).
Definition advertised_compute (c : cls) (keys : list bool) (vs : list nat) : fhres :=
  fH 0%Z (hash_elems nat fkey (KT KIsNotNone KIsNotNone KIsNotNone)
                     (map (fun p => advertised_fld (fst p) (snd p)) (combine (flds c) keys)) vs).

Definition is_some {A} (o : option A) : bool := match o with Some _ => true | None => false end.

Definition check_matrix (c : cls) (insts : list (list nat)) (seen_eq : list (nat * nat))
           (seen_lab : list nat) (seen_keys : list bool) : bool :=
  Nat.eqb (length seen_lab) (length insts)
  && list_eqb Bool.eqb (map (fun f => is_some (attr_key fts f)) (flds c)) seen_keys
  && respects (combine (map (advertised_compute c seen_keys) insts) seen_lab)
  (* ... and with "keyed" read off the declaration: a key callable that was GIVEN is applied, falsy or not *)
  && respects (combine (map (advertised_compute c (map (fun _ => true) (flds c))) insts) seen_lab)
  && forallb (fun vs => Nat.eqb (length vs) (length (flds c))) insts
  && list_eqb pair_eqb (if eqgen c then pred_eq c insts
                        else map (fun i => (i, i)) (seq 0 (length insts))) seen_eq
  && respects (combine (map (fcompute c) insts) seen_lab)
  && (if hash_within_eq c
      then forallb (fun p => Nat.eqb (nth (fst p) seen_lab 0) (nth (snd p) seen_lab 1)) seen_eq
      else true).

(** one history step: the shapes must agree exactly; labelled values are collected *)
Fixpoint match_hist (c : cls) (ms : list (mobs fhres)) (ss : list hobs)
  : option (list (fhres * nat)) :=
  match ms, ss with
  | [], [] => Some []
  | MHashed h comp :: mr, HVal l hs ks :: sr =>
      if list_eqb Nat.eqb hs (if comp then hashed_idx 0 (flds c) else [])
         && list_eqb Nat.eqb ks (if comp then keyed_idx fts 0 (flds c) else [])
      then match match_hist c mr sr with Some r => Some ((h, l) :: r) | None => None end
      else None
  | MDone :: mr, HDone :: sr => match_hist c mr sr
  | MRaised :: mr, HRaised :: sr => match_hist c mr sr
  | _, _ => None
  end.

Definition check_hist (c : cls) (start : list nat) (ops : list (op nat)) (seen : list hobs) : bool :=
  Nat.eqb (length start) (length (flds c)) &&
  match match_hist c (frun c start ops) seen with
  | Some hl => respects hl
  | None => false
  end.

(** the tail order of the generated __init__ found in the source of this run *)
Definition ftail : list tail_ev := Gen.C04_consts.src_init_tail.
Definition fconstruct_run (c : cls) (start : list nat) (post ops : list (op nat)) : list (mobs fhres) :=
  construct_run nat fkey fts nat (fun v => v) fhres fH ftail c start post ops.

(** The property on the observation alone: once construction has completed, and until the
    first assignment after it, every [hash()] "equals the uncached value" of the field values
    the instance holds then — whatever [__attrs_post_init__] did (hash [self], assign fields). *)
Fixpoint apply_sets (vs : list nat) (ops : list (op nat)) : list nat :=
  match ops with
  | OSet n v :: r => apply_sets (upd nat vs n v) r
  | _ :: r => apply_sets vs r
  | [] => vs
  end.
Fixpoint uncached_pairs (c : cls) (vs : list nat) (ops : list (op nat)) (seen : list hobs)
  : list (fhres * nat) :=
  match ops, seen with
  | OHash :: r, HVal l _ _ :: sr => (fcompute c vs, l) :: uncached_pairs c vs r sr
  | OSet _ _ :: _, _ => []
  | _ :: r, _ :: sr => uncached_pairs c vs r sr
  | _, _ => []
  end.

Definition check_construct (c : cls) (start : list nat) (post ops : list (op nat)) (seen : list hobs) : bool :=
  Nat.eqb (length start) (length (flds c))
  && match match_hist c (fconstruct_run c start post ops) seen with
     | Some hl => respects hl
     | None => false
     end
  && (if Nat.eqb (length seen) (length post + length ops)
      then respects (uncached_pairs c (apply_sets start post) ops (skipn (length post) seen))
      else true).

Definition check_case (k : case) : bool :=
  match k with
  | CA c seen => outcome_eqb (outcome_of c) seen && total_ok c seen
  | CM c insts se sl sk => check_matrix c insts se sl sk
  | CH c start ops seen => check_hist c start ops seen
  | CP c start post ops seen => check_construct c start post ops seen
  end.

(** What the model says, for replay files. *)
Inductive mview :=
| VA (o : outcome) (k : kind)
| VM (eq_pairs : list (nat * nat)) (free_hashes : list fhres)
| VH (obs : list (mobs fhres)) (hashed keyed : list nat).

Definition model_of (k : case) : mview :=
  match k with
  | CA c _ => VA (outcome_of c) (decide c)
  | CM c insts _ _ _ => VM (if eqgen c then pred_eq c insts else map (fun i => (i, i)) (seq 0 (length insts)))
                         (map (fcompute c) insts)
  | CH c start ops _ => VH (frun c start ops) (hashed_idx 0 (flds c)) (keyed_idx fts 0 (flds c))
  | CP c start post ops _ => VH (fconstruct_run c start post ops) (hashed_idx 0 (flds c)) (keyed_idx fts 0 (flds c))
  end.

Lemma check_case_sound_A c seen : check_case (CA c seen) = true -> seen = outcome_of c.
Proof. cbn. intros H. apply andb_true_iff in H as [H _]. symmetry. now apply outcome_eqb_sound. Qed.

(** ** script-level tie (supplementary): the parsed source text of a real generated
    [__hash__] against [make_hash_script] of the class. *)
Inductive script_case := SC (c : cls) (parsed : hscript).

Definition helem_eqb (a b : helem) : bool :=
  match a, b with
  | HField n, HField m | HKeyed n, HKeyed m => Nat.eqb n m
  | _, _ => false
  end.
Definition hstore_eqb (a b : hstore) : bool :=
  match a, b with
  | StReturn, StReturn | StSetattr, StSetattr | StAssign, StAssign => true
  | _, _ => false
  end.
Definition hscript_eqb (a b : hscript) : bool :=
  Bool.eqb (hs_wrapper_arg a) (hs_wrapper_arg b) && hstore_eqb (hs_store a) (hs_store b)
  && list_eqb helem_eqb (hs_elems a) (hs_elems b).

Definition script_case_ok (k : script_case) : bool :=
  match k with SC c s => hscript_eqb (make_hash_script fts c) s end.
Definition script_model_of (k : script_case) : hscript :=
  match k with SC c _ => make_hash_script fts c end.
