(** * C14 — the decision table read off a concrete namespace.

    [patched] / [slots_class] of the model are what one finds by looking the dunder up
    in the namespace produced by [patch_original_class] / [create_slots_class] of [NS.v]
    from the class's own namespace (own dunders + Python's implicit [__hash__ = None] +
    arbitrarily many other entries) and the builder's writes. *)
From Coq Require Import List Bool.
Import ListNotations.
From Attrs Require Import C14.Model C14.NS.

(** Names: the modelled dunders, or anything else (fields, helpers, other dunders). *)
Inductive name := ND (d : dn) | NO (n : nat).

Definition name_eqb (a b : name) : bool :=
  match a, b with
  | ND x, ND y => dn_eqb x y
  | NO x, NO y => Nat.eqb x y
  | _, _ => false
  end.

Lemma dn_eqb_spec a b : dn_eqb a b = true <-> a = b.
Proof. destruct a, b; cbn; split; intros H; try discriminate; reflexivity. Qed.

Lemma name_eqb_spec a b : name_eqb a b = true <-> a = b.
Proof.
  destruct a as [x|x], b as [y|y]; cbn; try (split; intros H; discriminate).
  - rewrite dn_eqb_spec. split; congruence.
  - rewrite PeanoNat.Nat.eqb_eq. split; congruence.
Qed.

(** Values: classified by provenance ([pU] the user's object, [pG], [pZ] = None, and
    [pX] for the values of other entries, which the model never inspects). *)
Definition nsT := ns name prov.

Definition own_entries (c : cfg) : nsT :=
  flat_map (fun d => if in_cls_dict c d then [(ND d, if mem (c_own c) d then pU else pZ)] else [])
           all_dn.

Definition others_only (m : nsT) : Prop := forall k v, In (k, v) m -> exists n, k = NO n.

(** [cls.__dict__] of the class handed to the decorator. *)
Definition cls_ns (c : cfg) (rest : nsT) : nsT := own_entries c ++ rest.

Definition writes_ns (ws : list (dn * wr)) : nsT := map (fun kw => (ND (fst kw), prov_of_wr (snd kw))) ws.

Definition classify (o : option prov) : prov := match o with Some p => p | None => pA end.

Notation lookupN := (lookup name prov name_eqb).

Lemma lookup_app k (a b0 : nsT) :
  lookupN k (a ++ b0) = match lookupN k a with Some v => Some v | None => lookupN k b0 end.
Proof.
  induction a as [|[k' v'] r IH]; cbn; [reflexivity|].
  destruct (name_eqb k k'); auto.
Qed.

Lemma lookup_others d (rest : nsT) : others_only rest -> lookupN (ND d) rest = None.
Proof.
  induction rest as [|[k v] r IH]; intros H; cbn; [reflexivity|].
  destruct (H k v (or_introl eq_refl)) as [n ->]. cbn. apply IH.
  intros k' v' Hin. apply (H k' v'). right. assumption.
Qed.

Lemma lookup_own_entries_gen c d (l : list dn) :
  lookupN (ND d) (flat_map (fun d => if in_cls_dict c d then [(ND d, if mem (c_own c) d then pU else pZ)] else []) l) =
  if existsb (dn_eqb d) l && in_cls_dict c d then Some (if mem (c_own c) d then pU else pZ) else None.
Proof.
  induction l as [|d' l IH]; cbn [flat_map existsb]; [reflexivity|].
  rewrite lookup_app, IH.
  destruct (dn_eqb d d') eqn:E.
  - apply dn_eqb_spec in E. subst d'. cbn [orb andb].
    destruct (in_cls_dict c d) eqn:I; cbn.
    + assert (dn_eqb d d = true) as -> by (apply dn_eqb_spec; reflexivity). reflexivity.
    + rewrite andb_false_r. reflexivity.
  - cbn [orb]. destruct (in_cls_dict c d'); cbn; rewrite ?E; reflexivity.
Qed.

Lemma lookup_cls_ns c d rest : others_only rest ->
  classify (lookupN (ND d) (cls_ns c rest)) = orig c d.
Proof.
  intros H. unfold cls_ns, own_entries. rewrite lookup_app, lookup_own_entries_gen, (lookup_others d rest H).
  assert (existsb (dn_eqb d) all_dn = true) as -> by (destruct d; reflexivity).
  unfold orig. cbn [andb].
  destruct (in_cls_dict c d) eqn:I; cbn.
  - destruct (mem (c_own c) d); reflexivity.
  - unfold in_cls_dict in I. apply orb_false_iff in I as [-> _]. reflexivity.
Qed.

Lemma last_write_writes_ns d ws :
  last_write name prov name_eqb (ND d) (writes_ns ws) = option_map prov_of_wr (assoc d ws).
Proof.
  induction ws as [|[k w] r IH]; [reflexivity|].
  unfold writes_ns in *. cbn [map last_write fst snd assoc]. rewrite IH.
  destruct (assoc d r); cbn; [reflexivity|].
  destruct (dn_eqb d k); reflexivity.
Qed.

(** Dict classes: the model's [patched] is the lookup in the patched namespace — for any
    number of other entries and any field names. *)
Theorem patched_is_lookup_l : forall c ws rest fields d,
  others_only rest -> (forall f, In f fields -> exists n, f = NO n) ->
  classify (lookupN (ND d) (patch_original_class name prov name_eqb (cls_ns c rest) fields (writes_ns ws)))
  = patched c ws d.
Proof.
  intros c ws rest fields d Hr Hf. unfold patch_original_class, patched.
  rewrite (lookup_update name prov name_eqb name_eqb_spec), last_write_writes_ns.
  destruct (assoc d ws) as [w|]; cbn; [reflexivity|].
  rewrite (lookup_delitems_other name prov name_eqb name_eqb_spec).
  - apply lookup_cls_ns. assumption.
  - intros Hin. destruct (Hf _ Hin) as [n Hn]. discriminate.
Qed.

(** The user's other entries survive [attr.s] / [define] on a dict class. *)
Theorem other_entries_survive_dict_l : forall c ws rest fields n,
  ~ In (NO n) fields ->
  lookupN (NO n) (patch_original_class name prov name_eqb (cls_ns c rest) fields (writes_ns ws))
  = lookupN (NO n) (cls_ns c rest).
Proof.
  intros c ws rest fields n Hf.
  apply (patch_frame_l name prov name_eqb name_eqb_spec); [assumption|].
  unfold keys, writes_ns. rewrite map_map. intros Hin. apply in_map_iff in Hin as (x & Hx & _). discriminate.
Qed.

(** ** Slotted classes. *)

Definition has (k : name) (m : nsT) : bool := match lookupN k m with Some _ => true | None => false end.

(** CPython's [type()], as far as the modelled names are concerned. *)
Definition py_type_hash (m : nsT) : nsT :=
  if has (ND De) m && negb (has (ND Dh) m) then setitem name prov name_eqb (ND Dh) pZ m else m.

Lemma lookup_cls_ns_opt c d rest : others_only rest ->
  lookupN (ND d) (cls_ns c rest) =
  if in_cls_dict c d then Some (if mem (c_own c) d then pU else pZ) else None.
Proof.
  intros H. unfold cls_ns, own_entries. rewrite lookup_app, lookup_own_entries_gen, (lookup_others d rest H).
  assert (existsb (dn_eqb d) all_dn = true) as -> by (destruct d; reflexivity).
  cbn [andb]. destruct (in_cls_dict c d); reflexivity.
Qed.

Definition keeps_dunders (drop : name * prov -> bool) : Prop := forall d v, drop (ND d, v) = false.

Lemma inner_lookup c ws rest drop extra d :
  others_only rest -> others_only extra -> keeps_dunders drop ->
  lookupN (ND d)
    (update name prov name_eqb extra
       (filter (fun kv => negb (drop kv)) (update name prov name_eqb (writes_ns ws) (cls_ns c rest)))) =
  match assoc d ws with
  | Some w => Some (prov_of_wr w)
  | None => if in_cls_dict c d then Some (if mem (c_own c) d then pU else pZ) else None
  end.
Proof.
  intros Hr He Hd.
  rewrite (lookup_update name prov name_eqb name_eqb_spec).
  rewrite (last_write_notin name prov name_eqb name_eqb_spec).
  2:{ intros Hin. apply in_map_iff in Hin as ([k v] & Hk & Hin). cbn in Hk. subst k.
      destruct (He _ _ Hin) as [n Hn]. discriminate. }
  set (inner := update name prov name_eqb (writes_ns ws) (cls_ns c rest)).
  assert (lookupN (ND d) inner =
          match assoc d ws with
          | Some w => Some (prov_of_wr w)
          | None => if in_cls_dict c d then Some (if mem (c_own c) d then pU else pZ) else None
          end) as Hi.
  { unfold inner. rewrite (lookup_update name prov name_eqb name_eqb_spec), last_write_writes_ns.
    destruct (assoc d ws); cbn; [reflexivity|]. apply lookup_cls_ns_opt. assumption. }
  rewrite <- Hi. destruct (lookupN (ND d) inner) as [v|] eqn:E.
  - apply (lookup_filter_keep name prov name_eqb name_eqb_spec); [assumption|]. rewrite Hd. reflexivity.
  - apply lookup_filter_none. assumption.
Qed.

(** The model's [slots_class] is the lookup in the namespace of the re-created class. *)
Theorem slots_class_is_lookup_l : forall c ws rest drop extra d,
  others_only rest -> others_only extra -> keeps_dunders drop ->
  classify (lookupN (ND d)
    (create_slots_class name prov name_eqb py_type_hash (cls_ns c rest) drop (writes_ns ws) extra))
  = slots_class c ws d.
Proof.
  intros c ws rest drop extra d Hr He Hd.
  pose proof (fun d => inner_lookup c ws rest drop extra d Hr He Hd) as IL.
  unfold create_slots_class, py_type_hash, has, slots_class, patched, orig.
  rewrite !IL.
  set (m := update name prov name_eqb extra _).
  destruct (dn_eqb d Dh) eqn:EH.
  - apply dn_eqb_spec in EH. subst d. cbn [andb].
    destruct (assoc Dh ws) as [wh|] eqn:AH, (assoc De ws) as [we|] eqn:AE,
             (in_cls_dict c Dh) eqn:IH, (in_cls_dict c De) eqn:IE;
      cbn [andb orb negb];
      rewrite ?(lookup_setitem_same name prov name_eqb name_eqb_spec);
      unfold m; rewrite ?IL;
      rewrite ?AH, ?AE, ?IH, ?IE; try reflexivity;
      destruct (mem (c_own c) Dh) eqn:MH; try reflexivity;
      unfold in_cls_dict in IH; rewrite MH in IH; discriminate.
  - cbn [andb].
    assert (ND d <> ND Dh) as Hne.
    { intros Hq. inversion Hq; subst d. cbn in EH. discriminate. }
    match goal with |- context [lookupN (ND d) (if ?b then _ else _)] => destruct b end;
      rewrite ?(lookup_setitem_other name prov name_eqb name_eqb_spec _ _ _ _ Hne);
    (unfold m; rewrite IL;
     destruct (assoc d ws); [reflexivity|];
     destruct (in_cls_dict c d) eqn:I; cbn; [destruct (mem (c_own c) d); reflexivity|];
     unfold in_cls_dict in I; apply orb_false_iff in I as [-> _]; reflexivity).
Qed.
