(** * C14 — corollaries of the decision table. *)
From Coq Require Import List Bool String.
Import ListNotations.
From Attrs Require Import C14.Model C14.Factor.

Definition no_error (c : cfg) : Prop := spec_error c = None.

Lemma prov_at_decide c d : no_error c -> prov_at (decide c) d = Some (spec_found c d).
Proof.
  unfold no_error. intros H. rewrite decision_table_l. unfold spec. rewrite H.
  destruct d; reflexivity.
Qed.

Lemma decide_error_iff c e : decide c = RErr e <-> spec_error c = Some e.
Proof.
  rewrite decision_table_l. unfold spec. destruct (spec_error c) as [e'|]; split; intros H;
  try discriminate; congruence.
Qed.

Lemma decide_ok_iff c : (exists ps, decide c = ROk ps) <-> no_error c.
Proof.
  unfold no_error. rewrite decision_table_l. unfold spec.
  destruct (spec_error c); split; intros H; try discriminate; eauto.
  destruct H as [ps H]; discriminate.
Qed.

(** ** 4. Corollaries. *)

(** What "not touched by attrs" looks like for a name: the user's object when the body
    defines it; otherwise nothing of its own (inherited / absent), except that Python
    puts [__hash__ = None] next to an [__eq__] in the namespace. *)
Definition untouched (c : cfg) (d : dn) : prov :=
  if body_defines c d then pU
  else match d with
       | Dh => if body_defines c De then pZ else if slots c && generate c GEq then pZ else pA
       | _ => pA
       end.

Definition group_generated (c : cfg) (g : group) : Prop :=
  forall d, In d (members g) -> prov_at (decide c) d = Some pG.
Definition group_untouched (c : cfg) (g : group) : Prop :=
  forall d, In d (members g) -> prov_at (decide c) d = Some (untouched c d).

Ltac members_cases H :=
  cbn [members In] in H;
  repeat match type of H with _ \/ _ => destruct H as [H|H] | False => destruct H end; try subst.

Lemma generate_true c g : no_error c -> g <> GHash -> generate c g = true -> group_generated c g.
Proof.
  intros Hn Hg H d Hd. rewrite (prov_at_decide c d Hn). f_equal.
  unfold spec_found. destruct g; try congruence; members_cases Hd; cbn [spec_written]; rewrite H; reflexivity.
Qed.

Lemma generate_false c g : no_error c -> g <> GHash -> generate c g = false -> group_untouched c g.
Proof.
  intros Hn Hg H d Hd. rewrite (prov_at_decide c d Hn). f_equal.
  unfold spec_found, untouched. destruct g; try congruence; members_cases Hd; cbn [spec_written]; rewrite H; reflexivity.
Qed.

Lemma generated_untouched_exclusive c g : group_generated c g -> group_untouched c g -> False.
Proof.
  intros H1 H2.
  assert (exists d, In d (members g)) as [d Hd] by (destruct g; cbn; eauto).
  specialize (H1 d Hd). specialize (H2 d Hd). rewrite H1 in H2. inversion H2 as [H3].
  unfold untouched in H3. destruct (body_defines c d); try discriminate.
  destruct d; try discriminate. destruct (body_defines c De); try discriminate.
  destruct (slots c && generate c GEq); discriminate.
Qed.

(** An explicit True / False is obeyed (after the documented aliasing of [cmp],
    [unsafe_hash] and a mirrored [order]).  For hash see [hash_flag_obeyed_l]. *)
Theorem flag_obeyed_l : forall c g, no_error c -> g <> GHash ->
  (explicit_flag c g = tT -> group_generated c g) /\
  (explicit_flag c g = tF -> group_untouched c g).
Proof.
  intros c g Hn Hg. split; intros H.
  - apply generate_true; auto. unfold generate. rewrite H. reflexivity.
  - apply generate_false; auto. unfold generate. rewrite H. reflexivity.
Qed.

Theorem hash_flag_obeyed_l : forall c, no_error c ->
  (explicit_flag c GHash = tT -> prov_at (decide c) Dh = Some pG) /\
  (explicit_flag c GHash = tF -> prov_at (decide c) Dh = Some (untouched c Dh)).
Proof.
  intros c Hn. rewrite (prov_at_decide c Dh Hn). unfold spec_found, untouched, spec_written, spec_hash.
  split; intros ->; reflexivity.
Qed.

(** The raw keyword arguments and the flag of their group. *)
Lemma raw_flags c :
  explicit_flag c GInit = c_init c /\ explicit_flag c GRepr = c_repr c /\
  explicit_flag c GPickle = c_gs c /\
  (c_cmp c = tN -> explicit_flag c GEq = c_eq c) /\
  (c_cmp c <> tN -> explicit_flag c GEq = c_cmp c /\ explicit_flag c GOrder = c_cmp c) /\
  (c_cmp c = tN -> forall o, c_order c = Some o -> o <> tN -> explicit_flag c GOrder = o) /\
  (c_uhash c <> tN -> explicit_flag c GHash = c_uhash c) /\
  (c_uhash c = tN -> explicit_flag c GHash = c_hash c) /\
  (c_ma c = Some false -> explicit_flag c GMatch = tF).
Proof.
  destruct c as [a ad sl fr ini rp st cmp eq ord h uh gs ma own inh bk]; cbn.
  repeat match goal with |- _ /\ _ => split end; try reflexivity.
  - intros ->; reflexivity.
  - intros H; destruct cmp; try (split; reflexivity); congruence.
  - intros -> o -> Ho. destruct o; try reflexivity; congruence.
  - intros H; destruct uh; try reflexivity; congruence.
  - intros ->; reflexivity.
  - intros ->. reflexivity.
Qed.

(** Without an explicit flag and with auto-detection, the group is skipped iff the
    class body defines one of its methods — whichever subset; otherwise the default. *)
Theorem auto_detect_iff_own_l : forall c g, no_error c -> g <> GHash ->
  explicit_flag c g = tN -> detects c g = true ->
  (existsb (body_defines c) (members g) = true -> group_untouched c g) /\
  (existsb (body_defines c) (members g) = false ->
     if documented_default c g then group_generated c g else group_untouched c g).
Proof.
  intros c g Hn Hg Hf Hd.
  assert (existsb (class_defines c) (members g) = existsb (body_defines c) (members g)) as He.
  { destruct g; try congruence; cbn; unfold class_defines; rewrite ?orb_false_r; reflexivity. }
  split; intros H.
  - apply generate_false; auto. unfold generate. rewrite Hf, Hd, He, H. reflexivity.
  - assert (generate c g = documented_default c g) as Hg2.
    { unfold generate. rewrite Hf, Hd, He, H. reflexivity. }
    destruct (documented_default c g).
    + apply generate_true; auto.
    + apply generate_false; auto.
Qed.

Corollary auto_detect_iff : forall c g, no_error c -> g <> GHash ->
  explicit_flag c g = tN -> detects c g = true -> documented_default c g = true ->
  (group_untouched c g <-> exists d, In d (members g) /\ body_defines c d = true).
Proof.
  intros c g Hn Hg Hf Hd Hdef.
  destruct (auto_detect_iff_own_l c g Hn Hg Hf Hd) as [H1 H2]. rewrite Hdef in H2.
  rewrite <- existsb_exists. split.
  - intros Hu. destruct (existsb (body_defines c) (members g)) eqn:E; [reflexivity|].
    exfalso. eapply generated_untouched_exclusive; eauto.
  - exact H1.
Qed.

(** Without auto-detection and without a flag the default applies, whatever the body defines. *)
Theorem no_auto_detect_default_l : forall c g, no_error c -> g <> GHash ->
  explicit_flag c g = tN -> detects c g = false ->
  if documented_default c g then group_generated c g else group_untouched c g.
Proof.
  intros c g Hn Hg Hf Hd.
  assert (generate c g = documented_default c g) as Hg2.
  { unfold generate. rewrite Hf, Hd. reflexivity. }
  destruct (documented_default c g); [apply generate_true | apply generate_false]; auto.
Qed.

(** Hash: the documented table (C04 interpretation (v)), with "own" = in the class's
    namespace as Python built it. *)
Theorem hash_table_l : forall c, no_error c -> explicit_flag c GHash = tN ->
  prov_at (decide c) Dh = Some
    (if auto_detect c && class_defines c Dh then untouched c Dh
     else if negb (generate c GEq) then untouched c Dh
     else if effectively_frozen c then pG else pZ).
Proof.
  intros c Hn Hf. rewrite (prov_at_decide c Dh Hn). f_equal.
  unfold spec_found, untouched, spec_written, spec_hash. rewrite Hf.
  destruct (auto_detect c && class_defines c Dh), (negb (generate c GEq)), (effectively_frozen c); reflexivity.
Qed.

(** Methods defined by a base class never influence any decision. *)
Definition with_inh (c : cfg) (inh : dset) : cfg :=
  C (c_api c) (c_ad c) (c_slots c) (c_frozen c) (c_init c) (c_repr c) (c_str c) (c_cmp c)
    (c_eq c) (c_order c) (c_hash c) (c_uhash c) (c_gs c) (c_ma c) (c_own c) inh (c_base c).

Theorem inherited_methods_irrelevant_l : forall c inh, decide (with_inh c inh) = decide c.
Proof. intros [a ad sl fr ini rp st cmp eq ord h uh gs ma own inh0 bk] inh. reflexivity. Qed.

(** Defaults. *)
Theorem defaults_l : forall c,
  (c_api c = AttrS -> c_cmp c = tN -> (c_order c = None \/ c_order c = Some tN) ->
     explicit_flag c GOrder = explicit_flag c GEq) /\
  (c_api c = Define -> c_cmp c = tN -> c_order c = None -> explicit_flag c GOrder = tF) /\
  (c_api c = Define -> c_cmp c = tN -> c_order c = Some tN ->
     explicit_flag c GOrder = explicit_flag c GEq) /\
  documented_default c GPickle =
    (slots c || (base_generated_pair (c_base c) && negb (class_defines c Dg))) /\
  (c_base c = BPlain -> documented_default c GPickle = slots c) /\
  (c_str c = None -> str_arg c = false) /\
  (c_ad c = None -> auto_detect c = match c_api c with AttrS => false | Define => true end) /\
  (c_slots c = None -> slots c = match c_api c with AttrS => false | Define => true end) /\
  (c_ma c = None -> match_args c = true).
Proof.
  intros [a ad sl fr ini rp st cmp eq ord h uh gs ma own inh bk]; cbn.
  repeat match goal with |- _ /\ _ => split end; try reflexivity.
  - intros -> -> [-> | ->]; reflexivity.
  - intros -> -> ->; reflexivity.
  - intros -> -> ->; reflexivity.
  - intros ->. cbn. rewrite orb_false_r. reflexivity.
  - intros ->; destruct a; reflexivity.
  - intros ->; destruct a; reflexivity.
  - intros ->; destruct a; reflexivity.
  - intros ->; destruct a; reflexivity.
Qed.

Theorem order_off_under_define_l : forall c, no_error c ->
  c_api c = Define -> c_order c = None -> group_untouched c GOrder.
Proof.
  intros c Hn Ha Ho. apply (proj2 (flag_obeyed_l c GOrder Hn ltac:(discriminate))).
  unfold no_error, spec_error in Hn. unfold explicit_flag. rewrite Ha, Ho.
  rewrite Ha in Hn. destruct (c_cmp c); try discriminate; reflexivity.
Qed.

Theorem pickling_follows_slots_l : forall c, no_error c -> c_gs c = tN ->
  auto_detect c && existsb (body_defines c) [Dg; Dst] = false ->
  if slots c || (base_generated_pair (c_base c) && negb (body_defines c Dg))
  then group_generated c GPickle else group_untouched c GPickle.
Proof.
  intros c Hn Hf H.
  assert (generate c GPickle = slots c || (base_generated_pair (c_base c) && negb (body_defines c Dg))) as Hg.
  { unfold generate, explicit_flag, detects, documented_default. rewrite Hf.
    replace (existsb (class_defines c) (members GPickle)) with (existsb (body_defines c) [Dg; Dst])
      by (cbn; unfold class_defines; rewrite ?orb_false_r; reflexivity).
    rewrite H. unfold class_defines. rewrite orb_false_r. reflexivity. }
  destruct (slots c || _); [apply generate_true | apply generate_false]; auto; discriminate.
Qed.

Definition no_own_ : dset := DS false false false false false false false false false false false false false false false.

(** The base class.  Replacing the base by another one changes nothing, except that an
    inherited attrs-GENERATED pickling pair raises the default of the pickling group —
    never against an explicit flag, never against an auto-detected own method, and never
    for any other name. *)
Definition with_base (c : cfg) (b : basek) : cfg :=
  C (c_api c) (c_ad c) (c_slots c) (c_frozen c) (c_init c) (c_repr c) (c_str c) (c_cmp c)
    (c_eq c) (c_order c) (c_hash c) (c_uhash c) (c_gs c) (c_ma c) (c_own c) (c_inh c) b.

Theorem base_kind_irrelevant_l : forall c b,
  base_generated_pair b = base_generated_pair (c_base c) ->
  base_frozen b = base_frozen (c_base c) -> decide (with_base c b) = decide c.
Proof.
  intros [a ad sl fr ini rp st cmp eq ord h uh gs ma own inh bk] b H HF.
  set (c1 := C a ad sl fr ini rp st cmp eq ord h uh gs ma own inh b).
  set (c0 := C a ad sl fr ini rp st cmp eq ord h uh gs ma own inh bk).
  change (with_base c0 b) with c1. change (c_base c0) with bk in H, HF.
  assert (forall g, generate c1 g = generate c0 g) as G.
  { intros g. unfold generate, documented_default.
    change (c_base c1) with b. change (c_base c0) with bk. rewrite H. reflexivity. }
  assert (effectively_frozen c1 = effectively_frozen c0) as Z.
  { unfold effectively_frozen. change (c_base c1) with b. change (c_base c0) with bk. rewrite HF. reflexivity. }
  rewrite !decision_table_l. unfold spec.
  assert (spec_error c1 = spec_error c0) as -> by (unfold spec_error; rewrite (G GRepr), Z; reflexivity).
  destruct (spec_error c0); [reflexivity|].
  f_equal. apply map_ext. intros d. unfold spec_found, spec_written, spec_hash. rewrite !G, !Z. reflexivity.
Qed.

Theorem generated_base_pair_only_default_l : forall c b, no_error c ->
  base_frozen b = base_frozen (c_base c) ->
  (forall d, d <> Dg -> d <> Dst -> prov_at (decide (with_base c b)) d = prov_at (decide c) d) /\
  (c_gs c <> tN \/ auto_detect c && existsb (body_defines c) [Dg; Dst] = true ->
     decide (with_base c b) = decide c).
Proof.
  intros [a ad sl fr ini rp st cmp eq ord h uh gs ma own inh bk] b Hn HF.
  set (c1 := C a ad sl fr ini rp st cmp eq ord h uh gs ma own inh b).
  set (c0 := C a ad sl fr ini rp st cmp eq ord h uh gs ma own inh bk).
  change (c_base c0) with bk in HF.
  assert (forall g, g <> GPickle -> generate c1 g = generate c0 g) as G.
  { intros g Hg. unfold generate, documented_default. destruct g; try congruence; reflexivity. }
  assert (effectively_frozen c1 = effectively_frozen c0) as Z.
  { unfold effectively_frozen. change (c_base c1) with b. change (c_base c0) with bk. rewrite HF. reflexivity. }
  assert (spec_error c1 = spec_error c0) as E.
  { unfold spec_error. rewrite (G GRepr), Z by discriminate. reflexivity. }
  assert (no_error c1) as Hn1 by (unfold no_error; rewrite E; exact Hn).
  split.
  - intros d H1 H2. change (with_base c0 b) with c1.
    rewrite (prov_at_decide c1 d Hn1), (prov_at_decide c0 d Hn). f_equal.
    unfold spec_found, spec_written, spec_hash.
    rewrite !(G GInit), !(G GRepr), !(G GEq), !(G GOrder), !(G GMatch), !Z by discriminate.
    destruct d; try congruence; reflexivity.
  - intros H. change (with_base c0 b) with c1. rewrite !decision_table_l. unfold spec. rewrite E.
    destruct (spec_error c0); [reflexivity|]. f_equal. apply map_ext. intros d.
    assert (generate c1 GPickle = generate c0 GPickle) as GP.
    { unfold generate, explicit_flag, detects. cbn [c_gs c1 c0].
      destruct gs; try reflexivity. destruct H as [H|H]; [exfalso; apply H; reflexivity|].
      replace (existsb (class_defines c1) (members GPickle)) with (existsb (body_defines c0) [Dg; Dst])
        by (cbn; unfold class_defines; rewrite ?orb_false_r; reflexivity).
      replace (existsb (class_defines c0) (members GPickle)) with (existsb (body_defines c0) [Dg; Dst])
        by (cbn; unfold class_defines; rewrite ?orb_false_r; reflexivity).
      change (auto_detect c1) with (auto_detect c0).
      apply andb_true_iff in H as [-> ->]. reflexivity. }
    unfold spec_found, spec_written, spec_hash.
    rewrite !(G GInit), !(G GRepr), !(G GEq), !(G GOrder), !(G GMatch), ?GP, !Z by discriminate.
    reflexivity.
Qed.

(** Frozenness is inherited: below a frozen attrs base the hash default and the frozen
    [__setattr__]/[__delattr__] are those of a class decorated with [frozen=True] — unless
    the body's own [__setattr__] hides the base's. *)
Definition with_frozen (c : cfg) (f : bool) : cfg :=
  C (c_api c) (c_ad c) (c_slots c) f (c_init c) (c_repr c) (c_str c) (c_cmp c)
    (c_eq c) (c_order c) (c_hash c) (c_uhash c) (c_gs c) (c_ma c) (c_own c) (c_inh c) (c_base c).

Theorem frozen_is_inherited_l : forall c,
  base_frozen (c_base c) = true -> body_defines c Dsa = false ->
  decide (with_frozen c false) = decide (with_frozen c true).
Proof.
  intros [a ad sl fr ini rp st cmp eq ord h uh gs ma own inh bk] HB HS.
  set (c1 := C a ad sl false ini rp st cmp eq ord h uh gs ma own inh bk).
  set (c0 := C a ad sl true ini rp st cmp eq ord h uh gs ma own inh bk).
  change (with_frozen _ false) with c1. change (with_frozen _ true) with c0.
  assert (effectively_frozen c1 = effectively_frozen c0) as Z.
  { unfold body_defines in HS. cbn in HB, HS.
    unfold effectively_frozen, class_defines, body_defines, c1, c0. cbn. rewrite HB, HS. reflexivity. }
  rewrite !decision_table_l. unfold spec.
  assert (spec_error c1 = spec_error c0) as -> by (unfold spec_error; rewrite Z; reflexivity).
  destruct (spec_error c0); [reflexivity|].
  f_equal. apply map_ext. intros d. unfold spec_found, spec_written, spec_hash. rewrite !Z. reflexivity.
Qed.

Example ex_frozen_base_hash_generated :
  let c := C AttrS None (Some false) false tN tN None tN tN None tN tN tN None no_own_ no_own_ (BAttrs false false true true) in
  no_error c /\ prov_at (decide c) Dh = Some pG /\ prov_at (decide c) Dsa = Some pG /\
  prov_at (decide (with_base c (BAttrs false false true false))) Dh = Some pZ.
Proof. repeat split; reflexivity. Qed.

(** The rule itself: below a base with a generated pair, without flag and without an
    auto-detected own method, the class gets its own pair unless the body shadows
    [__getstate__] (and the class is not slotted). *)
Example ex_inherited_pair_regenerated :
  let c := C AttrS None (Some false) false tN tN None tN tN None tN tN tN None no_own_ no_own_ (BAttrs true true true false) in
  no_error c /\ prov_at (decide c) Dg = Some pG /\ prov_at (decide c) Dst = Some pG /\
  prov_at (decide (with_base c BPlain)) Dg = Some pA.
Proof. repeat split; reflexivity. Qed.

Example ex_inherited_pair_flag_false_wins :
  let c := C AttrS None (Some false) false tN tN None tN tN None tN tN tF None no_own_ no_own_ (BAttrs true true true false) in
  no_error c /\ prov_at (decide c) Dg = Some pA /\ prov_at (decide c) Dst = Some pA.
Proof. repeat split; reflexivity. Qed.

Example ex_inherited_pair_own_setstate_wins :
  let c := C Define None (Some false) false tN tN None tN tN None tN tN tN None
             (DS false false false false false false false false false false false true false false false)
             no_own_ (BAttrs true true true false) in
  no_error c /\ prov_at (decide c) Dg = Some pA /\ prov_at (decide c) Dst = Some pU.
Proof. repeat split; reflexivity. Qed.

Theorem str_off_l : forall c, no_error c ->
  prov_at (decide c) Ds = Some (if str_arg c then pG else untouched c Ds).
Proof.
  intros c Hn. rewrite (prov_at_decide c Ds Hn). unfold spec_found, untouched, spec_written.
  destruct (str_arg c); reflexivity.
Qed.

(** When no [__init__] is generated, [__attrs_init__] is — and only then. *)
Theorem attrs_init_iff_no_init_l : forall c, no_error c ->
  (prov_at (decide c) Di = Some pG /\ prov_at (decide c) Da = Some pA) \/
  (prov_at (decide c) Di = Some (untouched c Di) /\ prov_at (decide c) Da = Some pG).
Proof.
  intros c Hn. rewrite !(prov_at_decide c _ Hn). unfold spec_found, untouched, spec_written, body_defines.
  cbn [mem]. destruct (generate c GInit); [left | right]; split; reflexivity.
Qed.

(** ** 5. User methods are preserved. *)

(** Was attrs told to produce name [d]?  By an explicit True for its group, or by the
    documented default when the class namespace is not consulted (auto_detect off);
    [str=True]; [frozen=True] for [__setattr__]/[__delattr__]; never for an own
    [__match_args__]. *)
Definition group_of (d : dn) : option group :=
  match d with
  | Di => Some GInit | Dr => Some GRepr | De | Dne => Some GEq
  | Dlt | Dle | Dgt | Dge => Some GOrder | Dh => Some GHash | Dg | Dst => Some GPickle
  | Dm => Some GMatch | Da | Ds | Dsa | Dda => None
  end.

Definition told (c : cfg) (d : dn) : bool :=
  match d with
  | Ds => str_arg c
  | Dsa | Dda => effectively_frozen c
  | Da => true
  | Dm => false
  | _ => match group_of d with
         | Some g => match explicit_flag c g with
                     | tT => true | tF => false | tN => negb (auto_detect c)
                     end
         | None => false
         end
  end.

Theorem user_methods_preserved_l : forall c d, no_error c ->
  body_defines c d = true -> told c d = false -> prov_at (decide c) d = Some pU.
Proof.
  intros c d Hn Hb Ht. rewrite (prov_at_decide c d Hn). f_equal.
  unfold spec_found.
  assert (spec_written c d = None) as ->; [| rewrite Hb; reflexivity].
  assert (class_defines c d = true) as Hc by (unfold class_defines; rewrite Hb; reflexivity).
  unfold body_defines in Hb.
  destruct d; cbn [told group_of] in Ht; cbn [spec_written]; try discriminate;
  unfold spec_hash, generate, detects;
  try (destruct (explicit_flag c _); try discriminate;
       try (apply negb_false_iff in Ht; rewrite Ht); cbn [members existsb]; rewrite ?Hc, ?orb_true_r;
       cbn [andb orb]; reflexivity);
  try (rewrite Ht; reflexivity).
  - (* __match_args__ *)
    cbn [members existsb]. rewrite Hc. destruct (explicit_flag c GMatch) eqn:E; try reflexivity.
    revert E. unfold explicit_flag. destruct (match_args c); discriminate.
Qed.

(** And attrs never removes: a name the body defines is found on the class either as
    the user's object or, when attrs was told to, replaced by the generated one
    ([__hash__]: possibly by [None]) — never absent. *)
Theorem never_removed_l : forall c d, no_error c -> body_defines c d = true ->
  prov_at (decide c) d = Some pU \/
  (told c d = true /\ (prov_at (decide c) d = Some pG \/ (d = Dh /\ prov_at (decide c) d = Some pZ))).
Proof.
  intros c d Hn Hb. destruct (told c d) eqn:Ht.
  - rewrite (prov_at_decide c d Hn). unfold spec_found. rewrite Hb.
    destruct (spec_written c d) as [p|] eqn:E; [|left; reflexivity].
    right. split; [reflexivity|].
    destruct d; cbn [spec_written] in E;
    repeat match type of E with
           | (if ?b then _ else _) = _ => destruct b
           | match spec_hash ?c with _ => _ end = _ => destruct (spec_hash c)
           end; inversion E; subst; auto.
  - left. apply user_methods_preserved_l; assumption.
Qed.

(** ** 6. Non-vacuity witnesses and a refuted literal reading. *)

Definition no_own : dset := DS false false false false false false false false false false false false false false false.
Definition bare (a : api) (own : dset) : cfg :=
  C a None None false tN tN None tN tN None tN tN tN None own no_own BPlain.

(** [@define] on a body defining [__eq__] only: eq+ne skipped, the user's [__eq__] kept,
    Python's [__hash__ = None] kept, everything else generated, order off. *)
Example ex_define_own_eq :
  let c := bare Define (DS false false false true false false false false false false false false false false false) in
  no_error c /\ decide c = ROk [pG; pA; pG; pA; pU; pA; pA; pA; pA; pA; pZ; pG; pG; pG; pA; pA].
Proof. split; reflexivity. Qed.

(** [@attr.s] on the same body: no auto-detection, the default replaces [__eq__], adds order. *)
Example ex_attrs_own_eq :
  let c := bare AttrS (DS false false false true false false false false false false false false false false false) in
  no_error c /\ told c De = true /\
  decide c = ROk [pG; pA; pG; pA; pG; pG; pG; pG; pG; pG; pZ; pA; pA; pG; pA; pA].
Proof. repeat split; reflexivity. Qed.

(** explicit True replaces (flag obeyed), explicit False keeps. *)
Example ex_flag_true_replaces :
  let c := C Define None None false tN tT None tN tN None tN tN tN None
             (DS false true false false false false false false false false false false false false false) no_own BPlain in
  no_error c /\ explicit_flag c GRepr = tT /\ prov_at (decide c) Dr = Some pG.
Proof. repeat split; reflexivity. Qed.

Example ex_flag_false_keeps :
  let c := C AttrS None None false tF tN None tN tN None tN tN tN None
             (DS true false false false false false false false false false false false false false false) no_own BPlain in
  no_error c /\ explicit_flag c GInit = tF /\ told c Di = false /\
  prov_at (decide c) Di = Some pU /\ prov_at (decide c) Da = Some pG.
Proof. repeat split; reflexivity. Qed.

(** the four definition-time rejections are reachable *)
Example ex_errors :
  decide (C Define None None false tN tN None tT tN None tN tN tN None no_own no_own BPlain) = RErr EType /\
  decide (C AttrS None None false tN tN None tT tT None tN tN tN None no_own no_own BPlain) = RErr EValue /\
  decide (C AttrS None None false tN tN None tN tF (Some tT) tN tN tN None no_own no_own BPlain) = RErr EValue /\
  decide (C Define None None true tN tN None tN tN None tN tN tN None
            (DS false false false false false false false false false false false false false true false) no_own BPlain) = RErr EValue /\
  decide (C AttrS None None false tN tF (Some true) tN tN None tN tN tN None no_own no_own BPlain) = RErr EValue.
Proof. repeat split; reflexivity. Qed.

(** Reading "defined in the class body" literally for [__hash__] is refuted by the
    faithful model: frozen + explicit [eq=True] + a body-defined [__eq__] and no
    [__hash__] under auto-detection.  The table's default (eq and frozen => generated)
    would give [pG]; the class keeps Python's implicit [__hash__ = None], because
    [_has_own_attribute(cls, "__hash__")] sees it.  (docs/C14.md, interpretation (vi).) *)
Theorem literal_body_reading_of_hash_refuted_l :
  exists c, no_error c /\ explicit_flag c GHash = tN /\ auto_detect c = true /\
            body_defines c Dh = false /\ generate c GEq = true /\ c_frozen c = true /\
            prov_at (decide c) Dh = Some pZ.
Proof.
  exists (C Define None (Some false) true tN tN None tN tT None tN tN tN None
            (DS false false false true false false false false false false false false false false false) no_own BPlain).
  repeat split; reflexivity.
Qed.

(** ** 7. [__attrs_init__] is produced by the very same script generator call as
    [__init__] would have been: same class, fields, hooks, frozen/slots/cache_hash,
    base-attribute map, exception-ness and on_setattr — only the function's name differs. *)
Theorem attrs_init_same_generator_call_l :
  ic_args add_attrs_init_call = ic_args add_init_call /\
  ic_attrs_init add_attrs_init_call = true /\ ic_attrs_init add_init_call = false /\
  In "self._is_exc"%string (ic_args add_attrs_init_call) /\
  In "self._cache_hash"%string (ic_args add_attrs_init_call) /\
  In "self._has_pre_init"%string (ic_args add_attrs_init_call) /\
  In "self._has_post_init"%string (ic_args add_attrs_init_call).
Proof. cbn. repeat split; auto 15. Qed.
