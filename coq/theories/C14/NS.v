(** * C14 — the class namespace: [_patch_original_class] and [_create_slots_class]
    leave every entry alone that attrs did not write (frame theorems, for namespaces
    of any size and any key / value types). *)
From Coq Require Import List Bool.
Import ListNotations.

Section NS.
  Variables (K V : Type) (keqb : K -> K -> bool).
  Hypothesis keqb_spec : forall a b, keqb a b = true <-> a = b.

  (** A namespace ([cls.__dict__], the builder's [_cls_dict]) in insertion order. *)
  Definition ns := list (K * V).

  Fixpoint lookup (k : K) (m : ns) : option V :=
    match m with
    | [] => None
    | (k', v) :: r => if keqb k k' then Some v else lookup k r
    end.

  (** [m[k] = v] / [setattr(cls, k, v)] *)
  Fixpoint setitem (k : K) (v : V) (m : ns) : ns :=
    match m with
    | [] => [(k, v)]
    | (k', v') :: r => if keqb k k' then (k, v) :: r else (k', v') :: setitem k v r
    end.

  (** [delattr(cls, k)] *)
  Definition delitem (k : K) (m : ns) : ns := filter (fun kv => negb (keqb k (fst kv))) m.

  (** [for name, value in ws.items(): setattr(cls, name, value)] / [dict.update] *)
  Definition update (ws m : ns) : ns := fold_left (fun acc kv => setitem (fst kv) (snd kv) acc) ws m.

  Definition inb (k : K) (l : list K) : bool := existsb (keqb k) l.
  Definition keys (m : ns) : list K := map fst m.

  (** [_patch_original_class]: the field definitions are deleted from the class, then
      the accumulated [_cls_dict] is attached by [setattr]. *)
  Definition patch_original_class (cls : ns) (fields : list K) (cls_dict : ns) : ns :=
    update cls_dict (fold_left (fun acc f => delitem f acc) fields cls).

  (** [_create_slots_class]: [_cls_dict] started as a copy of [cls.__dict__] and received
      the generated names; entries for which [drop] holds (field names, [__dict__],
      [__weakref__], cached properties) are filtered out; [extra] ([__slots__],
      [__qualname__], [__attrs_own_setattr__], re-used slot descriptors, the cached-property
      [__getattr__]) is added and the result goes through [type()]. *)
  Variable py_type : ns -> ns.
  Variable py_reserved : list K.
  (** CPython's [type()] adds or changes only a fixed set of names ([__hash__], [__dict__],
      [__weakref__], [__doc__], [__module__], the slot descriptors). *)
  Hypothesis py_type_frame : forall m k, inb k py_reserved = false -> lookup k (py_type m) = lookup k m.

  Definition create_slots_class (cls : ns) (drop : K * V -> bool) (cls_dict extra : ns) : ns :=
    py_type (update extra (filter (fun kv => negb (drop kv)) (update cls_dict cls))).

  Lemma keqb_refl k : keqb k k = true.
  Proof. apply keqb_spec. reflexivity. Qed.

  Lemma keqb_false a b : a <> b -> keqb a b = false.
  Proof. intros H. destruct (keqb a b) eqn:E; [apply keqb_spec in E; contradiction | reflexivity]. Qed.

  Lemma inb_false_notin k l : inb k l = false <-> ~ In k l.
  Proof.
    unfold inb. split.
    - intros H Hin. assert (existsb (keqb k) l = true) as H2.
      { apply existsb_exists. exists k. split; [assumption | apply keqb_refl]. }
      congruence.
    - intros H. destruct (existsb (keqb k) l) eqn:E; [|reflexivity].
      apply existsb_exists in E as (x & Hx & Hk). apply keqb_spec in Hk. subst. contradiction.
  Qed.

  Lemma lookup_setitem_same k v m : lookup k (setitem k v m) = Some v.
  Proof.
    induction m as [|[k' v'] r IH]; cbn.
    - rewrite keqb_refl. reflexivity.
    - destruct (keqb k k') eqn:E; cbn; rewrite ?keqb_refl, ?E; auto.
  Qed.

  Lemma lookup_setitem_other k k' v m : k <> k' -> lookup k (setitem k' v m) = lookup k m.
  Proof.
    intros Hne. induction m as [|[k2 v2] r IH]; cbn.
    - rewrite (keqb_false _ _ Hne). reflexivity.
    - destruct (keqb k' k2) eqn:E; cbn.
      + apply keqb_spec in E. subst k2. rewrite (keqb_false _ _ Hne). reflexivity.
      + destruct (keqb k k2); auto.
  Qed.

  (** The last write of a name wins; names not written keep their entry. *)
  Fixpoint last_write (k : K) (ws : ns) : option V :=
    match ws with
    | [] => None
    | (k', v) :: r => match last_write k r with Some v' => Some v' | None => if keqb k k' then Some v else None end
    end.

  Lemma lookup_update k ws : forall m,
    lookup k (update ws m) = match last_write k ws with Some v => Some v | None => lookup k m end.
  Proof.
    unfold update. induction ws as [|[k' v'] r IH]; intros m; cbn; [reflexivity|].
    rewrite IH. destruct (last_write k r); [reflexivity|].
    destruct (keqb k k') eqn:E.
    - apply keqb_spec in E. subst. apply lookup_setitem_same.
    - apply lookup_setitem_other. intros ->. rewrite keqb_refl in E. discriminate.
  Qed.

  Lemma last_write_notin k ws : ~ In k (keys ws) -> last_write k ws = None.
  Proof.
    induction ws as [|[k' v'] r IH]; cbn; intros H; [reflexivity|].
    rewrite IH by tauto. rewrite keqb_false; [reflexivity | intros ->; tauto].
  Qed.

  Lemma lookup_filter_keep (p : K * V -> bool) k v : forall m,
    lookup k m = Some v -> p (k, v) = true -> lookup k (filter p m) = Some v.
  Proof.
    induction m as [|[k' v'] r IH]; cbn; intros H Hp; [discriminate|].
    destruct (keqb k k') eqn:E.
    - apply keqb_spec in E. subst k'. inversion H; subst v'. rewrite Hp. cbn. rewrite keqb_refl. reflexivity.
    - destruct (p (k', v')); cbn; rewrite ?E; auto.
  Qed.

  Lemma lookup_filter_none (p : K * V -> bool) k : forall m,
    lookup k m = None -> lookup k (filter p m) = None.
  Proof.
    induction m as [|[k' v'] r IH]; cbn; intros H; [reflexivity|].
    destruct (keqb k k') eqn:E; [discriminate|].
    destruct (p (k', v')); cbn; rewrite ?E; auto.
  Qed.

  Lemma lookup_delitem_other k f m : k <> f -> lookup k (delitem f m) = lookup k m.
  Proof.
    intros Hne. unfold delitem. destruct (lookup k m) as [v|] eqn:E.
    - apply lookup_filter_keep; [assumption|]. cbn. rewrite keqb_false; auto.
    - apply lookup_filter_none. assumption.
  Qed.

  Lemma lookup_delitems_other k fields : forall m, ~ In k fields ->
    lookup k (fold_left (fun acc f => delitem f acc) fields m) = lookup k m.
  Proof.
    induction fields as [|f r IH]; intros m H; cbn; [reflexivity|].
    rewrite IH by (cbn in H; tauto). apply lookup_delitem_other. cbn in H. intros ->. tauto.
  Qed.

  (** Dict classes: whatever attrs did not write and is not a field definition is, after
      decoration, exactly what it was before (same entry, or still absent). *)
  Theorem patch_frame_l : forall cls fields cls_dict k,
    ~ In k fields -> ~ In k (keys cls_dict) ->
    lookup k (patch_original_class cls fields cls_dict) = lookup k cls.
  Proof.
    intros cls fields cls_dict k Hf Hw. unfold patch_original_class.
    rewrite lookup_update, (last_write_notin _ _ Hw). apply lookup_delitems_other. assumption.
  Qed.

  (** ... and what attrs wrote is what is found. *)
  Theorem patch_written_l : forall cls fields cls_dict k v,
    last_write k cls_dict = Some v ->
    lookup k (patch_original_class cls fields cls_dict) = Some v.
  Proof.
    intros cls fields cls_dict k v H. unfold patch_original_class. rewrite lookup_update, H. reflexivity.
  Qed.

  (** Slotted classes: an entry of the original namespace that is not dropped (field
      name, [__dict__], [__weakref__], cached property), not overwritten by a generated
      name or by [extra], and not one of the names [type()] manages, is found unchanged
      in the namespace of the new class. *)
  Theorem slots_frame_l : forall cls drop cls_dict extra k v,
    lookup k cls = Some v -> drop (k, v) = false ->
    ~ In k (keys cls_dict) -> ~ In k (keys extra) -> inb k py_reserved = false ->
    lookup k (create_slots_class cls drop cls_dict extra) = Some v.
  Proof.
    intros cls drop cls_dict extra k v Hl Hd Hw He Hp. unfold create_slots_class.
    rewrite py_type_frame by assumption.
    rewrite lookup_update, (last_write_notin _ _ He).
    apply lookup_filter_keep; [| rewrite Hd; reflexivity].
    rewrite lookup_update, (last_write_notin _ _ Hw). assumption.
  Qed.

  (** ... and nothing appears under a name that was absent and that nobody wrote. *)
  Theorem slots_frame_absent_l : forall cls drop cls_dict extra k,
    lookup k cls = None ->
    ~ In k (keys cls_dict) -> ~ In k (keys extra) -> inb k py_reserved = false ->
    lookup k (create_slots_class cls drop cls_dict extra) = None.
  Proof.
    intros cls drop cls_dict extra k Hl Hw He Hp. unfold create_slots_class.
    rewrite py_type_frame by assumption.
    rewrite lookup_update, (last_write_notin _ _ He).
    apply lookup_filter_none.
    rewrite lookup_update, (last_write_notin _ _ Hw). assumption.
  Qed.
End NS.
