(** * C14 — correspondence: the check evaluated by [coqc] on the classes the harness
    built with the real library. *)
From Coq Require Import List Bool.
Import ListNotations.
From Attrs Require Import Base C14.Model.

Definition inb (d : dn) (l : list dn) : bool := existsb (dn_eqb d) l.

Definition dset_of (l : list dn) : dset :=
  DS (inb Di l) (inb Dr l) (inb Ds l) (inb De l) (inb Dne l) (inb Dlt l) (inb Dle l)
     (inb Dgt l) (inb Dge l) (inb Dh l) (inb Dg l) (inb Dst l) (inb Dm l) (inb Dsa l) (inb Dda l).

(** A case: the decorator call, the dunders the body / the base defines, what the
    implementation showed (definition-time exception class, or for every name of
    [all_dn] what is found in the resulting class's own namespace), and whether all the
    other entries of the body (plain methods, class attributes, descriptors) were found
    again unchanged. *)
Record case := K {
  k_api : api; k_ad : option bool; k_slots : option bool; k_frozen : bool;
  k_init : tri; k_repr : tri; k_str : option bool; k_cmp : tri; k_eq : tri;
  k_order : option tri; k_hash : tri; k_uhash : tri; k_gs : tri; k_ma : option bool;
  k_own : list dn; k_inh : list dn; k_base : basek;
  k_seen : result; k_frame : bool }.

Definition cfg_of (k : case) : cfg :=
  C (k_api k) (k_ad k) (k_slots k) (k_frozen k) (k_init k) (k_repr k) (k_str k) (k_cmp k)
    (k_eq k) (k_order k) (k_hash k) (k_uhash k) (k_gs k) (k_ma k)
    (dset_of (k_own k)) (dset_of (k_inh k)) (k_base k).

Definition model_of (k : case) : result * bool := (decide (cfg_of k), true).

Definition prov_eqb (a b : prov) : bool :=
  match a, b with
  | pG, pG | pU, pU | pA, pA | pZ, pZ | pX, pX => true
  | _, _ => false
  end.
Definition err_eqb (a b : err) : bool :=
  match a, b with EValue, EValue | EType, EType | EOther, EOther => true | _, _ => false end.
Definition result_eqb (a b : result) : bool :=
  match a, b with
  | RErr x, RErr y => err_eqb x y
  | ROk x, ROk y => list_eqb prov_eqb x y
  | _, _ => false
  end.

Lemma prov_eqb_spec a b : prov_eqb a b = true <-> a = b.
Proof. destruct a, b; cbn; split; intros H; try discriminate; reflexivity. Qed.
Lemma err_eqb_spec a b : err_eqb a b = true <-> a = b.
Proof. destruct a, b; cbn; split; intros H; try discriminate; reflexivity. Qed.
Lemma result_eqb_spec a b : result_eqb a b = true <-> a = b.
Proof.
  destruct a as [x|x], b as [y|y]; cbn; try (split; intros H; discriminate).
  - rewrite err_eqb_spec. split; congruence.
  - rewrite (list_eqb_spec prov_eqb prov_eqb_spec). split; congruence.
Qed.

Definition check_case (k : case) : bool :=
  result_eqb (decide (cfg_of k)) (k_seen k) && k_frame k.

Lemma check_case_sound k :
  check_case k = true <-> (k_seen k, k_frame k) = model_of k.
Proof.
  unfold check_case, model_of. rewrite andb_true_iff, result_eqb_spec.
  split; [intros [-> ->]; reflexivity | intros H; inversion H; auto].
Qed.
