(** * C14 — method-generation decision table: executable model.

    Mirrors, from [attr/_make.py]: [_has_own_attribute], [_determine_attrs_eq_order],
    [_determine_whether_to_implement], the inner [wrap] of [attrs()] (every
    [builder.add_*] call and its condition), the parts of [_ClassBuilder.__init__]
    that write [__setattr__]/[__delattr__] (frozen) and [__getstate__]/[__setstate__],
    [_patch_original_class] (setattr of the accumulated names only) and
    [_create_slots_class] (filtered copy of the namespace handed to [type()]);
    from [attr/_next_gen.py]: the parameter defaults of [define] and the arguments it
    forwards.  CPython's own rule "a class namespace with [__eq__] and without
    [__hash__] gets [__hash__ = None]" is modelled where it decides what is found on
    the class ([in_cls_dict], [slots_class]).

    The class is a non-exception class with plain fields (no validators, converters,
    hooks); its base is undecorated or a (non-frozen) attrs class; [cache_hash], [auto_exc], [these],
    [on_setattr] are left at their defaults (C04/C08/C15 cover them).

    Definitions only; proofs are in [C14/Proofs.v]. *)
From Coq Require Import List Bool.
Import ListNotations.

Inductive api := AttrS | Define.

(** A three-valued flag argument: [None] (also: not passed) / [True] / [False]. *)
Inductive tri := tN | tT | tF.

(** The dunder names the property talks about. *)
Inductive dn :=
| Di   (* __init__ *)        | Da   (* __attrs_init__ *)
| Dr   (* __repr__ *)        | Ds   (* __str__ *)
| De   (* __eq__ *)          | Dne  (* __ne__ *)
| Dlt | Dle | Dgt | Dge      (* __lt__ __le__ __gt__ __ge__ *)
| Dh   (* __hash__ *)
| Dg   (* __getstate__ *)    | Dst  (* __setstate__ *)
| Dm   (* __match_args__ *)
| Dsa  (* __setattr__ *)     | Dda  (* __delattr__ *).

Definition all_dn : list dn :=
  [Di; Da; Dr; Ds; De; Dne; Dlt; Dle; Dgt; Dge; Dh; Dg; Dst; Dm; Dsa; Dda].

Definition dn_eqb (a b : dn) : bool :=
  match a, b with
  | Di, Di | Da, Da | Dr, Dr | Ds, Ds | De, De | Dne, Dne | Dlt, Dlt | Dle, Dle
  | Dgt, Dgt | Dge, Dge | Dh, Dh | Dg, Dg | Dst, Dst | Dm, Dm | Dsa, Dsa | Dda, Dda => true
  | _, _ => false
  end.

(** Which dunders a class body (or a base) defines.  [__attrs_init__] is a name
    reserved for attrs and never user-defined in the modelled space. *)
Record dset := DS {
  s_i : bool; s_r : bool; s_s : bool; s_e : bool; s_ne : bool;
  s_lt : bool; s_le : bool; s_gt : bool; s_ge : bool; s_h : bool;
  s_g : bool; s_st : bool; s_m : bool; s_sa : bool; s_da : bool }.

Definition mem (s : dset) (d : dn) : bool :=
  match d with
  | Di => s_i s | Da => false | Dr => s_r s | Ds => s_s s | De => s_e s | Dne => s_ne s
  | Dlt => s_lt s | Dle => s_le s | Dgt => s_gt s | Dge => s_ge s | Dh => s_h s
  | Dg => s_g s | Dst => s_st s | Dm => s_m s | Dsa => s_sa s | Dda => s_da s
  end.

(** The (single) base class: an undecorated class, or an attrs class (frozen or not, one
    plain field, built with [auto_detect=True]) that is slotted or not, has an
    attrs-generated [__getstate__]/[__setstate__] pair or not, and has a generated
    [__init__] or (else) a generated [__attrs_init__]. *)
Inductive basek := BPlain | BAttrs (bslots bgs binit bfrozen : bool).

Definition base_generated_pair (b : basek) : bool :=
  match b with BPlain => false | BAttrs _ gs _ _ => gs end.

(** The base is a frozen attrs class: its [__setattr__] is [_frozen_setattrs]. *)
Definition base_frozen (b : basek) : bool :=
  match b with BPlain => false | BAttrs _ _ _ fz => fz end.

(** The decorator call and the class it is applied to.  [option] arguments:
    [None] = keyword not passed (the signature default applies). *)
Record cfg := C {
  c_api : api;
  c_ad : option bool;       (* auto_detect *)
  c_slots : option bool;
  c_frozen : bool;
  c_init : tri;
  c_repr : tri;
  c_str : option bool;
  c_cmp : tri;              (* attr.s only; define has no such parameter *)
  c_eq : tri;
  c_order : option tri;
  c_hash : tri;
  c_uhash : tri;            (* unsafe_hash *)
  c_gs : tri;               (* getstate_setstate *)
  c_ma : option bool;       (* match_args *)
  c_own : dset;             (* dunders defined in the class body *)
  c_inh : dset;             (* dunders defined by the user in the body of the base class *)
  c_base : basek
}.

(** ** Constants read off the two signatures (tied to the source by
    [Gen/C14_consts.v], regenerated from the AST on every run). *)
Record sigdefaults := SD {
  sd_repr : tri; sd_cmp : option tri; sd_hash : tri; sd_init : tri; sd_eq : tri;
  sd_gs : tri; sd_uhash : tri; sd_order : tri;
  sd_slots : bool; sd_frozen : bool; sd_str : bool; sd_ad : bool; sd_ma : bool;
  sd_auto_exc : bool }.

Definition attrs_sig : sigdefaults :=
  SD tN (Some tN) tN tN tN tN tN tN false false false false true false.
Definition define_sig : sigdefaults :=
  SD tN None tN tN tN tN tN tF true false false true true true.

(** The dunder tuples passed to [_determine_whether_to_implement] in [wrap]. *)
Definition gs_dunders := [Dg; Dst].
Definition repr_dunders := [Dr].
Definition eq_dunders := [De; Dne].
Definition order_dunders := [Dlt; Dle; Dgt; Dge].
Definition init_dunders := [Di].

Definition sig_of (a : api) : sigdefaults :=
  match a with AttrS => attrs_sig | Define => define_sig end.

Definition arg {A} (passed : option A) (dflt : A) : A :=
  match passed with Some v => v | None => dflt end.

Definition auto_detect (c : cfg) : bool := arg (c_ad c) (sd_ad (sig_of (c_api c))).
Definition slots (c : cfg) : bool := arg (c_slots c) (sd_slots (sig_of (c_api c))).
Definition order_arg (c : cfg) : tri := arg (c_order c) (sd_order (sig_of (c_api c))).
Definition str_arg (c : cfg) : bool := arg (c_str c) (sd_str (sig_of (c_api c))).
Definition match_args (c : cfg) : bool := arg (c_ma c) (sd_ma (sig_of (c_api c))).

Definition is_none (t : tri) : bool := match t with tN => true | _ => false end.
Definition is_true (t : tri) : bool := match t with tT => true | _ => false end.
Definition is_false (t : tri) : bool := match t with tF => true | _ => false end.

(** ** The class object handed to the decorator.
    [cls.__dict__] holds what the body defines, and CPython's [type()] has added
    [__hash__ = None] when the body defines [__eq__] but not [__hash__]. *)
Definition in_cls_dict (c : cfg) (d : dn) : bool :=
  mem (c_own c) d || (dn_eqb d Dh && mem (c_own c) De).

(** [_has_own_attribute(cls, name)]: [name in cls.__dict__] — bases are not consulted. *)
Definition has_own_attribute (c : cfg) (d : dn) : bool := in_cls_dict c d.

(** [_inherits_attrs_getstate(cls)]: [getattr(cls, "__getstate__")] carries the
    [__attrs_generated__] mark — the base's generated one, unless the body shadows it. *)
Definition inherits_attrs_getstate (c : cfg) : bool :=
  base_generated_pair (c_base c) && negb (has_own_attribute c Dg).

(** [_has_frozen_base_class(cls)]: [cls.__setattr__ is _frozen_setattrs] — ordinary
    attribute lookup, so a [__setattr__] in the body hides the frozen base. *)
Definition has_frozen_base_class (c : cfg) : bool :=
  base_frozen (c_base c) && negb (has_own_attribute c Dsa).

(** [_determine_attrs_eq_order(cmp, eq, order, None)]; [None] = [ValueError]. *)
Definition determine_attrs_eq_order (cmp eq order : tri) : option (tri * tri) :=
  if negb (is_none cmp) && (negb (is_none eq) || negb (is_none order)) then None
  else if negb (is_none cmp) then Some (cmp, cmp)
  else
    let eq := if is_none eq then tN (* default_eq *) else eq in
    let order := if is_none order then eq else order in
    if is_false eq && is_true order then None else Some (eq, order).

(** [_determine_whether_to_implement(cls, flag, auto_detect, dunders, default)] *)
Definition determine_whether_to_implement
  (c : cfg) (flag : tri) (ad : bool) (dunders : list dn) (default : bool) : bool :=
  match flag with
  | tT => true
  | tF => false
  | tN =>
      if negb ad then default
      else if existsb (has_own_attribute c) dunders then false
      else default
  end.

(** What the builder stores under a name in [_cls_dict]. *)
Inductive wr := WGen (* a method / tuple made by attrs *) | WNone (* the value None *).

Inductive err := EValue | EType | EOther (* never predicted: any other exception class *).
Inductive res := Err (e : err) | Ok (writes : list (dn * wr)).

(** [attrs(...)] up to and including [wrap(cls)], as far as [_cls_dict] is concerned.
    [define] forwards its arguments unchanged (with [order] defaulting to [False]) and
    rejects [cmp=] because it has no such parameter ([TypeError] from the call). *)
Definition wrap (c : cfg) : res :=
  match c_api c, c_cmp c with
  | Define, tT | Define, tF => Err EType
  | _, _ =>
  match determine_attrs_eq_order (c_cmp c) (c_eq c) (order_arg c) with
  | None => Err EValue
  | Some (eq_, order_) =>
    let hash := if is_none (c_uhash c) then c_hash c else c_uhash c in
    let ad := auto_detect c in
    let is_frozen := c_frozen c || has_frozen_base_class c in
    let has_own_setattr := ad && has_own_attribute c Dsa in
    if has_own_setattr && is_frozen then Err EValue else
    (* _ClassBuilder.__init__; [default=slots or _inherits_attrs_getstate(cls)] *)
    let gs := determine_whether_to_implement c (c_gs c) ad gs_dunders
                (slots c || inherits_attrs_getstate c) in
    let w_frozen := if is_frozen then [(Dsa, WGen); (Dda, WGen)] else [] in
    let w_gs := if gs then [(Dg, WGen); (Dst, WGen)] else [] in
    (* add_repr / add_str *)
    let repr := determine_whether_to_implement c (c_repr c) ad repr_dunders true in
    let w_repr := if repr then [(Dr, WGen)] else [] in
    if str_arg c && negb repr then Err EValue else
    let w_str := if str_arg c then [(Ds, WGen)] else [] in
    (* add_eq / add_order *)
    let eq := determine_whether_to_implement c eq_ ad eq_dunders true in
    let w_eq := if eq then [(De, WGen); (Dne, WGen)] else [] in
    let w_order :=
      if determine_whether_to_implement c order_ ad order_dunders true
      then [(Dlt, WGen); (Dle, WGen); (Dgt, WGen); (Dge, WGen)] else [] in
    (* add_setattr: no field has a hook, nothing is written *)
    (* hash *)
    let hash_ := if is_none hash && ad && has_own_attribute c Dh then tF else hash in
    let w_hash :=
      if is_false hash_ || (is_none hash_ && negb eq) then []
      else if is_true hash_ || (is_none hash_ && eq && is_frozen) then [(Dh, WGen)]
      else [(Dh, WNone)] in
    (* add_init / add_attrs_init *)
    let w_init :=
      if determine_whether_to_implement c (c_init c) ad init_dunders true
      then [(Di, WGen)] else [(Da, WGen)] in
    (* add_match_args *)
    let w_ma := if match_args c && negb (has_own_attribute c Dm) then [(Dm, WGen)] else [] in
    Ok (w_frozen ++ w_gs ++ w_repr ++ w_str ++ w_eq ++ w_order ++ w_hash ++ w_init ++ w_ma)
  end
  end.

(** ** What is found in the resulting class's own namespace. *)
Inductive prov :=
| pG   (* generated by attrs *)
| pU   (* the user's own object from the class body *)
| pA   (* not in the class's own namespace: inherited from the base, or absent *)
| pZ   (* the value None (only __hash__) *)
| pX.  (* anything else: never predicted, used by the harness for the unexpected *)

Fixpoint assoc (d : dn) (ws : list (dn * wr)) : option wr :=
  match ws with
  | [] => None
  | (k, w) :: r => match assoc d r with Some w' => Some w' | None => if dn_eqb d k then Some w else None end
  end.

Definition prov_of_wr (w : wr) : prov := match w with WGen => pG | WNone => pZ end.

(** Entry of the class before decoration. *)
Definition orig (c : cfg) (d : dn) : prov :=
  if mem (c_own c) d then pU else if in_cls_dict c d then pZ else pA.

(** [_patch_original_class]: [setattr(cls, name, value)] for the accumulated names. *)
Definition patched (c : cfg) (ws : list (dn * wr)) (d : dn) : prov :=
  match assoc d ws with Some w => prov_of_wr w | None => orig c d end.

(** [_create_slots_class]: the namespace copy plus the accumulated names goes through
    [type()] again, which adds [__hash__ = None] next to an [__eq__] without [__hash__]. *)
Definition slots_class (c : cfg) (ws : list (dn * wr)) (d : dn) : prov :=
  let has k := (match assoc k ws with Some _ => true | None => false end) || in_cls_dict c k in
  if dn_eqb d Dh && negb (has Dh) && has De then pZ else patched c ws d.

Definition found (c : cfg) (ws : list (dn * wr)) (d : dn) : prov :=
  if slots c then slots_class c ws d else patched c ws d.

Inductive result := RErr (e : err) | ROk (provs : list prov).   (* in the order of [all_dn] *)

Definition decide (c : cfg) : result :=
  match wrap c with
  | Err e => RErr e
  | Ok ws => ROk (map (found c ws) all_dn)
  end.

Definition prov_at (r : result) (d : dn) : option prov :=
  match r with
  | RErr _ => None
  | ROk ps =>
      (fix go (ds : list dn) (ps : list prov) : option prov :=
         match ds, ps with
         | k :: ds', p :: ps' => if dn_eqb d k then Some p else go ds' ps'
         | _, _ => None
         end) all_dn ps
  end.

(** ** The specification, written from the property text: one decision list per group. *)
Inductive group := GInit | GRepr | GEq | GOrder | GHash | GPickle | GMatch.

Definition members (g : group) : list dn :=
  match g with
  | GInit => [Di] | GRepr => [Dr] | GEq => [De; Dne] | GOrder => [Dlt; Dle; Dgt; Dge]
  | GHash => [Dh] | GPickle => [Dg; Dst] | GMatch => [Dm]
  end.

Definition body_defines (c : cfg) (d : dn) : bool := mem (c_own c) d.

(** "Defined in the class itself" as Python sees it: the body's names, plus the
    [__hash__ = None] Python itself puts next to a body-defined [__eq__]
    (interpretation (vi) in docs/C14.md). *)
Definition class_defines (c : cfg) (d : dn) : bool :=
  body_defines c d || match d with Dh => body_defines c De | _ => false end.

Definition eq_flag (c : cfg) : tri := match c_cmp c with tN => c_eq c | v => v end.

(** The explicit argument of a group, after the documented aliasing: [cmp] sets both
    eq and order; [unsafe_hash] wins over [hash]; an [order] that is [None] mirrors
    [eq]; [order] not passed is [None] under attr.s and [False] under define;
    [match_args=True] is the default and not an order to replace (interpretation (i)). *)
Definition explicit_flag (c : cfg) (g : group) : tri :=
  match g with
  | GInit => c_init c
  | GRepr => c_repr c
  | GEq => eq_flag c
  | GOrder =>
      match c_cmp c with
      | tN =>
          let o := match c_order c with
                   | Some o => o
                   | None => match c_api c with AttrS => tN | Define => tF end
                   end in
          match o with tN => c_eq c | _ => o end
      | v => v
      end
  | GHash => match c_uhash c with tN => c_hash c | v => v end
  | GPickle => c_gs c
  | GMatch => match match_args c with true => tN | false => tF end
  end.

Definition documented_default (c : cfg) (g : group) : bool :=
  match g with
  | GPickle =>
      (* slotted classes need the helpers; so does a class that would otherwise inherit
         an attrs-generated pair, which only knows the base's fields *)
      slots c || (base_generated_pair (c_base c) && negb (class_defines c Dg))
  | _ => true           (* GHash has its own table below *)
  end.

(** Is the class's own namespace consulted for the group?  For [__match_args__]
    always (an own [__match_args__] is never replaced, interpretation (i)). *)
Definition detects (c : cfg) (g : group) : bool :=
  match g with GMatch => true | _ => auto_detect c end.

Definition generate (c : cfg) (g : group) : bool :=
  match explicit_flag c g with
  | tT => true
  | tF => false
  | tN => if detects c g && existsb (class_defines c) (members g) then false
          else documented_default c g
  end.

(** Effective frozenness: [frozen=True], or inherited from a frozen attrs base (unless the
    class's own [__setattr__] hides it).  This — not the decorator argument — is what the
    hash default and the frozen [__setattr__]/[__delattr__] follow. *)
Definition effectively_frozen (c : cfg) : bool :=
  c_frozen c || (base_frozen (c_base c) && negb (class_defines c Dsa)).

Inductive hashkind := HUntouched | HGenerated | HUnhashable.

Definition spec_hash (c : cfg) : hashkind :=
  match explicit_flag c GHash with
  | tT => HGenerated
  | tF => HUntouched
  | tN =>
      if auto_detect c && class_defines c Dh then HUntouched
      else if negb (generate c GEq) then HUntouched
      else if effectively_frozen c then HGenerated
      else HUnhashable
  end.

Definition spec_error (c : cfg) : option err :=
  match c_api c, c_cmp c with
  | Define, tT | Define, tF => Some EType
  | _, _ =>
    if negb (is_none (c_cmp c)) && (negb (is_none (c_eq c)) || negb (is_none (order_arg c)))
    then Some EValue
    else if is_none (c_cmp c) && is_false (c_eq c) && is_true (order_arg c) then Some EValue
    else if auto_detect c && body_defines c Dsa && effectively_frozen c then Some EValue
    else if str_arg c && negb (generate c GRepr) then Some EValue
    else None
  end.

(** Is [d] (re)written by attrs? *)
Definition spec_written (c : cfg) (d : dn) : option prov :=
  match d with
  | Di => if generate c GInit then Some pG else None
  | Da => if generate c GInit then None else Some pG
  | Dr => if generate c GRepr then Some pG else None
  | Ds => if str_arg c then Some pG else None
  | De | Dne => if generate c GEq then Some pG else None
  | Dlt | Dle | Dgt | Dge => if generate c GOrder then Some pG else None
  | Dh => match spec_hash c with HGenerated => Some pG | HUnhashable => Some pZ | HUntouched => None end
  | Dg | Dst => if generate c GPickle then Some pG else None
  | Dm => if generate c GMatch then Some pG else None
  | Dsa | Dda => if effectively_frozen c then Some pG else None
  end.

Definition spec_found (c : cfg) (d : dn) : prov :=
  match spec_written c d with
  | Some p => p
  | None =>
      if body_defines c d then pU
      else match d with
           | Dh =>
               (* Python: a namespace with __eq__ and no __hash__ gets __hash__ = None;
                  a slotted class is created anew from the final namespace *)
               if body_defines c De then pZ
               else if slots c && generate c GEq then pZ
               else pA
           | _ => pA
           end
  end.

Definition spec (c : cfg) : result :=
  match spec_error c with
  | Some e => RErr e
  | None => ROk (map (spec_found c) all_dn)
  end.

(** ** [add_init] / [add_attrs_init]: how the two initialisers are produced.

    Both call [_make_init_script] — the only difference allowed is the [attrs_init] flag
    (which only changes the name of the generated function) and the name under which the
    result is attached.  The argument expressions are tied to the source text by
    [Gen/C14_consts.v] (AST, every run), so "an equivalent [__attrs_init__]" does not
    depend on which classes the correspondence happens to instantiate. *)
From Coq Require Import String.
Local Open Scope string_scope.

Record init_call := IC {
  ic_args : list string;      (* positional arguments given to [_make_init_script] *)
  ic_attrs_init : bool;       (* the [attrs_init=] keyword, the only keyword *)
  ic_attached : list string   (* names read from the compiled script / written to the class *)
}.

Definition init_script_args : list string :=
  [ "self._cls"; "self._attrs"; "self._has_pre_init"; "self._pre_init_has_args";
    "self._has_post_init"; "self._frozen"; "self._slots"; "self._cache_hash";
    "self._base_attr_map"; "self._is_exc"; "self._on_setattr" ].

Definition add_init_call : init_call := IC init_script_args false ["__init__"].
Definition add_attrs_init_call : init_call := IC init_script_args true ["__attrs_init__"].
