(** * C14 — [wrap] factors through the specification; the decision table. *)
From Coq Require Import List Bool.
Import ListNotations.
From Attrs Require Import C14.Model.

(** ** 1. [wrap] factors into "error or the writes the specification asks for". *)

Definition writes_of (c : cfg) : list (dn * wr) :=
  (if effectively_frozen c then [(Dsa, WGen); (Dda, WGen)] else []) ++
  (if generate c GPickle then [(Dg, WGen); (Dst, WGen)] else []) ++
  (if generate c GRepr then [(Dr, WGen)] else []) ++
  (if str_arg c then [(Ds, WGen)] else []) ++
  (if generate c GEq then [(De, WGen); (Dne, WGen)] else []) ++
  (if generate c GOrder then [(Dlt, WGen); (Dle, WGen); (Dgt, WGen); (Dge, WGen)] else []) ++
  (match spec_hash c with HUntouched => [] | HGenerated => [(Dh, WGen)] | HUnhashable => [(Dh, WNone)] end) ++
  (if generate c GInit then [(Di, WGen)] else [(Da, WGen)]) ++
  (if generate c GMatch then [(Dm, WGen)] else []).

Lemma own_is_class_defines c d : has_own_attribute c d = class_defines c d.
Proof.
  unfold has_own_attribute, in_cls_dict, class_defines, body_defines.
  destruct d; cbn; rewrite ?orb_false_r; reflexivity.
Qed.

Lemma existsb_own c l : existsb (has_own_attribute c) l = existsb (class_defines c) l.
Proof. induction l as [|d l IH]; cbn; [reflexivity|]. rewrite own_is_class_defines, IH. reflexivity. Qed.

Lemma dwti_generic c flag ad dunders default :
  determine_whether_to_implement c flag ad dunders default =
  match flag with
  | tT => true | tF => false
  | tN => if ad && existsb (class_defines c) dunders then false else default
  end.
Proof.
  unfold determine_whether_to_implement. rewrite existsb_own.
  destruct flag, ad, (existsb (class_defines c) dunders); reflexivity.
Qed.

Lemma eq_order_flags c :
  match c_api c, c_cmp c with Define, tT | Define, tF => True | _, _ =>
  match determine_attrs_eq_order (c_cmp c) (c_eq c) (order_arg c) with
  | Some (e, o) => e = explicit_flag c GEq /\ o = explicit_flag c GOrder /\
                   (negb (is_none (c_cmp c)) && (negb (is_none (c_eq c)) || negb (is_none (order_arg c)))) = false /\
                   (is_none (c_cmp c) && is_false (c_eq c) && is_true (order_arg c)) = false
  | None => (negb (is_none (c_cmp c)) && (negb (is_none (c_eq c)) || negb (is_none (order_arg c)))) = true \/
            ((negb (is_none (c_cmp c)) && (negb (is_none (c_eq c)) || negb (is_none (order_arg c)))) = false /\
             (is_none (c_cmp c) && is_false (c_eq c) && is_true (order_arg c)) = true)
  end end.
Proof.
  destruct c as [a ad sl fr ini rp st cmp eq ord h uh gs ma own inh bk].
  destruct a, cmp, eq, ord as [[]|]; cbn; auto.
Qed.

Lemma wrap_factored c :
  wrap c = match spec_error c with Some e => Err e | None => Ok (writes_of c) end.
Proof.
  pose proof (eq_order_flags c) as HF.
  unfold wrap, spec_error.
  destruct (c_api c) eqn:Ha, (c_cmp c) eqn:Hc; try reflexivity;
  (destruct (determine_attrs_eq_order _ (c_eq c) (order_arg c)) as [[e o]|];
   [ destruct HF as (-> & -> & -> & ->) | destruct HF as [-> | [-> ->]]; reflexivity ]);
  unfold inherits_attrs_getstate, has_frozen_base_class;
  rewrite !dwti_generic, !own_is_class_defines;
  unfold writes_of, spec_hash;
  change (c_frozen c || base_frozen (c_base c) && negb (class_defines c Dsa)) with (effectively_frozen c);
  change (class_defines c Dsa) with (body_defines c Dsa || false); rewrite orb_false_r;
  replace (if is_none (c_uhash c) then c_hash c else c_uhash c) with (explicit_flag c GHash)
    by (unfold explicit_flag; destruct (c_uhash c); reflexivity);
  change (match explicit_flag c GEq with tN => if auto_detect c && existsb (class_defines c) eq_dunders then false else true | tT => true | tF => false end)
    with (generate c GEq);
  change (match explicit_flag c GOrder with tN => if auto_detect c && existsb (class_defines c) order_dunders then false else true | tT => true | tF => false end)
    with (generate c GOrder);
  change (match c_gs c with tN => if auto_detect c && existsb (class_defines c) gs_dunders then false else slots c || (base_generated_pair (c_base c) && negb (class_defines c Dg)) | tT => true | tF => false end)
    with (generate c GPickle);
  change (match c_repr c with tN => if auto_detect c && existsb (class_defines c) repr_dunders then false else true | tT => true | tF => false end)
    with (generate c GRepr);
  change (match c_init c with tN => if auto_detect c && existsb (class_defines c) init_dunders then false else true | tT => true | tF => false end)
    with (generate c GInit);
  replace (match_args c && negb (class_defines c Dm)) with (generate c GMatch)
    by (unfold generate, explicit_flag, detects, documented_default, members; cbn [existsb];
        destruct (match_args c), (class_defines c Dm); reflexivity);
  destruct (generate c GEq), (generate c GRepr), (explicit_flag c GHash), (auto_detect c),
    (class_defines c Dh), (effectively_frozen c), (str_arg c), (body_defines c Dsa); reflexivity.
Qed.

(** ** 2. Looking a name up in the accumulated writes. *)

Lemma assoc_app d l1 l2 :
  assoc d (l1 ++ l2) = match assoc d l2 with Some w => Some w | None => assoc d l1 end.
Proof.
  induction l1 as [|[k w] l1 IH]; cbn.
  - destruct (assoc d l2); reflexivity.
  - rewrite IH. destruct (assoc d l2); reflexivity.
Qed.

Lemma assoc_if d (b : bool) l1 l2 :
  assoc d (if b then l1 else l2) = if b then assoc d l1 else assoc d l2.
Proof. destruct b; reflexivity. Qed.

Lemma if_same {A} (b : bool) (x : A) : (if b then x else x) = x.
Proof. destruct b; reflexivity. Qed.

Definition wr_of_prov (p : prov) : wr := match p with pZ => WNone | _ => WGen end.

Lemma assoc_writes_of c d :
  assoc d (writes_of c) = option_map wr_of_prov (spec_written c d).
Proof.
  unfold writes_of. rewrite !assoc_app, !assoc_if.
  destruct (spec_hash c) eqn:Hh, d; cbn [assoc dn_eqb spec_written]; rewrite ?if_same, ?Hh;
  repeat match goal with |- context [if ?b then _ else _] => destruct b end; reflexivity.
Qed.

Ltac destruct_atoms :=
  repeat (cbn [orb andb negb option_map prov_of_wr wr_of_prov mem
               s_i s_r s_s s_e s_ne s_lt s_le s_gt s_ge s_h s_g s_st s_m s_sa s_da];
          match goal with
          | |- context [generate ?c ?g] => destruct (generate c g)
          | |- context [spec_hash ?c] => destruct (spec_hash c)
          | |- context [effectively_frozen ?c] => destruct (effectively_frozen c)
          | |- context [str_arg ?c] => destruct (str_arg c)
          | |- context [slots ?c] => destruct (slots c)
          | |- context [c_own ?c] => destruct (c_own c)
          | |- context [if ?b then _ else _] => is_var b; destruct b
          end).

Lemma found_spec c d : found c (writes_of c) d = spec_found c d.
Proof.
  unfold found, slots_class, patched. rewrite !assoc_writes_of.
  unfold spec_found, orig, in_cls_dict, body_defines.
  destruct d; cbn [spec_written dn_eqb andb orb mem option_map];
  destruct_atoms; reflexivity.
Qed.

(** ** 3. The decision table. *)

Theorem decision_table_l : forall c, decide c = spec c.
Proof.
  intros c. unfold decide, spec. rewrite wrap_factored.
  destruct (spec_error c); [reflexivity|].
  f_equal. apply map_ext. intros d. apply found_spec.
Qed.

