(** * C08 — executable model of [_ClassBuilder._create_slots_class] / [build_class]
    (src/attr/_make.py) as a transformation of the class namespace, of the closure-cell
    rewrite, of the cached-property [__getattr__] and of the [__setattr__] reset variants.

    Definitions only; proofs are in [C08/Proofs.v].  Namespaces are the association
    lists of [C14/NS.v] (insertion-ordered dicts: [lookup], [setitem], [delitem],
    [update]). *)
From Coq Require Import List Bool String Ascii Arith.
Import ListNotations.
From Attrs Require Import Base C14.NS.
Open Scope string_scope.
Open Scope list_scope.

Notation name := string.

Definition in_names (k : name) (l : list name) : bool := existsb (String.eqb k) l.

(** ** Objects, closure cells *)

(** A closure cell holds nothing, a class (by id), or some other object. *)
Inductive cellval := CEmpty | CCls (c : nat) | COther.

Definition cellval_eqb (a b : cellval) : bool :=
  match a, b with
  | CEmpty, CEmpty | COther, COther => true
  | CCls x, CCls y => Nat.eqb x y
  | _, _ => false
  end.

(** The cell store: cell id -> contents (the first binding of an id counts). *)
Definition store := list (nat * cellval).

Fixpoint get (c : nat) (st : store) : cellval :=
  match st with
  | [] => CEmpty
  | (c', v) :: r => if Nat.eqb c c' then v else get c r
  end.

Definition put (c : nat) (v : cellval) (st : store) : store := (c, v) :: st.

(** What a namespace entry is.  A function object is represented by the list of its
    closure cells ([fn.__closure__]); all functions of one class body that mention
    [__class__] / zero-argument [super()] share ONE cell, others may have cells of
    enclosing scopes. *)
Inductive kind :=
| KField                                   (* attr.ib() / the value of an annotated field *)
| KFunc (f : list nat)                     (* plain function (also lambdas, wrappers) *)
| KClassM (f : list nat)                   (* classmethod: [__func__.__closure__] *)
| KStaticM (f : list nat)                  (* staticmethod *)
| KProp (g s d : option (list nat))        (* property: fget / fset / fdel, each possibly None *)
| KCached (f : list nat) (ann : bool)      (* functools.cached_property: [.func], has a return annotation *)
| KDescr (f : list nat)                    (* any other object hiding a function: custom descriptor,
                                              partialmethod, the inner function of a decorator wrapper *)
| KPlain                                   (* str / int / nested class / docstring / ... *)
| KDictDescr | KWeakrefDescr               (* the getset descriptors [__dict__] / [__weakref__] *)
| KSlotDescr.                              (* a member descriptor (slot) *)

(** An entry = object identity + kind.  Identity is what "the same object" means. *)
Definition entry := (nat * kind)%type.
Definition e_id (e : entry) : nat := fst e.
Definition e_kind (e : entry) : kind := snd e.

(** Reserved object ids for what attrs / [type()] writes. *)
Definition ID_FALSE := 0.          (* False *)
Definition ID_OBJ_SETATTR := 1.    (* object.__setattr__ *)
Definition ID_SLOTS := 2.          (* the new __slots__ tuple *)
Definition ID_QUALNAME := 3.
Definition ID_SYNTH_GETATTR := 4.  (* __getattr__ made by _make_cached_property_getattr *)
Definition ID_NEW_SLOT := 5.       (* member descriptor created by type() for the new class *)
Definition ID_NEW_WEAKREF := 6.    (* __weakref__ getset descriptor created by type() *)

Definition nsT := ns name entry.
Notation lookupS := (lookup name entry String.eqb).
Notation setitemS := (setitem name entry String.eqb).
Notation delitemS := (delitem name entry String.eqb).
Notation updateS := (update name entry String.eqb).

(** ** Bases *)

(** One [__getattr__] found in the MRO: either synthesised for cached properties (then an
    optional user [__getattr__] is consulted next) or a plain user one ([l_cached = []]).
    The harness's user [__getattr__] answers names starting with "dyn" and raises
    AttributeError otherwise; without a user one the lookup continues in the next layer
    ([super().__getattr__]). *)
Record layer := { l_cached : list name; l_user : option string }.

(** [getattr(base_cls, "__slots__", [])]: a single string (one slot) or a sequence of
    names; each name comes with the id of [getattr(base_cls, name)], or None when that
    getattr raises AttributeError. *)
Inductive slots_decl :=
| SlotsStr (n : name) (d : option nat)
| SlotsSeq (l : list (name * option nat)).

(** [if isinstance(base_slots, str): base_slots = (base_slots,)] - the names the scan visits. *)
Definition iter_slots (s : slots_decl) : list (name * option nat) :=
  match s with
  | SlotsStr n d => [(n, d)]
  | SlotsSeq l => l
  end.

Record base := {
  b_id : nat;
  b_slots : slots_decl;
  b_weakref : bool;              (* base_cls.__dict__.get("__weakref__") is not None *)
  b_dict : bool;                 (* "__dict__" in base_cls.__dict__ : contributes an instance dict *)
  b_own_setattr : option bool;   (* base_cls.__dict__.get("__attrs_own_setattr__") *)
  b_immediate : bool;            (* base_cls in cls.__bases__ *)
  b_hook : bool;                 (* "__attrs_init_subclass__" in base_cls.__dict__ *)
  b_layer : option layer         (* "__getattr__" in base_cls.__dict__ *)
}.

(** ** Input of the transformation *)
Record input := {
  i_old : nat;                     (* id of the class handed to the decorator *)
  i_new : nat;                     (* id of the class that type() will create *)
  i_ns : nsT;                      (* the user's part of [self._cls_dict] = dict(cls.__dict__) *)
  i_attr_names : list name;        (* self._attr_names: all fields, inherited first *)
  i_base_names : list name;        (* self._base_names: inherited and not redefined *)
  i_mro : list base;               (* cls.__mro__[1:-1] *)
  i_weakref_slot : bool;
  i_cache_hash : bool;
  i_orig_slots : list name;        (* getattr(cls, "__slots__", ()) - no longer consulted (see add_weakref) *)
  i_wrote_own_setattr : bool;
  i_has_custom_setattr : bool;
  i_store : store;                 (* all closure cells before the call *)
  i_fresh : nat                    (* the cell of the synthesised __getattr__'s wrapper *)
}.

Definition HASH_CACHE : name := "_attrs_cached_hash".

(** ** [_create_slots_class], step by step *)

(** cd = {k: v for k, v in self._cls_dict.items()
          if k not in ( *self._attr_names, "__dict__", "__weakref__" )} *)
Definition dropped_name (i : input) (k : name) : bool :=
  in_names k (i_attr_names i ++ ["__dict__"; "__weakref__"]).

Definition step_filter (i : input) : nsT :=
  filter (fun kv => negb (dropped_name i (fst kv))) (i_ns i).

Definition opt_true (o : option bool) : bool := match o with Some true => true | _ => false end.

(** if not self._wrote_own_setattr: cd["__attrs_own_setattr__"] = False; if not
    self._has_custom_setattr: for base_cls in self._cls.__bases__: if
    base_cls.__dict__.get("__attrs_own_setattr__", False): cd["__setattr__"] = _OBJ_SETATTR *)
Definition slots_reset (i : input) : bool :=
  negb (i_wrote_own_setattr i) && negb (i_has_custom_setattr i) &&
  existsb (fun b => b_immediate b && opt_true (b_own_setattr b)) (i_mro i).

Definition step_setattr (i : input) (cd : nsT) : nsT :=
  if i_wrote_own_setattr i then cd
  else
    let cd1 := setitemS "__attrs_own_setattr__" (ID_FALSE, KPlain) cd in
    if slots_reset i then setitemS "__setattr__" (ID_OBJ_SETATTR, KPlain) cd1 else cd1.

(** existing_slots / weakref_inherited: one pass over cls.__mro__[1:-1] (a string [__slots__]
    is one name since the repair e7beec5).
    [existing_slots.update({name: getattr(base_cls, name) for name in getattr(base_cls,
    "__slots__", [])})] - None when one of the getattrs raises AttributeError. *)
Definition slot_map := ns name nat.

Fixpoint dict_of_slots (l : list (name * option nat)) (acc : slot_map) : option slot_map :=
  match l with
  | [] => Some acc
  | (n, Some d) :: r => dict_of_slots r (setitem name nat String.eqb n d acc)
  | (_, None) :: _ => None
  end.

Fixpoint existing_slots (mro : list base) (acc : slot_map) : option slot_map :=
  match mro with
  | [] => Some acc
  | b :: r =>
      match dict_of_slots (iter_slots (b_slots b)) [] with
      | None => None
      | Some m => existing_slots r (update name nat String.eqb m acc)
      end
  end.

Definition weakref_inherited (i : input) : bool := existsb b_weakref (i_mro i).

(** [self._weakref_slot and "__weakref__" not in names and not weakref_inherited].
    (Before the repair 0abf7ae a fourth conjunct [and "__weakref__" not in getattr(self._cls,
    "__slots__", ())] was present: [add_weakref_old], kept for the witness of the old defect.) *)
Definition add_weakref (i : input) : bool :=
  i_weakref_slot i && negb (in_names "__weakref__" (i_attr_names i)) && negb (weakref_inherited i).

Definition add_weakref_old (i : input) : bool :=
  i_weakref_slot i && negb (in_names "__weakref__" (i_orig_slots i)) &&
  negb (in_names "__weakref__" (i_attr_names i)) && negb (weakref_inherited i).

Definition names0 (i : input) : list name :=
  i_attr_names i ++ (if add_weakref i then ["__weakref__"] else []).

(** cached_properties = {name: cp.func for name, cp in cd.items() if isinstance(cp, cached_property)} *)
Definition cached_of (cd : nsT) : list (name * list nat) :=
  flat_map (fun kv => match e_kind (snd kv) with KCached f _ => [(fst kv, f)] | _ => [] end) cd.

Definition func_cells_of_getattr (o : option entry) : list (list nat) :=
  match o with
  | Some (_, KFunc f) => [f]
  | Some _ => [[]]       (* some other object under __getattr__: appended, nothing to rewrite *)
  | None => []
  end.

(** What goes through the rewrite loop besides cls.__dict__.values(). *)
Record cached_step := {
  cs_cd : nsT;
  cs_names : list name;                (* names added for slotting *)
  cs_additional : list (list nat);     (* additional_closure_functions_to_update *)
  cs_store : store
}.

Definition step_cached (i : input) (cd : nsT) : cached_step :=
  let cps := cached_of cd in
  match cps with
  | [] => {| cs_cd := cd; cs_names := []; cs_additional := []; cs_store := i_store i |}
  | _ =>
      let cd1 := fold_left (fun m f => delitemS f m) (map fst cps) cd in
      let orig := lookupS "__getattr__" cd1 in
      {| cs_cd := setitemS "__getattr__" (ID_SYNTH_GETATTR, KFunc [i_fresh i]) cd1;
         cs_names := map fst cps;
         cs_additional := map snd cps ++ func_cells_of_getattr orig;
         (* the wrapper's [__class__ = _cls]: a fresh cell holding the OLD class *)
         cs_store := put (i_fresh i) (CCls (i_old i)) (i_store i) |}
  end.

Definition slot_entries (m : slot_map) : nsT := map (fun kd => (fst kd, (snd kd, KSlotDescr))) m.

(** CPython's [type(name, bases, cd)] as far as this check looks at it: [__qualname__] is
    consumed, every name of [__slots__] gets a fresh member descriptor ([__weakref__] a
    getset descriptor).  Observed by the harness, not proved. *)
Definition py_type (cd : nsT) (slots : list name) : nsT :=
  fold_left (fun m s => setitemS s (if String.eqb s "__weakref__" then (ID_NEW_WEAKREF, KWeakrefDescr)
                                    else (ID_NEW_SLOT, KSlotDescr)) m)
            slots (delitemS "__qualname__" cd).

(** The closure cells the rewrite loop looks at, per kind of item. *)
Definition opt_cells (o : option (list nat)) : list nat := match o with Some l => l | None => [] end.

Definition inspected_cells (k : kind) : list nat :=
  match k with
  | KFunc f => f                                   (* getattr(item, "__closure__", None) *)
  | KClassM f | KStaticM f => f                    (* item.__func__.__closure__ *)
  | KProp g s d => opt_cells g ++ opt_cells s ++ opt_cells d   (* fget, fset, fdel *)
  | _ => []                                        (* no __closure__ attribute *)
  end.

Definition rewrite_cell (old new : nat) (st : store) (c : nat) : store :=
  if cellval_eqb (get c st) (CCls old) then put c (CCls new) st else st.

Definition rewrite_cells (old new : nat) (cells : list nat) (st : store) : store :=
  fold_left (rewrite_cell old new) cells st.

Definition rewrite_all (old new : nat) (items : list (list nat)) (st : store) : store :=
  fold_left (fun s cells => rewrite_cells old new cells s) items st.

(** Where an argument of [type(self._cls)(self._cls.__name__, self._cls.__bases__, cd)] comes
    from: read off the original class, or something else. *)
Inductive origin := OfOriginal | Other.

Record output := {
  o_meta : origin;                   (* the callable: type(self._cls) *)
  o_name : origin;                   (* self._cls.__name__ *)
  o_bases : origin;                  (* self._cls.__bases__ *)
  o_cd : nsT;                        (* the dict handed to type() *)
  o_ns : nsT;                        (* cls.__dict__ of the new class *)
  o_slots : list name;               (* cd["__slots__"] *)
  o_existing : slot_map;             (* existing_slots *)
  o_items : list (list nat);         (* closure cells of every item the rewrite loop visits, in order *)
  o_store0 : store;                  (* cells when the loop starts *)
  o_store : store;                   (* cells after the rewrite loop *)
  o_cached : list name;              (* keys of cached_properties *)
  o_user_getattr : bool              (* original_getattr is not None *)
}.

Inductive result := RErr | ROk (o : output).     (* RErr: AttributeError from getattr(base_cls, name) *)

Definition create_slots_class (i : input) : result :=
  let cd := step_setattr i (step_filter i) in
  match existing_slots (i_mro i) [] with
  | None => RErr
  | Some existing =>
      let cs := step_cached i cd in
      let names := names0 i ++ cs_names cs in
      let slot_names := filter (fun n => negb (in_names n (i_base_names i))) names in
      let reused := filter (fun kd => in_names (fst kd) slot_names) existing in
      let slot_names2 := filter (fun n => negb (in_names n (map fst reused))) slot_names in
      let cd2 := updateS (slot_entries reused) (cs_cd cs) in
      let slots := slot_names2 ++ (if i_cache_hash i then [HASH_CACHE] else []) in
      let cd3 := setitemS "__qualname__" (ID_QUALNAME, KPlain)
                   (setitemS "__slots__" (ID_SLOTS, KPlain) cd2) in
      let ns := py_type cd3 slots in
      let items := map (fun kv => inspected_cells (e_kind (snd kv))) ns ++ cs_additional cs in
      ROk {| o_meta := OfOriginal; o_name := OfOriginal; o_bases := OfOriginal;
             o_cd := cd3; o_ns := ns; o_slots := slots; o_existing := existing;
             o_items := items; o_store0 := cs_store cs;
             o_store := rewrite_all (i_old i) (i_new i) items (cs_store cs);
             o_cached := cs_names cs;
             o_user_getattr := match lookupS "__getattr__" (step_filter i) with
                               | Some _ => true | None => false end |}
  end.

(** What the new class answers for [__name__], [__qualname__], [__module__], [__doc__],
    [__bases__], [type(cls)] compared with the original: [type()] takes the qualified name
    from [cd["__qualname__"]] (else it is the bare name), module and docstring from
    [cd["__module__"]] / [cd["__doc__"]]. *)
Definition is_original (x : origin) : bool := match x with OfOriginal => true | Other => false end.

Definition same_entry (k : name) (a c : nsT) : bool :=
  match lookupS k a, lookupS k c with
  | Some x, Some y => Nat.eqb (e_id x) (e_id y)
  | None, None => true
  | _, _ => false
  end.

Definition header_same (i : input) (o : output) : list bool :=
  [ is_original (o_name o);
    match lookupS "__qualname__" (o_cd o) with Some e => Nat.eqb (e_id e) ID_QUALNAME | None => false end;
    same_entry "__module__" (i_ns i) (o_cd o);
    same_entry "__doc__" (i_ns i) (o_cd o);
    is_original (o_bases o);
    is_original (o_meta o) ].

(** ** [build_class]: the [__attrs_init_subclass__] call.
    [getattr(cls, "__attrs_init_subclass__", None) and "__attrs_init_subclass__" not in
    cls.__dict__] on the NEW class; each call is recorded with the class it received and
    the cell store at that moment. *)
Definition hook_calls (i : input) (o : output) : list (nat * store) :=
  match lookupS "__attrs_init_subclass__" (o_ns o) with
  | Some _ => []
  | None => if existsb b_hook (i_mro i) then [(i_new i, o_store o)] else []
  end.

(** ** The dict build of the same class ([_patch_original_class]), for the metamorphic
    theorems.  [delattr] of the own field definitions, nothing else removed. *)
Definition own_field_names (i : input) : list name :=
  filter (fun n => negb (in_names n (i_base_names i))) (i_attr_names i).

Definition dict_first_own_setattr (mro : list base) : option bool :=
  match flat_map (fun b => match b_own_setattr b with Some v => [v] | None => [] end) mro with
  | [] => None
  | v :: _ => Some v
  end.

(** [not self._wrote_own_setattr and getattr(cls, "__attrs_own_setattr__", False)] then
    [if not self._has_custom_setattr: cls.__setattr__ = _OBJ_SETATTR]: getattr walks the MRO. *)
Definition dict_reset (i : input) : bool :=
  negb (i_wrote_own_setattr i) && negb (i_has_custom_setattr i) &&
  opt_true (dict_first_own_setattr (i_mro i)).

Definition patch_class (i : input) : nsT :=
  let cls := fold_left (fun m f => delitemS f m) (own_field_names i) (i_ns i) in
  if negb (i_wrote_own_setattr i) && opt_true (dict_first_own_setattr (i_mro i)) then
    let c1 := setitemS "__attrs_own_setattr__" (ID_FALSE, KPlain) cls in
    if i_has_custom_setattr i then c1 else setitemS "__setattr__" (ID_OBJ_SETATTR, KPlain) c1
  else cls.

(** ** Instances: the cached-property [__getattr__] as a state machine. *)

Inductive val := VComp (p : name) (inst nth : nat) | VDyn (tag : string) (n : name) | VTok (k : nat).
Inductive res := RVal (v : val) | RAttrErr | RDone.
Inductive op := OGet (i : nat) (n : name) | ODel (i : nat) (n : name) | OSet (i : nat) (n : name) (k : nat).

Record istate := {
  st_vals : list ((nat * name) * val);      (* set slots / instance-dict entries *)
  st_calls : list (nat * name)              (* calls of cached-property functions so far *)
}.

Definition key_eqb (a b : nat * name) : bool := Nat.eqb (fst a) (fst b) && String.eqb (snd a) (snd b).

Fixpoint vlookup (k : nat * name) (m : list ((nat * name) * val)) : option val :=
  match m with
  | [] => None
  | (k', v) :: r => if key_eqb k k' then Some v else vlookup k r
  end.

Definition vremove (k : nat * name) (m : list ((nat * name) * val)) :=
  filter (fun kv => negb (key_eqb k (fst kv))) m.

Definition count_calls (k : nat * name) (l : list (nat * name)) : nat :=
  List.length (filter (key_eqb k) l).

Definition is_dyn (n : name) : bool := prefix "dyn" n.

(** The generated [__getattr__] (only entered when normal lookup failed):
    [func = cached_properties.get(item); if func is not None: result = func(self);
    _setter(item, result); return result]; then the user's original [__getattr__], else
    [super().__getattribute__] (fails again) and [super().__getattr__] if there is one. *)
Fixpoint ga_chain (layers : list layer) (st : istate) (i : nat) (n : name) : istate * res :=
  match layers with
  | [] => (st, RAttrErr)
  | L :: rest =>
      if in_names n (l_cached L) then
        let v := VComp n i (count_calls (i, n) (st_calls st)) in
        ({| st_vals := ((i, n), v) :: st_vals st; st_calls := st_calls st ++ [(i, n)] |}, RVal v)
      else match l_user L with
           | Some tag => (st, if is_dyn n then RVal (VDyn tag n) else RAttrErr)
           | None => ga_chain rest st i n
           end
  end.

(** Instance-level facts the machine needs. *)
Record iconf := {
  ic_layers : list layer;       (* __getattr__ layers in MRO order, the class itself first *)
  ic_slot_names : list name;    (* names backed by a slot anywhere in the MRO *)
  ic_has_dict : bool;
  ic_frozen : bool
}.

Definition storable (c : iconf) (n : name) : bool := in_names n (ic_slot_names c) || ic_has_dict c.

Definition step (c : iconf) (st : istate) (o : op) : istate * res :=
  match o with
  | OGet i n =>
      match vlookup (i, n) (st_vals st) with
      | Some v => (st, RVal v)
      | None => ga_chain (ic_layers c) st i n
      end
  | ODel i n =>
      if ic_frozen c then (st, RAttrErr) else
      match vlookup (i, n) (st_vals st) with
      | Some _ => ({| st_vals := vremove (i, n) (st_vals st); st_calls := st_calls st |}, RDone)
      | None => (st, RAttrErr)
      end
  | OSet i n k =>
      if ic_frozen c then (st, RAttrErr) else
      if storable c n then
        ({| st_vals := ((i, n), VTok k) :: vremove (i, n) (st_vals st); st_calls := st_calls st |}, RDone)
      else (st, RAttrErr)
  end.

Fixpoint run (c : iconf) (st : istate) (ops : list op) : list res * istate :=
  match ops with
  | [] => ([], st)
  | o :: r => let '(st1, x) := step c st o in
              let '(xs, st2) := run c st1 r in (x :: xs, st2)
  end.

Definition empty_state : istate := {| st_vals := []; st_calls := [] |}.

(** The layers of an instance of the new class. *)
Definition own_layer (o : output) : option layer :=
  match o_cached o with
  | [] => if o_user_getattr o then Some {| l_cached := []; l_user := Some "own" |} else None
  | cps => Some {| l_cached := cps; l_user := if o_user_getattr o then Some "own" else None |}
  end.

Definition layers_of (i : input) (o : output) : list layer :=
  (match own_layer o with Some L => [L] | None => [] end)
  ++ flat_map (fun b => match b_layer b with Some L => [L] | None => [] end) (i_mro i).

(** Instance-level consequences of the layout (CPython rules, observed). *)
Definition has_dict (i : input) : bool := existsb b_dict (i_mro i).
Definition weakrefable (i : input) (o : output) : bool :=
  in_names "__weakref__" (o_slots o) || weakref_inherited i.

(** In how many [__slots__] of the final MRO a name occurs: the new class's own plus those
    of the classes in the MRO that DEFINE a [__slots__] (harness input: per base, the names
    of its own [__slots__]). *)
Definition count_in (n : name) (l : list name) : nat := List.length (filter (String.eqb n) l).
