(** * C08 — tie by translation: the pure logic of [_ClassBuilder._create_slots_class] regenerated
    from the CURRENT source text ([Gen/C08_slots.v], written by harness/translate_c08.py on every run)
    coincides on EVERY input with the functions of [C08/Model.v] (and the named intermediate values
    of [C08/Proofs.v], which [create_shape] connects to [create_slots_class]) that the property theorems
    are stated about.  A source change that alters one of these pieces makes a lemma below fail to
    compile: a proof-obligation failure of ./check C08.

    The proofs are by extensionality of [filter] / [existsb] and case analysis on the booleans, not by
    comparing text: reordered conjuncts, a reordered tuple of dropped names, merged conditions pass. *)
From Coq Require Import List Bool String Ascii.
Import ListNotations.
From Attrs Require Import Base C14.NS C08.Model C08.Proofs Gen.C08_slots.
Open Scope string_scope.
Open Scope list_scope.

Lemma existsb_ext {A} (p r : A -> bool) l : (forall x, p x = r x) -> existsb p l = existsb r l.
Proof. intros H. induction l as [|a t IH]; cbn; [reflexivity | now rewrite H, IH]. Qed.

Lemma existsb_filter {A} (p r : A -> bool) l : existsb p (filter r l) = existsb (fun x => r x && p x) l.
Proof. induction l as [|a t IH]; cbn; [reflexivity|]. destruct (r a); cbn; now rewrite IH. Qed.

Lemma in_names_app k a b : in_names k (a ++ b) = in_names k a || in_names k b.
Proof. unfold in_names. apply existsb_app. Qed.

Ltac bools :=
  repeat match goal with
         | |- context [in_names ?k (?a ++ ?b)] => rewrite (in_names_app k a b)
         end;
  cbn [in_names existsb];
  repeat match goal with
         | |- context [String.eqb ?a ?b] => destruct (String.eqb a b)
         | |- context [existsb ?p ?l] => destruct (existsb p l)
         | |- context [in_names ?a ?l] => destruct (in_names a l)
         | |- context [if ?b then _ else _] => destruct b
         end; cbn; try reflexivity.

Lemma tie_fully_translated : c08_fully_translated = true.
Proof. reflexivity. Qed.

(** [cd = {k: v for k, v in self._cls_dict.items() if k not in (...)}] *)
(** ([base_names0]: the filter must not depend on which of the field names are inherited) *)
Lemma tie_filter_ns i base_names0 : t_filter_ns (i_attr_names i) base_names0 (i_ns i) = step_filter i.
Proof.
  unfold t_filter_ns, step_filter, dropped_name. apply filter_ext. intros [k e]. cbn [fst]. bools.
Qed.

(** the [__attrs_own_setattr__] / [__setattr__] writes *)
(** ([layout_base] stands for [self._cls.__base__], CPython's layout base: the writes must not depend on it) *)
Lemma tie_reset i layout_base :
  t_reset (i_wrote_own_setattr i) (i_has_custom_setattr i) (i_mro i) layout_base = (negb (i_wrote_own_setattr i), slots_reset i).
Proof.
  unfold t_reset, slots_reset. rewrite ?existsb_filter.
  rewrite (existsb_ext _ (fun b => b_immediate b && opt_true (b_own_setattr b)))
    by (intros b; unfold dict_get_true, opt_true; destruct (b_immediate b), (b_own_setattr b) as [[]|]; reflexivity).
  destruct (i_wrote_own_setattr i), (i_has_custom_setattr i),
    (existsb (fun b => b_immediate b && opt_true (b_own_setattr b)) (i_mro i)); reflexivity.
Qed.

Lemma tie_step_setattr i cd lb :
  step_setattr i cd =
    (if fst (t_reset (i_wrote_own_setattr i) (i_has_custom_setattr i) (i_mro i) lb) then
       let cd1 := setitemS "__attrs_own_setattr__" (ID_FALSE, KPlain) cd in
       if snd (t_reset (i_wrote_own_setattr i) (i_has_custom_setattr i) (i_mro i) lb)
       then setitemS "__setattr__" (ID_OBJ_SETATTR, KPlain) cd1 else cd1
     else cd).
Proof. rewrite tie_reset. cbn [fst snd]. unfold step_setattr. destruct (i_wrote_own_setattr i); reflexivity. Qed.

(** the MRO scan: which classes, the weakref flag, which names of a [__slots__] are visited *)
Lemma tie_scan_source mro : t_scan_source mro = mro.
Proof. unfold t_scan_source. reflexivity. Qed.

Lemma tie_weakref_inherited i : t_weakref_inherited (i_mro i) = weakref_inherited i.
Proof. unfold t_weakref_inherited, weakref_inherited. rewrite ?existsb_filter. apply existsb_ext. intros b. bools. Qed.

Lemma tie_iter_slots d : t_iter_slots d = iter_slots d.
Proof. destruct d; reflexivity. Qed.

(** a member of [cd] is a cached property iff [isinstance(member, cached_property)] - instances of
    subclasses included ([KCached] of the model is classified by isinstance) *)
Lemma tie_cached_member inst exact : t_cached_member inst exact = inst.
Proof. destruct inst, exact; reflexivity. Qed.

(** from [base_names = ...] to [cd["__slots__"] = ...]: the new [__slots__] and the re-used slots *)
Lemma tie_slots i ex :
  t_slots (i_weakref_slot i) (i_cache_hash i) (i_attr_names i) (i_base_names i) (i_orig_slots i)
          (cs_names (cs_of i)) (weakref_inherited i) ex
  = (slots_of i ex, reused_of i ex).
Proof.
  unfold t_slots, slots_of, slot_names2, reused_of, slot_names1, names_of, names0, add_weakref.
  set (c := cs_names (cs_of i)).
  destruct (i_cache_hash i), (i_weakref_slot i), (in_names "__weakref__" (i_attr_names i)),
    (in_names "__weakref__" (i_orig_slots i)), (weakref_inherited i), c;
    cbn [andb negb orb nonempty]; rewrite ?app_nil_r; reflexivity.
Qed.

(** ... so the weakref rule read off the source is the model's *)
Corollary tie_slots_of_create i o : create_slots_class i = ROk o ->
  fst (t_slots (i_weakref_slot i) (i_cache_hash i) (i_attr_names i) (i_base_names i) (i_orig_slots i)
               (cs_names (cs_of i)) (t_weakref_inherited (i_mro i)) (o_existing o)) = o_slots o.
Proof.
  intros H. destruct (create_shape i o H) as (ex & _ & -> & -> & _).
  now rewrite tie_weakref_inherited, tie_slots.
Qed.

(** the if / elif / else chain of the closure-cell rewrite loop *)
Lemma tie_inspected k : t_inspected k = inspected_cells k.
Proof.
  destruct k as [|f|f|f|g s d|f a|f| | | |]; cbn; rewrite ?app_nil_r; try reflexivity.
Qed.

(** the per-cell body of the rewrite loop, with its [except ValueError] handler: an empty cell is skipped and the
    REMAINING cells of the item are still visited *)
Lemma tie_rewrite_cells old new cells : forall st, t_rewrite_cells old new cells st = rewrite_cells old new cells st.
Proof.
  unfold rewrite_cells. induction cells as [|c r IH]; intros st; [reflexivity|].
  cbn [t_rewrite_cells fold_left]. unfold rewrite_cell at 2.
  destruct (get c st) as [|x|] eqn:E; cbn [cellval_eqb]; rewrite ?E; cbn [cellval_eqb].
  - apply IH.
  - destruct (Nat.eqb x old); apply IH.
  - apply IH.
Qed.
