(** * C08 — proofs about the namespace transformation, the cell rewrite, the slot
    tuple, the weakref rule and the [__attrs_init_subclass__] call. *)
From Coq Require Import List Bool String Ascii Arith Lia.
Import ListNotations.
From Attrs Require Import Base C14.NS C08.Model.
Open Scope string_scope.
Open Scope list_scope.

(** ** Specialised namespace lemmas (from C14/NS.v) *)
Definition seq := String.eqb_eq.

Lemma in_names_iff k l : in_names k l = true <-> In k l.
Proof.
  unfold in_names. rewrite existsb_exists. split.
  - intros (x & Hin & E). apply String.eqb_eq in E. now subst.
  - intros H. exists k. split; [assumption | apply String.eqb_refl].
Qed.

Lemma in_names_false k l : in_names k l = false <-> ~ In k l.
Proof. rewrite <- in_names_iff. destruct (in_names k l); split; intros H; congruence. Qed.

Lemma lk_set_same k v m : lookupS k (setitemS k v m) = Some v.
Proof. apply (lookup_setitem_same name entry String.eqb seq). Qed.

Lemma lk_set_other k k' v m : k <> k' -> lookupS k (setitemS k' v m) = lookupS k m.
Proof. apply (lookup_setitem_other name entry String.eqb seq). Qed.

Lemma lk_del_other k f m : k <> f -> lookupS k (delitemS f m) = lookupS k m.
Proof. apply (lookup_delitem_other name entry String.eqb seq). Qed.

Lemma lk_dels_other k fs m : ~ In k fs -> lookupS k (fold_left (fun acc f => delitemS f acc) fs m) = lookupS k m.
Proof. apply (lookup_delitems_other name entry String.eqb seq). Qed.

Lemma lk_update_notin k ws m : ~ In k (keys name entry ws) -> lookupS k (updateS ws m) = lookupS k m.
Proof.
  intros H. rewrite (lookup_update name entry String.eqb seq).
  now rewrite (last_write_notin name entry String.eqb seq _ _ H).
Qed.

Lemma lk_sets_other k (g : name -> entry) ss : forall m, ~ In k ss ->
  lookupS k (fold_left (fun m s => setitemS s (g s) m) ss m) = lookupS k m.
Proof.
  induction ss as [|s r IH]; intros m H; cbn; [reflexivity|].
  rewrite IH by (cbn in H; tauto). apply lk_set_other. cbn in H. intros ->. tauto.
Qed.

Lemma lookup_in k (m : nsT) e : lookupS k m = Some e -> In (k, e) m.
Proof.
  induction m as [|[k' v] r IH]; cbn; intros H; [discriminate|].
  destruct (String.eqb k k') eqn:E.
  - apply String.eqb_eq in E. subst. inversion H. now left.
  - right. auto.
Qed.

Lemma lookup_none_notin k (m : nsT) : lookupS k m = None <-> ~ In k (keys name entry m).
Proof.
  induction m as [|[k' v] r IH]; cbn; [tauto|].
  destruct (String.eqb k k') eqn:E.
  - apply String.eqb_eq in E. subst. split; [discriminate | tauto].
  - rewrite IH. apply String.eqb_neq in E. split; [intros H [X|X]; [congruence | tauto] | tauto].
Qed.

Lemma in_nodup_lookup k e (m : nsT) : NoDup (keys name entry m) -> In (k, e) m -> lookupS k m = Some e.
Proof.
  induction m as [|[k' v] r IH]; cbn; intros ND Hin; [destruct Hin|].
  inversion ND as [|? ? Hn ND']; subst.
  destruct Hin as [E|Hin].
  - inversion E; subst. now rewrite String.eqb_refl.
  - destruct (String.eqb k k') eqn:E.
    + apply String.eqb_eq in E. subst. exfalso. apply Hn. apply (in_map fst) in Hin. exact Hin.
    + auto.
Qed.

(** ** 1. The closure-cell rewrite loop *)

Lemma get_put_same c v st : get c (put c v st) = v.
Proof. cbn. now rewrite Nat.eqb_refl. Qed.

Lemma get_put_other c c' v st : c <> c' -> get c (put c' v st) = get c st.
Proof. intros H. cbn. apply Nat.eqb_neq in H. now rewrite H. Qed.

Section Fold.
  Variables (X : Type) (old new : nat) (f : store -> X -> store) (P : X -> nat -> bool).
  Hypothesis Hf : forall st x c,
    get c (f st x) = if P x c && cellval_eqb (get c st) (CCls old) then CCls new else get c st.

  Lemma fold_get : forall xs st c,
    get c (fold_left f xs st) =
      if existsb (fun x => P x c) xs && cellval_eqb (get c st) (CCls old) then CCls new else get c st.
  Proof.
    induction xs as [|x r IH]; intros st c; cbn; [reflexivity|].
    rewrite IH, Hf.
    destruct (P x c) eqn:Px; cbn.
    - destruct (cellval_eqb (get c st) (CCls old)) eqn:Ho; cbn.
      + match goal with |- context [if ?bb then CCls new else CCls new] => destruct bb end; reflexivity.
      + rewrite Ho, andb_false_r. reflexivity.
    - reflexivity.
  Qed.
End Fold.

Lemma rewrite_cell_get old new st c' c :
  get c (rewrite_cell old new st c') =
    if Nat.eqb c c' && cellval_eqb (get c st) (CCls old) then CCls new else get c st.
Proof.
  unfold rewrite_cell. destruct (Nat.eqb c c') eqn:E; cbn.
  - apply Nat.eqb_eq in E. subst c'.
    destruct (cellval_eqb (get c st) (CCls old)); [apply get_put_same | reflexivity].
  - apply Nat.eqb_neq in E.
    destruct (cellval_eqb (get c' st) (CCls old)); [now apply get_put_other | reflexivity].
Qed.

Definition mentions (c : nat) (cells : list nat) : bool := existsb (Nat.eqb c) cells.

Lemma rewrite_cells_get old new cells st c :
  get c (rewrite_cells old new cells st) =
    if mentions c cells && cellval_eqb (get c st) (CCls old) then CCls new else get c st.
Proof.
  unfold rewrite_cells, mentions.
  apply (fold_get nat old new (rewrite_cell old new) (fun c' c => Nat.eqb c c')).
  intros. apply rewrite_cell_get.
Qed.

(** The loop, exactly: a cell ends up holding the new class iff it held the old one and
    some visited item lists it; every other cell is untouched. *)
Theorem rewrite_all_get old new items st c :
  get c (rewrite_all old new items st) =
    if existsb (mentions c) items && cellval_eqb (get c st) (CCls old) then CCls new else get c st.
Proof.
  unfold rewrite_all.
  apply (fold_get (list nat) old new (fun s cells => rewrite_cells old new cells s) (fun cells c => mentions c cells)).
  intros. apply rewrite_cells_get.
Qed.

Lemma cellval_eqb_spec a b : cellval_eqb a b = true <-> a = b.
Proof.
  destruct a, b; cbn; split; intros H; try discriminate; try reflexivity.
  - apply Nat.eqb_eq in H. congruence.
  - inversion H. apply Nat.eqb_refl.
Qed.

Lemma mentions_iff c cells : mentions c cells = true <-> In c cells.
Proof.
  unfold mentions. rewrite existsb_exists. split.
  - intros (x & Hin & E). apply Nat.eqb_eq in E. now subst.
  - intros H. exists c. split; [assumption | apply Nat.eqb_refl].
Qed.

Lemma create_store i o : create_slots_class i = ROk o ->
  o_store o = rewrite_all (i_old i) (i_new i) (o_items o) (o_store0 o).
Proof.
  unfold create_slots_class. destruct (existing_slots (i_mro i) []); [|discriminate].
  intros H. inversion H; subst; reflexivity.
Qed.

Lemma create_items i o : create_slots_class i = ROk o ->
  forall k e, In (k, e) (o_ns o) -> In (inspected_cells (e_kind e)) (o_items o).
Proof.
  unfold create_slots_class. destruct (existing_slots (i_mro i) []); [|discriminate].
  intros H k e Hin. inversion H; subst; cbn in *.
  apply in_or_app. left. apply in_map_iff. exists (k, e). split; [reflexivity | assumption].
Qed.

(** [cells_rewritten]: for the class that [_create_slots_class] returns, a cell holds the
    new class afterwards exactly when it held the old class and is listed by an inspected
    item; all other cells keep their contents. *)
Theorem cells_rewritten_l i o c : create_slots_class i = ROk o ->
  get c (o_store o) =
    if existsb (mentions c) (o_items o) && cellval_eqb (get c (o_store0 o)) (CCls (i_old i))
    then CCls (i_new i) else get c (o_store0 o).
Proof. intros H. rewrite (create_store i o H). apply rewrite_all_get. Qed.

(** Every function, classmethod, staticmethod and property accessor (fget, fset or fdel)
    found in the new class's namespace has its old-class cells rebound. *)
Theorem members_rebound_l i o k e c : create_slots_class i = ROk o ->
  lookupS k (o_ns o) = Some e -> In c (inspected_cells (e_kind e)) ->
  get c (o_store0 o) = CCls (i_old i) -> get c (o_store o) = CCls (i_new i).
Proof.
  intros H Hl Hc Hold. rewrite (cells_rewritten_l i o c H).
  assert (existsb (mentions c) (o_items o) = true) as ->.
  { apply existsb_exists. exists (inspected_cells (e_kind e)). split.
    - eapply create_items; eauto. apply lookup_in. exact Hl.
    - now apply mentions_iff. }
  rewrite Hold. cbn. now rewrite Nat.eqb_refl.
Qed.

Lemma inspected_prop_fset g s d c : In c s -> In c (inspected_cells (KProp g (Some s) d)).
Proof. intros H. cbn. apply in_or_app. right. apply in_or_app. now left. Qed.

Lemma inspected_prop_fdel g s d c : In c d -> In c (inspected_cells (KProp g s (Some d))).
Proof. intros H. cbn. apply in_or_app. right. apply in_or_app. now right. Qed.

(** A cell that no inspected item lists keeps the OLD class: this is how a member of a
    kind the loop does not look into (custom descriptor, partialmethod, the function
    hidden in a decorator's wrapper) is missed. *)
Theorem uninspected_cell_kept_l i o c : create_slots_class i = ROk o ->
  existsb (mentions c) (o_items o) = false -> get c (o_store o) = get c (o_store0 o).
Proof. intros H Hn. rewrite (cells_rewritten_l i o c H), Hn. reflexivity. Qed.

Definition mk_input (ns : nsT) (st : store) : input :=
  {| i_old := 0; i_new := 1; i_ns := ns; i_attr_names := []; i_base_names := []; i_mro := [];
     i_weakref_slot := false; i_cache_hash := false; i_orig_slots := []; i_wrote_own_setattr := true;
     i_has_custom_setattr := false; i_store := st; i_fresh := 99 |}.

(** Refutation of the unguarded statement "every member that mentions __class__ sees the
    new class": a body whose only user of the cell is wrapped in a custom descriptor. *)
Theorem uninspected_kind_refuted :
  exists i o, create_slots_class i = ROk o /\
    lookupS "m" (o_ns o) = Some (10, KDescr [0]) /\ get 0 (o_store0 o) = CCls (i_old i) /\
    get 0 (o_store o) = CCls (i_old i).
Proof.
  exists (mk_input [("m", (10, KDescr [0]))] [(0, CCls 0)]). eexists. split; [vm_compute; reflexivity|].
  vm_compute. repeat split.
Qed.

(** ... and the shared cell rescues it as soon as one inspected member of the same body
    uses the cell too (non-vacuity of [members_rebound_l] at the same time). *)
Example shared_cell_rescues :
  exists i o, create_slots_class i = ROk o /\
    lookupS "m" (o_ns o) = Some (10, KDescr [0]) /\ lookupS "p" (o_ns o) = Some (11, KProp None (Some [0]) None) /\
    get 0 (o_store o) = CCls (i_new i).
Proof.
  exists (mk_input [("m", (10, KDescr [0])); ("p", (11, KProp None (Some [0]) None))] [(0, CCls 0)]).
  eexists. split; [vm_compute; reflexivity|]. vm_compute. repeat split.
Qed.

(** ** 2. The namespace: what survives *)

Definition cd0 (i : input) : nsT := step_setattr i (step_filter i).
Definition cs_of (i : input) : cached_step := step_cached i (cd0 i).
Definition names_of (i : input) : list name := names0 i ++ cs_names (cs_of i).
Definition slot_names1 (i : input) : list name :=
  filter (fun n => negb (in_names n (i_base_names i))) (names_of i).
Definition reused_of (i : input) (ex : slot_map) : slot_map :=
  filter (fun kd => in_names (fst kd) (slot_names1 i)) ex.
Definition slot_names2 (i : input) (ex : slot_map) : list name :=
  filter (fun n => negb (in_names n (map fst (reused_of i ex)))) (slot_names1 i).
Definition slots_of (i : input) (ex : slot_map) : list name :=
  slot_names2 i ex ++ (if i_cache_hash i then [HASH_CACHE] else []).
Definition cd3_of (i : input) (ex : slot_map) : nsT :=
  setitemS "__qualname__" (ID_QUALNAME, KPlain)
    (setitemS "__slots__" (ID_SLOTS, KPlain) (updateS (slot_entries (reused_of i ex)) (cs_cd (cs_of i)))).

Lemma create_shape i o : create_slots_class i = ROk o ->
  exists ex, existing_slots (i_mro i) [] = Some ex /\ o_existing o = ex /\
    o_slots o = slots_of i ex /\ o_cd o = cd3_of i ex /\
    o_ns o = py_type (cd3_of i ex) (slots_of i ex) /\
    o_cached o = cs_names (cs_of i) /\ o_store0 o = cs_store (cs_of i) /\
    o_name o = OfOriginal /\ o_bases o = OfOriginal /\ o_meta o = OfOriginal.
Proof.
  unfold create_slots_class. destruct (existing_slots (i_mro i) []) as [ex|]; [|discriminate].
  intros H. exists ex. inversion H; subst; cbn. repeat split; reflexivity.
Qed.

Lemma cs_names_eq i cd : cs_names (step_cached i cd) = map fst (cached_of cd).
Proof. unfold step_cached. destruct (cached_of cd); reflexivity. Qed.

Lemma in_setitem k e k' v (m : nsT) : In (k, e) (setitemS k' v m) -> (k, e) = (k', v) \/ In (k, e) m.
Proof.
  induction m as [|[k2 v2] r IH]; cbn; intros H.
  - destruct H as [H|[]]. left. now symmetry.
  - destruct (String.eqb k' k2).
    + destruct H as [H|H]; [left; now symmetry | right; now right].
    + destruct H as [H|H]; [right; now left|]. destruct (IH H) as [X|X]; [now left | right; now right].
Qed.

Lemma in_cached_of n f cd : In (n, f) (cached_of cd) -> exists id a, In (n, (id, KCached f a)) cd.
Proof.
  unfold cached_of. rewrite in_flat_map. intros ([k [id kd]] & Hin & H). cbn in H.
  destruct kd; cbn in H; try contradiction. destruct H as [H|[]]. inversion H; subst. eauto.
Qed.

Lemma in_cd0 i n e : In (n, e) (cd0 i) ->
  (In (n, e) (i_ns i) /\ dropped_name i n = false) \/ e_kind e = KPlain.
Proof.
  unfold cd0, step_setattr. intros H.
  assert (In (n, e) (step_filter i) -> In (n, e) (i_ns i) /\ dropped_name i n = false) as F.
  { unfold step_filter. rewrite filter_In. cbn. intros [A B]. split; [assumption|]. now apply negb_true_iff in B. }
  destruct (i_wrote_own_setattr i); [left; auto|].
  destruct (slots_reset i).
  - apply in_setitem in H as [H|H]; [inversion H; subst; now right|].
    apply in_setitem in H as [H|H]; [inversion H; subst; now right | left; auto].
  - apply in_setitem in H as [H|H]; [inversion H; subst; now right | left; auto].
Qed.

Lemma cached_name_origin i n : In n (cs_names (cs_of i)) ->
  exists id f a, In (n, (id, KCached f a)) (i_ns i) /\ dropped_name i n = false.
Proof.
  unfold cs_of. rewrite cs_names_eq, in_map_iff. intros ([n' f] & <- & Hin). cbn.
  apply in_cached_of in Hin as (id & a & Hin). apply in_cd0 in Hin as [[A B]|K]; [eauto | discriminate K].
Qed.

Lemma in_names_of i n : In n (names_of i) ->
  In n (i_attr_names i) \/ n = "__weakref__" \/ In n (cs_names (cs_of i)).
Proof.
  unfold names_of, names0. rewrite !in_app_iff. intros [[H|H]|H]; auto.
  destruct (add_weakref i); [destruct H as [<-|[]]; auto | destruct H].
Qed.

Lemma in_slots_of i ex n : In n (slots_of i ex) ->
  In n (i_attr_names i) \/ n = "__weakref__" \/ In n (cs_names (cs_of i)) \/ n = HASH_CACHE.
Proof.
  unfold slots_of, slot_names2, slot_names1. rewrite in_app_iff, !filter_In. intros [[[H _] _]|H].
  - apply in_names_of in H. tauto.
  - destruct (i_cache_hash i); [destruct H as [<-|[]]; tauto | destruct H].
Qed.

Lemma in_reused_keys i ex n : In n (keys name entry (slot_entries (reused_of i ex))) ->
  In n (i_attr_names i) \/ n = "__weakref__" \/ In n (cs_names (cs_of i)).
Proof.
  unfold keys, slot_entries. rewrite map_map. cbn. rewrite in_map_iff. intros ([k d] & <- & Hin). cbn.
  unfold reused_of in Hin. apply filter_In in Hin as [_ Hin]. cbn in Hin. apply in_names_iff in Hin.
  unfold slot_names1 in Hin. apply filter_In in Hin as [Hin _]. now apply in_names_of.
Qed.

Definition fixed_written : list name :=
  ["__attrs_own_setattr__"; "__setattr__"; "__getattr__"; "__slots__"; "__qualname__"; HASH_CACHE].

(** Outside the names attrs touches, the new class's namespace is the filtered original. *)
Lemma lookup_o_ns i o k : create_slots_class i = ROk o ->
  ~ In k (i_attr_names i) -> k <> "__weakref__" -> ~ In k (cs_names (cs_of i)) -> ~ In k fixed_written ->
  lookupS k (o_ns o) = lookupS k (step_filter i).
Proof.
  intros H Ha Hw Hc Hf. destruct (create_shape i o H) as (ex & _ & _ & _ & _ & -> & _).
  assert (forall s, In s fixed_written -> k <> s) as Ne by (intros s Hs ->; contradiction).
  unfold py_type. rewrite lk_sets_other.
  2:{ intros Hin. apply in_slots_of in Hin as [X|[X|[X|X]]]; try contradiction. apply Hf. subst. cbn. tauto. }
  rewrite lk_del_other by (apply Ne; cbn; tauto).
  unfold cd3_of. rewrite !lk_set_other by (apply Ne; cbn; tauto).
  rewrite lk_update_notin.
  2:{ intros Hin. apply in_reused_keys in Hin as [X|[X|X]]; contradiction. }
  assert (lookupS k (cs_cd (cs_of i)) = lookupS k (cd0 i)) as ->.
  { unfold cs_of in *. rewrite cs_names_eq in Hc. unfold step_cached.
    destruct (cached_of (cd0 i)) eqn:E; [reflexivity|]. cbn [cs_cd].
    rewrite lk_set_other by (apply Ne; cbn; tauto). rewrite <- E in *. apply lk_dels_other. exact Hc. }
  unfold cd0, step_setattr. destruct (i_wrote_own_setattr i); [reflexivity|].
  destruct (slots_reset i); rewrite !lk_set_other by (apply Ne; cbn; tauto); reflexivity.
Qed.

Definition is_cached_kind (k : kind) : bool := match k with KCached _ _ => true | _ => false end.

Lemma dropped_false i k : dropped_name i k = false -> ~ In k (i_attr_names i) /\ k <> "__weakref__" /\ k <> "__dict__".
Proof.
  unfold dropped_name. rewrite in_names_false, in_app_iff. cbn. intros H. repeat split; intros X; apply H; subst; tauto.
Qed.

(** [slots_preserve_namespace]: every entry of the original namespace that is not a field
    definition, [__dict__], [__weakref__] or a cached_property, and whose name is not one
    of the six names attrs writes, is found in the new class - the identical object. *)
Theorem slots_preserve_namespace_l i o k e :
  NoDup (keys name entry (i_ns i)) -> create_slots_class i = ROk o ->
  lookupS k (i_ns i) = Some e -> dropped_name i k = false -> is_cached_kind (e_kind e) = false ->
  ~ In k fixed_written ->
  lookupS k (o_ns o) = Some e.
Proof.
  intros ND H Hl Hd Hk Hf. destruct (dropped_false i k Hd) as (Ha & Hw & _).
  rewrite (lookup_o_ns i o k H Ha Hw); [| |exact Hf].
  - unfold step_filter. apply (lookup_filter_keep name entry String.eqb seq); [exact Hl|]. cbn. now rewrite Hd.
  - intros Hc. apply cached_name_origin in Hc as (id & f & a & Hin & _).
    rewrite (in_nodup_lookup k _ _ ND Hin) in Hl. inversion Hl; subst. discriminate Hk.
Qed.

(** ... and no entry appears under a name that was absent and is none of attrs' names. *)
Theorem slots_absent_l i o k : create_slots_class i = ROk o ->
  lookupS k (i_ns i) = None -> ~ In k (i_attr_names i) -> k <> "__weakref__" -> ~ In k fixed_written ->
  lookupS k (o_ns o) = None.
Proof.
  intros H Hl Ha Hw Hf. rewrite (lookup_o_ns i o k H Ha Hw); [| |exact Hf].
  - unfold step_filter. now apply (lookup_filter_none name entry String.eqb).
  - intros Hc. apply cached_name_origin in Hc as (id & f & a & Hin & _).
    apply lookup_none_notin in Hl. apply Hl. apply (in_map fst) in Hin. exact Hin.
Qed.

(** Name, bases and metaclass are those of the original; the qualified name, module and
    docstring entries reach [type()]. *)
Theorem header_carried_over_l i o :
  create_slots_class i = ROk o -> ~ In "__module__" (i_attr_names i) -> ~ In "__doc__" (i_attr_names i) ->
  NoDup (keys name entry (i_ns i)) ->
  (forall e, lookupS "__module__" (i_ns i) = Some e -> is_cached_kind (e_kind e) = false) ->
  (forall e, lookupS "__doc__" (i_ns i) = Some e -> is_cached_kind (e_kind e) = false) ->
  header_same i o = [true; true; true; true; true; true].
Proof.
  intros H Hm Hdoc ND Km Kd. destruct (create_shape i o H) as (ex & _ & _ & _ & Hcd & Hns & _ & _ & Hn & Hb & Hmeta).
  unfold header_same. rewrite Hn, Hb, Hmeta, Hcd. cbn [is_original].
  assert (lookupS "__qualname__" (cd3_of i ex) = Some (ID_QUALNAME, KPlain)) as -> by apply lk_set_same.
  cbn [e_id fst Nat.eqb ID_QUALNAME].
  assert (forall k, ~ In k (i_attr_names i) -> k <> "__weakref__" -> k <> "__dict__" -> ~ In k fixed_written ->
            (forall e, lookupS k (i_ns i) = Some e -> is_cached_kind (e_kind e) = false) ->
            same_entry k (i_ns i) (cd3_of i ex) = true) as S.
  { intros k Ha Hw Hdd Hf Kk. unfold same_entry.
    assert (lookupS k (cd3_of i ex) = lookupS k (o_ns o)) as ->.
    { rewrite Hns.
      unfold py_type. rewrite lk_sets_other.
      - symmetry. apply lk_del_other. intros ->. apply Hf. cbn. tauto.
      - intros Hin. apply in_slots_of in Hin as [X|[X|[X|X]]]; try contradiction.
        + apply cached_name_origin in X as (id & f & a & Hin & _).
          specialize (Kk _ (in_nodup_lookup _ _ _ ND Hin)). discriminate Kk.
        + apply Hf. subst. cbn. tauto. }
    assert (dropped_name i k = false) as Hd.
    { unfold dropped_name. apply in_names_false. rewrite in_app_iff. cbn. intros [X|[X|[X|[]]]]; subst; auto. }
    destruct (lookupS k (i_ns i)) as [e|] eqn:El.
    - rewrite (slots_preserve_namespace_l i o k e ND H El Hd (Kk e eq_refl) Hf). apply Nat.eqb_refl.
    - now rewrite (slots_absent_l i o k H El Ha Hw Hf). }
  rewrite (S "__module__"), (S "__doc__"); auto; try discriminate; cbn; intros X; decompose [or] X; try discriminate; auto.
Qed.

(** ** 3. The slot tuple *)

Lemma count_in_app n a b : count_in n (a ++ b) = count_in n a + count_in n b.
Proof. unfold count_in. now rewrite filter_app, app_length. Qed.

Lemma count_in_filter n p l : count_in n (filter p l) = if p n then count_in n l else 0.
Proof.
  unfold count_in. induction l as [|a r IH]; cbn; [now destruct (p n)|].
  destruct (String.eqb n a) eqn:E.
  - apply String.eqb_eq in E. subst a. destruct (p n) eqn:Pn; cbn.
    + rewrite String.eqb_refl. cbn. now rewrite IH.
    + exact IH.
  - destruct (p a); cbn; rewrite ?E; exact IH.
Qed.

Lemma count_in_notin n l : ~ In n l -> count_in n l = 0.
Proof.
  unfold count_in. induction l as [|a r IH]; cbn; intros H; [reflexivity|].
  destruct (String.eqb n a) eqn:E; [apply String.eqb_eq in E; subst; tauto | apply IH; tauto].
Qed.

Lemma count_in_pos n l : count_in n l <> 0 -> In n l.
Proof. intros H. destruct (in_dec string_dec n l) as [Y|N]; [exact Y | now rewrite count_in_notin in H]. Qed.

Lemma count_in_nodup_le n l : NoDup l -> count_in n l <= 1.
Proof.
  induction 1 as [|a r Hn ND IH]; cbn; [lia|].
  unfold count_in in *. cbn. destruct (String.eqb n a) eqn:E; [|exact IH].
  apply String.eqb_eq in E. subst a. cbn. fold (count_in n r). rewrite (count_in_notin n r Hn). lia.
Qed.

Lemma count_in_nodup n l : NoDup l -> In n l -> count_in n l = 1.
Proof.
  induction 1 as [|a r Hn ND IH]; intros Hin; [destruct Hin|].
  unfold count_in in *. cbn. destruct (String.eqb n a) eqn:E.
  - apply String.eqb_eq in E. subst a. cbn. fold (count_in n r). now rewrite (count_in_notin n r Hn).
  - destruct Hin as [->|Hin]; [now rewrite String.eqb_refl in E | now apply IH].
Qed.

Lemma in_keys_filter_fst {V} (qf : name -> bool) (ex : list (name * V)) n :
  In n (map fst (filter (fun kd => qf (fst kd)) ex)) <-> In n (map fst ex) /\ qf n = true.
Proof.
  rewrite !in_map_iff. split.
  - intros ([k d] & <- & Hin). apply filter_In in Hin as [A B]. cbn in *. split; [exists (k, d); auto | exact B].
  - intros (([k d] & <- & Hin) & Q). exists (k, d). split; [reflexivity|]. apply filter_In. auto.
Qed.

Lemma cached_not_field i n : In n (cs_names (cs_of i)) -> ~ In n (i_attr_names i) /\ n <> "__weakref__".
Proof.
  intros H. apply cached_name_origin in H as (id & f & a & _ & Hd).
  destruct (dropped_false i n Hd) as (A & B & _). auto.
Qed.

Lemma add_weakref_notin i : add_weakref i = true -> ~ In "__weakref__" (i_attr_names i).
Proof.
  unfold add_weakref. rewrite !andb_true_iff. intros [[_ H] _]. apply negb_true_iff in H. now apply in_names_false.
Qed.

Lemma count_names_of_field i n : NoDup (i_attr_names i) -> In n (i_attr_names i) -> count_in n (names_of i) = 1.
Proof.
  intros ND Hin. unfold names_of, names0. rewrite !count_in_app, (count_in_nodup n _ ND Hin).
  assert (count_in n (if add_weakref i then ["__weakref__"] else []) = 0) as ->.
  { destruct (add_weakref i) eqn:E; [|reflexivity]. apply count_in_notin. intros [<-|[]].
    now apply (add_weakref_notin i E). }
  rewrite count_in_notin; [reflexivity|]. intros Hc. now apply cached_not_field in Hc as [X _].
Qed.

(** [own_field_one_slot]: a field that is not inherited gets exactly one slot in the new
    class - or none when a class of the MRO already has a slot of that name (then that
    slot is re-used); inherited fields are never slotted again. *)
Theorem own_field_one_slot_l i o n :
  NoDup (i_attr_names i) -> create_slots_class i = ROk o ->
  In n (i_attr_names i) -> ~ In n (i_base_names i) -> n <> HASH_CACHE ->
  count_in n (o_slots o) = if in_names n (map fst (o_existing o)) then 0 else 1.
Proof.
  intros ND H Hin Hb Hh. destruct (create_shape i o H) as (ex & _ & -> & -> & _).
  unfold slots_of. rewrite count_in_app.
  assert (count_in n (if i_cache_hash i then [HASH_CACHE] else []) = 0) as ->.
  { destruct (i_cache_hash i); [|reflexivity]. apply count_in_notin. intros [X|[]]. now apply Hh. }
  unfold slot_names2. rewrite count_in_filter.
  assert (count_in n (slot_names1 i) = 1) as C1.
  { unfold slot_names1. rewrite count_in_filter.
    apply in_names_false in Hb. rewrite Hb. cbn. now apply count_names_of_field. }
  assert (in_names n (map fst (reused_of i ex)) = in_names n (map fst ex)) as ->.
  { destruct (in_names n (map fst ex)) eqn:E.
    - apply in_names_iff. apply in_names_iff in E. unfold reused_of.
      apply (in_keys_filter_fst (fun k => in_names k (slot_names1 i))). split; [exact E|].
      apply in_names_iff. apply count_in_pos. rewrite C1. discriminate.
    - apply in_names_false. apply in_names_false in E. intros X. apply E. unfold reused_of in X.
      now apply (in_keys_filter_fst (fun k => in_names k (slot_names1 i))) in X as [X _]. }
  destruct (in_names n (map fst ex)); cbn; lia.
Qed.

Theorem inherited_not_slotted_l i o n :
  create_slots_class i = ROk o -> In n (i_base_names i) -> n <> HASH_CACHE -> ~ In n (o_slots o).
Proof.
  intros H Hb Hh. destruct (create_shape i o H) as (ex & _ & _ & -> & _).
  unfold slots_of, slot_names2, slot_names1. rewrite in_app_iff, !filter_In. intros [[[_ X] _]|X].
  - apply in_names_iff in Hb. rewrite Hb in X. discriminate.
  - destruct (i_cache_hash i); [destruct X as [X|[]]; now apply Hh | destruct X].
Qed.

(** The re-used descriptor of the base is what the new class's namespace holds. *)
Lemma keys_setitem_nat k (d : nat) (m : slot_map) n :
  In n (map fst (setitem name nat String.eqb k d m)) <-> n = k \/ In n (map fst m).
Proof.
  induction m as [|[k' d'] r IH]; cbn; [intuition|].
  destruct (String.eqb k k') eqn:E; cbn.
  - apply String.eqb_eq in E. subst. intuition.
  - rewrite IH. intuition.
Qed.

(** No duplicates in the new [__slots__]. *)
Lemma nodup_keys_setitem k v (m : nsT) : NoDup (keys name entry m) -> NoDup (keys name entry (setitemS k v m)).
Proof.
  induction m as [|[k' v'] r IH]; cbn; intros ND; [constructor; [tauto | constructor]|].
  inversion ND as [|? ? Hn ND']; subst.
  destruct (String.eqb k k') eqn:E; cbn.
  - apply String.eqb_eq in E. subst. constructor; assumption.
  - constructor; [|now apply IH]. intros Hin. apply String.eqb_neq in E.
    assert (forall m0 : nsT, In k' (keys name entry (setitemS k v m0)) -> k' = k \/ In k' (keys name entry m0)) as K.
    { induction m0 as [|[k2 v2] r2 IH2]; cbn; [intuition|].
      destruct (String.eqb k k2) eqn:E2; cbn; [apply String.eqb_eq in E2; subst; intuition|].
      intros [X|X]; [intuition | destruct (IH2 X); intuition]. }
    destruct (K r Hin) as [X|X]; [congruence | contradiction].
Qed.

Lemma nodup_keys_filter (p : name * entry -> bool) (m : nsT) :
  NoDup (keys name entry m) -> NoDup (keys name entry (filter p m)).
Proof.
  induction m as [|[k v] r IH]; cbn; intros ND; [constructor|].
  inversion ND as [|? ? Hn ND']; subst. destruct (p (k, v)); cbn; [|now apply IH].
  constructor; [|now apply IH]. intros Hin. apply Hn.
  unfold keys in *. apply in_map_iff in Hin as (x & <- & Hx). apply filter_In in Hx as [Hx _]. now apply in_map.
Qed.

Lemma nodup_cd0 i : NoDup (keys name entry (i_ns i)) -> NoDup (keys name entry (cd0 i)).
Proof.
  intros ND. unfold cd0, step_setattr. pose proof (nodup_keys_filter (fun kv => negb (dropped_name i (fst kv))) _ ND) as F.
  fold (step_filter i) in F.
  destruct (i_wrote_own_setattr i); [exact F|]. destruct (slots_reset i); repeat apply nodup_keys_setitem; exact F.
Qed.

Lemma nodup_cached_names (cd : nsT) : NoDup (keys name entry cd) -> NoDup (map fst (cached_of cd)).
Proof.
  induction cd as [|[k [id kd]] r IH]; cbn; intros ND; [constructor|].
  inversion ND as [|? ? Hn ND']; subst.
  assert (forall n, In n (map fst (cached_of r)) -> In n (keys name entry r)) as Sub.
  { intros n Hin. apply in_map_iff in Hin as ([n' f] & <- & Hin). apply in_cached_of in Hin as (id' & a & Hin).
    apply (in_map fst) in Hin. exact Hin. }
  destruct kd; cbn; try (now apply IH).
  constructor; [|now apply IH]. intros Hin. apply Hn. now apply Sub.
Qed.

Theorem slots_no_duplicates_l i o n :
  NoDup (i_attr_names i) -> NoDup (keys name entry (i_ns i)) ->
  ~ In HASH_CACHE (i_attr_names i) -> ~ In HASH_CACHE (keys name entry (i_ns i)) ->
  create_slots_class i = ROk o -> count_in n (o_slots o) <= 1.
Proof.
  intros NDa NDk Ha Hk H. destruct (create_shape i o H) as (ex & _ & _ & -> & _).
  unfold slots_of. rewrite count_in_app.
  assert (count_in n (slot_names2 i ex) <= count_in n (names_of i)) as Le.
  { unfold slot_names2, slot_names1. rewrite !count_in_filter.
    destruct (negb (in_names n (map fst (reused_of i ex)))); [|lia].
    destruct (negb (in_names n (i_base_names i))); lia. }
  assert (~ In HASH_CACHE (cs_names (cs_of i))) as Hc.
  { intros X. apply cached_name_origin in X as (id & f & a & Hin & _). apply Hk. apply (in_map fst) in Hin. exact Hin. }
  destruct (string_dec n HASH_CACHE) as [->|Ne].
  - assert (count_in HASH_CACHE (names_of i) = 0) as Z.
    { apply count_in_notin. intros X. apply in_names_of in X as [X|[X|X]]; [contradiction | discriminate X | contradiction]. }
    assert (count_in HASH_CACHE (if i_cache_hash i then [HASH_CACHE] else []) <= 1) by (destruct (i_cache_hash i); cbn; lia).
    lia.
  - assert (count_in n (if i_cache_hash i then [HASH_CACHE] else []) = 0) as ->.
    { destruct (i_cache_hash i); [|reflexivity]. apply count_in_notin. intros [X|[]]. now apply Ne. }
    assert (count_in n (names_of i) <= 1); [|lia].
    unfold names_of, names0. rewrite !count_in_app.
    pose proof (count_in_nodup_le n _ NDa) as A.
    assert (NoDup (cs_names (cs_of i))) as NDc.
    { unfold cs_of. rewrite cs_names_eq. apply nodup_cached_names. now apply nodup_cd0. }
    pose proof (count_in_nodup_le n _ NDc) as C.
    destruct (count_in n (cs_names (cs_of i))) eqn:Ec.
    + destruct (add_weakref i) eqn:Ew; [|cbn; lia].
      destruct (string_dec n "__weakref__") as [->|Nw].
      * rewrite (count_in_notin "__weakref__" (i_attr_names i) (add_weakref_notin i Ew)). cbn. lia.
      * rewrite (count_in_notin n ["__weakref__"]); [lia|]. intros [X|[]]. now apply Nw.
    + assert (In n (cs_names (cs_of i))) as Hin by (apply count_in_pos; rewrite Ec; discriminate).
      destruct (cached_not_field i n Hin) as [N1 N2].
      rewrite (count_in_notin n (i_attr_names i) N1).
      rewrite (count_in_notin n (if add_weakref i then ["__weakref__"] else [])); [lia|].
      destruct (add_weakref i); [intros [X|[]]; now apply N2 | tauto].
Qed.

(** ** 4. The weakref rule *)

Theorem weakref_iff_l i o :
  create_slots_class i = ROk o -> ~ In "__weakref__" (i_attr_names i) ->
  (In "__weakref__" (o_slots o) <->
   add_weakref i = true /\ ~ In "__weakref__" (i_base_names i) /\ ~ In "__weakref__" (map fst (o_existing o))).
Proof.
  intros H Ha. destruct (create_shape i o H) as (ex & _ & -> & -> & _).
  assert (In "__weakref__" (names_of i) <-> add_weakref i = true) as N.
  { unfold names_of, names0. rewrite !in_app_iff. split.
    - intros [[X|X]|X]; [contradiction | | now apply cached_not_field in X as [_ X]].
      destruct (add_weakref i); [reflexivity | destruct X].
    - intros ->. left. right. now left. }
  unfold slots_of, slot_names2. rewrite in_app_iff, filter_In. unfold slot_names1 at 1. rewrite filter_In, N.
  rewrite negb_true_iff, in_names_false. rewrite negb_true_iff, in_names_false.
  unfold reused_of. rewrite (in_keys_filter_fst (fun k => in_names k (slot_names1 i))).
  split.
  - intros [[[A B] C]|X].
    + repeat split; auto. intros E. apply C. split; [exact E|]. apply in_names_iff. unfold slot_names1.
      apply filter_In. split; [now apply N|]. apply negb_true_iff. now apply in_names_false.
    + destruct (i_cache_hash i); [destruct X as [X|[]]; discriminate X | destruct X].
  - intros (A & B & C). left. repeat split; auto. intros [E _]. contradiction.
Qed.

(** Instances are weak-referenceable iff weakref_slot is on or a base provides it (also
    when the class body itself lists [__weakref__] in a [__slots__] of its own). *)
Definition mro_consistent (i : input) (o : output) : Prop :=
  In "__weakref__" (map fst (o_existing o)) -> weakref_inherited i = true.

Theorem weakrefable_iff_l i o :
  create_slots_class i = ROk o -> ~ In "__weakref__" (i_attr_names i) -> ~ In "__weakref__" (i_base_names i) ->
  mro_consistent i o ->
  weakrefable i o = (i_weakref_slot i || weakref_inherited i).
Proof.
  intros H Ha Hb Hm. unfold weakrefable.
  destruct (weakref_inherited i) eqn:Ei; [now rewrite !orb_true_r|]. rewrite !orb_false_r.
  destruct (in_names "__weakref__" (o_slots o)) eqn:E.
  - apply in_names_iff in E. apply (weakref_iff_l i o H Ha) in E as (A & _). unfold add_weakref in A.
    rewrite !andb_true_iff in A. symmetry. tauto.
  - apply in_names_false in E. destruct (i_weakref_slot i) eqn:Ws; [|reflexivity]. exfalso. apply E.
    apply (weakref_iff_l i o H Ha). repeat split; auto.
    + unfold add_weakref. rewrite Ws, Ei. cbn. apply in_names_false in Ha. now rewrite Ha.
    + intros X. specialize (Hm X). congruence.
Qed.

(** The class body lists [__weakref__] in its own [__slots__] and asks for
    [weakref_slot=True]: the new class has the weakref slot (was K08.1). *)
Definition own_weakref_slots_input : input :=
  {| i_old := 0; i_new := 1; i_ns := [("__slots__", (10, KPlain)); ("__weakref__", (11, KSlotDescr))];
     i_attr_names := ["x"]; i_base_names := []; i_mro := []; i_weakref_slot := true; i_cache_hash := false;
     i_orig_slots := ["__weakref__"]; i_wrote_own_setattr := false; i_has_custom_setattr := false;
     i_store := []; i_fresh := 0 |}.

Theorem weakref_own_slots_honoured_l :
  exists o, create_slots_class own_weakref_slots_input = ROk o /\
            o_slots o = ["x"; "__weakref__"] /\ weakrefable own_weakref_slots_input o = true.
Proof. eexists. split; [vm_compute; reflexivity|]. split; reflexivity. Qed.

(** Witness of the old defect: the condition as it was before the repair is false here,
    although nothing in the MRO provides weak references. *)
Theorem weakref_own_slots_old_rule_refuted :
  i_weakref_slot own_weakref_slots_input = true /\ weakref_inherited own_weakref_slots_input = false /\
  add_weakref_old own_weakref_slots_input = false /\ add_weakref own_weakref_slots_input = true.
Proof. repeat split. Qed.

(** A base whose [__slots__] is a single string contributes exactly that one slot, for
    any name (was K08.2) ... *)
Theorem string_slots_single_slot_l n d :
  dict_of_slots (iter_slots (SlotsStr n (Some d))) [] = Some [(n, d)].
Proof. reflexivity. Qed.

Definition str_base (n : name) (d : option nat) : base :=
  {| b_id := 2; b_slots := SlotsStr n d; b_weakref := false; b_dict := false;
     b_own_setattr := None; b_immediate := true; b_hook := false; b_layer := None |}.

(** ... the class is built, and an own field of that name re-uses the base's slot. *)
Theorem string_slots_base_builds_l :
  exists o, create_slots_class
              {| i_old := 0; i_new := 1; i_ns := []; i_attr_names := ["ab"; "x"]; i_base_names := [];
                 i_mro := [str_base "ab" (Some 20)]; i_weakref_slot := true; i_cache_hash := false; i_orig_slots := ["ab"];
                 i_wrote_own_setattr := false; i_has_custom_setattr := false; i_store := []; i_fresh := 0 |} = ROk o /\
            o_slots o = ["x"; "__weakref__"] /\ lookupS "ab" (o_ns o) = Some (20, KSlotDescr).
Proof. eexists. split; [vm_compute; reflexivity|]. split; reflexivity. Qed.

(** Witness of the old defect: the scan iterated the characters of the string, and
    [getattr(base_cls, "a")] raised AttributeError. *)
Definition iter_slots_old (s : slots_decl) : list (name * option nat) :=
  match s with
  | SlotsStr n _ => map (fun c => (String c EmptyString, None)) (list_ascii_of_string n)
  | SlotsSeq l => l
  end.

Theorem string_slots_old_scan_refuted :
  dict_of_slots (iter_slots_old (SlotsStr "ab" (Some 20))) [] = None.
Proof. reflexivity. Qed.

Example ex_weakref_added :
  exists i o, create_slots_class i = ROk o /\ o_slots o = ["x"; "__weakref__"] /\ weakrefable i o = true.
Proof.
  exists {| i_old := 0; i_new := 1; i_ns := [("x", (10, KField))];
            i_attr_names := ["x"]; i_base_names := []; i_mro := []; i_weakref_slot := true; i_cache_hash := false;
            i_orig_slots := []; i_wrote_own_setattr := false; i_has_custom_setattr := false;
            i_store := []; i_fresh := 0 |}.
  eexists. split; [vm_compute; reflexivity|]. split; reflexivity.
Qed.

(** ** 5. [__attrs_init_subclass__] *)

Lemma hook_name_free : "__attrs_init_subclass__" <> "__weakref__" /\ ~ In "__attrs_init_subclass__" fixed_written.
Proof. split; [discriminate|]. cbn. intros X. decompose [or] X; try discriminate; auto. Qed.

(** [init_subclass_once]: a base provides the hook and the class does not define its own:
    exactly one call, with the new (final) class, and the cells it can observe are those
    AFTER the rewrite loop. *)
Theorem init_subclass_once_l i o :
  create_slots_class i = ROk o -> existsb b_hook (i_mro i) = true ->
  lookupS "__attrs_init_subclass__" (i_ns i) = None -> ~ In "__attrs_init_subclass__" (i_attr_names i) ->
  hook_calls i o = [(i_new i, o_store o)].
Proof.
  intros H Hb Hl Ha. unfold hook_calls. destruct hook_name_free as [N1 N2].
  rewrite (slots_absent_l i o _ H Hl Ha N1 N2), Hb. reflexivity.
Qed.

Theorem init_subclass_own_not_called_l i o e :
  NoDup (keys name entry (i_ns i)) -> create_slots_class i = ROk o ->
  lookupS "__attrs_init_subclass__" (i_ns i) = Some e -> ~ In "__attrs_init_subclass__" (i_attr_names i) ->
  is_cached_kind (e_kind e) = false -> hook_calls i o = [].
Proof.
  intros ND H Hl Ha Hk. unfold hook_calls. destruct hook_name_free as [N1 N2].
  assert (dropped_name i "__attrs_init_subclass__" = false) as Hd.
  { unfold dropped_name. apply in_names_false. rewrite in_app_iff. cbn. intros [X|[X|[X|[]]]]; [contradiction | discriminate X | discriminate X]. }
  now rewrite (slots_preserve_namespace_l i o _ e ND H Hl Hd Hk N2).
Qed.

Theorem init_subclass_none_l i o : existsb b_hook (i_mro i) = false -> hook_calls i o = [].
Proof. intros Hb. unfold hook_calls. rewrite Hb. now destruct (lookupS "__attrs_init_subclass__" (o_ns o)). Qed.

(** Inside the hook every inspected member already sees the new class. *)
Theorem hook_sees_rebound_l i o c st k e cell :
  create_slots_class i = ROk o -> In (c, st) (hook_calls i o) ->
  lookupS k (o_ns o) = Some e -> In cell (inspected_cells (e_kind e)) -> get cell (o_store0 o) = CCls (i_old i) ->
  c = i_new i /\ get cell st = CCls (i_new i).
Proof.
  intros H Hin Hl Hc Ho. unfold hook_calls in Hin.
  destruct (lookupS "__attrs_init_subclass__" (o_ns o)); [destruct Hin|].
  destruct (existsb b_hook (i_mro i)); [|destruct Hin]. destruct Hin as [E|[]]. inversion E; subst.
  split; [reflexivity|]. eapply members_rebound_l; eauto.
Qed.

Example ex_hook_once :
  exists i o, create_slots_class i = ROk o /\ hook_calls i o = [(1, o_store o)] /\ get 0 (o_store o) = CCls 1.
Proof.
  exists {| i_old := 0; i_new := 1; i_ns := [("f", (10, KClassM [0]))];
            i_attr_names := []; i_base_names := [];
            i_mro := [ {| b_id := 2; b_slots := SlotsSeq []; b_weakref := false; b_dict := false; b_own_setattr := None;
                          b_immediate := true; b_hook := true; b_layer := None |} ];
            i_weakref_slot := true; i_cache_hash := false; i_orig_slots := []; i_wrote_own_setattr := false;
            i_has_custom_setattr := false; i_store := [(0, CCls 0)]; i_fresh := 1 |}.
  eexists. split; [vm_compute; reflexivity|]. split; reflexivity.
Qed.

(** ** 6. Slots build vs dict build *)

(** (i) the two builds expose the same user members: the identical objects. *)
Theorem slots_dict_same_members_l i o k e :
  NoDup (keys name entry (i_ns i)) -> create_slots_class i = ROk o ->
  lookupS k (i_ns i) = Some e -> dropped_name i k = false -> is_cached_kind (e_kind e) = false ->
  ~ In k fixed_written ->
  lookupS k (patch_class i) = Some e /\ lookupS k (o_ns o) = Some e.
Proof.
  intros ND H Hl Hd Hk Hf. split; [|now apply (slots_preserve_namespace_l i o k e)].
  destruct (dropped_false i k Hd) as (Ha & _ & _).
  assert (lookupS k (fold_left (fun m f => delitemS f m) (own_field_names i) (i_ns i)) = Some e) as P.
  { rewrite lk_dels_other; [exact Hl|]. unfold own_field_names. rewrite filter_In. tauto. }
  assert (forall s, In s fixed_written -> k <> s) as Ne by (intros s Hs ->; contradiction).
  unfold patch_class. destruct (negb (i_wrote_own_setattr i) && opt_true (dict_first_own_setattr (i_mro i))); [|exact P].
  destruct (i_has_custom_setattr i); rewrite !lk_set_other by (apply Ne; cbn; tauto); exact P.
Qed.

(** (iv) the [__setattr__] reset: [_patch_original_class] asks [getattr(cls,
    "__attrs_own_setattr__")] (the whole MRO), [_create_slots_class] only the immediate
    bases' own dicts.  They agree for single inheritance when the immediate base is the
    nearest class of the MRO that carries the flag. *)
Definition reset_guard (i : input) : bool :=
  match i_mro i with
  | [] => true
  | b0 :: rest =>
      b_immediate b0 && forallb (fun b => negb (b_immediate b)) rest &&
      match b_own_setattr b0 with
      | Some _ => true
      | None => negb (opt_true (dict_first_own_setattr rest))
      end
  end.

Theorem setattr_reset_agree_l i : reset_guard i = true -> dict_reset i = slots_reset i.
Proof.
  unfold reset_guard, dict_reset, slots_reset. destruct (i_mro i) as [|b0 rest]; [reflexivity|].
  rewrite !andb_true_iff. intros [[Im Fr] G]. f_equal.
  assert (existsb (fun b => b_immediate b && opt_true (b_own_setattr b)) rest = false) as E.
  { clear - Fr. induction rest as [|b r IH]; [reflexivity|]. cbn in *. apply andb_true_iff in Fr as [A B].
    apply negb_true_iff in A. rewrite A. cbn. now apply IH. }
  cbn [existsb]. rewrite E, Im, orb_false_r. cbn [andb].
  unfold dict_first_own_setattr in *. cbn [flat_map]. destruct (b_own_setattr b0) as [v|]; cbn.
  - reflexivity.
  - apply negb_true_iff in G. exact G.
Qed.

(** K6 ("slotted confused"): hooked attrs base -> plain class -> attrs class. *)
Theorem setattr_reset_refuted :
  exists i, i_wrote_own_setattr i = false /\ i_has_custom_setattr i = false /\
            dict_reset i = true /\ slots_reset i = false.
Proof.
  exists {| i_old := 0; i_new := 1; i_ns := []; i_attr_names := ["a"]; i_base_names := ["a"];
            i_mro := [ {| b_id := 2; b_slots := SlotsSeq []; b_weakref := false; b_dict := false; b_own_setattr := None;
                          b_immediate := true; b_hook := false; b_layer := None |};
                       {| b_id := 3; b_slots := SlotsSeq []; b_weakref := true; b_dict := false; b_own_setattr := Some true;
                          b_immediate := false; b_hook := false; b_layer := None |} ];
            i_weakref_slot := true; i_cache_hash := false; i_orig_slots := []; i_wrote_own_setattr := false;
            i_has_custom_setattr := false; i_store := []; i_fresh := 0 |}.
  repeat split.
Qed.

(** Two attrs bases [class Leaf(Data, Hooked)]: [Data] carries the flag False, [Hooked]
    True; the dict build stops at [Data], the slotted build sees [Hooked] (K08.4). *)
Theorem setattr_reset_two_bases_refuted :
  exists i, i_wrote_own_setattr i = false /\ i_has_custom_setattr i = false /\
            dict_reset i = false /\ slots_reset i = true.
Proof.
  exists {| i_old := 0; i_new := 1; i_ns := []; i_attr_names := ["a"; "x"]; i_base_names := ["a"];
            i_mro := [ {| b_id := 2; b_slots := SlotsSeq [("a", Some 20)]; b_weakref := true; b_dict := false;
                          b_own_setattr := Some false; b_immediate := true; b_hook := false; b_layer := None |};
                       {| b_id := 3; b_slots := SlotsSeq []; b_weakref := true; b_dict := true; b_own_setattr := Some true;
                          b_immediate := true; b_hook := false; b_layer := None |} ];
            i_weakref_slot := true; i_cache_hash := false; i_orig_slots := []; i_wrote_own_setattr := false;
            i_has_custom_setattr := false; i_store := []; i_fresh := 0 |}.
  repeat split.
Qed.

Example ex_reset_agree :
  exists i, reset_guard i = true /\ dict_reset i = true /\ slots_reset i = true.
Proof.
  exists {| i_old := 0; i_new := 1; i_ns := []; i_attr_names := ["a"]; i_base_names := ["a"];
            i_mro := [ {| b_id := 3; b_slots := SlotsSeq []; b_weakref := true; b_dict := false; b_own_setattr := Some true;
                          b_immediate := true; b_hook := false; b_layer := None |} ];
            i_weakref_slot := true; i_cache_hash := false; i_orig_slots := []; i_wrote_own_setattr := false;
            i_has_custom_setattr := false; i_store := []; i_fresh := 0 |}.
  repeat split.
Qed.

(** ** 7. cached_property: computed once per instance *)

Fixpoint resolves (layers : list layer) (n : name) : bool :=
  match layers with
  | [] => false
  | L :: rest => if in_names n (l_cached L) then true
                 else match l_user L with Some _ => false | None => resolves rest n end
  end.

Lemma own_cached_resolves L rest n : In n (l_cached L) -> resolves (L :: rest) n = true.
Proof. intros H. cbn. apply in_names_iff in H. now rewrite H. Qed.

Lemma key_eqb_spec a b : key_eqb a b = true <-> a = b.
Proof.
  destruct a as [a1 a2], b as [b1 b2]. unfold key_eqb. cbn. rewrite andb_true_iff, Nat.eqb_eq, String.eqb_eq.
  split; [intros [-> ->]; reflexivity | intros H; inversion H; auto].
Qed.

Lemma key_eqb_refl a : key_eqb a a = true.
Proof. now apply key_eqb_spec. Qed.

Lemma count_calls_snoc k l x : count_calls k (l ++ [x]) = count_calls k l + (if key_eqb k x then 1 else 0).
Proof. unfold count_calls. rewrite filter_app, app_length. cbn. destruct (key_eqb k x); reflexivity. Qed.

Lemma ga_chain_resolves layers st i n : resolves layers n = true ->
  ga_chain layers st i n =
    (let v := VComp n i (count_calls (i, n) (st_calls st)) in
     ({| st_vals := ((i, n), v) :: st_vals st; st_calls := st_calls st ++ [(i, n)] |}, RVal v)).
Proof.
  induction layers as [|L rest IH]; cbn; [discriminate|].
  destruct (in_names n (l_cached L)); [reflexivity|]. destruct (l_user L); [discriminate | exact IH].
Qed.

Lemma ga_chain_not layers st i n : resolves layers n = false -> fst (ga_chain layers st i n) = st.
Proof.
  induction layers as [|L rest IH]; cbn; [reflexivity|].
  destruct (in_names n (l_cached L)); [discriminate|]. destruct (l_user L); [reflexivity | exact IH].
Qed.

Definition gets_only (ops : list op) : bool :=
  forallb (fun o => match o with OGet _ _ => true | _ => false end) ops.

Record Inv (c : iconf) (done : list op) (st : istate) : Prop := {
  inv_set : forall k v, vlookup k (st_vals st) = Some v ->
              resolves (ic_layers c) (snd k) = true /\ v = VComp (snd k) (fst k) 0 /\ count_calls k (st_calls st) = 1;
  inv_unset : forall k, vlookup k (st_vals st) = None -> count_calls k (st_calls st) = 0;
  inv_done : forall i n, resolves (ic_layers c) n = true ->
              (vlookup (i, n) (st_vals st) <> None <-> In (OGet i n) done)
}.

Definition result_ok (c : iconf) (o : op) (r : res) : Prop :=
  match o with
  | OGet i n => resolves (ic_layers c) n = true -> r = RVal (VComp n i 0)
  | _ => True
  end.

Lemma step_inv c done st i n : Inv c done st ->
  let '(st', r) := step c st (OGet i n) in Inv c (done ++ [OGet i n]) st' /\ result_ok c (OGet i n) r.
Proof.
  intros [I1 I2 I3]. cbn [step]. destruct (vlookup (i, n) (st_vals st)) as [v|] eqn:E.
  - split.
    + constructor; auto. intros i' n' R. rewrite in_app_iff, (I3 i' n' R). cbn. split; [tauto|].
      intros [X|[X|[]]]; [exact X|]. inversion X; subst. apply (I3 i' n' R). congruence.
    + intros R. destruct (I1 _ _ E) as (_ & -> & _). reflexivity.
  - destruct (resolves (ic_layers c) n) eqn:R.
    + rewrite (ga_chain_resolves _ _ _ _ R). cbn zeta. rewrite (I2 _ E). split.
      * constructor; cbn [st_vals st_calls].
        -- intros k v. cbn [vlookup]. destruct (key_eqb k (i, n)) eqn:K.
           ++ apply key_eqb_spec in K. subst k. intros X. inversion X; subst. cbn.
              rewrite count_calls_snoc, (I2 _ E), key_eqb_refl. auto.
           ++ intros X. destruct (I1 _ _ X) as (A & B & C). rewrite count_calls_snoc, K, C. auto.
        -- intros k. cbn [vlookup]. destruct (key_eqb k (i, n)) eqn:K; [discriminate|].
           intros X. rewrite count_calls_snoc, K, (I2 _ X). reflexivity.
        -- intros i' n' R'. cbn [vlookup]. rewrite in_app_iff. destruct (key_eqb (i', n') (i, n)) eqn:K.
           ++ apply key_eqb_spec in K. inversion K; subst. split; [intros _; right; now left | discriminate].
           ++ rewrite (I3 i' n' R'). cbn. split; [tauto|]. intros [X|[X|[]]]; [exact X|].
              inversion X; subst. now rewrite key_eqb_refl in K.
      * intros _. reflexivity.
    + pose proof (ga_chain_not _ st i n R) as G. destruct (ga_chain (ic_layers c) st i n) as [st' r]. cbn in G. subst st'.
      split; [|intros X; congruence].
      constructor; auto. intros i' n' R'. rewrite in_app_iff, (I3 i' n' R'). cbn. split; [tauto|].
      intros [X|[X|[]]]; [exact X|]. inversion X; subst. congruence.
Qed.

Lemma run_inv c : forall ops st done, gets_only ops = true -> Inv c done st ->
  let '(rs, st') := run c st ops in Inv c (done ++ ops) st' /\ Forall2 (result_ok c) ops rs.
Proof.
  induction ops as [|o r IH]; intros st done G I; cbn [run].
  - rewrite app_nil_r. split; [exact I | constructor].
  - cbn in G. apply andb_true_iff in G as [Go Gr]. destruct o as [i n| |]; try discriminate.
    pose proof (step_inv c done st i n I) as S. destruct (step c st (OGet i n)) as [st1 x]. destruct S as [I1 R1].
    specialize (IH st1 (done ++ [OGet i n]) Gr I1). destruct (run c st1 r) as [xs st2]. destruct IH as [I2 R2].
    rewrite <- app_assoc in I2. split; [exact I2 | constructor; assumption].
Qed.

Lemma inv_empty c : Inv c [] empty_state.
Proof. constructor; cbn; [discriminate | reflexivity | intros; split; [congruence | tauto]]. Qed.

(** [cached_property_once]: over any sequence of reads on any number of instances, the
    function of a cached property that the lookup reaches runs exactly once per instance
    that was read (never for the others), and every read returns that first result. *)
Theorem cached_property_once_l c ops : gets_only ops = true ->
  let '(rs, st) := run c empty_state ops in
  (forall i n, resolves (ic_layers c) n = true ->
     count_calls (i, n) (st_calls st) = if existsb (fun o => match o with OGet i' n' => key_eqb (i, n) (i', n') | _ => false end) ops then 1 else 0) /\
  Forall2 (result_ok c) ops rs.
Proof.
  intros G. pose proof (run_inv c ops empty_state [] G (inv_empty c)) as R.
  destruct (run c empty_state ops) as [rs st]. destruct R as [[I1 I2 I3] F]. split; [|exact F].
  intros i n Rn. cbn in I3.
  destruct (existsb _ ops) eqn:E.
  - apply existsb_exists in E as (o & Hin & K). destruct o as [i' n'| |]; try discriminate.
    apply key_eqb_spec in K. inversion K; subst i' n'.
    apply (I3 i n Rn) in Hin. destruct (vlookup (i, n) (st_vals st)) as [v|] eqn:V; [|congruence].
    now destruct (I1 _ _ V) as (_ & _ & C).
  - destruct (vlookup (i, n) (st_vals st)) as [v|] eqn:V; [|now apply I2].
    exfalso. assert (In (OGet i n) ops) as Hin by (apply (I3 i n Rn); congruence).
    assert (existsb (fun o => match o with OGet i' n' => key_eqb (i, n) (i', n') | _ => false end) ops = true) as X.
    { apply existsb_exists. exists (OGet i n). split; [exact Hin | apply key_eqb_refl]. }
    congruence.
Qed.

Example ex_cached_once :
  let c := {| ic_layers := [ {| l_cached := ["cp"]; l_user := None |} ]; ic_slot_names := ["cp"]; ic_has_dict := false; ic_frozen := false |} in
  run c empty_state [OGet 0 "cp"; OGet 1 "cp"; OGet 0 "cp"; OGet 0 "nope"]
  = ([RVal (VComp "cp" 0 0); RVal (VComp "cp" 1 0); RVal (VComp "cp" 0 0); RAttrErr],
     {| st_vals := [((1, "cp"), VComp "cp" 1 0); ((0, "cp"), VComp "cp" 0 0)]; st_calls := [(0, "cp"); (1, "cp")] |}).
Proof. reflexivity. Qed.

(** After [del], the next read computes again (the state machine is not "at most once ever"). *)
Example ex_cached_del_recomputes :
  let c := {| ic_layers := [ {| l_cached := ["cp"]; l_user := None |} ]; ic_slot_names := ["cp"]; ic_has_dict := false; ic_frozen := false |} in
  fst (run c empty_state [OGet 0 "cp"; ODel 0 "cp"; OGet 0 "cp"]) = [RVal (VComp "cp" 0 0); RDone; RVal (VComp "cp" 0 1)].
Proof. reflexivity. Qed.
