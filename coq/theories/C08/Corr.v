(** * C08 — correspondence: what the harness observed on a real class body, the model's
    prediction of the same observation, the property's postcondition on the observation,
    and the metamorphic (slots build vs dict build) comparison. *)
From Coq Require Import List Bool String Ascii Arith ZArith.
Import ListNotations.
From Attrs Require Import Base C14.NS C08.Model.
Open Scope string_scope.
Open Scope list_scope.

(** How a member uses its [__class__] cell, and what it shows when called. *)
Inductive use := UClass | USuper.
Inductive view := VwNew | VwOld | VwTypeErr | VwOther.

Record probe := {
  p_cell : nat;        (* the function's __class__ cell *)
  p_use : use;
  p_covered : bool     (* function / classmethod / staticmethod / property accessor / cached_property
                          function / user __getattr__: the kinds the property speaks about *)
}.

Definition view_of (old new : nat) (st : store) (p : probe) : view :=
  match get (p_cell p) st with
  | CCls c => if Nat.eqb c new then VwNew
              else if Nat.eqb c old then match p_use p with UClass => VwOld | USuper => VwTypeErr end
              else VwOther
  | _ => VwOther
  end.

Record body_obs := {
  s_err : option string;             (* exception class raised by the decorator *)
  s_same : list bool;                (* __name__, __qualname__, __module__, __doc__, __bases__, type(cls) *)
  s_ns : list (option nat);          (* per key: identity of what new.__dict__ holds *)
  s_slots : list name;               (* new.__slots__ *)
  s_views : list view;               (* per probe *)
  s_has_dict : bool;
  s_rejects : bool;                  (* assigning an unknown attribute raises AttributeError *)
  s_weakrefable : bool;
  s_slotcount : list nat;            (* per own field: number of __slots__ in the MRO listing it *)
  s_ops : list res;
  s_hook : list (bool * list view)   (* __attrs_init_subclass__ calls: (argument is the final class, views inside) *)
}.

Record body_case := {
  c_in : input;
  c_keys : list name;
  c_probes : list probe;
  c_frozen : bool;
  c_own_fields : list name;
  c_base_slot_names : list name;     (* own __slots__ of every class of the MRO that defines one, concatenated *)
  c_ops : list op;
  c_seen : body_obs;
  c_flagged : bool                   (* the harness filed a property case for this observation *)
}.

Definition err_obs : body_obs :=
  {| s_err := Some "AttributeError"; s_same := []; s_ns := []; s_slots := []; s_views := [];
     s_has_dict := false; s_rejects := false; s_weakrefable := false; s_slotcount := [];
     s_ops := []; s_hook := [] |}.

Definition iconf_of (b : body_case) (o : output) : iconf :=
  {| ic_layers := layers_of (c_in b) o;
     ic_slot_names := o_slots o ++ c_base_slot_names b;
     ic_has_dict := has_dict (c_in b);
     ic_frozen := c_frozen b |}.

Definition model_obs (b : body_case) : body_obs :=
  let i := c_in b in
  match create_slots_class i with
  | RErr => err_obs
  | ROk o =>
      {| s_err := None;
         s_same := header_same i o;
         s_ns := map (fun k => option_map e_id (lookupS k (o_ns o))) (c_keys b);
         s_slots := o_slots o;
         s_views := map (view_of (i_old i) (i_new i) (o_store o)) (c_probes b);
         s_has_dict := has_dict i;
         s_rejects := c_frozen b || negb (has_dict i);
         s_weakrefable := weakrefable i o;
         s_slotcount := map (fun n => count_in n (o_slots o) + count_in n (c_base_slot_names b)) (c_own_fields b);
         s_ops := fst (run (iconf_of b o) empty_state (c_ops b));
         s_hook := map (fun cs => (Nat.eqb (fst cs) (i_new i),
                                   map (view_of (i_old i) (i_new i) (snd cs)) (c_probes b)))
                       (hook_calls i o) |}
  end.

(** ** Boolean equalities *)
Definition view_eqb (a b : view) : bool :=
  match a, b with
  | VwNew, VwNew | VwOld, VwOld | VwTypeErr, VwTypeErr | VwOther, VwOther => true
  | _, _ => false
  end.

Definition val_eqb (a b : val) : bool :=
  match a, b with
  | VComp p i n, VComp p' i' n' => String.eqb p p' && Nat.eqb i i' && Nat.eqb n n'
  | VDyn t n, VDyn t' n' => String.eqb t t' && String.eqb n n'
  | VTok k, VTok k' => Nat.eqb k k'
  | _, _ => false
  end.

Definition res_eqb (a b : res) : bool :=
  match a, b with
  | RVal v, RVal w => val_eqb v w
  | RAttrErr, RAttrErr | RDone, RDone => true
  | _, _ => false
  end.

Definition hook_eqb (a b : bool * list view) : bool :=
  Bool.eqb (fst a) (fst b) && list_eqb view_eqb (snd a) (snd b).

Definition obs_eqb (a b : body_obs) : bool :=
  option_eqb String.eqb (s_err a) (s_err b) &&
  list_eqb Bool.eqb (s_same a) (s_same b) &&
  list_eqb (option_eqb Nat.eqb) (s_ns a) (s_ns b) &&
  list_eqb String.eqb (s_slots a) (s_slots b) &&
  list_eqb view_eqb (s_views a) (s_views b) &&
  Bool.eqb (s_has_dict a) (s_has_dict b) &&
  Bool.eqb (s_rejects a) (s_rejects b) &&
  Bool.eqb (s_weakrefable a) (s_weakrefable b) &&
  list_eqb Nat.eqb (s_slotcount a) (s_slotcount b) &&
  list_eqb res_eqb (s_ops a) (s_ops b) &&
  list_eqb hook_eqb (s_hook a) (s_hook b).

(** ** The property's postcondition, read off the observation alone (plus the facts
    about the input that the property text mentions). *)

Definition is_member_kind (k : kind) : bool :=
  match k with
  | KFunc _ | KClassM _ | KStaticM _ | KProp _ _ _ | KDescr _ | KPlain => true
  | _ => false
  end.

(** Every user member / class attribute of the original namespace is found, identical. *)
Definition survivors_ok (b : body_case) (seen : body_obs) : bool :=
  let i := c_in b in
  let has_cached := match cached_of (i_ns i) with [] => false | _ => true end in
  forallb (fun ko =>
    let k := fst ko in
    match lookupS k (i_ns i) with
    | Some e =>
        if is_member_kind (e_kind e) && negb (dropped_name i k)
           && negb (has_cached && String.eqb k "__getattr__") && negb (String.eqb k "__slots__")
        then option_eqb Nat.eqb (snd ko) (Some (e_id e)) else true
    | None => true
    end) (combine (c_keys b) (s_ns seen)).

Definition covered_views_new (ps : list probe) (vs : list view) : bool :=
  Nat.eqb (List.length ps) (List.length vs) &&
  forallb (fun pv => negb (p_covered (fst pv)) || view_eqb (snd pv) VwNew) (combine ps vs).

Definition all_gets (ops : list op) : bool :=
  forallb (fun o => match o with OGet _ _ => true | _ => false end) ops.

(** cached_property members are computed once per instance: in a sequence of reads, every
    read of an own cached property returns the value of that instance's first computation. *)
Definition cached_once_ok (b : body_case) (seen : body_obs) : bool :=
  let own_cached := map fst (cached_of (i_ns (c_in b))) in
  negb (all_gets (c_ops b)) ||
  forallb (fun orr => match fst orr with
                      | OGet i n => if in_names n own_cached && negb (dropped_name (c_in b) n)
                                    then res_eqb (snd orr) (RVal (VComp n i 0)) else true
                      | _ => true end)
          (combine (c_ops b) (s_ops seen)).

Definition hook_expected (b : body_case) : bool :=
  existsb b_hook (i_mro (c_in b)) &&
  match lookupS "__attrs_init_subclass__" (i_ns (c_in b)) with Some _ => false | None => true end.

Definition hook_ok (b : body_case) (seen : body_obs) : bool :=
  if hook_expected b then
    match s_hook seen with
    | [(true, vs)] => covered_views_new (c_probes b) vs
    | _ => false
    end
  else true.

Definition post_ok (b : body_case) : bool :=
  let i := c_in b in
  let seen := c_seen b in
  match s_err seen with Some _ => false | None => true end &&
  list_eqb Bool.eqb (s_same seen) [true; true; true; true; true; true] &&
  survivors_ok b seen &&
  covered_views_new (c_probes b) (s_views seen) &&
  Bool.eqb (s_has_dict seen) (has_dict i) &&
  (s_has_dict seen || s_rejects seen) &&
  Bool.eqb (s_weakrefable seen) (i_weakref_slot i || weakref_inherited i) &&
  list_eqb Nat.eqb (s_slotcount seen) (map (fun _ => 1) (c_own_fields b)) &&
  cached_once_ok b seen &&
  hook_ok b seen.

(** ** Cases *)
Inductive case :=
| CBody (b : body_case)                        (* model agreement (+ postcondition unless filed) *)
| CPost (b : body_case)                        (* the property's postcondition *)
| CMeta (l : list (string * Z * Z)).           (* per observation: digest on the slotted / the dict build *)

Definition meta_diff (l : list (string * Z * Z)) : list string :=
  flat_map (fun x => if Z.eqb (snd (fst x)) (snd x) then [] else [fst (fst x)]) l.

Definition check_case (c : case) : bool :=
  match c with
  | CBody b => obs_eqb (model_obs b) (c_seen b) && (post_ok b || c_flagged b)
  | CPost b => post_ok b
  | CMeta l => match meta_diff l with [] => true | _ => false end
  end.

Inductive explained :=
| XBody (model : body_obs) (postcondition_holds : bool)
| XMeta (differing : list string).

Definition model_of (c : case) : explained :=
  match c with
  | CBody b | CPost b => XBody (model_obs b) (post_ok b)
  | CMeta l => XMeta (meta_diff l)
  end.

(** ** Soundness of the boolean comparison *)
Lemma view_eqb_spec a b : view_eqb a b = true <-> a = b.
Proof. destruct a, b; cbn; split; intros H; try discriminate; reflexivity. Qed.

Lemma val_eqb_spec a b : val_eqb a b = true <-> a = b.
Proof.
  destruct a, b; cbn; split; intros H; try discriminate.
  - repeat (apply andb_true_iff in H as [H ?]).
    apply String.eqb_eq in H. apply Nat.eqb_eq in H0. apply Nat.eqb_eq in H1. congruence.
  - inversion H; subst. now rewrite String.eqb_refl, !Nat.eqb_refl.
  - apply andb_true_iff in H as [H H0]. apply String.eqb_eq in H. apply String.eqb_eq in H0. congruence.
  - inversion H; subst. now rewrite !String.eqb_refl.
  - apply Nat.eqb_eq in H. congruence.
  - inversion H; subst. now rewrite Nat.eqb_refl.
Qed.

Lemma res_eqb_spec a b : res_eqb a b = true <-> a = b.
Proof.
  destruct a, b; cbn; split; intros H; try discriminate; try reflexivity.
  - apply val_eqb_spec in H. congruence.
  - inversion H; subst. now apply val_eqb_spec.
Qed.

Lemma option_eqb_spec {A} (eqb : A -> A -> bool) (Heq : forall x y, eqb x y = true <-> x = y) :
  forall a b, option_eqb eqb a b = true <-> a = b.
Proof.
  intros [x|] [y|]; cbn; split; intros H; try discriminate; try reflexivity.
  - apply Heq in H. congruence.
  - inversion H; subst. now apply Heq.
Qed.

Lemma bool_eqb_spec a b : Bool.eqb a b = true <-> a = b.
Proof. destruct a, b; cbn; split; intros H; try discriminate; reflexivity. Qed.

Lemma hook_eqb_spec a b : hook_eqb a b = true <-> a = b.
Proof.
  destruct a as [a1 a2], b as [b1 b2]. unfold hook_eqb; cbn. rewrite andb_true_iff, bool_eqb_spec.
  rewrite (list_eqb_spec view_eqb view_eqb_spec). split; [intros [-> ->]; reflexivity | intros H; inversion H; auto].
Qed.

Lemma obs_eqb_spec a b : obs_eqb a b = true <-> a = b.
Proof.
  destruct a as [a1 a2 a3 a4 a5 a6 a7 a8 a9 a10 a11], b as [b1 b2 b3 b4 b5 b6 b7 b8 b9 b10 b11].
  unfold obs_eqb; cbn. rewrite !andb_true_iff.
  rewrite (option_eqb_spec String.eqb String.eqb_eq).
  rewrite (list_eqb_spec Bool.eqb bool_eqb_spec).
  rewrite (list_eqb_spec _ (option_eqb_spec Nat.eqb Nat.eqb_eq)).
  rewrite (list_eqb_spec String.eqb String.eqb_eq).
  rewrite (list_eqb_spec view_eqb view_eqb_spec).
  rewrite !bool_eqb_spec.
  rewrite (list_eqb_spec Nat.eqb Nat.eqb_eq).
  rewrite (list_eqb_spec res_eqb res_eqb_spec).
  rewrite (list_eqb_spec hook_eqb hook_eqb_spec).
  split.
  - intros [[[[[[[[[[-> ->] ->] ->] ->] ->] ->] ->] ->] ->] ->]. reflexivity.
  - intros H; inversion H; subst. repeat split.
Qed.

(** A body case passes exactly when the implementation showed what the model computes
    (and the postcondition holds or the deviation was filed as a property case). *)
Lemma check_case_sound b :
  check_case (CBody b) = true <-> c_seen b = model_obs b /\ (post_ok b = true \/ c_flagged b = true).
Proof.
  cbn. rewrite andb_true_iff, obs_eqb_spec, orb_true_iff. split; intros [H1 H2]; split; auto.
Qed.

Lemma check_meta_sound l :
  check_case (CMeta l) = true <-> forall lbl x y, In (lbl, x, y) l -> x = y.
Proof.
  cbn. split.
  - intros H lbl x y Hin. destruct (meta_diff l) eqn:E; [|discriminate].
    destruct (Z.eqb x y) eqn:Exy; [now apply Z.eqb_eq|].
    assert (In lbl (meta_diff l)) as Hd.
    { unfold meta_diff. apply in_flat_map. exists (lbl, x, y). split; [assumption|]. cbn. rewrite Exy. now left. }
    rewrite E in Hd. destruct Hd.
  - intros H. destruct (meta_diff l) eqn:E; [reflexivity|].
    assert (In s (meta_diff l)) as Hd by (rewrite E; now left).
    unfold meta_diff in Hd. apply in_flat_map in Hd as ([[lbl x] y] & Hin & Hs). cbn in Hs.
    rewrite (H lbl x y Hin), Z.eqb_refl in Hs. destruct Hs.
Qed.
