(** * C08 — (ii) of the slots/dict agreement: the [slots] flag reaches the generated
    [__init__] only through the store mode and the cache initialisation, and neither
    changes what a field holds.  Corollaries of [Core/InitProps.v]. *)
From Coq Require Import List Bool String.
Import ListNotations.
From Attrs Require Import Core.Attr Core.Init Core.InitProofs Core.InitProps.

(** The dict build of the same specification: same field tuple, same flags, no slots,
    instances have a [__dict__]. *)
Definition dict_twin (k : cls_spec) : cls_spec :=
  {| k_attrs := k_attrs k; k_frozen := k_frozen k; k_slots := false; k_cache_hash := k_cache_hash k;
     k_is_exc := k_is_exc k; k_pre_init := k_pre_init k; k_pre_init_has_args := k_pre_init_has_args k;
     k_post_init := k_post_init k; k_on_setattr := k_on_setattr k; k_mro_slots := k_mro_slots k;
     k_has_dict := true |}.

Lemma wf_dict_twin k : wf k -> wf (dict_twin k).
Proof.
  intros W. constructor; cbn.
  - apply (wf_names k W).
  - reflexivity.
  - apply (wf_cache_name k W).
Qed.

(** Same specification, slots on / off: the same calls bind, construction finishes in both,
    and every field reads back the same value. *)
Theorem init_slots_dict_same_values_l k sc1 sc2 von1 von2 pos kw en :
  wf k -> k_slots k = true ->
  make_init_script k = GenOk sc1 -> make_init_script (dict_twin k) = GenOk sc2 ->
  bind_call sc1 pos kw = Bound en ->
  bind_call sc2 pos kw = Bound en /\
  exists i1 i2 t1 t2,
    run_init k no_fault von1 pos kw = InitDone i1 t1 /\
    run_init (dict_twin k) no_fault von2 pos kw = InitDone i2 t2 /\
    forall a, In a (k_attrs k) -> read k i1 (a_name a) = read (dict_twin k) i2 (a_name a).
Proof.
  intros W _ G1 G2 B. apply (init_mode_independent_l k (dict_twin k) sc1 sc2 von1 von2 pos kw en W (wf_dict_twin k W) eq_refl G1 G2 B).
Qed.

(** ... and with [cache_hash] both builds start with an empty ([None]) hash cache. *)
Theorem init_slots_dict_same_cache_l k sc1 sc2 von pos kw en :
  wf k -> k_cache_hash k = true ->
  make_init_script k = GenOk sc1 -> make_init_script (dict_twin k) = GenOk sc2 ->
  bind_call sc1 pos kw = Bound en -> bind_call sc2 pos kw = Bound en ->
  exists i1 i2,
    run_init k no_fault von pos kw = InitDone i1 (expected_trace k von en) /\
    run_init (dict_twin k) no_fault von pos kw = InitDone i2 (expected_trace (dict_twin k) von en) /\
    read k i1 HASH_CACHE = Ok VNone /\ read (dict_twin k) i2 HASH_CACHE = Ok VNone.
Proof.
  intros W C G1 G2 B1 B2.
  destruct (run_init_nofault k sc1 von pos kw en W G1 B1) as (i1 & R1 & _ & _ & _ & H1 & _).
  destruct (run_init_nofault (dict_twin k) sc2 von pos kw en (wf_dict_twin k W) G2 B2) as (i2 & R2 & _ & _ & _ & H2 & _).
  exists i1, i2. repeat split; auto.
Qed.

(** The callback trace of construction (factories, converters, validators, post-init; the
    pre-init event when the hook takes no arguments) and the exception [args] do not
    mention the store mode at all.  (With a pre-init that takes arguments the event lists
    the parameters of the generated signature, equal by [init_signature], C01.) *)
Theorem init_slots_dict_same_trace_l k von en :
  k_pre_init_has_args k = false ->
  expected_trace (dict_twin k) von en = expected_trace k von en /\
  expected_args (dict_twin k) en = expected_args k en.
Proof. intros H. destruct k. cbn in H. subst. split; reflexivity. Qed.
