(** * C17 — facts about [String.append], [prefix], suffixes and last characters
    used by the naming proofs. *)
From Coq Require Import List Bool String Ascii Arith Lia.
Import ListNotations.
From Attrs Require Import C17.Model.
Open Scope string_scope.

Lemma sapp_nil_r s : s +++ "" = s.
Proof. induction s as [|c s IH]; cbn; [reflexivity | now rewrite IH]. Qed.

Lemma sapp_assoc a b c : (a +++ b) +++ c = a +++ (b +++ c).
Proof. induction a as [|x a IH]; cbn; [reflexivity | now rewrite IH]. Qed.

Lemma sapp_length a b : String.length (a +++ b) = String.length a + String.length b.
Proof. induction a as [|x a IH]; cbn; [reflexivity | now rewrite IH]. Qed.

Lemma sapp_inv_head a x y : a +++ x = a +++ y -> x = y.
Proof. induction a as [|c a IH]; cbn; intros H; [assumption|]. injection H as H. auto. Qed.

(** Two ways of cutting one string overlap. *)
Lemma sapp_eq_sapp : forall p x n t, p +++ x = n +++ t ->
  (exists k, n = p +++ k /\ x = k +++ t) \/ (exists k, p = n +++ k /\ t = k +++ x).
Proof.
  induction p as [|c p IH]; intros x n t H; cbn in H.
  - left. exists n. split; [reflexivity | assumption].
  - destruct n as [|d n]; cbn in H.
    + right. exists (String c p). split; [reflexivity | now rewrite <- H].
    + injection H as -> H. destruct (IH _ _ _ H) as [(k & -> & ->)|(k & -> & ->)].
      * left. exists k. split; reflexivity.
      * right. exists k. split; reflexivity.
Qed.

Lemma sapp_inv_tail_len : forall a b x y,
  a +++ x = b +++ y -> String.length x = String.length y -> a = b /\ x = y.
Proof.
  induction a as [|c a IH]; intros b x y H L.
  - destruct b as [|d b]; cbn in H; [split; [reflexivity | assumption]|].
    exfalso. subst x. cbn in L. rewrite sapp_length in L. lia.
  - destruct b as [|d b]; cbn in H.
    + exfalso. subst y. cbn in L. rewrite sapp_length in L. lia.
    + injection H as -> H. destruct (IH _ _ _ H L) as [-> ->]. split; reflexivity.
Qed.

Lemma sapp_inv_tail a b x : a +++ x = b +++ x -> a = b.
Proof. intros H. now destruct (sapp_inv_tail_len _ _ _ _ H eq_refl). Qed.

(** [prefix] *)
Lemma prefix_sapp p x : prefix p (p +++ x) = true.
Proof.
  induction p as [|c p IH]; cbn [String.append].
  - destruct x; reflexivity.
  - cbn [prefix]. destruct (ascii_dec c c) as [_|N]; [assumption | now elim N].
Qed.

Lemma prefix_refl p : prefix p p = true.
Proof. rewrite <- (sapp_nil_r p) at 2. apply prefix_sapp. Qed.

Lemma prefix_true : forall p s, prefix p s = true -> exists k, s = p +++ k.
Proof.
  induction p as [|c p IH]; intros s H.
  - exists s. reflexivity.
  - destruct s as [|d s]; [discriminate|]. cbn [prefix] in H.
    destruct (ascii_dec c d) as [->|_]; [|discriminate].
    destruct (IH _ H) as (k & ->). exists k. reflexivity.
Qed.

Lemma prefix_false_sapp p k s : prefix p s = false -> s <> p +++ k.
Proof. intros H E. subst s. rewrite prefix_sapp in H. discriminate. Qed.

(** [ends_with] *)
Lemma substring_drop : forall a m s, substring (String.length a) m (a +++ s) = substring 0 m s.
Proof. induction a as [|c a IH]; intros m s; cbn; [reflexivity | apply IH]. Qed.

Lemma substring_all s : substring 0 (String.length s) s = s.
Proof. induction s as [|c s IH]; cbn; [reflexivity | now rewrite IH]. Qed.

Lemma ends_with_sapp a x : ends_with x (a +++ x) = true.
Proof.
  unfold ends_with. rewrite sapp_length.
  replace (String.length a + String.length x - String.length x) with (String.length a) by lia.
  rewrite substring_drop, substring_all, String.eqb_refl.
  rewrite andb_true_r. apply Nat.leb_le. lia.
Qed.

(** Last character, and whether a character occurs. *)
Fixpoint last_char (s : string) : option ascii :=
  match s with
  | "" => None
  | String c "" => Some c
  | String _ r => last_char r
  end.

Fixpoint has_char (c : ascii) (s : string) : bool :=
  match s with "" => false | String d r => Ascii.eqb c d || has_char c r end.

Lemma last_char_sapp a b : b <> "" -> last_char (a +++ b) = last_char b.
Proof.
  intros Hb. induction a as [|c a IH]; [reflexivity|].
  cbn [String.append]. destruct (a +++ b) eqn:E.
  - destruct a; [cbn in E; contradiction | discriminate].
  - cbn [last_char]. cbn [last_char] in IH. exact IH.
Qed.

Lemma last_char_has c s : last_char s = Some c -> has_char c s = true.
Proof.
  induction s as [|d s IH]; [discriminate|].
  destruct s as [|e s].
  - cbn. intros H. injection H as ->. now rewrite Ascii.eqb_refl.
  - intros H.
    change (last_char (String d (String e s))) with (last_char (String e s)) in H.
    change (has_char c (String d (String e s)))
      with (Ascii.eqb c d || has_char c (String e s)).
    rewrite (IH H). apply orb_true_r.
Qed.

Lemma has_char_sapp_l c a b : has_char c a = true -> has_char c (a +++ b) = true.
Proof.
  induction a as [|d a IH]; cbn; [discriminate|].
  intros H. apply orb_true_iff in H as [H|H]; [now rewrite H | rewrite (IH H); apply orb_true_r].
Qed.

(** The collision shape of C17: [u ++ tl = P ++ m] where [P] ends in an underscore,
    [tl] contains none, and [u] does not start with [P]: impossible. *)
Lemma suffix_vs_prefix u tl P m :
  u +++ tl = P +++ m ->
  prefix P u = false ->
  last_char P = Some "_"%char ->
  has_char "_"%char tl = false ->
  False.
Proof.
  intros H Hp Hl Hn.
  destruct (sapp_eq_sapp _ _ _ _ H) as [(k & HP & Ht)|(k & Hu & _)].
  - destruct k as [|c k].
    + rewrite sapp_nil_r in HP. subst P. rewrite prefix_refl in Hp. discriminate.
    + assert (L : last_char P = last_char (String c k))
        by (rewrite HP; apply last_char_sapp; discriminate).
      rewrite Hl in L. symmetry in L. apply last_char_has in L.
      apply (has_char_sapp_l _ _ m) in L. rewrite <- Ht in L. congruence.
  - subst u. rewrite prefix_sapp in Hp. discriminate.
Qed.
