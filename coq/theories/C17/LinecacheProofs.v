(** * C17 — [_linecache_and_compile]: termination, every class keeps its own source
    entry, for sequential histories and for every interleaving. *)
From Coq Require Import List Bool String Ascii Arith Lia DecimalString DecimalNat Decimal.
Import ListNotations.
From Attrs Require Import C17.Model C17.Strings.
Open Scope string_scope.
Open Scope list_scope.

(** ** The candidate filenames are pairwise distinct *)

Lemma render_inj a b : render a = render b -> a = b.
Proof.
  unfold render. intros H.
  assert (E : NilEmpty.uint_of_string (NilEmpty.string_of_uint (Nat.to_uint a))
              = NilEmpty.uint_of_string (NilEmpty.string_of_uint (Nat.to_uint b)))
    by (rewrite H; reflexivity).
  rewrite !NilEmpty.usu in E. injection E as E.
  rewrite <- (Unsigned.of_to a), <- (Unsigned.of_to b). now rewrite E.
Qed.

Lemma substring0_length : forall m s, String.length (substring 0 m s) = Nat.min m (String.length s).
Proof.
  induction m as [|m IH]; intros s; destruct s as [|c s]; cbn; try reflexivity.
  now rewrite IH.
Qed.

Lemma drop_last_length s : String.length (drop_last s) = String.length s - 1.
Proof. unfold drop_last. rewrite substring0_length. lia. Qed.

Lemma retry_longer base n : String.length base < String.length (retry_name base n).
Proof.
  unfold retry_name. rewrite !sapp_length, drop_last_length. cbn. lia.
Qed.

Lemma cand_inj base i j : cand base i = cand base j -> i = j.
Proof.
  destruct i as [|i], j as [|j]; cbn [cand]; intros H.
  - reflexivity.
  - exfalso. assert (L := retry_longer base (S j)). rewrite <- H in L. lia.
  - exfalso. assert (L := retry_longer base (S i)). rewrite H in L. lia.
  - unfold retry_name in H. apply sapp_inv_head in H. apply sapp_inv_head in H.
    apply sapp_inv_tail in H. now apply render_inj.
Qed.

Lemma cand_next base i : retry_name base (S i) = cand base (S i).
Proof. reflexivity. Qed.

Section Proofs.
  Variable script : Type.
  Variable script_eqb : script -> script -> bool.
  Hypothesis script_eqb_spec : forall a b, script_eqb a b = true <-> a = b.

  Notation cache := (cache script).
  Notation lc_loop := (lc_loop script_eqb).
  Notation linecache_and_compile := (linecache_and_compile script_eqb).
  Notation run_history := (run_history script_eqb).
  Notation tstep := (tstep script_eqb).
  Notation sys_step := (sys_step script_eqb).
  Notation run_schedule := (run_schedule script_eqb).

  Lemma script_eqb_refl s : script_eqb s s = true.
  Proof. now apply script_eqb_spec. Qed.

  (** *** [setdefault] *)

  Lemma setdefault_cases f v (c : cache) :
    (exists old, clookup f c = Some old /\ setdefault f v c = (c, old)) \/
    (clookup f c = None /\ setdefault f v c = ((f, v) :: c, v)).
  Proof. unfold setdefault. destruct (clookup f c); [left; eauto | right; auto]. Qed.

  Lemma setdefault_mono f v (c : cache) g w :
    clookup g c = Some w -> clookup g (fst (setdefault f v c)) = Some w.
  Proof.
    intros H. destruct (setdefault_cases f v c) as [(old & _ & ->)|(N & ->)]; cbn [fst]; [assumption|].
    cbn. destruct (String.eqb g f) eqn:E; [|assumption].
    apply String.eqb_eq in E. subst. congruence.
  Qed.

  Lemma setdefault_lookup f v (c : cache) :
    clookup f (fst (setdefault f v c)) = Some (snd (setdefault f v c)).
  Proof.
    destruct (setdefault_cases f v c) as [(old & L & ->)|(N & ->)]; cbn [fst snd]; [assumption|].
    cbn. now rewrite String.eqb_refl.
  Qed.

  Lemma clookup_in_keys f (c : cache) : clookup f c <> None -> In f (map fst c).
  Proof.
    induction c as [|[g v] c IH]; cbn; [congruence|].
    destruct (String.eqb f g) eqn:E; [apply String.eqb_eq in E; auto | auto].
  Qed.

  (** *** Termination: the fuel [|cache| + 1] is never exhausted (pigeonhole) *)

  Lemma remove_length_In (x : string) l : In x l -> List.length (remove string_dec x l) < List.length l.
  Proof.
    induction l as [|y l IH]; [intros []|]. intros H. cbn [remove].
    destruct (string_dec x y) as [->|N].
    - assert (L := remove_length_le string_dec l y). cbn. lia.
    - destruct H as [H|H]; [congruence|]. cbn. specialize (IH H). lia.
  Qed.

  Lemma lc_loop_total : forall fuel (c : cache) base i s (l : list string),
    (forall j, i <= j -> clookup (cand base j) c <> None -> In (cand base j) l) ->
    List.length l < fuel ->
    lc_loop fuel c base (cand base i) (S i) s <> None.
  Proof.
    induction fuel as [|fuel IH]; intros c base i s l Hl Hlen; [lia|].
    cbn [Model.lc_loop].
    destruct (setdefault_cases (cand base i) s c) as [(old & L & ->)|(N & ->)].
    - destruct (script_eqb old s); [discriminate|].
      rewrite cand_next.
      apply (IH c base (S i) s (remove string_dec (cand base i) l)).
      + intros j Hj Hc. apply in_in_remove.
        * intros E. apply cand_inj in E. lia.
        * apply Hl; [lia | assumption].
      + assert (In (cand base i) l) by (apply Hl; [lia | congruence]).
        assert (X := remove_length_In _ _ H). lia.
    - rewrite script_eqb_refl. discriminate.
  Qed.

  Theorem linecache_terminates_l : forall (c : cache) base s,
    linecache_and_compile c base s <> None.
  Proof.
    intros c base s. unfold Model.linecache_and_compile.
    change base with (cand base 0) at 2.
    apply (lc_loop_total _ c base 0 s (map fst c)).
    - intros j _ H. now apply clookup_in_keys.
    - rewrite map_length. lia.
  Qed.

  (** *** What one definition does to the cache *)

  Lemma lc_loop_spec : forall fuel (c : cache) base f cnt s c' g,
    lc_loop fuel c base f cnt s = Some (c', g) ->
    clookup g c' = Some s /\ (forall h w, clookup h c = Some w -> clookup h c' = Some w).
  Proof.
    induction fuel as [|fuel IH]; intros c base f cnt s c' g H; [discriminate|].
    cbn [Model.lc_loop] in H.
    assert (M := setdefault_mono f s c). assert (L := setdefault_lookup f s c).
    destruct (setdefault f s c) as [c1 old]. cbn [fst snd] in *.
    destruct (script_eqb old s) eqn:E.
    - injection H as <- <-. apply script_eqb_spec in E. subst old. split; [assumption|].
      intros h w. apply M.
    - destruct (IH _ _ _ _ _ _ _ H) as [H1 H2]. split; [assumption|].
      intros h w Hw. apply H2. now apply M.
  Qed.

  Lemma lc_loop_cand : forall fuel (c : cache) base i s c' g,
    lc_loop fuel c base (cand base i) (S i) s = Some (c', g) -> exists j, i <= j /\ g = cand base j.
  Proof.
    induction fuel as [|fuel IH]; intros c base i s c' g H; [discriminate|].
    cbn [Model.lc_loop] in H. destruct (setdefault (cand base i) s c) as [c1 old].
    destruct (script_eqb old s).
    - injection H as _ <-. exists i. split; [lia | reflexivity].
    - rewrite cand_next in H. destruct (IH _ _ _ _ _ _ H) as (j & Hj & ->). exists j. split; [lia | reflexivity].
  Qed.

  (** *** Sequential histories *)

  Theorem linecache_own_entry_l : forall (defs : list (string * script)) (c0 : cache),
    exists c files,
      run_history c0 defs = Some (c, files) /\
      Forall2 (fun d f => clookup f c = Some (snd d) /\ exists i, f = cand (fst d) i) defs files /\
      (forall f v, clookup f c0 = Some v -> clookup f c = Some v).
  Proof.
    induction defs as [|[base s] defs IH]; intros c0.
    - exists c0, []. repeat split; [constructor | auto].
    - cbn [Model.run_history].
      destruct (linecache_and_compile c0 base s) as [[c1 f]|] eqn:E;
        [|exfalso; exact (linecache_terminates_l _ _ _ E)].
      destruct (IH c1) as (c2 & fs & -> & HF & HM).
      exists c2, (f :: fs). split; [reflexivity|].
      unfold Model.linecache_and_compile in E.
      destruct (lc_loop_spec _ _ _ _ _ _ _ _ E) as [H1 H2].
      change base with (cand base 0) in E at 2.
      destruct (lc_loop_cand _ _ _ _ _ _ _ E) as (j & _ & Hj).
      split.
      + constructor; [|assumption]. cbn [fst snd]. split; [now apply HM | eauto].
      + intros g v Hg. apply HM. now apply H2.
  Qed.

  (** Classes whose scripts differ never share a filename. *)
  Corollary linecache_distinct_scripts_l : forall defs (c0 c : cache) files d1 f1 d2 f2,
    run_history c0 defs = Some (c, files) ->
    In (d1, f1) (combine defs files) -> In (d2, f2) (combine defs files) ->
    f1 = f2 -> snd d1 = snd d2.
  Proof.
    intros defs c0 c files d1 f1 d2 f2 H H1 H2 E.
    destruct (linecache_own_entry_l defs c0) as (c' & files' & H' & HF & _).
    rewrite H in H'. injection H' as <- <-.
    assert (X : forall d f, In (d, f) (combine defs files) -> clookup f c = Some (snd d)).
    { clear -HF. induction HF as [|d f ds fs [Hd _] _ IH]; intros d0 f0 Hin; [destruct Hin|].
      destruct Hin as [Hin|Hin]; [injection Hin as <- <-; assumption | now apply IH]. }
    apply X in H1, H2. subst f2. congruence.
  Qed.

  (** A class with the same base name and an identical script shares the entry. *)
  Lemma lc_loop_again : forall fuel (c : cache) base i s c1 g,
    lc_loop fuel c base (cand base i) (S i) s = Some (c1, g) ->
    forall fuel2, fuel <= fuel2 -> lc_loop fuel2 c1 base (cand base i) (S i) s = Some (c1, g).
  Proof.
    induction fuel as [|fuel IH]; intros c base i s c1 g H fuel2 Hf; [discriminate|].
    destruct fuel2 as [|fuel2]; [lia|].
    cbn [Model.lc_loop] in H.
    destruct (setdefault_cases (cand base i) s c) as [(old & L & E)|(N & E)]; rewrite E in H.
    - destruct (script_eqb old s) eqn:Q.
      + injection H as <- <-. cbn [Model.lc_loop]. unfold setdefault. rewrite L, Q. reflexivity.
      + rewrite cand_next in H. assert (H' := H). apply lc_loop_spec in H' as [_ M].
        cbn [Model.lc_loop]. unfold setdefault. rewrite (M _ _ L), Q. rewrite cand_next.
        apply (IH _ _ _ _ _ _ H). lia.
    - rewrite script_eqb_refl in H. injection H as <- <-.
      cbn [Model.lc_loop]. unfold setdefault. cbn [clookup]. rewrite String.eqb_refl, script_eqb_refl.
      reflexivity.
  Qed.

  Theorem linecache_identical_shares_l : forall (c : cache) base s c1 f,
    linecache_and_compile c base s = Some (c1, f) ->
    linecache_and_compile c1 base s = Some (c1, f).
  Proof.
    intros c base s c1 f H. unfold Model.linecache_and_compile in *.
    change base with (cand base 0) in H at 2. change base with (cand base 0) at 2.
    apply (lc_loop_again _ _ _ _ _ _ _ H).
    assert (L : List.length c <= List.length c1).
    { clear -H script_eqb_spec. revert H. generalize (S (List.length c)) as fuel. generalize 0 as i.
      intros i fuel. revert c i. induction fuel as [|fuel IH]; intros c i H; [discriminate|].
      cbn [Model.lc_loop] in H.
      destruct (setdefault_cases (cand base i) s c) as [(old & L & E)|(N & E)]; rewrite E in H.
      - destruct (script_eqb old s); [injection H as <- _; lia|].
        rewrite cand_next in H. now apply IH in H.
      - rewrite script_eqb_refl in H. injection H as <- _. cbn. lia. }
    lia.
  Qed.

  (** *** Interleavings *)

  Definition sys_inv (c0 : cache) (st : sys script) : Prop :=
    (forall f v, clookup f c0 = Some v -> clookup f (fst st) = Some v) /\
    Forall (done_ok (fst st)) (snd st).

  Lemma tstep_spec (c : cache) t :
    (forall h w, clookup h c = Some w -> clookup h (fst (tstep c t)) = Some w) /\
    (done_ok c t -> done_ok (fst (tstep c t)) (snd (tstep c t))).
  Proof.
    destruct t as [base f cnt s|f s]; cbn [Model.tstep]; [|split; auto].
    assert (M := setdefault_mono f s c). assert (L := setdefault_lookup f s c).
    destruct (setdefault f s c) as [c1 old]. cbn [fst snd] in *.
    destruct (script_eqb old s) eqn:E; cbn [fst snd]; (split; [exact M|]); intros _.
    - apply script_eqb_spec in E. subst old. exact L.
    - exact I.
  Qed.

  Lemma done_ok_mono (c c' : cache) t :
    (forall h w, clookup h c = Some w -> clookup h c' = Some w) -> done_ok c t -> done_ok c' t.
  Proof. destruct t; cbn; auto. Qed.

  Lemma Forall_replace_nth {A} (P : A -> Prop) : forall l i x,
    Forall P l -> P x -> Forall P (replace_nth i x l).
  Proof.
    induction l as [|y l IH]; intros i x Hl Hx; destruct i; cbn; try constructor;
      inversion Hl as [|? ? Hy Hl']; subst; auto.
  Qed.

  (** Every step of any thread preserves the invariant. *)
  Lemma sys_step_preserves (c0 : cache) st i : sys_inv c0 st -> sys_inv c0 (sys_step st i).
  Proof.
    intros [H1 H2]. unfold Model.sys_step. destruct st as [c ts]. cbn [fst snd] in *.
    destruct (nth_error ts i) as [t|] eqn:N; [|split; assumption].
    destruct (tstep_spec c t) as [M D].
    destruct (tstep c t) as [c' t']. cbn [fst snd] in *.
    split.
    - intros f v Hf. apply M. now apply H1.
    - apply Forall_replace_nth.
      + eapply Forall_impl; [|exact H2]. intros a Ha. now apply (done_ok_mono c).
      + apply D. rewrite Forall_forall in H2. apply H2. eapply nth_error_In; eauto.
  Qed.

  Theorem linecache_interleaving_safe_l : forall (sched : list nat) (c0 : cache) ts,
    Forall (done_ok c0) ts -> sys_inv c0 (run_schedule (c0, ts) sched).
  Proof.
    intros sched c0 ts H. unfold Model.run_schedule.
    assert (G : forall st, sys_inv c0 st -> sys_inv c0 (fold_left sys_step sched st)).
    { induction sched as [|i sched IH]; intros st Hst; cbn; [assumption|].
      apply IH. now apply sys_step_preserves. }
    apply G. split; [auto | exact H].
  Qed.

  Lemma start_ok (c0 : cache) defs : Forall (done_ok c0) (map tstart defs).
  Proof. apply Forall_forall. intros t Ht. apply in_map_iff in Ht as (d & <- & _). exact I. Qed.

  (** A finished definer stays finished with the same file, whatever the others do. *)
  Lemma done_absorbing (c : cache) f s : tstep c (TDone f s) = (c, TDone f s).
  Proof. reflexivity. Qed.

  (** The sequential loop is the state machine run alone. *)
  Fixpoint tsteps (n : nat) (c : cache) (t : tstate script) : cache * tstate script :=
    match n with 0 => (c, t) | S n' => let (c', t') := tstep c t in tsteps n' c' t' end.

  Lemma solo_refines_loop : forall fuel (c : cache) base f cnt s c' g,
    lc_loop fuel c base f cnt s = Some (c', g) ->
    exists n, tsteps n c (TRun base f cnt s) = (c', TDone g s).
  Proof.
    induction fuel as [|fuel IH]; intros c base f cnt s c' g H; [discriminate|].
    cbn [Model.lc_loop] in H. destruct (setdefault f s c) as [c1 old] eqn:E.
    destruct (script_eqb old s) eqn:Q.
    - injection H as <- <-. exists 1. cbn. rewrite E, Q. reflexivity.
    - destruct (IH _ _ _ _ _ _ _ H) as (n & Hn). exists (S n). cbn [tsteps Model.tstep].
      rewrite E, Q. exact Hn.
  Qed.
End Proofs.

(** Non-vacuity / the concrete shape of the names. *)
Example cand_examples :
  map (cand "<attrs generated methods m.K>") [0; 1; 2; 10]
  = ["<attrs generated methods m.K>"; "<attrs generated methods m.K-1>";
     "<attrs generated methods m.K-2>"; "<attrs generated methods m.K-10>"].
Proof. reflexivity. Qed.

Example history_example :
  run_history Nat.eqb [] [("<K>", 1); ("<K>", 2); ("<K>", 1); ("<K-1>", 3); ("<K>", 3); ("<K>", 4)]
  = Some ([("<K-3>", 4); ("<K-2>", 3); ("<K-1-1>", 3); ("<K-1>", 2); ("<K>", 1)],
          ["<K>"; "<K-1>"; "<K>"; "<K-1-1>"; "<K-2>"; "<K-3>"]).
Proof. reflexivity. Qed.
