(** * C17 — tie by translation: the anchor code regenerated from the CURRENT source text
    ([Gen/C17_tie.v], written by harness/translate_c17.py on every run) coincides, for ALL inputs,
    with the functions of [C17/Model.v] the property theorems are stated about.  A source change
    that alters the logic of one of these functions makes a lemma below fail to compile: a
    proof-obligation failure of ./check C17, whatever the case generator covers. *)
From Coq Require Import List Bool String Ascii Arith Lia.
Import ListNotations.
From Attrs Require Import Core.Attr Core.Init C17.Model C17.Strings Gen.C17_tie.
Open Scope string_scope.
Open Scope list_scope.

Lemma tie_fully_translated : c17_fully_translated = true.
Proof. reflexivity. Qed.

(** Normal form of string concatenations: right-nested, literals folded. *)
Ltac snorm := repeat rewrite sapp_assoc; cbn [String.append].
(** ... and of conjunctions with constant members. *)
Ltac bnorm := repeat (rewrite andb_false_r || rewrite andb_false_l || rewrite andb_true_r || rewrite andb_true_l).

(** ** The scripts the four generators emit (run on a spanning set of field lists and options):
    every global name such a script loads is a pinned builtin or a key of the globs dict the generator
    returned with it, and every key is a fixed attrs name or carries a helper prefix - so by
    [helper_names_injective] / [helper_names_not_fixed] nothing else can be looked up, in particular no
    un-pinned builtin and no name of the defining module. *)
Definition helper_shaped (k : string) : bool := existsb (fun r => prefix (role_prefix r) k) all_roles.

Definition variant_ok (v : string * list string * list string) : bool :=
  let '(_, free, keys) := v in
  forallb (fun n => mem_str n pinned_builtins || mem_str n keys) free
  && forallb (fun k => mem_str k (pinned_builtins ++ attrs_objects) || helper_shaped k) keys.

Lemma tie_script_free_names : forallb variant_ok t_script_variants = true.
Proof. vm_compute. reflexivity. Qed.

Lemma tie_script_free_names_spec : forall g free keys n,
  In (g, free, keys) t_script_variants -> In n free ->
  In n pinned_builtins \/ In n (pinned_builtins ++ attrs_objects) \/ helper_shaped n = true.
Proof.
  intros g free keys n Hv Hn.
  assert (H := tie_script_free_names). rewrite forallb_forall in H. specialize (H _ Hv).
  cbn in H. apply andb_true_iff in H as [H1 H2].
  rewrite forallb_forall in H1, H2. specialize (H1 _ Hn).
  apply orb_true_iff in H1 as [H1|H1].
  - left. now apply mem_str_In.
  - apply mem_str_In in H1. specialize (H2 _ H1). apply orb_true_iff in H2 as [H2|H2].
    + right. left. now apply mem_str_In.
    + right. right. exact H2.
Qed.

(** ** The names of the per-field helpers: functions of the FIELD NAME only.
    [Converter._get_global_name] is translated with the state an earlier call may have left in
    the Converter instance ([memo]); the name must not depend on it. *)
Lemma tie_helper_names : forall n memo,
  fst (t_name_converter memo n) = helper_name RConverter n /\
  t_name_factory n = helper_name RFactory n /\
  t_name_validator n = helper_name RValidator n /\
  t_name_field n = helper_name RField n /\
  t_name_key_eq n = helper_name RKey n /\
  t_name_key_hash n = helper_name RKey n /\
  t_name_repr n = helper_name RRepr n.
Proof.
  intros n memo. unfold t_name_converter, t_name_factory, t_name_validator, t_name_field, t_name_key_eq,
    t_name_key_hash, t_name_repr.
  repeat split; try (destruct memo); cbn [fst helper_name]; snorm; reflexivity.
Qed.

(** ... i.e. the translated method is the model's [current_naming] as far as names go. *)
Lemma tie_converter_naming : forall memo n,
  fst (t_name_converter memo n) = fst (current_naming memo n).
Proof. intros. now destruct (tie_helper_names n memo) as [H _]. Qed.

(** ** [_generate_unique_filename] *)
Lemma tie_unique_filename : forall func_name module qualname name,
  t_unique_filename func_name module qualname name = unique_filename func_name module qualname.
Proof. intros. unfold t_unique_filename, unique_filename. snorm. reflexivity. Qed.

(** ** [_GENERATED_CODE_BUILTINS] (as a set of names, each bound to the real builtin) *)
Definition subset_names (a b : list string) : bool := forallb (fun x => mem_str x b) a.

Lemma subset_names_mem a b n : subset_names a b = true -> mem_str n a = true -> mem_str n b = true.
Proof.
  unfold subset_names. rewrite forallb_forall. intros H Hn. apply mem_str_In in Hn. now apply H.
Qed.

Lemma tie_pinned_builtins : forall n, mem_str n t_pinned_builtins = mem_str n pinned_builtins.
Proof.
  intros n.
  assert (A : subset_names t_pinned_builtins pinned_builtins = true) by reflexivity.
  assert (B : subset_names pinned_builtins t_pinned_builtins = true) by reflexivity.
  destruct (mem_str n t_pinned_builtins) eqn:E1, (mem_str n pinned_builtins) eqn:E2; try reflexivity.
  - rewrite (subset_names_mem _ _ _ A E1) in E2. discriminate.
  - rewrite (subset_names_mem _ _ _ B E2) in E1. discriminate.
Qed.

Definition pin (n : string) : string * binding := (n, BBuiltin n).

Lemma lookup_pin l n :
  lookup_last n (map pin l) = if mem_str n l then Some (BBuiltin n) else None.
Proof.
  induction l as [|x l IH]; [reflexivity|].
  cbn [map lookup_last pin mem_str]. fold pin. rewrite IH.
  destruct (mem_str n l); [now rewrite orb_true_r|].
  rewrite orb_false_r. destruct (String.eqb n x) eqn:E; [|reflexivity].
  apply String.eqb_eq in E. now subst.
Qed.

Lemma tie_pinned_ns : forall n, lookup_last n (map pin t_pinned_builtins) = lookup_last n pinned_ns.
Proof.
  intros n. change pinned_ns with (map pin pinned_builtins).
  now rewrite !lookup_pin, tie_pinned_builtins.
Qed.

(** ** [_ClassBuilder._eval_snippets]: the order of the dict updates *)
Lemma lookup_last_app' n l1 l2 :
  lookup_last n (l1 ++ l2) =
  match lookup_last n l2 with Some b => Some b | None => lookup_last n l1 end.
Proof.
  induction l1 as [|[m b] l1 IH]; cbn.
  - destruct (lookup_last n l2); reflexivity.
  - rewrite IH. destruct (lookup_last n l2); reflexivity.
Qed.

Lemma tie_snippet_order : t_snippet_order = [MRepr; MEq; MHash; MInit].
Proof. reflexivity. Qed.

Lemma tie_assemble_structure : forall module_ns s,
  t_assemble module_ns pinned_ns (map (snippet_globs s) (filter (generated s) t_snippet_order))
  = assemble module_ns s.
Proof.
  intros. unfold t_assemble, assemble, snippets, generated_methods. rewrite tie_snippet_order.
  rewrite flat_map_concat_map. cbn [app]. now rewrite <- ?app_assoc.
Qed.

(** ... with the pinned names as the source lists them: every name resolves alike. *)
Lemma tie_assemble : forall module_ns s n,
  lookup_last n (t_assemble module_ns (map pin t_pinned_builtins)
                   (map (snippet_globs s) (filter (generated s) t_snippet_order)))
  = lookup_last n (assemble module_ns s).
Proof.
  intros. rewrite <- tie_assemble_structure. unfold t_assemble.
  rewrite !lookup_last_app'. now rewrite tie_pinned_ns.
Qed.

Lemma tie_eval_filename : forall module qualname name,
  t_unique_filename t_eval_filename_kind module qualname name = unique_filename "methods" module qualname.
Proof. intros. apply tie_unique_filename. Qed.

Lemma tie_eval_passes_globals :
  t_eval_passes_assembled_globals = true /\ t_compiles_under_final_filename = true
  /\ t_eval_uses_given_globals_and_filename = true.
Proof. repeat split. Qed.

(** ** [_linecache_and_compile]: the collision loop *)
Section Loop.
  Variable Sc : Type.
  Variables seqb leqb : Sc -> Sc -> bool.
  (** the stored lines are equal iff the scripts are; equal scripts have equal lengths *)
  Hypothesis seqb_refl : forall a, seqb a a = true.
  Hypothesis leqb_of_seqb : forall a b, seqb a b = true -> leqb a b = true.

  Notation tcache := (tcache Sc).

  (** The model's cache keeps the script of every entry. *)
  Definition erase (c : tcache) : cache Sc := map (fun e => (fst e, fst (snd e))) c.

  (** Every stored tuple's string component is the key it is stored under. *)
  Definition wfc (c : tcache) : Prop := forall k e, In (k, e) c -> snd e = k.

  Lemma clookup_erase f (c : tcache) : clookup f (erase c) = option_map fst (clookup f c).
  Proof.
    induction c as [|[k e] c IH]; [reflexivity|]. cbn. destruct (String.eqb f k); [reflexivity | exact IH].
  Qed.

  Lemma clookup_In f (c : tcache) e : clookup f c = Some e -> exists k, In (k, e) c /\ k = f.
  Proof.
    induction c as [|[k e'] c IH]; [discriminate|]. cbn. destruct (String.eqb f k) eqn:E.
    - intros H. injection H as ->. apply String.eqb_eq in E. exists k. split; [now left | now subst].
    - intros H. destruct (IH H) as (k' & Hin & Hk). exists k'. split; [now right | assumption].
  Qed.

  Definition res_erase (r : option (tcache * string)) : option (cache Sc * string) :=
    option_map (fun x => (erase (fst x), snd x)) r.

  Lemma tie_loop : forall fuel (c : tcache) base f n s,
    wfc c ->
    res_erase (t_loop_from Sc seqb leqb fuel c s base f n) = lc_loop seqb fuel (erase c) base f n s.
  Proof.
    induction fuel as [|fuel IH]; intros c base f n s W; [reflexivity|].
    unfold t_loop_from. cbv zeta. cbn [t_loop Model.lc_loop]. unfold setdefault. rewrite clookup_erase.
    unfold C17_tie.tcache, C17_tie.tentry in *.
    destruct (clookup f c) as [[so k]|] eqn:L; cbn [option_map fst snd].
    - destruct (clookup_In _ _ _ L) as (k' & Hin & ->). apply W in Hin. cbn in Hin. subst k.
      destruct (seqb so s) eqn:E.
      + rewrite ?(leqb_of_seqb _ _ E), ?String.eqb_refl. bnorm. reflexivity.
      + bnorm. rewrite ?Nat.add_1_r, ?Nat.add_1_l. unfold retry_name.
        specialize (IH c base (drop_last base +++ "-" +++ render n +++ ">") (S n) s W).
        unfold t_loop_from in IH. cbv zeta in IH. revert IH. snorm. intros IH. exact IH.
    - rewrite ?seqb_refl, ?(leqb_of_seqb _ _ (seqb_refl s)), ?String.eqb_refl. bnorm. reflexivity.
  Qed.

  Theorem tie_linecache_and_compile : forall (c : tcache) base s,
    wfc c ->
    res_erase (t_linecache_and_compile Sc seqb leqb c base s) = linecache_and_compile seqb (erase c) base s.
  Proof.
    intros c base s W. unfold t_linecache_and_compile, Model.linecache_and_compile.
    cbv zeta. rewrite tie_loop by assumption. unfold erase. now rewrite map_length.
  Qed.

  (** The invariant is kept: what the loop stores satisfies [wfc] again. *)
  Lemma tie_loop_wfc : forall fuel (c : tcache) base f n s c' g,
    wfc c -> t_loop_from Sc seqb leqb fuel c s base f n = Some (c', g) -> wfc c'.
  Proof.
    induction fuel as [|fuel IH]; intros c base f n s c' g W H; [discriminate|].
    unfold t_loop_from in H. cbv zeta in H. cbn [t_loop] in H. unfold setdefault in H. unfold C17_tie.tcache, C17_tie.tentry in *.
    destruct (clookup f c) as [e|] eqn:L.
    - match type of H with (if ?b then _ else _) = _ => destruct b end.
      + injection H as <- _. exact W.
      + eapply (IH c base); [exact W | unfold t_loop_from; cbv zeta; exact H].
    - match type of H with (if ?b then _ else _) = _ => destruct b end.
      + injection H as <- _. intros k e [X|X]; [injection X as <- <-; reflexivity | now apply W].
      + eapply (IH _ base); [|unfold t_loop_from; cbv zeta; exact H].
        intros k e [X|X]; [injection X as <- <-; reflexivity | now apply W].
  Qed.
End Loop.
