(** * C17 — the helper naming scheme is collision-free.

    First the scheme of the current code (every helper is [__attr_<role>_<field>] with six
    pairwise incomparable role tags: injective for ALL field names, no guard).  Then, as
    documentation of what the repairs excluded, the two older schemes: [__attr_<n>] for
    the Attribute helper (F6) and [<n>_repr] / [_<n>_key] for the custom repr callable and
    the eq/hash key function (needed a guard on field names, shown tight; refuted without). *)
From Coq Require Import List Bool String Ascii Arith Lia.
Import ListNotations.
From Attrs Require Import Core.Attr C17.Model C17.Strings.
Open Scope string_scope.

(** ** The current scheme *)

Lemma helper_name_prefix r n : helper_name r n = role_prefix r +++ n.
Proof. destruct r; reflexivity. Qed.

(** The six prefixes are told apart by the first characters after [__attr_]
    (r / k / c / v / f·a / f·i), whatever the field names are. *)
Lemma role_prefixes_disjoint_l r1 r2 n m : helper_name r1 n = helper_name r2 m -> r1 = r2.
Proof. destruct r1, r2; cbn; intros H; try discriminate; reflexivity. Qed.

Lemma helper_names_injective_l r1 n r2 m :
  helper_name r1 n = helper_name r2 m -> r1 = r2 /\ n = m.
Proof.
  intros H. assert (E := role_prefixes_disjoint_l _ _ _ _ H). subst r2. split; [reflexivity|].
  rewrite !helper_name_prefix in H. eapply sapp_inv_head; eauto.
Qed.

Definition no_fixed_starts (p : string) : bool := forallb (fun f => negb (prefix p f)) fixed_names.

Lemma helper_not_fixed_l r n : ~ In (helper_name r n) fixed_names.
Proof.
  intros H.
  assert (F : forall r, no_fixed_starts (role_prefix r) = true) by (intros r0; destruct r0; vm_compute; reflexivity).
  specialize (F r). unfold no_fixed_starts in F. rewrite forallb_forall in F. specialize (F _ H).
  rewrite helper_name_prefix, prefix_sapp in F. discriminate.
Qed.

(** Whatever fields (of whatever classes) a Converter object served before, the name it
    gets for field [n] is the name of [n]. *)
Lemma converter_name_history_independent_l : forall h memo n,
  fst (current_naming (use_history current_naming memo h) n) = helper_name RConverter n.
Proof. intros. reflexivity. Qed.

Lemma memo_naming_refuted_l :
  exists h n m, n <> m /\
    fst (memo_naming (use_history memo_naming None h) n) = fst (memo_naming (use_history memo_naming None h) m)
    /\ fst (memo_naming (use_history memo_naming None h) m) <> helper_name RConverter m.
Proof. exists ["a"], "a", "b". repeat split; discriminate. Qed.

Example helper_name_examples :
  map (fun r => helper_name r "x") all_roles =
  ["__attr_repr_x"; "__attr_key_x"; "__attr_factory_x"; "__attr_converter_x"; "__attr_validator_x";
   "__attr_field_x"].
Proof. reflexivity. Qed.

(** ** The older schemes *)

Definition is_prefix_role (r : role) : bool :=
  match r with RRepr | RKey => false | _ => true end.

Lemma old_prefix_role_name r n : is_prefix_role r = true -> old_helper_name r n = role_prefix r +++ n.
Proof. destruct r; cbn; intros H; try discriminate; reflexivity. Qed.

(** The four prefixes are told apart by the first characters after [__attr_]
    (c / v / f·a / f·i), whatever the field names are: the F6 repair. *)
Lemma old_role_prefixes_disjoint_l r1 r2 n m :
  is_prefix_role r1 = true -> is_prefix_role r2 = true ->
  old_helper_name r1 n = old_helper_name r2 m -> r1 = r2.
Proof.
  destruct r1, r2; cbn; intros H1 H2 H; try discriminate; reflexivity.
Qed.

(** Before the repair the Attribute helper was [__attr_<n>]: refuted. *)
Definition old_field_name (n : string) : string := "__attr_" +++ n.

Lemma old_scheme_refuted :
  exists r n m, is_prefix_role r = true /\ r <> RField /\ old_field_name n = old_helper_name r m.
Proof. exists RConverter, "converter_y", "y". repeat split; [discriminate]. Qed.

(** Injectivity within one role. *)
Lemma old_helper_name_inj_same r n m : old_helper_name r n = old_helper_name r m -> n = m.
Proof.
  destruct r; cbn [old_helper_name helper_name]; intros H.
  - eapply sapp_inv_tail; eauto.
  - cbn in H. injection H as H. eapply sapp_inv_tail; eauto.
  - eapply sapp_inv_head; eauto.
  - eapply sapp_inv_head; eauto.
  - eapply sapp_inv_head; eauto.
  - eapply sapp_inv_head; eauto.
Qed.

Lemma old_repr_as_factor n : old_helper_name RRepr n = (n +++ "_") +++ "repr".
Proof. cbn [old_helper_name helper_name]. now rewrite sapp_assoc. Qed.

Lemma old_key_as_factor n : old_helper_name RKey n = ("_" +++ n +++ "_") +++ "key".
Proof. cbn [old_helper_name helper_name]. rewrite !sapp_assoc. reflexivity. Qed.

Lemma old_repr_ne_key n m : old_helper_name RRepr n <> old_helper_name RKey m.
Proof.
  rewrite old_repr_as_factor. cbn [old_helper_name helper_name].
  replace ("_" +++ m +++ "_key") with (("_" +++ m) +++ "_key") by (now rewrite sapp_assoc).
  intros H. apply sapp_inv_tail_len in H as [_ H]; [discriminate | reflexivity].
Qed.

Lemma hits_prefix_false s r :
  hits_prefix s = false -> is_prefix_role r = true -> prefix (role_prefix r) s = false.
Proof.
  unfold hits_prefix, prefix_roles. cbn [existsb]. intros H Hr.
  repeat (apply orb_false_iff in H as [? H]).
  destruct r; try discriminate; assumption.
Qed.

Lemma last_char_role_prefix r : is_prefix_role r = true -> last_char (role_prefix r) = Some "_"%char.
Proof. destruct r; intros H; try discriminate; reflexivity. Qed.

Lemma old_repr_ne_prefix_role n r m :
  name_guard RRepr n = true -> is_prefix_role r = true ->
  old_helper_name RRepr n <> old_helper_name r m.
Proof.
  intros G Hr H. rewrite old_repr_as_factor, (old_prefix_role_name r m Hr) in H.
  cbn [name_guard] in G. apply negb_true_iff in G.
  eapply suffix_vs_prefix; [exact H | now apply hits_prefix_false
                           | now apply last_char_role_prefix | reflexivity].
Qed.

Lemma old_key_ne_prefix_role n r m :
  name_guard RKey n = true -> is_prefix_role r = true ->
  old_helper_name RKey n <> old_helper_name r m.
Proof.
  intros G Hr H. rewrite old_key_as_factor, (old_prefix_role_name r m Hr) in H.
  cbn [name_guard] in G. apply negb_true_iff in G.
  eapply suffix_vs_prefix; [exact H | now apply hits_prefix_false
                           | now apply last_char_role_prefix | reflexivity].
Qed.

(** All helper names (six roles, any fields) are pairwise distinct under the guard. *)
Lemma old_helper_names_injective_l r1 n r2 m :
  name_guard r1 n = true -> name_guard r2 m = true ->
  old_helper_name r1 n = old_helper_name r2 m -> r1 = r2 /\ n = m.
Proof.
  intros G1 G2 H.
  assert (E : r1 = r2).
  { destruct r1, r2; try reflexivity; exfalso;
      first [ exact (old_repr_ne_key _ _ H)
            | exact (old_repr_ne_key _ _ (eq_sym H))
            | (refine (old_repr_ne_prefix_role _ _ _ G1 _ H); reflexivity)
            | (refine (old_repr_ne_prefix_role _ _ _ G2 _ (eq_sym H)); reflexivity)
            | (refine (old_key_ne_prefix_role _ _ _ G1 _ H); reflexivity)
            | (refine (old_key_ne_prefix_role _ _ _ G2 _ (eq_sym H)); reflexivity)
            | (assert (X := fun a b => old_role_prefixes_disjoint_l _ _ _ _ a b H);
               specialize (X eq_refl eq_refl); discriminate X) ]. }
  subst r2. split; [reflexivity | eapply old_helper_name_inj_same; eauto].
Qed.

(** ... and distinct from every fixed name, without any guard. *)
Definition no_fixed_ends (sfx : string) : bool := forallb (fun f => negb (ends_with sfx f)) fixed_names.

Lemma old_helper_not_fixed_l r n : ~ In (old_helper_name r n) fixed_names.
Proof.
  intros H.
  destruct r.
  - assert (F : no_fixed_ends "_repr" = true) by (vm_compute; reflexivity).
    unfold no_fixed_ends in F. rewrite forallb_forall in F. specialize (F _ H).
    cbn [old_helper_name helper_name] in F. rewrite ends_with_sapp in F. discriminate.
  - assert (F : no_fixed_ends "_key" = true) by (vm_compute; reflexivity).
    unfold no_fixed_ends in F. rewrite forallb_forall in F. specialize (F _ H).
    cbn [old_helper_name helper_name] in F.
    replace ("_" +++ n +++ "_key") with (("_" +++ n) +++ "_key") in F by (now rewrite sapp_assoc).
    rewrite ends_with_sapp in F. discriminate.
  - assert (F : no_fixed_starts "__attr_factory_" = true) by (vm_compute; reflexivity).
    unfold no_fixed_starts in F. rewrite forallb_forall in F. specialize (F _ H).
    cbn [old_helper_name helper_name] in F. rewrite prefix_sapp in F. discriminate.
  - assert (F : no_fixed_starts "__attr_converter_" = true) by (vm_compute; reflexivity).
    unfold no_fixed_starts in F. rewrite forallb_forall in F. specialize (F _ H).
    cbn [old_helper_name helper_name] in F. rewrite prefix_sapp in F. discriminate.
  - assert (F : no_fixed_starts "__attr_validator_" = true) by (vm_compute; reflexivity).
    unfold no_fixed_starts in F. rewrite forallb_forall in F. specialize (F _ H).
    cbn [old_helper_name helper_name] in F. rewrite prefix_sapp in F. discriminate.
  - assert (F : no_fixed_starts "__attr_field_" = true) by (vm_compute; reflexivity).
    unfold no_fixed_starts in F. rewrite forallb_forall in F. specialize (F _ H).
    cbn [old_helper_name helper_name] in F. rewrite prefix_sapp in F. discriminate.
Qed.

Lemma fixed_names_nodup : NoDup fixed_names.
Proof.
  assert (D : forall l : list string,
             (fix nd (l : list string) : bool :=
                match l with [] => true | x :: r => negb (mem_str x r) && nd r end) l = true -> NoDup l).
  { induction l as [|x r IH]; intros H; [constructor|].
    apply andb_true_iff in H as [H1 H2]. constructor; [|now apply IH].
    intros Hin. apply mem_str_In in Hin. rewrite Hin in H1. discriminate. }
  apply D. vm_compute. reflexivity.
Qed.

(** The guard is tight: a field name it rejects really collides with the helper of
    some other possible field. *)
Lemma old_name_guard_tight_l r n :
  name_guard r n = false -> exists r' m, r' <> r /\ old_helper_name r n = old_helper_name r' m.
Proof.
  assert (X : forall u tl, hits_prefix u = true ->
            exists r' m, is_prefix_role r' = true /\ u +++ tl = old_helper_name r' m).
  { intros u tl H. unfold hits_prefix in H. apply existsb_exists in H as (r' & Hin & Hp).
    apply prefix_true in Hp as (k & ->).
    exists r', (k +++ tl). split.
    - destruct Hin as [<-|[<-|[<-|[<-|[]]]]]; reflexivity.
    - rewrite sapp_assoc. symmetry. apply old_prefix_role_name.
      destruct Hin as [<-|[<-|[<-|[<-|[]]]]]; reflexivity. }
  destruct r; cbn [name_guard]; intros H; try discriminate; apply negb_false_iff in H.
  - destruct (X _ "repr" H) as (r' & m & Hr & E). exists r', m. split.
    + intros ->. discriminate.
    + now rewrite old_repr_as_factor.
  - destruct (X _ "key" H) as (r' & m & Hr & E). exists r', m. split.
    + intros ->. discriminate.
    + now rewrite old_key_as_factor.
Qed.

(** The simple sufficient condition. *)
Lemma plain_aux n p y :
  n +++ "_" = p +++ String "_" y -> y <> "" -> prefix p n = false -> False.
Proof.
  intros H Hy Hp.
  destruct (sapp_eq_sapp _ _ _ _ H) as [(j & Hj & Hj2)|(j & Hj & _)].
  - destruct j as [|c j].
    + cbn in Hj2. injection Hj2 as Hj2. now subst y.
    + cbn in Hj2. injection Hj2 as _ Hj2. destruct j; cbn in Hj2; discriminate.
  - subst n. rewrite prefix_sapp in Hp. discriminate.
Qed.

Lemma plain_name_hits n pre : plain_name n = true -> (pre = "" \/ pre = "_") ->
  hits_prefix (pre +++ n +++ "_") = false.
Proof.
  intros Hp Hpre. destruct (hits_prefix (pre +++ n +++ "_")) eqn:E; [exfalso | reflexivity].
  unfold plain_name in Hp. apply andb_true_iff in Hp as [H1 H2].
  apply negb_true_iff in H1, H2.
  unfold hits_prefix in E. apply existsb_exists in E as (r & Hin & Hx).
  apply prefix_true in Hx as (k & Hk).
  assert (R : exists rest, role_prefix r = "__attr_" +++ rest /\ rest <> "").
  { destruct Hin as [<-|[<-|[<-|[<-|[]]]]]; eexists; (split; [reflexivity | discriminate]). }
  destruct R as (rest & Hr & Hne). rewrite Hr in Hk.
  assert (Hy : rest +++ k <> "") by (destruct rest; [contradiction | discriminate]).
  assert (Hk' : pre +++ n +++ "_" = "__attr" +++ String "_" (rest +++ k)) by exact Hk.
  destruct Hpre as [-> | ->].
  - change ("" +++ n +++ "_") with (n +++ "_") in Hk'.
    exact (plain_aux _ _ _ Hk' Hy H2).
  - assert (Hk2 : n +++ "_" = "_attr" +++ String "_" (rest +++ k))
      by (injection Hk' as Hk'; exact Hk').
    exact (plain_aux _ _ _ Hk2 Hy H1).
Qed.

Lemma plain_name_guard_l r n : plain_name n = true -> name_guard r n = true.
Proof.
  intros H. destruct r; cbn [name_guard]; try reflexivity; apply negb_true_iff.
  - exact (plain_name_hits n "" H (or_introl eq_refl)).
  - exact (plain_name_hits n "_" H (or_intror eq_refl)).
Qed.

(** Without the guard the scheme is not injective: the two collision shapes. *)
Lemma old_helper_names_unguarded_refuted :
  (old_helper_name RRepr "__attr_factory" = old_helper_name RFactory "repr") /\
  (old_helper_name RKey "_attr_converter_b" = old_helper_name RConverter "b_key") /\
  name_guard RRepr "__attr_factory" = false /\ name_guard RKey "_attr_converter_b" = false.
Proof. repeat split. Qed.

(** Non-vacuity: ordinary and private names satisfy the guard. *)
Example guard_examples :
  forallb (fun n => name_guard RRepr n && name_guard RKey n)
          ["x"; "_x"; "__x"; "x_repr"; "_x_key"; "converter_y"; "factory_y"; "attr_factory";
           "repr"; "key"; "_attr"; "__attr"; "__attr_"; "__attr_f"; "compat"; "config"] = true.
Proof. reflexivity. Qed.
