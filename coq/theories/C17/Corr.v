(** * C17 — correspondence: the check function evaluated by [coqc] on what the
    harness observed on the real library.

    Case families:
    - [CHerm]: one real class defined in a synthetic module; for every generated
      method the global names its code object reads (LOAD_GLOBAL), its local
      variable names, the names read while the [def]s were executed, and for each of
      them where the real globals dict resolves it (helper of a role/field, attrs
      object, real builtin, something the MODULE bound, builtins fall-through);
      the model recomputes all of that from the specification and the module's
      names.
    - [CDef]: whether the class could be defined at all (duplicate parameters).
    - [CProp]: a property case: true iff the observed behaviour satisfied the
      property's postcondition (same behaviour as the reference build).
    - [CSrc]: runtime observations on inspect/linecache/compile for one class.
    - [CHist]: a sequential history of same-module definitions and the filenames
      the real loop chose.
    - [CThr]: concurrent definitions: the observed assignment must be a possible
      outcome of the interleaving model. *)
From Coq Require Import List Bool String Ascii Arith.
Import ListNotations.
From Attrs Require Import Base Core.Attr Core.Init C17.Model.
Open Scope string_scope.
Open Scope list_scope.

Record mobs := {
  mo_meth : meth;
  mo_globals : list (string * resolution);   (* LOAD_GLOBAL names and where they resolve *)
  mo_locals : list string                    (* co_varnames *)
}.

Record hcase := {
  hc_spec : hspec;
  hc_module : list string;        (* names bound in the defining module (tag = position + 1) *)
  hc_bn : list string;            (* further bound names (the builtin names; tag = 1000 + position) *)
  hc_builtins : option binding;   (* the module dict's own __builtins__ entry *)
  hc_methods : list mobs;
  hc_deftime : list (string * resolution);
  hc_py_guard : bool;             (* the harness' replica of [guard] (used for finding signatures) *)
  hc_same : bool                  (* behaves exactly like the build in a clean module *)
}.

Fixpoint tag_from (k : nat) (l : list string) : ns :=
  match l with [] => [] | n :: r => (n, BModule k) :: tag_from (S k) r end.

Definition module_of (c : hcase) : ns :=
  tag_from 1000 (hc_bn c) ++ tag_from 1 (hc_module c)
  ++ match hc_builtins c with Some b => [("__builtins__", b)] | None => [] end.

Definition body_names (s : hspec) (m : meth) : list string :=
  flat_map (fun r => match fst (fst r) with Body => [snd (fst r)] | DefTime => [] end) (free_refs s m).

Definition deftime_names (s : hspec) : list string :=
  flat_map (fun m => flat_map (fun r => match fst (fst r) with DefTime => [snd (fst r)] | Body => [] end)
                              (free_refs s m)) (generated_methods s).

Definition mem_res (n : string) (r : resolution) (l : list (string * resolution)) : bool :=
  existsb (fun e => String.eqb (fst e) n && resolution_eqb (snd e) r) l.

Definition subset_str (a b : list string) : bool := forallb (fun x => mem_str x b) a.

Definition check_mobs (s : hspec) (g : ns) (mo : mobs) : bool :=
  let m := mo_meth mo in
  (* Local variable NAMES are not constrained by the property (a generator may call its locals what it
     likes): resolution is computed with the real function's own co_varnames.  What the property does
     constrain - a parameter (init alias) shadowing a name the code uses - is still seen, because the
     parameters are among the real co_varnames: for [__init__] they must be exactly the aliases. *)
  let loc := mo_locals mo in
  let names := body_names s m in
  (* every global name the real code reads is one the model knows, resolving alike *)
  forallb (fun e => mem_str (fst e) names && resolution_eqb (resolve g loc (fst e)) (snd e)) (mo_globals mo)
  (* every name the model says the body uses is read by the real code: as a global
     resolving alike, or - when a parameter shadows it - as a local *)
  && forallb (fun n => match resolve g loc n with
                       | RLocal => true
                       | r => mem_res n r (mo_globals mo)
                       end) names
  && match m with
     | MInit => match init_script_of s with
                | Some sc => subset_str ("self" :: aliases sc) loc
                | None => true
                end
     | _ => mem_str "self" loc
     end.

Definition model_methods (c : hcase) : list (meth * list (string * resolution) * list string) :=
  let s := hc_spec c in
  let g := assemble (module_of c) s in
  map (fun m =>
         let loc := match find (fun mo => meth_eqb (mo_meth mo) m) (hc_methods c) with
                    | Some mo => mo_locals mo | None => locals s m end in
         (m, map (fun n => (n, resolve g loc n)) (body_names s m), loc))
      (generated_methods s).

Definition check_hcase (c : hcase) : bool :=
  let s := hc_spec c in
  let g := assemble (module_of c) s in
  list_eqb meth_eqb (generated_methods s) (map mo_meth (hc_methods c))
  && forallb (check_mobs s g) (hc_methods c)
  && forallb (fun e => mem_str (fst e) (deftime_names s)
                       && resolution_eqb (resolve g method_names (fst e)) (snd e)) (hc_deftime c)
  && forallb (fun n => mem_res n (resolve g method_names n) (hc_deftime c)) (deftime_names s)
  && Bool.eqb (guard s) (hc_py_guard c)
  && hc_same c.

(** Duplicate parameter names make the generated [def] a SyntaxError. *)
Fixpoint nodupb (l : list string) : bool :=
  match l with [] => true | x :: r => negb (mem_str x r) && nodupb r end.

Definition def_ok (s : hspec) : bool :=
  match init_script_of s with Some sc => nodupb ("self" :: aliases sc) | None => true end.

(** Threads: the filenames handed out for [k] distinct scripts are exactly the first
    [k] candidates, one per script. *)
Definition thr_ok (base : string) (scripts : list nat) (files : list string) : bool :=
  let k := List.length (nodup Nat.eq_dec scripts) in
  let cands := map (cand base) (seq 0 k) in
  Nat.eqb (List.length scripts) (List.length files)
  && forallb (fun f => mem_str f cands) files
  && forallb (fun p => forallb (fun q =>
        Bool.eqb (Nat.eqb (fst p) (fst q)) (String.eqb (snd p) (snd q)))
        (combine scripts files)) (combine scripts files).

Inductive case :=
| CHerm (c : hcase)
| CDef (s : hspec) (defined : bool)
| CProp (same : bool)
| CSrc (kind module qualname fname : string) (obs : list (string * bool))
| CGet (has_original : bool) (seen : list (string * resolution)) (same : bool)
| CHist (module : string) (defs : list (string * nat)) (files : list string) (own : list bool)
| CThr (module qualname : string) (scripts : list nat) (files : list string) (own : list bool)
       (hung : bool).

Definition base_of (module qualname : string) : string := unique_filename "methods" module qualname.

Definition getattr_body_names (ho : bool) : list string :=
  flat_map (fun r => match fst r with Body => [snd r] | DefTime => [] end) (getattr_refs ho).

Definition hist_files (module : string) (defs : list (string * nat)) : option (list string) :=
  match run_history Nat.eqb [] (map (fun d => (base_of module (fst d), snd d)) defs) with
  | Some (_, fs) => Some fs
  | None => None
  end.

Definition all_true (l : list bool) : bool := forallb (fun b => b) l.

Definition check_case (c : case) : bool :=
  match c with
  | CHerm h => check_hcase h
  | CDef s d => Bool.eqb (def_ok s) d
  | CProp same => same
  | CSrc k m q f obs =>
      existsb (fun i => String.eqb f (cand (unique_filename k m q) i)) (seq 0 64)
      && forallb (fun o => snd o) obs
  | CGet ho seen same =>
      forallb (fun e => mem_str (fst e) (getattr_body_names ho)
                        && resolution_eqb (resolve getattr_globs (getattr_locals Body) (fst e)) (snd e)) seen
      && forallb (fun n => mem_res n (resolve getattr_globs (getattr_locals Body) n) seen)
                 (getattr_body_names ho)
      && same
  | CHist m defs files own =>
      match hist_files m defs with
      | Some fs => list_eqb String.eqb fs files
      | None => false
      end && all_true own && Nat.eqb (List.length own) (List.length defs)
  | CThr m q scripts files own hung =>
      negb hung && thr_ok (base_of m q) scripts files && all_true own
      && Nat.eqb (List.length own) (List.length scripts)
  end.

(** What the model says, for replay files. *)
Inductive model_view :=
| VHerm (guard_holds : bool) (methods : list (meth * list (string * resolution) * list string))
        (deftime : list (string * resolution))
| VDef (ok : bool)
| VProp
| VSrc (base : string)
| VGet (names : list (string * resolution))
| VHist (files : option (list string))
| VThr (candidates : list string).

Definition model_of (c : case) : model_view :=
  match c with
  | CHerm h =>
      let s := hc_spec h in
      let g := assemble (module_of h) s in
      VHerm (guard s) (model_methods h)
            (map (fun n => (n, resolve g method_names n)) (deftime_names s))
  | CDef s _ => VDef (def_ok s)
  | CProp _ => VProp
  | CSrc k m q _ _ => VSrc (unique_filename k m q)
  | CGet ho _ _ =>
      VGet (map (fun n => (n, resolve getattr_globs (getattr_locals Body) n)) (getattr_body_names ho))
  | CHist m defs _ _ => VHist (hist_files m defs)
  | CThr m q scripts _ _ _ =>
      VThr (map (cand (base_of m q)) (seq 0 (List.length (nodup Nat.eq_dec scripts))))
  end.

(** Soundness of the main comparison: a passing [CHerm] case means that every global
    name the real code reads resolves in the real globals exactly as [resolve] says. *)
Lemma resolution_eqb_eq a b : resolution_eqb a b = true -> a = b.
Proof.
  assert (B : forall x y, binding_eqb x y = true -> x = y).
  { intros x y H. destruct x, y; cbn in H; try discriminate; try reflexivity.
    - apply Nat.eqb_eq in H. now subst.
    - apply String.eqb_eq in H. now subst.
    - apply String.eqb_eq in H. now subst.
    - apply andb_true_iff in H as [H1 H2]. apply String.eqb_eq in H2. subst.
      destruct r, r0; try discriminate; reflexivity. }
  destruct a, b; cbn; intros H; try discriminate; try reflexivity.
  - f_equal. now apply B.
  - apply andb_true_iff in H as [H1 H2]. apply String.eqb_eq in H1. subst.
    destruct via, via0; try discriminate; try reflexivity. f_equal. f_equal. now apply B.
Qed.

Lemma check_hcase_sound c :
  check_hcase c = true ->
  forall mo n r, In mo (hc_methods c) -> In (n, r) (mo_globals mo) ->
    resolve (assemble (module_of c) (hc_spec c)) (mo_locals mo) n = r.
Proof.
  unfold check_hcase. intros H mo n r Hmo Hn.
  repeat (apply andb_true_iff in H as [H ?]).
  match goal with X : forallb (check_mobs _ _) _ = true |- _ => rename X into Hc end.
  rewrite forallb_forall in Hc. specialize (Hc _ Hmo). unfold check_mobs in Hc.
  repeat (apply andb_true_iff in Hc as [Hc ?]).
  rewrite forallb_forall in Hc. specialize (Hc _ Hn). cbn [fst snd] in Hc.
  apply andb_true_iff in Hc as [_ Hc]. now apply resolution_eqb_eq.
Qed.
