(** * C17 — every free name of every generated method resolves to the object attrs
    means, for every module namespace. *)
From Coq Require Import List Bool String Ascii Arith Lia.
Import ListNotations.
From Attrs Require Import Core.Attr Core.Init C17.Model C17.Strings C17.NamingProofs.
Open Scope string_scope.
Open Scope list_scope.

(** ** Namespaces *)

Lemma lookup_last_app n l1 l2 :
  lookup_last n (l1 ++ l2) =
  match lookup_last n l2 with Some b => Some b | None => lookup_last n l1 end.
Proof.
  induction l1 as [|[m b] l1 IH]; cbn.
  - destruct (lookup_last n l2); reflexivity.
  - rewrite IH. destruct (lookup_last n l2); reflexivity.
Qed.

Lemma lookup_last_In n l b : lookup_last n l = Some b -> In (n, b) l.
Proof.
  induction l as [|[m c] l IH]; cbn; [discriminate|].
  destruct (lookup_last n l) eqn:E.
  - intros H. injection H as <-. right. now apply IH.
  - destruct (String.eqb n m) eqn:E2; [|discriminate].
    intros H. injection H as <-. apply String.eqb_eq in E2. subst. now left.
Qed.

Lemma lookup_last_found n l b : In (n, b) l -> exists b', lookup_last n l = Some b'.
Proof.
  induction l as [|[m c] l IH]; cbn; [intros []|].
  intros [H|H].
  - injection H as -> ->. destruct (lookup_last n l); [eauto|].
    rewrite String.eqb_refl. eauto.
  - destruct (IH H) as (b' & ->). eauto.
Qed.

Lemma lookup_last_functional n l b :
  In (n, b) l -> (forall b', In (n, b') l -> b' = b) -> lookup_last n l = Some b.
Proof.
  intros Hin Hf. destruct (lookup_last_found _ _ _ Hin) as (b' & E).
  rewrite E. f_equal. apply Hf. now apply lookup_last_In.
Qed.

(** ** The layers attrs itself provides *)

Definition attrs_layers (s : hspec) : ns := pinned_ns ++ snippets s.

Lemma assemble_layers module_ns s : assemble module_ns s = module_ns ++ attrs_layers s.
Proof. reflexivity. Qed.

Definition fixed_table : ns := map fx (pinned_builtins ++ attrs_objects).

Definition shape (e : string * binding) : Prop :=
  In e fixed_table \/ exists r f, e = hp r f.

Lemma fixed_table_names e : In e fixed_table -> In (fst e) fixed_names.
Proof.
  assert (X : forallb (fun e => mem_str (fst e) fixed_names) fixed_table = true) by (vm_compute; reflexivity).
  rewrite forallb_forall in X. intros H. apply mem_str_In. now apply X.
Qed.

Lemma fixed_table_functional e1 e2 :
  In e1 fixed_table -> In e2 fixed_table -> fst e1 = fst e2 -> snd e1 = snd e2.
Proof.
  assert (X : forallb (fun e1 => forallb (fun e2 =>
               negb (String.eqb (fst e1) (fst e2)) || binding_eqb (snd e1) (snd e2))
               fixed_table) fixed_table = true) by (vm_compute; reflexivity).
  rewrite forallb_forall in X. intros H1 H2 E.
  specialize (X _ H1). rewrite forallb_forall in X. specialize (X _ H2).
  rewrite E, String.eqb_refl in X. cbn in X.
  destruct e1 as [n1 b1], e2 as [n2 b2]; cbn in *.
  destruct b1, b2; cbn in X; try discriminate; try reflexivity;
    try (apply String.eqb_eq in X; now subst).
  - apply Nat.eqb_eq in X. now subst.
  - apply andb_true_iff in X as [X1 X2]. apply String.eqb_eq in X2. subst.
    destruct r, r0; try discriminate; reflexivity.
Qed.

Lemma fixed_table_not_module e : In e fixed_table -> is_module_binding (snd e) = false.
Proof.
  assert (X : forallb (fun e => negb (is_module_binding (snd e))) fixed_table = true) by (vm_compute; reflexivity).
  rewrite forallb_forall in X. intros H. apply negb_true_iff. now apply X.
Qed.

Lemma shape_functional e1 e2 : shape e1 -> shape e2 -> fst e1 = fst e2 -> snd e1 = snd e2.
Proof.
  intros [H1|(r1 & f1 & ->)] [H2|(r2 & f2 & ->)] E.
  - now apply fixed_table_functional.
  - exfalso. apply fixed_table_names in H1. rewrite E in H1. cbn in H1.
    exact (helper_not_fixed_l _ _ H1).
  - exfalso. apply fixed_table_names in H2. rewrite <- E in H2. cbn in H2.
    exact (helper_not_fixed_l _ _ H2).
  - cbn in E. destruct (helper_names_injective_l _ _ _ _ E) as [-> ->]. reflexivity.
Qed.

Lemma fx_in_table n : In n (pinned_builtins ++ attrs_objects) -> In (fx n) fixed_table.
Proof. intros H. unfold fixed_table. now apply in_map. Qed.

Ltac fx_tab := apply fx_in_table; cbn; tauto.

Lemma pinned_ns_table e : In e pinned_ns -> In e fixed_table.
Proof.
  assert (X : pinned_ns = map fx pinned_builtins) by reflexivity.
  rewrite X. unfold fixed_table. rewrite map_app. intros H. apply in_or_app. now left.
Qed.

Lemma generated_methods_In s m : In m (generated_methods s) <-> generated s m = true.
Proof.
  unfold generated_methods. rewrite filter_In. split; [tauto|].
  intros H. split; [|assumption]. destruct m; cbn; tauto.
Qed.

Lemma in_snippets s e :
  In e (snippets s) <-> exists m, generated s m = true /\ In e (snippet_globs s m).
Proof.
  unfold snippets. rewrite in_flat_map. split; intros (m & H1 & H2); exists m.
  - split; [now apply generated_methods_In | assumption].
  - split; [now apply generated_methods_In | assumption].
Qed.

(** Every entry of the attrs layers is a fixed-table entry or a helper entry whose
    field name satisfies the guard. *)
Lemma key_globs_wf (P : attribute -> Prop) l e :
  In e (key_globs l) -> exists a, In a l /\ has_key a = true /\ e = hp RKey (a_name a).
Proof.
  unfold key_globs. rewrite in_flat_map. intros (a & Ha & He).
  destruct (has_key a) eqn:K; [|destruct He].
  destruct He as [<-|[]]. eauto.
Qed.

Lemma init_globs_shape k e :
  In e (init_globs k) ->
  shape e.
Proof.
  unfold init_globs, init_named, init_fixed. rewrite !in_app_iff.
  intros [[H|H]|[H|H]].
  - apply in_flat_map in H as (a & _ & H). unfold field_globs in H. apply in_app_iff in H as [H|H].
    + destruct (conv_call_of a); [destruct H|]. destruct H as [<-|[]]. right. eauto.
    + destruct (a_default a) as [| |fn ts]; [destruct H | destruct H |]. destruct H as [<-|[]]. right. eauto.
  - unfold validator_globs in H. destruct (validated k) as [|v vs] eqn:E; [destruct H|].
    destruct H as [<-|H]; [left; fx_tab|].
    apply in_flat_map in H as (fv & _ & [<-|[<-|[]]]); right; eauto.
  - destruct H as [<-|[<-|[]]]; left; fx_tab.
  - destruct (needs_cached_setattr _ _); [|destruct H]. destruct H as [<-|[]]. left; fx_tab.
Qed.

Lemma layers_shape s e : In e (attrs_layers s) -> shape e.
Proof.
  intros H. unfold attrs_layers in H. apply in_app_iff in H as [H|H].
  - left. now apply pinned_ns_table.
  - apply in_snippets in H as (m & Hm & H). destruct m; cbn [snippet_globs] in *.
    + unfold repr_globs in H. apply in_app_iff in H as [H|H].
      * apply in_flat_map in H as (a & Ha & H). destruct (has_custom_repr s a); [|destruct H].
        destruct H as [<-|[]]. right. eauto.
      * destruct H as [<-|[<-|[<-|[]]]]; left; fx_tab.
    + apply (key_globs_wf (fun _ => True)) in H as (a & _ & _ & ->). right. eauto.
    + apply (key_globs_wf (fun _ => True)) in H as (a & _ & _ & ->). right. eauto.
    + now apply init_globs_shape in H.
Qed.

(** No two entries of the attrs layers bind one name to different objects: the naming
    scheme is injective and apart from the fixed names. *)
Lemma layers_functional s e1 e2 :
  In e1 (attrs_layers s) -> In e2 (attrs_layers s) -> fst e1 = fst e2 -> snd e1 = snd e2.
Proof. intros H1 H2. apply shape_functional; now apply (layers_shape s). Qed.

(** Within one class a name is bound to one helper: distinct (role, field) pairs get distinct
    names.  [snippets s] is a function of the class specification alone - no earlier class, and
    no earlier use of a shared helper object, enters. *)
Lemma class_helper_names_functional_l s e1 e2 :
  In e1 (snippets s) -> In e2 (snippets s) -> fst e1 = fst e2 -> snd e1 = snd e2.
Proof.
  intros H1 H2. apply layers_functional with (s := s); unfold attrs_layers; apply in_or_app; now right.
Qed.

(** ** Every free name is registered by attrs (no guard needed) *)

Lemma in_pinned_layers s n : In n pinned_builtins -> In (fx n) (attrs_layers s).
Proof.
  intros H. unfold attrs_layers. apply in_or_app. left.
  assert (X : pinned_ns = map fx pinned_builtins) by reflexivity.
  rewrite X. now apply in_map.
Qed.

Ltac pinned := apply in_pinned_layers; cbn; tauto.

Lemma in_layers_snippet s m e :
  generated s m = true -> In e (snippet_globs s m) -> In e (attrs_layers s).
Proof.
  intros Hm H. unfold attrs_layers. apply in_or_app. right. apply in_snippets. eauto.
Qed.

Lemma key_refs_registered l r :
  In r (key_refs l) -> exists e, r = rf Body e /\ In e (key_globs l).
Proof.
  unfold key_refs, key_globs. rewrite in_flat_map. intros (a & Ha & H).
  destruct (has_key a) eqn:K; [|destruct H]. destruct H as [<-|[]].
  eexists. split; [reflexivity|]. apply in_flat_map. exists a. split; [assumption|].
  rewrite K. now left.
Qed.

(** What [make_init_script] returns when it succeeds. *)
Lemma init_script_inv k sc :
  make_init_script k = GenOk sc ->
  let has_cls := has_cls_on_setattr (effective_cls_on_setattr k) in
  pos_params sc = params_of k has_cls false /\
  kw_params sc = params_of k has_cls true /\
  body sc =
    (if k_pre_init k then
       [SPreInit (if k_pre_init_has_args k
                  then Some (map fst (params_of k has_cls false), map fst (params_of k has_cls true))
                  else None)]
     else [])
    ++ ((if needs_cached_setattr k has_cls then [SBindSetattr] else [])
        ++ (if k_frozen k && negb (k_slots k) then [SBindInstDict] else []))
    ++ flat_map (fun a => fst (field_script k has_cls a)) (filtered_attrs k)
    ++ (match validated k with [] => [] | vs => [SValidators vs] end)
    ++ (if k_post_init k then [SPostInit] else [])
    ++ (if k_cache_hash k then [SHashCacheInit (hash_cache_setter k)] else [])
    ++ (if k_is_exc k then [SExcInit (map a_name (filter a_init (filtered_attrs k)))] else []).
Proof.
  unfold make_init_script. intros H.
  destruct (k_frozen k && has_cls_on_setattr (effective_cls_on_setattr k)); [discriminate|].
  destruct (k_frozen k && existsb _ (k_attrs k)); [discriminate|].
  injection H as <-. cbn. repeat split.
Qed.

Definition init_ok (k : cls_spec) (e : string * binding) : Prop :=
  In e (init_globs k) \/ In e pinned_ns.

Lemma field_script_refs k hc a st r :
  In a (filtered_attrs k) -> In st (fst (field_script k hc a)) -> In r (stmt_refs st) ->
  exists e, r = rf Body e /\ In e (init_globs k).
Proof.
  intros Ha Hst Hr.
  assert (FG : forall e, In e (field_globs a) -> In e (init_globs k)).
  { intros e He. unfold init_globs, init_named. apply in_or_app. left. apply in_or_app. left.
    apply in_flat_map. eauto. }
  assert (AD : In (fx "attr_dict") (init_globs k)).
  { unfold init_globs, init_fixed. apply in_or_app. right. cbn. tauto. }
  assert (NO : In (fx "NOTHING") (init_globs k)).
  { unfold init_globs, init_fixed. apply in_or_app. right. cbn. tauto. }
  assert (CV : forall r, In r (conv_refs (a_name a) (conv_call_of a)) ->
               exists e, r = rf Body e /\ In e (init_globs k)).
  { intros r0 H0. unfold conv_refs in H0. destruct (conv_call_of a) as [|fn ts tf] eqn:C; [destruct H0|].
    destruct H0 as [<-|H0].
    - eexists. split; [reflexivity|]. apply FG. unfold field_globs. rewrite C.
      apply in_or_app. left. now left.
    - destruct tf; [|destruct H0]. destruct H0 as [<-|[]]. eexists. split; [reflexivity | exact AD]. }
  assert (XA : forall al r, In r (vexpr_refs (XArg al)) -> False) by (intros ? ? []).
  assert (XD : forall r, In r (vexpr_refs (XDefault (a_name a))) ->
               exists e, r = rf Body e /\ In e (init_globs k)).
  { intros r0 [<-|[]]. eexists. split; [reflexivity | exact AD]. }
  assert (XF : forall fn ts r, a_default a = DFactory fn ts ->
               In r (vexpr_refs (XFactory (a_name a) fn ts)) ->
               exists e, r = rf Body e /\ In e (init_globs k)).
  { intros fn ts r0 D [<-|[]]. eexists. split; [reflexivity|]. apply FG. unfold field_globs.
    rewrite D. apply in_or_app. right. now left. }
  unfold field_script in Hst.
  destruct (a_init a); cbn [negb] in Hst; destruct (a_default a) as [| |fn ts] eqn:D;
    cbn [fst] in Hst.
  - destruct Hst as [<-|[]]. cbn [stmt_refs] in Hr. apply in_app_iff in Hr as [Hr|Hr];
      [now apply CV | destruct (XA _ _ Hr)].
  - destruct Hst as [<-|[]]. cbn [stmt_refs] in Hr. apply in_app_iff in Hr as [Hr|Hr];
      [now apply CV | destruct (XA _ _ Hr)].
  - destruct Hst as [<-|[]]. cbn [stmt_refs] in Hr. destruct Hr as [<-|Hr].
    + eexists. split; [reflexivity | exact NO].
    + apply in_app_iff in Hr as [Hr|Hr]; apply in_app_iff in Hr as [Hr|Hr];
        first [ now apply CV | destruct (XA _ _ Hr) | now apply (XF fn ts) ].
  - destruct Hst.
  - destruct Hst as [<-|[]]. cbn [stmt_refs] in Hr. apply in_app_iff in Hr as [Hr|Hr];
      [now apply CV | now apply XD].
  - destruct Hst as [<-|[]]. cbn [stmt_refs] in Hr. apply in_app_iff in Hr as [Hr|Hr];
      [now apply CV | now apply (XF fn ts)].
Qed.

Lemma body_refs_registered k sc r :
  make_init_script k = GenOk sc -> In r (flat_map stmt_refs (body sc)) ->
  exists e, r = rf Body e /\ init_ok k e.
Proof.
  intros Hg Hr. destruct (init_script_inv _ _ Hg) as (_ & _ & Hb). cbn zeta in Hb.
  rewrite Hb in Hr. clear Hb.
  rewrite !flat_map_app in Hr. rewrite !in_app_iff in Hr.
  destruct Hr as [Hr|[[Hr|Hr]|[Hr|[Hr|[Hr|[Hr|Hr]]]]]].
  - destruct (k_pre_init k); cbn in Hr; destruct Hr.
  - destruct (needs_cached_setattr k _) eqn:N; cbn in Hr; [|destruct Hr].
    destruct Hr as [<-|[]]. eexists. split; [reflexivity|]. left.
    unfold init_globs, init_fixed. rewrite N. apply in_or_app. right. cbn. tauto.
  - destruct (k_frozen k && negb (k_slots k)); cbn in Hr; destruct Hr.
  - apply in_flat_map in Hr as (st & Hst & Hr). apply in_flat_map in Hst as (a & Ha & Hst).
    destruct (field_script_refs _ _ _ _ _ Ha Hst Hr) as (e & -> & He).
    eexists. split; [reflexivity | now left].
  - destruct (validated k) as [|v vs] eqn:V; cbn in Hr; [destruct Hr|].
    rewrite app_nil_r in Hr.
    assert (VG : forall e, In e (validator_globs (v :: vs)) -> In e (init_globs k)).
    { intros e He. unfold init_globs, init_named. rewrite V. apply in_or_app. left.
      apply in_or_app. now right. }
    destruct Hr as [<-|Hr].
    + eexists. split; [reflexivity|]. left. apply VG. now left.
    + change (In r (flat_map (fun fv => [rf Body (hp RValidator (fst fv)); rf Body (hp RField (fst fv))]) (v :: vs))) in Hr.
      apply in_flat_map in Hr as (fv & Hfv & Hr).
      assert (X : forall e, In e [hp RValidator (fst fv); hp RField (fst fv)] -> In e (init_globs k)).
      { intros e He. apply VG. right. apply in_flat_map. eauto. }
      destruct Hr as [<-|[<-|[]]]; eexists; (split; [reflexivity|]); left; apply X; cbn; tauto.
  - destruct (k_post_init k); cbn in Hr; destruct Hr.
  - destruct (k_cache_hash k); cbn in Hr; destruct Hr.
  - destruct (k_is_exc k); cbn in Hr; [|destruct Hr]. destruct Hr as [<-|[]].
    eexists. split; [reflexivity|]. right. cbn. tauto.
Qed.

Lemma param_refs_registered k sc r :
  In r (flat_map pdefault_refs (pos_params sc ++ kw_params sc)) ->
  exists e, r = rf DefTime e /\ In e (init_globs k).
Proof.
  intros H. apply in_flat_map in H as (p & _ & H). unfold pdefault_refs in H.
  destruct (snd p); [destruct H| |]; destruct H as [<-|[]]; eexists; (split; [reflexivity|]);
    unfold init_globs, init_fixed; apply in_or_app; right; cbn; tauto.
Qed.

Lemma refs_registered s m r :
  generated s m = true -> In r (free_refs s m) ->
  exists st e, r = rf st e /\ In e (attrs_layers s).
Proof.
  intros Hm Hr. destruct m; cbn [free_refs] in Hr.
  - unfold repr_refs in Hr. apply in_app_iff in Hr as [Hr|Hr].
    + destruct Hr as [<-|[<-|[<-|[]]]]; exists Body; eexists; (split; [reflexivity|]).
      * apply (in_layers_snippet s MRepr); [assumption|]. unfold snippet_globs, repr_globs.
        apply in_or_app. right. cbn. tauto.
      * pinned.
      * pinned.
    + apply in_flat_map in Hr as (a & Ha & Hr). destruct (a_repr a) eqn:R; [|destruct Hr].
      apply in_app_iff in Hr as [Hr|Hr].
      * destruct (has_custom_repr s a) eqn:C; [|destruct Hr]. destruct Hr as [<-|[]].
        exists Body; eexists; (split; [reflexivity|]).
        apply (in_layers_snippet s MRepr); [assumption|]. unfold snippet_globs, repr_globs.
        apply in_or_app. left. apply in_flat_map. exists a. rewrite C. split; [assumption | now left].
      * destruct (a_init a); [destruct Hr|].
        destruct Hr as [<-|[<-|[]]]; exists Body; eexists; (split; [reflexivity|]).
        -- pinned.
        -- apply (in_layers_snippet s MRepr); [assumption|]. unfold snippet_globs, repr_globs.
           apply in_or_app. right. cbn. tauto.
  - unfold eq_refs in Hr. destruct Hr as [<-|Hr].
    + exists Body; eexists; (split; [reflexivity|]). pinned.
    + apply key_refs_registered in Hr as (e & -> & He). exists Body, e. split; [reflexivity|].
      now apply (in_layers_snippet s MEq).
  - unfold hash_refs in Hr. destruct Hr as [<-|Hr].
    + exists Body; eexists; (split; [reflexivity|]). pinned.
    + apply in_app_iff in Hr as [Hr|Hr].
      * apply key_refs_registered in Hr as (e & -> & He). exists Body, e. split; [reflexivity|].
        now apply (in_layers_snippet s MHash).
      * apply in_app_iff in Hr as [Hr|Hr].
        -- destruct (k_cache_hash (h_cls s) && k_frozen (h_cls s)); [|destruct Hr].
           destruct Hr as [<-|[]]. exists Body; eexists; (split; [reflexivity|]). pinned.
        -- destruct (k_cache_hash (h_cls s)); [|destruct Hr].
           destruct Hr as [<-|[]]. exists DefTime; eexists; (split; [reflexivity|]). pinned.
  - unfold init_refs in Hr. cbn [generated] in Hm.
    destruct (init_script_of s) as [sc|] eqn:E; [|discriminate].
    unfold init_script_of in E. destruct (h_init s) eqn:HI; [|discriminate].
    destruct (make_init_script (h_cls s)) as [sc'|] eqn:G; [|discriminate]. injection E as ->.
    assert (IG : forall e, In e (init_globs (h_cls s)) -> In e (attrs_layers s)).
    { intros e He. apply (in_layers_snippet s MInit); [|exact He].
      cbn [generated]. unfold init_script_of. now rewrite HI, G. }
    unfold script_refs in Hr. apply in_app_iff in Hr as [Hr|Hr].
    + destruct (param_refs_registered (h_cls s) _ _ Hr) as (e & -> & He). exists DefTime, e. split; [reflexivity | now apply IG].
    + destruct (body_refs_registered _ _ _ G Hr) as (e & -> & [He|He]).
      * exists Body, e. split; [reflexivity | now apply IG].
      * exists Body, e. split; [reflexivity|]. unfold attrs_layers. apply in_or_app. now left.
Qed.

(** Every free name of every generated script is a pinned builtin or a helper global registered
    by one of the scripts of that class - never an un-pinned builtin, never a name only the defining
    module could supply. *)
Lemma free_names_pinned_or_helpers_l s m st n b :
  In m (generated_methods s) -> In (st, n, b) (free_refs s m) ->
  In (n, b) pinned_ns \/ In (n, b) (snippets s).
Proof.
  intros Hm Hr. apply generated_methods_In in Hm.
  destruct (refs_registered _ _ _ Hm Hr) as (st' & e & E & He).
  destruct e as [n' b']. unfold rf in E. cbn in E. injection E as <- <- <-.
  unfold attrs_layers in He. now apply in_app_iff in He.
Qed.

(** ** Locals never hide a free name (under the guard) *)

Lemma shape_name_not_fixed_local e l :
  shape e -> (forall x, In x l -> In x fixed_names) ->
  (forall x, In x l -> ~ In x (map fst fixed_table)) ->
  mem_str (fst e) l = false.
Proof.
  intros Hs Hl Hd. destruct (mem_str (fst e) l) eqn:M; [exfalso | reflexivity].
  apply mem_str_In in M. destruct Hs as [H|(r & f & ->)].
  - apply (Hd _ M). now apply in_map.
  - apply Hl in M. cbn in M. exact (helper_not_fixed_l _ _ M).
Qed.

Definition simple_locals : list string := internal_locals ++ method_names.

Lemma simple_locals_fixed x : In x simple_locals -> In x fixed_names.
Proof.
  assert (X : forallb (fun x => mem_str x fixed_names) simple_locals = true) by (vm_compute; reflexivity).
  rewrite forallb_forall in X. intros H. apply mem_str_In. now apply X.
Qed.

Lemma simple_locals_not_table x : In x simple_locals -> ~ In x (map fst fixed_table).
Proof.
  assert (X : forallb (fun x => negb (mem_str x (map fst fixed_table))) simple_locals = true)
    by (vm_compute; reflexivity).
  rewrite forallb_forall in X. intros H Hin. specialize (X _ H).
  apply mem_str_In in Hin. rewrite Hin in X. discriminate.
Qed.

Lemma shape_not_simple_local e l :
  shape e -> (forall x, In x l -> In x simple_locals) -> mem_str (fst e) l = false.
Proof.
  intros Hs Hl. apply shape_name_not_fixed_local; [assumption | |].
  - intros x Hx. apply simple_locals_fixed. now apply Hl.
  - intros x Hx. apply simple_locals_not_table. now apply Hl.
Qed.

Lemma bound_locals_simple sc x : In x (bound_locals sc) -> In x simple_locals.
Proof.
  unfold bound_locals. intros H. apply in_app_iff in H as [H|H].
  - destruct (existsb is_bind_setattr (body sc)); [|destruct H]. destruct H as [<-|[]]. cbn. tauto.
  - destruct (existsb is_bind_inst_dict (body sc)); [|destruct H]. destruct H as [<-|[]]. cbn. tauto.
Qed.

Lemma mem_str_app x l1 l2 : mem_str x (l1 ++ l2) = mem_str x l1 || mem_str x l2.
Proof. induction l1 as [|y l1 IH]; cbn; [reflexivity | now rewrite IH, orb_assoc]. Qed.

Lemma locals_clear s m st e :
  guard s = true -> generated s m = true -> In (rf st e) (free_refs s m) ->
  In e (attrs_layers s) ->
  mem_str (fst e) (locals_at s m st) = false.
Proof.
  intros G Hm Hr He. assert (Hs := layers_shape _ _ He).
  destruct st; cbn [locals_at].
  2:{ apply shape_not_simple_local; [assumption|]. intros x Hx. unfold simple_locals.
      apply in_or_app. now right. }
  destruct m; cbn [locals].
  - apply shape_not_simple_local; [assumption|]. intros x [<-|[<-|[]]]; cbn; tauto.
  - apply shape_not_simple_local; [assumption|]. intros x [<-|[<-|[]]]; cbn; tauto.
  - apply shape_not_simple_local; [assumption|]. intros x [<-|H]; [cbn; tauto|].
    destruct (k_cache_hash (h_cls s)); [|destruct H]. destruct H as [<-|[]]. cbn; tauto.
  - cbn [generated] in Hm. destruct (init_script_of s) as [sc|] eqn:E; [|discriminate].
    unfold init_locals. change ("self" :: aliases sc ++ bound_locals sc)
      with (["self"] ++ aliases sc ++ bound_locals sc).
    rewrite !mem_str_app. apply orb_false_iff. split; [|apply orb_false_iff; split].
    + apply shape_not_simple_local; [assumption|]. intros x [<-|[]]. cbn; tauto.
    + (* aliases: the alias guard *)
      unfold guard, alias_guard in G.
      rewrite E in G. rewrite forallb_forall in G.
      destruct (mem_str (fst e) (aliases sc)) eqn:M; [exfalso | reflexivity].
      apply mem_str_In in M. specialize (G _ M). apply negb_true_iff in G.
      assert (X : In (fst e) (init_internal_names sc)).
      { unfold init_internal_names. right. apply in_or_app. right.
        cbn [free_refs] in Hr. unfold init_refs in Hr. rewrite E in Hr.
        unfold script_refs in Hr. apply in_app_iff in Hr as [Hr|Hr].
        - exfalso. apply in_flat_map in Hr as (p & _ & Hr). unfold pdefault_refs in Hr.
          destruct (snd p); [destruct Hr| |]; destruct Hr as [Hr|[]]; unfold rf in Hr; cbn in Hr; discriminate Hr.
        - unfold names_of. apply (in_map (fun r : ref => snd (fst r))) in Hr. exact Hr. }
      apply mem_str_In in X. rewrite X in G. discriminate.
    + apply shape_not_simple_local; [assumption|]. apply bound_locals_simple.
Qed.

(** ** The theorems *)

Theorem hermetic_l : forall module_ns s m st n b,
  guard s = true -> In m (generated_methods s) -> In (st, n, b) (free_refs s m) ->
  resolve (assemble module_ns s) (locals_at s m st) n = RGlobal b.
Proof.
  intros module_ns s m st n b G Hm Hr. apply generated_methods_In in Hm.
  destruct (refs_registered _ _ _ Hm Hr) as (st' & e & E & He).
  destruct e as [n' b']. unfold rf in E. cbn in E. injection E as <- <- <-.
  unfold resolve.
  assert (LC := locals_clear s m st (n, b) G Hm Hr He). cbn [fst] in LC. rewrite LC.
  rewrite assemble_layers, lookup_last_app.
  rewrite (lookup_last_functional n (attrs_layers s) b He).
  - reflexivity.
  - intros b2 H2. exact (layers_functional s (n, b2) (n, b) H2 He eq_refl).
Qed.

(** The object attrs means is never something the module bound. *)
Theorem intended_not_module_l : forall s m st n b,
  In m (generated_methods s) -> In (st, n, b) (free_refs s m) -> is_module_binding b = false.
Proof.
  intros s m st n b Hm Hr. apply generated_methods_In in Hm.
  destruct (refs_registered _ _ _ Hm Hr) as (st' & e & E & He).
  destruct e as [n' b']. unfold rf in E. cbn in E. injection E as <- <- <-.
  destruct (layers_shape _ _ He) as [H|(r & f & H)].
  - exact (fixed_table_not_module _ H).
  - injection H as _ ->. reflexivity.
Qed.

(** Without any guard: what a free name resolves to does not depend on the
    defining module's namespace, and never falls through to the builtins namespace
    (which the module's own [__builtins__] entry would control). *)
Theorem module_independent_l : forall ns1 ns2 s m st n b,
  In m (generated_methods s) -> In (st, n, b) (free_refs s m) ->
  resolve (assemble ns1 s) (locals_at s m st) n = resolve (assemble ns2 s) (locals_at s m st) n
  /\ forall via x, resolve (assemble ns1 s) (locals_at s m st) n <> RBuiltins via x.
Proof.
  intros ns1 ns2 s m st n b Hm Hr. apply generated_methods_In in Hm.
  destruct (refs_registered _ _ _ Hm Hr) as (st' & e & E & He).
  destruct e as [n' b']. unfold rf in E. cbn in E. injection E as <- <- <-.
  destruct (lookup_last_found _ _ _ He) as (b2 & L).
  unfold resolve. rewrite !assemble_layers, !lookup_last_app, L.
  split; [reflexivity|]. intros via x. destruct (mem_str n (locals_at s m st)); discriminate.
Qed.

(** ** Witnesses *)

Definition mk_attr (name : string) (dflt : default_kind) (val : option string)
  (key : option string) (conv : conv_kind) (init : bool) (alias : string) : attribute :=
  {| a_name := name; a_default := dflt; a_validator := val; a_repr := true; a_eq := true;
     a_eq_key := key; a_order := true; a_order_key := None; a_hash := None; a_init := init;
     a_type := None; a_converter := conv; a_kw_only := false; a_inherited := false;
     a_on_setattr := OsNone; a_alias := Some alias |}.

Definition mk_cls (l : list attribute) : cls_spec :=
  {| k_attrs := l; k_frozen := false; k_slots := false; k_cache_hash := false; k_is_exc := false;
     k_pre_init := false; k_pre_init_has_args := false; k_post_init := false;
     k_on_setattr := COsNone; k_mro_slots := []; k_has_dict := true |}.

Definition mk_spec (l : list attribute) (custom : list string) : hspec :=
  {| h_cls := mk_cls l; h_custom_repr := custom; h_repr := true; h_eq := true; h_hash := true;
     h_init := true |}.

(** An ordinary class: the guard holds and all four methods have free names. *)
Definition ex_spec : hspec :=
  mk_spec [mk_attr "x" (DFactory "f" false) (Some "v") (Some "k") (CPlain "c" false) true "x";
           mk_attr "_y" DValue None None CNone false "y"] ["x"].

Example ex_spec_nonvacuous :
  guard ex_spec = true /\ generated_methods ex_spec = [MRepr; MEq; MHash; MInit] /\
  List.length (free_refs ex_spec MInit) = 9 /\ List.length (free_refs ex_spec MRepr) = 6.
Proof. repeat split. Qed.

(** The assembly before the repair is not hermetic: a module-level [_config] or
    [hash] reaches the generated code. *)
Lemma hermetic_buggy_refuted_l :
  exists module_ns s m st n b,
    guard s = true /\ In m (generated_methods s) /\ In (st, n, b) (free_refs s m) /\
    exists t, resolve (assemble_buggy module_ns s) (locals_at s m st) n = RGlobal (BModule t).
Proof.
  exists [("_config", BModule 1)], ex_spec, MInit, Body, "_config", (BAttrs "_config").
  repeat split; [cbn; tauto | vm_compute; tauto | exists 1; reflexivity].
Qed.

Lemma hermetic_buggy_builtin_refuted_l :
  exists module_ns s m st n b,
    guard s = true /\ In m (generated_methods s) /\ In (st, n, b) (free_refs s m) /\
    exists t, resolve (assemble_buggy module_ns s) (locals_at s m st) n = RGlobal (BModule t).
Proof.
  exists [("hash", BModule 2)], ex_spec, MHash, Body, "hash", (BBuiltin "hash").
  repeat split; [cbn; tauto | vm_compute; tauto | exists 2; reflexivity].
Qed.

(** ... and with no module binding at all the pre-repair code reached builtins
    through the module's own [__builtins__] entry. *)
Lemma hermetic_buggy_builtins_entry_refuted_l :
  resolve (assemble_buggy [("__builtins__", BModule 3)] ex_spec) (locals_at ex_spec MHash Body) "hash"
  = RBuiltins (Some (BModule 3)) "hash".
Proof. reflexivity. Qed.

(** K9: an init parameter named like something [__init__] uses shadows it. *)
Definition k9_spec : hspec :=
  mk_spec [mk_attr "x" DNothing None None CNone true "attr_dict";
           mk_attr "y" DValue None None CNone false "y"] [].

Lemma hermetic_alias_unguarded_refuted_l :
  guard k9_spec = false /\
  In (Body, "attr_dict", BAttrs "attr_dict") (free_refs k9_spec MInit) /\
  resolve (assemble [] k9_spec) (locals_at k9_spec MInit Body) "attr_dict" = RLocal.
Proof. repeat split. vm_compute. tauto. Qed.

(** The wrapper [__getattr__] for cached properties: its globals are attrs' own
    three names and the real builtins; no module namespace is involved. *)
Lemma getattr_wrapper_hermetic_l : forall ho st n,
  In (st, n) (getattr_refs ho) ->
  match resolve getattr_globs (getattr_locals st) n with
  | RLocal => n = "_cls"
  | RGlobal b => b = BAttrs n
  | RBuiltins via x => via = None /\ x = n /\ In n ["super"; "AttributeError"; "hasattr"]
  end.
Proof.
  intros ho st n H. unfold getattr_refs in H. apply in_app_iff in H as [H|H].
  - destruct H as [H|[H|[H|[H|[]]]]]; injection H as <- <-; cbn; auto.
  - destruct ho; [destruct H|].
    destruct H as [H|[H|[H|[]]]]; injection H as <- <-; cbn; tauto.
Qed.
