(** * C17 — proofs, collected.  [NamingProofs]: the helper naming scheme;
    [HermeticProofs]: name resolution of the generated methods;
    [LinecacheProofs]: the unique-filename loop, histories and interleavings. *)
From Attrs Require Export C17.Strings C17.NamingProofs C17.HermeticProofs C17.LinecacheProofs.
