(** * C17 — generated code is hermetic and its source is inspectable: executable model.

    Three sub-models of [attr/_make.py], definitions only (proofs are in
    [C17/NamingProofs.v], [C17/HermeticProofs.v], [C17/LinecacheProofs.v]):

    - NAMING: the names under which attrs injects per-field helper objects into the
      globals of the generated methods ([_make_repr_script]: [__attr_repr_<n>];
      [_make_eq_script]/[_make_hash_script]: [__attr_key_<n>]; [_attrs_to_init_script]:
      [__attr_factory_<n>], [Converter._get_global_name] = [__attr_converter_<n>],
      [__attr_validator_<n>], [__attr_field_<n>]) and the fixed names
      ([_GENERATED_CODE_BUILTINS], [_compat], [_config], [NOTHING], [attr_dict],
      [_cached_setattr_get]).
    - HERMETICITY: [_ClassBuilder._eval_snippets] as an ordered sequence of dict
      updates (defining module's namespace FIRST, then the pinned builtins, then the
      globs of each registered snippet: repr, eq, hash, init), Python's name
      resolution for a function body (locals, globals, builtins — the builtins
      namespace being whatever the globals' own [__builtins__] entry says), and the
      free names of each generated method computed from the class specification
      (for [__init__]: from the statement language of [Core/Init.v]).
    - LINECACHE: [_linecache_and_compile]'s loop over [linecache.cache] with
      [dict.setdefault] as the only (atomic) access, sequential histories and
      interleavings of any number of definers. *)

From Coq Require Import List Bool String Ascii Arith DecimalString DecimalNat Decimal.
Import ListNotations.
From Attrs Require Import Core.Attr Core.Init.
Open Scope string_scope.
Open Scope list_scope.

Notation "a +++ b" := (String.append a b) (right associativity, at level 60).

(** ** 1. Naming *)

Inductive role := RRepr | RKey | RFactory | RConverter | RValidator | RField.

Definition role_eqb (a b : role) : bool :=
  match a, b with
  | RRepr, RRepr | RKey, RKey | RFactory, RFactory | RConverter, RConverter
  | RValidator, RValidator | RField, RField => true
  | _, _ => false
  end.

(** Every helper is named by a role prefix followed by the field name
    ([_make_repr_script]: [__attr_repr_<n>]; [_make_eq_script] / [_make_hash_script]:
    [__attr_key_<n>]; [_INIT_FACTORY_PAT], [Converter._get_global_name],
    [_attrs_to_init_script]: the other four). *)
Definition role_prefix (r : role) : string :=
  match r with
  | RRepr => "__attr_repr_"
  | RKey => "__attr_key_"
  | RFactory => "__attr_factory_"        (* _INIT_FACTORY_PAT *)
  | RConverter => "__attr_converter_"    (* Converter._get_global_name *)
  | RValidator => "__attr_validator_"
  | RField => "__attr_field_"
  end.

Definition helper_name (r : role) (n : string) : string :=
  match r with
  | RRepr => "__attr_repr_" +++ n
  | RKey => "__attr_key_" +++ n
  | RFactory => "__attr_factory_" +++ n
  | RConverter => "__attr_converter_" +++ n
  | RValidator => "__attr_validator_" +++ n
  | RField => "__attr_field_" +++ n
  end.

Definition all_roles : list role := [RRepr; RKey; RFactory; RConverter; RValidator; RField].

(** *** The scheme before the repair (documents what is excluded): the custom repr
    callable was [<n>_repr] and the eq/hash key function [_<n>_key]. *)
Definition old_helper_name (r : role) (n : string) : string :=
  match r with
  | RRepr => n +++ "_repr"               (* name + "_repr" *)
  | RKey => "_" +++ n +++ "_key"         (* f"_{a.name}_key" *)
  | _ => helper_name r n
  end.

(** *** Converter objects have a history: one [Converter] instance may serve several
    fields and several classes.  A naming function may therefore see state an earlier use
    left in the object ([memo]).  The current code ignores it; a memoising variant
    (documented as what is excluded) answers the name of the FIRST field it was asked for. *)
Definition naming := option string -> string -> string * option string.

Definition current_naming : naming := fun memo n => (helper_name RConverter n, memo).

Definition memo_naming : naming := fun memo n =>
  match memo with
  | Some v => (v, Some v)
  | None => (helper_name RConverter n, Some (helper_name RConverter n))
  end.

(** the state of the object after it was used for the fields [h] (of any classes), in order *)
Definition use_history (nm : naming) (memo : option string) (h : list string) : option string :=
  fold_left (fun m n => snd (nm m n)) h memo.

Definition prefix_roles : list role := [RFactory; RConverter; RValidator; RField].

Definition hits_prefix (s : string) : bool :=
  existsb (fun r => prefix (role_prefix r) s) prefix_roles.

(** The guard the OLD scheme needed on the field name of a custom-repr / eq-key
    helper: [<n>_repr] is [(n ++ "_") ++ "repr"] and [_<n>_key] is
    [("_" ++ n ++ "_") ++ "key"]; the first factor must not start with one of the four
    prefixes of the [__init__] helpers.  It was tight ([old_name_guard_tight]). *)
Definition name_guard (r : role) (n : string) : bool :=
  match r with
  | RRepr => negb (hits_prefix (n +++ "_"))
  | RKey => negb (hits_prefix ("_" +++ n +++ "_"))
  | _ => true
  end.

(** A simpler sufficient condition for the old scheme: the field name does not start
    with [_attr] or [__attr]. *)
Definition plain_name (n : string) : bool :=
  negb (prefix "_attr" n) && negb (prefix "__attr" n).

Definition pinned_builtins : list string :=
  ["AttributeError"; "BaseException"; "NotImplemented"; "__import__";
   "getattr"; "hash"; "id"; "object"].              (* _GENERATED_CODE_BUILTINS *)

Definition attrs_objects : list string :=
  ["_compat"; "_config"; "NOTHING"; "attr_dict"; "_cached_setattr_get"].

(** Local variables and parameters the generated methods use besides the init aliases. *)
Definition internal_locals : list string :=
  ["self"; "other"; "already_repring"; "_cache_wrapper"; "_setattr"; "_inst_dict"].

(** Names under which the script stores the functions it defines. *)
Definition method_names : list string :=
  ["__repr__"; "__eq__"; "__hash__"; "__init__"; "__attrs_init__"].

Definition fixed_names : list string :=
  pinned_builtins ++ attrs_objects ++ internal_locals ++ method_names ++ ["__builtins__"].

Definition ends_with (suffix s : string) : bool :=
  let ls := String.length s in let lx := String.length suffix in
  Nat.leb lx ls && String.eqb (substring (ls - lx) lx s) suffix.

(** ** 2. Hermeticity *)

(** What a name can be bound to, as far as the property is concerned. *)
Inductive binding :=
| BModule (tag : nat)             (* whatever the defining module bound (tag 0: unidentified object) *)
| BRealBuiltins                   (* the real builtins namespace (value of an ordinary __builtins__) *)
| BBuiltin (n : string)           (* getattr(builtins, n) *)
| BAttrs (n : string)             (* attrs' own object: _compat, _config, NOTHING, attr_dict, _cached_setattr_get *)
| BHelper (r : role) (fld : string).  (* the user's callable for that role of that field (RField: its Attribute) *)

Definition binding_eqb (a b : binding) : bool :=
  match a, b with
  | BModule x, BModule y => Nat.eqb x y
  | BRealBuiltins, BRealBuiltins => true
  | BBuiltin x, BBuiltin y | BAttrs x, BAttrs y => String.eqb x y
  | BHelper r f, BHelper r' f' => role_eqb r r' && String.eqb f f'
  | _, _ => false
  end.

Definition is_module_binding (b : binding) : bool :=
  match b with BModule _ => true | _ => false end.

(** A namespace as the sequence of [dict] writes that built it: the LAST write of a
    key is its value. *)
Definition ns := list (string * binding).

Fixpoint lookup_last (n : string) (l : ns) : option binding :=
  match l with
  | [] => None
  | (m, b) :: r =>
      match lookup_last n r with
      | Some x => Some x
      | None => if String.eqb n m then Some b else None
      end
  end.

(** Where a name used by a function resolves. *)
Inductive resolution :=
| RLocal                                         (* a parameter / local variable of the function *)
| RGlobal (b : binding)                          (* found in the function's globals *)
| RBuiltins (via : option binding) (n : string). (* fell through to the builtins namespace; [via] is the
                                                    globals' __builtins__ entry (None: Python inserts the
                                                    real one) *)

Definition resolution_eqb (a b : resolution) : bool :=
  match a, b with
  | RLocal, RLocal => true
  | RGlobal x, RGlobal y => binding_eqb x y
  | RBuiltins v n, RBuiltins w m =>
      String.eqb n m &&
      match v, w with
      | None, None => true
      | Some x, Some y => binding_eqb x y
      | _, _ => false
      end
  | _, _ => false
  end.

Definition resolve (g : ns) (locals : list string) (n : string) : resolution :=
  if mem_str n locals then RLocal
  else match lookup_last n g with
       | Some b => RGlobal b
       | None => RBuiltins (lookup_last "__builtins__" g) n
       end.

(** The class specification: the shared class model plus what it does not carry. *)
Record hspec := {
  h_cls : cls_spec;
  h_custom_repr : list string;     (* fields whose repr= is a callable (not True/False) *)
  h_repr : bool;                   (* add_repr registered a snippet *)
  h_eq : bool;                     (* add_eq *)
  h_hash : bool;                   (* add_hash *)
  h_init : bool                    (* add_init or add_attrs_init *)
}.

Inductive meth := MRepr | MEq | MHash | MInit.

Definition meth_eqb (a b : meth) : bool :=
  match a, b with
  | MRepr, MRepr | MEq, MEq | MHash, MHash | MInit, MInit => true
  | _, _ => false
  end.

(** A name is read either inside the function body (parameters and locals shadow
    globals) or while the [def] statement itself is executed (default-argument
    expressions: looked up in the script's own namespace). *)
Inductive site := Body | DefTime.

Definition site_eqb (a b : site) : bool :=
  match a, b with Body, Body | DefTime, DefTime => true | _, _ => false end.

Definition ref := (site * string * binding)%type.

Definition attrs_of (s : hspec) : list attribute := k_attrs (h_cls s).

Definition has_custom_repr (s : hspec) (a : attribute) : bool :=
  a_repr a && mem_str (a_name a) (h_custom_repr s).

Definition has_key (a : attribute) : bool :=
  match a_eq_key a with Some _ => true | None => false end.

Definition eq_fields (s : hspec) : list attribute := filter a_eq (attrs_of s).

Definition in_hash (a : attribute) : bool :=
  match a_hash a with Some b => b | None => a_eq a end.

Definition hash_fields (s : hspec) : list attribute := filter in_hash (attrs_of s).

Definition fx (n : string) : string * binding :=
  if mem_str n pinned_builtins then (n, BBuiltin n) else (n, BAttrs n).

Definition hp (r : role) (f : string) : string * binding := (helper_name r f, BHelper r f).

(** *** The globs each snippet registers *)

(** [_make_repr_script] *)
Definition repr_globs (s : hspec) : ns :=
  flat_map (fun a => if has_custom_repr s a then [hp RRepr (a_name a)] else []) (attrs_of s)
  ++ [fx "_compat"; fx "AttributeError"; fx "NOTHING"].

Definition key_globs (l : list attribute) : ns :=
  flat_map (fun a => if has_key a then [hp RKey (a_name a)] else []) l.

(** [_make_eq_script], [_make_hash_script] *)
Definition eq_globs (s : hspec) : ns := key_globs (eq_fields s).
Definition hash_globs (s : hspec) : ns := key_globs (hash_fields s).

(** [_attrs_to_init_script]: [names_for_globals] *)
Definition field_globs (a : attribute) : ns :=
  (match conv_call_of a with NoConv => [] | ConvCall _ _ _ => [hp RConverter (a_name a)] end)
  ++ (match a_default a with DFactory _ _ => [hp RFactory (a_name a)] | _ => [] end).

Definition validator_globs (vs : list (string * string)) : ns :=
  match vs with
  | [] => []
  | _ => fx "_config" :: flat_map (fun fv => [hp RValidator (fst fv); hp RField (fst fv)]) vs
  end.

Definition init_named (k : cls_spec) : ns :=
  flat_map field_globs (filtered_attrs k) ++ validator_globs (validated k).

(** [_make_init_script]: what is put in after [_attrs_to_init_script] returned *)
Definition init_fixed (k : cls_spec) : ns :=
  [fx "NOTHING"; fx "attr_dict"]
  ++ (if needs_cached_setattr k (has_cls_on_setattr (effective_cls_on_setattr k))
      then [fx "_cached_setattr_get"] else []).

Definition init_globs (k : cls_spec) : ns := init_named k ++ init_fixed k.

Definition init_script_of (s : hspec) : option init_script :=
  if h_init s then
    match make_init_script (h_cls s) with GenOk sc => Some sc | GenValueError => None end
  else None.

Definition generated (s : hspec) (m : meth) : bool :=
  match m with
  | MRepr => h_repr s
  | MEq => h_eq s
  | MHash => h_hash s
  | MInit => match init_script_of s with Some _ => true | None => false end
  end.

Definition generated_methods (s : hspec) : list meth :=
  filter (generated s) [MRepr; MEq; MHash; MInit].

Definition snippet_globs (s : hspec) (m : meth) : ns :=
  match m with
  | MRepr => repr_globs s
  | MEq => eq_globs s
  | MHash => hash_globs s
  | MInit => init_globs (h_cls s)
  end.

(** Registration order in [attrs()]: add_repr, add_eq, add_hash, add_init. *)
Definition snippets (s : hspec) : ns :=
  flat_map (snippet_globs s) (generated_methods s).

Definition pinned_ns : ns := map (fun n => (n, BBuiltin n)) pinned_builtins.

(** [_ClassBuilder._eval_snippets]: module namespace, pinned builtins, snippets. *)
Definition assemble (module_ns : ns) (s : hspec) : ns :=
  module_ns ++ pinned_ns ++ snippets s.

(** The assembly before the repair (documents what is excluded): no pinned
    builtins, and [_make_init_script] merged the module namespace over the
    per-field helpers of [__init__] — and thereby over every earlier snippet. *)
Definition assemble_buggy (module_ns : ns) (s : hspec) : ns :=
  flat_map (fun m => match m with
                     | MInit => init_named (h_cls s) ++ module_ns ++ init_fixed (h_cls s)
                     | _ => snippet_globs s m
                     end) (generated_methods s).

(** *** Free names of each generated method, with the object attrs means by them *)

Definition rf (st : site) (e : string * binding) : ref := (st, fst e, snd e).

Definition repr_refs (s : hspec) : list ref :=
  [rf Body (fx "_compat"); rf Body (fx "AttributeError"); rf Body (fx "id")]
  ++ flat_map (fun a =>
       if a_repr a then
         (if has_custom_repr s a then [rf Body (hp RRepr (a_name a))] else [])
         ++ (if a_init a then [] else [rf Body (fx "getattr"); rf Body (fx "NOTHING")])
       else []) (attrs_of s).

Definition key_refs (l : list attribute) : list ref :=
  flat_map (fun a => if has_key a then [rf Body (hp RKey (a_name a))] else []) l.

Definition eq_refs (s : hspec) : list ref :=
  rf Body (fx "NotImplemented") :: key_refs (eq_fields s).

Definition hash_refs (s : hspec) : list ref :=
  rf Body (fx "hash") :: key_refs (hash_fields s)
  ++ (if k_cache_hash (h_cls s) && k_frozen (h_cls s) then [rf Body (fx "object")] else [])
  ++ (if k_cache_hash (h_cls s) then [rf DefTime (fx "__import__")] else []).

Definition conv_refs (fld : string) (c : conv_call) : list ref :=
  match c with
  | NoConv => []
  | ConvCall _ _ tf =>
      rf Body (hp RConverter fld) :: (if tf then [rf Body (fx "attr_dict")] else [])
  end.

Definition vexpr_refs (e : vexpr) : list ref :=
  match e with
  | XArg _ => []
  | XDefault _ => [rf Body (fx "attr_dict")]
  | XFactory fld _ _ => [rf Body (hp RFactory fld)]
  end.

Fixpoint stmt_refs (st : stmt) : list ref :=
  match st with
  | SBindSetattr => [rf Body (fx "_cached_setattr_get")]
  | SStore _ fld c e => conv_refs fld c ++ vexpr_refs e
  | SIfNotNothing _ a b => rf Body (fx "NOTHING") :: stmt_refs a ++ stmt_refs b
  | SValidators vs =>
      rf Body (fx "_config")
      :: flat_map (fun fv => [rf Body (hp RValidator (fst fv)); rf Body (hp RField (fst fv))]) vs
  | SExcInit _ => [rf Body (fx "BaseException")]
  | SPreInit _ | SBindInstDict | SPostInit | SHashCacheInit _ => []
  end.

Definition pdefault_refs (p : string * pdefault) : list ref :=
  match snd p with
  | PMandatory => []
  | PDefaultOf _ => [rf DefTime (fx "attr_dict")]
  | PNothing => [rf DefTime (fx "NOTHING")]
  end.

Definition script_refs (sc : init_script) : list ref :=
  flat_map pdefault_refs (pos_params sc ++ kw_params sc) ++ flat_map stmt_refs (body sc).

Definition init_refs (s : hspec) : list ref :=
  match init_script_of s with Some sc => script_refs sc | None => [] end.

Definition free_refs (s : hspec) (m : meth) : list ref :=
  match m with
  | MRepr => repr_refs s
  | MEq => eq_refs s
  | MHash => hash_refs s
  | MInit => init_refs s
  end.

(** *** Local variables *)

Definition is_bind_setattr (st : stmt) : bool := match st with SBindSetattr => true | _ => false end.
Definition is_bind_inst_dict (st : stmt) : bool := match st with SBindInstDict => true | _ => false end.

Definition aliases (sc : init_script) : list string :=
  map fst (pos_params sc) ++ map fst (kw_params sc).

Definition bound_locals (sc : init_script) : list string :=
  (if existsb is_bind_setattr (body sc) then ["_setattr"] else [])
  ++ (if existsb is_bind_inst_dict (body sc) then ["_inst_dict"] else []).

Definition init_locals (sc : init_script) : list string :=
  "self" :: aliases sc ++ bound_locals sc.

Definition locals (s : hspec) (m : meth) : list string :=
  match m with
  | MRepr => ["self"; "already_repring"]
  | MEq => ["self"; "other"]
  | MHash => "self" :: (if k_cache_hash (h_cls s) then ["_cache_wrapper"] else [])
  | MInit => match init_script_of s with Some sc => init_locals sc | None => [] end
  end.

(** Default-argument expressions are evaluated by the script's top level, whose
    local namespace holds the functions defined so far. *)
Definition locals_at (s : hspec) (m : meth) (st : site) : list string :=
  match st with Body => locals s m | DefTime => method_names end.

(** *** Guard *)

Definition names_of (l : list ref) : list string := map (fun r => snd (fst r)) l.

(** Names the generated [__init__] itself uses: an init parameter of that name
    shadows / clobbers it. *)
Definition init_internal_names (sc : init_script) : list string :=
  "self" :: bound_locals sc ++ names_of (flat_map stmt_refs (body sc)).

Definition alias_guard (s : hspec) : bool :=
  match init_script_of s with
  | Some sc => forallb (fun al => negb (mem_str al (init_internal_names sc))) (aliases sc)
  | None => true
  end.

(** Since the repr / key helpers got prefixed names no condition on field names is
    needed any more; what remains is K9. *)
Definition guard (s : hspec) : bool := alias_guard s.

(** *** The wrapper [__getattr__] of slotted classes with cached properties
    ([_make_cached_property_getattr]): compiled with its own three globals, the
    defining module's namespace is never merged. *)
Definition getattr_globs : ns :=
  [("cached_properties", BAttrs "cached_properties");
   ("_cached_setattr_get", BAttrs "_cached_setattr_get");
   ("original_getattr", BAttrs "original_getattr")].

Definition getattr_refs (has_original : bool) : list (site * string) :=
  [(DefTime, "cached_properties"); (DefTime, "original_getattr"); (DefTime, "_cached_setattr_get");
   (DefTime, "_cls")]
  ++ (if has_original then []
      else [(Body, "super"); (Body, "AttributeError"); (Body, "hasattr")]).

Definition getattr_locals (st : site) : list string :=
  match st with
  | Body => ["self"; "item"; "cached_properties"; "original_getattr"; "_cached_setattr_get";
             "func"; "result"; "_setter"; "original_error"]
  | DefTime => ["_cls"; "wrapper"; "__getattr__"]
  end.

(** ** 3. Linecache *)

(** [f"{count}"] *)
Definition render (n : nat) : string := NilEmpty.string_of_uint (Nat.to_uint n).

(** [base_filename[:-1]] *)
Definition drop_last (s : string) : string := substring 0 (String.length s - 1) s.

(** [f"{base_filename[:-1]}-{count}>"] *)
Definition retry_name (base : string) (count : nat) : string :=
  drop_last base +++ "-" +++ render count +++ ">".

(** The i-th filename the loop tries. *)
Definition cand (base : string) (i : nat) : string :=
  match i with 0 => base | S _ => retry_name base i end.

(** [_generate_unique_filename] *)
Definition unique_filename (func_name module qualname : string) : string :=
  "<attrs generated " +++ func_name +++ " " +++ module +++ "." +++ qualname +++ ">".

Section Linecache.
  (** Scripts are abstract: all that matters is whether two of them are equal (the
      linecache tuples [(len, None, lines, filename)] stored under one key are equal
      iff their scripts are). *)
  Variable script : Type.
  Variable script_eqb : script -> script -> bool.

  Definition cache := list (string * script).

  Fixpoint clookup (f : string) (c : cache) : option script :=
    match c with
    | [] => None
    | (g, v) :: r => if String.eqb f g then Some v else clookup f r
    end.

  (** [linecache.cache.setdefault(filename, tuple)]: one atomic step. *)
  Definition setdefault (f : string) (v : script) (c : cache) : cache * script :=
    match clookup f c with
    | Some old => (c, old)
    | None => ((f, v) :: c, v)
    end.

  (** The [while True] loop of [_linecache_and_compile], with fuel. *)
  Fixpoint lc_loop (fuel : nat) (c : cache) (base fname : string) (count : nat) (s : script)
    : option (cache * string) :=
    match fuel with
    | 0 => None                                   (* out of fuel: never happens, [linecache_terminates] *)
    | S fuel' =>
        let (c', old) := setdefault fname s c in
        if script_eqb old s then Some (c', fname)
        else lc_loop fuel' c' base (retry_name base count) (S count) s
    end.

  Definition linecache_and_compile (c : cache) (base : string) (s : script)
    : option (cache * string) :=
    lc_loop (S (List.length c)) c base base 1 s.

  (** A history of class definitions: (base filename, script) in program order. *)
  Fixpoint run_history (c : cache) (defs : list (string * script))
    : option (cache * list string) :=
    match defs with
    | [] => Some (c, [])
    | (base, s) :: r =>
        match linecache_and_compile c base s with
        | None => None
        | Some (c1, f) =>
            match run_history c1 r with
            | None => None
            | Some (c2, fs) => Some (c2, f :: fs)
            end
        end
    end.

  (** Concurrent definers: each is the loop as a state machine whose only access to
      the shared cache is the atomic [setdefault]. *)
  Inductive tstate :=
  | TRun (base fname : string) (count : nat) (s : script)
  | TDone (fname : string) (s : script).

  Definition tstart (d : string * script) : tstate := TRun (fst d) (fst d) 1 (snd d).

  Definition tstep (c : cache) (t : tstate) : cache * tstate :=
    match t with
    | TRun base fname count s =>
        let (c', old) := setdefault fname s c in
        if script_eqb old s then (c', TDone fname s)
        else (c', TRun base (retry_name base count) (S count) s)
    | TDone _ _ => (c, t)
    end.

  Fixpoint replace_nth {A : Type} (i : nat) (x : A) (l : list A) : list A :=
    match l, i with
    | [], _ => []
    | _ :: r, 0 => x :: r
    | y :: r, S j => y :: replace_nth j x r
    end.

  Definition sys := (cache * list tstate)%type.

  (** Thread [i] takes one step (a schedule entry naming no thread is a no-op). *)
  Definition sys_step (st : sys) (i : nat) : sys :=
    match nth_error (snd st) i with
    | Some t => let (c', t') := tstep (fst st) t in (c', replace_nth i t' (snd st))
    | None => st
    end.

  Definition run_schedule (st : sys) (sched : list nat) : sys := fold_left sys_step sched st.

  Definition done_ok (c : cache) (t : tstate) : Prop :=
    match t with TDone f s => clookup f c = Some s | TRun _ _ _ _ => True end.

End Linecache.

Arguments clookup {script}.
Arguments setdefault {script}.
Arguments lc_loop {script}.
Arguments linecache_and_compile {script}.
Arguments run_history {script}.
Arguments TRun {script}.
Arguments TDone {script}.
Arguments tstart {script}.
Arguments tstep {script}.
Arguments sys_step {script}.
Arguments run_schedule {script}.
Arguments done_ok {script}.
