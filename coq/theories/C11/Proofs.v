(** * C11 — proofs about the repr model (single thread). *)

From Coq Require Import List Bool Arith String Ascii Lia.
Import ListNotations.
From Attrs Require Import C11.Model.
Open Scope string_scope.
Open Scope list_scope.

(** ** Strings *)

Lemma app_assoc_s (a b c : string) : (a ^^ b) ^^ c = a ^^ b ^^ c.
Proof. induction a as [|x a IH]; cbn; [reflexivity | now rewrite IH]. Qed.

Lemma app_nil_r_s (a : string) : a ^^ "" = a.
Proof. induction a as [|x a IH]; cbn; [reflexivity | now rewrite IH]. Qed.

(** [">."] occurs in [s]. *)
Definition occurs (s : string) : Prop := exists pre post, s = pre ^^ ">." ^^ post.

Lemma occurs_cons c s : occurs s -> occurs (String c s).
Proof. intros (pre & post & ->). exists (String c pre), post. reflexivity. Qed.

Lemma after_dot_some r t : after_dot r = Some t -> r = String "."%char t.
Proof.
  destruct r as [|c r]; cbn; [discriminate|].
  destruct c as [[] [] [] [] [] [] [] []]; try discriminate. intros H; inversion H; reflexivity.
Qed.

Lemma after_dot_none r t : after_dot r = None -> r <> String "."%char t.
Proof. intros H ->. cbn in H. discriminate. Qed.

Lemma rsplit_tail_spec s :
  match rsplit_tail s with
  | None => ~ occurs s
  | Some t => (exists pre, s = pre ^^ ">." ^^ t) /\ ~ occurs t
  end.
Proof.
  induction s as [|c r IH]; cbn.
  - intros (pre & post & H). destruct pre; cbn in H; discriminate.
  - destruct (rsplit_tail r) as [t|] eqn:E.
    + destruct IH as [(pre & ->) Hn]. split; [|exact Hn]. exists (String c pre). reflexivity.
    + destruct (Ascii.eqb c ">"%char) eqn:Ec.
      * apply Ascii.eqb_eq in Ec. subst c.
        destruct (after_dot r) as [t|] eqn:Ea.
        -- apply after_dot_some in Ea. subst r. split; [exists ""; reflexivity|].
           intros Ho. apply IH. apply occurs_cons. exact Ho.
        -- intros (pre & post & H). destruct pre as [|x pre]; cbn in H.
           ++ inversion H as [H1]. eapply after_dot_none; eauto.
           ++ inversion H as [[H1 H2]]. apply IH. exists pre, post. exact H2.
      * intros (pre & post & H). destruct pre as [|x pre]; cbn in H.
        -- inversion H as [[H1 H2]]. subst c. rewrite Ascii.eqb_refl in Ec. discriminate.
        -- inversion H as [[H1 H2]]. apply IH. exists pre, post. exact H2.
Qed.

(** [qualname.rsplit(">.", 1)[-1]]: the whole string when [">."] does not occur,
    otherwise what follows its last occurrence. *)
Lemma qualtail_spec_l s :
  (~ occurs s /\ qualtail s = s) \/ (exists pre, s = pre ^^ ">." ^^ qualtail s).
Proof.
  unfold qualtail. pose proof (rsplit_tail_spec s) as H.
  destruct (rsplit_tail s) as [t|]; [right; apply H | left; split; [exact H | reflexivity]].
Qed.

Lemma qualtail_no_locals_l s : ~ occurs (qualtail s).
Proof.
  unfold qualtail. pose proof (rsplit_tail_spec s) as H.
  destruct (rsplit_tail s) as [t|]; [apply H | exact H].
Qed.

Lemma qualtail_suffix_l s : exists pre, s = pre ^^ qualtail s.
Proof.
  destruct (qualtail_spec_l s) as [[_ H] | (pre & H)].
  - exists "". now rewrite H.
  - exists (pre ^^ ">."). rewrite app_assoc_s. exact H.
Qed.

Lemma qualtail_idem_l s : qualtail (qualtail s) = qualtail s.
Proof.
  destruct (qualtail_spec_l (qualtail s)) as [[_ H] | (pre & H)]; [exact H|].
  exfalso. apply (qualtail_no_locals_l s). exists pre, (qualtail (qualtail s)). exact H.
Qed.

(** ** Sets as lists *)

Lemma mem_In o l : mem o l = true <-> In o l.
Proof.
  induction l as [|x r IH]; cbn; [split; [discriminate | tauto]|].
  rewrite orb_true_iff, IH, Nat.eqb_eq. tauto.
Qed.

Lemma remove_one_head o l : remove_one o (o :: l) = l.
Proof. cbn. now rewrite Nat.eqb_refl. Qed.

Lemma aset_cons_ar st o A : aset st = o :: A -> ar st = Some (o :: A).
Proof. unfold aset. destruct (ar st); [congruence | discriminate]. Qed.

(** ** enter / leave *)

Lemma enter_spec g o st :
  match enter g o st with
  | None => match g with GInst => mem o (aset st) = true | GCont => mem o (pr st) = true end
  | Some st1 =>
      faults st1 = faults st /\
      match g with
      | GInst => mem o (aset st) = false /\ aset st1 = o :: aset st /\ pr st1 = pr st
      | GCont => mem o (pr st) = false /\ aset st1 = aset st /\ pr st1 = o :: pr st
      end
  end.
Proof.
  unfold enter, aset. destruct g.
  - destruct (ar st) as [s|]; [destruct (mem o s) eqn:E|]; cbn; auto.
  - destruct (mem o (pr st)) eqn:E; cbn; auto.
Qed.

(** After the body restored the sets, the epilogue undoes exactly the prologue. *)
Lemma leave_after_enter g o st st1 st2 r :
  enter g o st = Some st1 -> aset st2 = aset st1 -> pr st2 = pr st1 ->
  exists st3, leave g o r st2 = (r, st3) /\
              aset st3 = aset st /\ pr st3 = pr st /\ faults st3 = faults st2.
Proof.
  intros He Ha Hp. pose proof (enter_spec g o st) as Hs. rewrite He in Hs.
  destruct Hs as [_ Hs]. unfold leave. destruct g.
  - destruct Hs as (_ & Ha1 & Hp1). rewrite Ha1 in Ha. apply aset_cons_ar in Ha.
    rewrite Ha. cbn [mem]. rewrite Nat.eqb_refl. cbn [orb].
    eexists; split; [reflexivity|]. rewrite remove_one_head. cbn. split; [reflexivity|].
    split; [congruence | reflexivity].
  - destruct Hs as (_ & Ha1 & Hp1). eexists; split; [reflexivity|].
    unfold aset in *. cbn. rewrite Hp, Hp1, remove_one_head. repeat split; congruence.
Qed.

Lemma pop_fault_spec st :
  let '(f, st1) := pop_fault st in
  aset st1 = aset st /\ pr st1 = pr st /\
  match faults st with
  | [] => f = false /\ faults st1 = []
  | b :: fl => f = b /\ faults st1 = fl
  end.
Proof. unfold pop_fault, aset. destruct (faults st) eqn:E; cbn; rewrite ?E; auto. Qed.

(** ** The stateful interpreter refines the pure reference *)

Section Refine.
  Variable h : heap.
  Variable rec : value -> tstate -> res * tstate.
  Variable rrec : list oid -> list oid -> value -> list bool -> res * list bool.

  Definition refines_one : Prop :=
    forall v st r st', rec v st = (r, st') ->
      rrec (aset st) (pr st) v (faults st) = (r, faults st') /\
      aset st' = aset st /\ pr st' = pr st.

  Hypothesis Hrec : refines_one.

  Lemma render_refines w v st r st' :
    render rec w v st = (r, st') ->
    ref_render rrec (aset st) (pr st) w v (faults st) = (r, faults st') /\
    aset st' = aset st /\ pr st' = pr st.
  Proof.
    unfold render, ref_render. destruct w as [|tok|tok].
    - apply Hrec.
    - pose proof (pop_fault_spec st) as Hp. destruct (pop_fault st) as [f st1].
      destruct Hp as (Ha & Hp & Hf).
      destruct (faults st) as [|b fl]; destruct Hf as [Hf0 Hf1]; subst f.
      + intros H. injection H as <- <-. rewrite Hf1. auto.
      + destruct b; intros H; injection H as <- <-; rewrite Hf1; auto.
    - pose proof (pop_fault_spec st) as Hp. destruct (pop_fault st) as [f st1].
      destruct Hp as (Ha & Hp & Hf).
      destruct (faults st) as [|b fl]; destruct Hf as [Hf0 Hf1]; subst f.
      + destruct (rec v st1) as [x st2] eqn:E. apply Hrec in E. destruct E as (E1 & E2 & E3).
        intros H. injection H as <- <-. rewrite <- Ha, <- Hp, <- Hf1, E1. split; [reflexivity|].
        split; congruence.
      + destruct b.
        * intros H. injection H as <- <-. rewrite Hf1. auto.
        * destruct (rec v st1) as [x st2] eqn:E. apply Hrec in E. destruct E as (E1 & E2 & E3).
          intros H. injection H as <- <-. rewrite <- Ha, <- Hp, <- Hf1, E1. split; [reflexivity|].
          split; congruence.
  Qed.

  Lemma run_parts_refines ps : forall acc st r st',
    run_parts rec ps acc st = (r, st') ->
    ref_parts rrec (aset st) (pr st) ps acc (faults st) = (r, faults st') /\
    aset st' = aset st /\ pr st' = pr st.
  Proof.
    induction ps as [|p ps IH]; intros acc st r st'; cbn.
    - intros H; inversion H; subst; auto.
    - destruct p as [s|v w|].
      + apply IH.
      + destruct (render rec w v st) as [x st1] eqn:E.
        apply render_refines in E. destruct E as (E1 & E2 & E3). rewrite E1.
        destruct x as [s|e|].
        * intros H. apply IH in H. rewrite E2, E3 in H. destruct H as (H1 & H2 & H3).
          split; [exact H1|]. split; congruence.
        * intros H; inversion H; subst; auto.
        * intros H; inversion H; subst; auto.
      + intros H; inversion H; subst; auto.
  Qed.

  Lemma repr_body_refines v st r st' :
    repr_body h rec v st = (r, st') ->
    ref_body h rrec (aset st) (pr st) v (faults st) = (r, faults st') /\
    aset st' = aset st /\ pr st' = pr st.
  Proof.
    unfold repr_body, ref_body, repr_obj. destruct v as [o|].
    2:{ intros H; inversion H; subst; auto. }
    destruct (compile h o) as [[s|g marker ps]|].
    2:{ pose proof (enter_spec g o st) as Hs.
        destruct (enter g o st) as [st1|] eqn:He.
        - destruct Hs as (Hf & Hs).
          destruct (run_parts rec ps "" st1) as [x st2] eqn:Er.
          apply run_parts_refines in Er. destruct Er as (E1 & E2 & E3).
          destruct (leave_after_enter g o st st1 st2 x He E2 E3) as (st3 & Hl & L1 & L2 & L3).
          rewrite Hl. intros H; inversion H; subst. rewrite L3.
          destruct g.
          + destruct Hs as (Hm & Ha1 & Hp1). rewrite Hm. rewrite Ha1, Hp1, Hf in E1. auto.
          + destruct Hs as (Hm & Ha1 & Hp1). rewrite Hm. rewrite Ha1, Hp1, Hf in E1. auto.
        - intros H; inversion H; subst. destruct g; rewrite Hs; auto. }
    - intros H; inversion H; subst; auto.
    - intros H; inversion H; subst; auto.
  Qed.
End Refine.

Lemma repr_refines_l h : forall n, refines_one (repr_val h n) (ref_val h n).
Proof.
  induction n as [|n IH]; intros v st r st'; cbn.
  - intros H; inversion H; subst; auto.
  - apply repr_body_refines. exact IH.
Qed.

(** Residue-freedom, on return and on raise, for every fault sequence. *)
Lemma repr_residue_free_l h n v st r st' :
  repr_val h n v st = (r, st') -> aset st' = aset st /\ pr st' = pr st.
Proof. intros H. apply repr_refines_l in H. tauto. Qed.

(** The result depends on the state only through the two sets and the oracle. *)
Lemma repr_result_depends h n v st1 st2 :
  aset st1 = aset st2 -> pr st1 = pr st2 -> faults st1 = faults st2 ->
  fst (repr_val h n v st1) = fst (repr_val h n v st2).
Proof.
  intros Ha Hp Hf.
  destruct (repr_val h n v st1) as [r1 s1] eqn:E1. destruct (repr_val h n v st2) as [r2 s2] eqn:E2.
  apply repr_refines_l in E1. apply repr_refines_l in E2.
  destruct E1 as [E1 _], E2 as [E2 _]. rewrite Ha, Hp, Hf in E1. cbn. congruence.
Qed.

(** Hence: a later repr of the same object behaves exactly like a first one,
    whatever happened (return or raise) in between. *)
Lemma repr_again_l h n v st r st' fl2 :
  repr_val h n v st = (r, st') ->
  fst (repr_val h n v (T (ar st') (pr st') fl2)) = fst (repr_val h n v (T (ar st) (pr st) fl2)).
Proof.
  intros H. apply repr_residue_free_l in H. destruct H as [Ha Hp].
  apply repr_result_depends; [exact Ha | exact Hp | reflexivity].
Qed.

(** [KeyError] from the epilogue never happens. *)
Lemma ref_parts_no_key rrec
  (Hr : forall A P v fl, fst (rrec A P v fl) <> Raise EKey) :
  forall ps A P acc fl, fst (ref_parts rrec A P ps acc fl) <> Raise EKey.
Proof.
  induction ps as [|p ps IH]; intros A P acc fl; cbn; [discriminate|].
  destruct p as [s|v w|]; [apply IH | | cbn; discriminate].
  destruct (ref_render rrec A P w v fl) as [x fl1] eqn:E.
  assert (Hx : x <> Raise EKey).
  { unfold ref_render in E. destruct w as [|tok|tok].
    - specialize (Hr A P v fl). rewrite E in Hr. exact Hr.
    - destruct fl as [|[] fl']; inversion E; discriminate.
    - destruct fl as [|[] fl'].
      + destruct (rrec A P v []) as [y fl2] eqn:E2. specialize (Hr A P v []). rewrite E2 in Hr.
        inversion E; subst. destruct y; cbn in *; congruence.
      + inversion E; discriminate.
      + destruct (rrec A P v fl') as [y fl2] eqn:E2. specialize (Hr A P v fl'). rewrite E2 in Hr.
        inversion E; subst. destruct y; cbn in *; congruence. }
  destruct x as [s|e|]; [apply IH | exact Hx | cbn; discriminate].
Qed.

Lemma ref_val_no_key h : forall n A P v fl, fst (ref_val h n A P v fl) <> Raise EKey.
Proof.
  induction n as [|n IH]; intros A P v fl; cbn; [discriminate|].
  unfold ref_body. destruct v as [o|]; [|cbn; discriminate].
  destruct (compile h o) as [[s|g marker ps]|]; [cbn; discriminate | | cbn; discriminate].
  destruct g.
  - destruct (mem o A); [cbn; discriminate | apply ref_parts_no_key; exact IH].
  - destruct (mem o P); [cbn; discriminate | apply ref_parts_no_key; exact IH].
Qed.

Lemma repr_no_keyerror_l h n v st : fst (repr_val h n v st) <> Raise EKey.
Proof.
  destruct (repr_val h n v st) as [r st'] eqn:E. apply repr_refines_l in E.
  destruct E as [E _]. pose proof (ref_val_no_key h n (aset st) (pr st) v (faults st)) as H.
  rewrite E in H. exact H.
Qed.

(** ** Termination: the stated fuel is never exhausted *)

Definition free (l : list oid) (n : nat) : nat :=
  List.length (filter (fun o => negb (mem o l)) (seq 0 n)).

Lemma filter_len_le (f g : nat -> bool) (Himp : forall x, f x = true -> g x = true) :
  forall L, List.length (filter f L) <= List.length (filter g L).
Proof.
  induction L as [|x L IH]; cbn; [lia|].
  destruct (f x) eqn:Ef; [rewrite (Himp x Ef); cbn; lia | destruct (g x); cbn; lia].
Qed.

Lemma filter_len_lt (f g : nat -> bool) (Himp : forall x, f x = true -> g x = true) o
  (Hf : f o = false) (Hg : g o = true) :
  forall L, In o L -> List.length (filter f L) < List.length (filter g L).
Proof.
  induction L as [|x L IH]; cbn; [tauto|]. intros [->|Hin].
  - rewrite Hf, Hg. cbn. pose proof (filter_len_le f g Himp L). lia.
  - specialize (IH Hin). destruct (f x) eqn:Ef; [rewrite (Himp x Ef); cbn; lia|].
    destruct (g x); cbn; lia.
Qed.

Lemma free_cons o l n : o < n -> mem o l = false -> free (o :: l) n < free l n.
Proof.
  intros Hlt Hm. unfold free. apply filter_len_lt with (o := o).
  - intros x. cbn. destruct (Nat.eqb o x); cbn; [discriminate | tauto].
  - cbn. now rewrite Nat.eqb_refl.
  - now rewrite Hm.
  - apply in_seq. lia.
Qed.

Lemma free_le l n : free l n <= n.
Proof.
  unfold free. rewrite <- (seq_length n 0) at 2.
  generalize (seq 0 n). intros L. induction L as [|x L IH]; cbn; [lia|].
  destruct (negb (mem x l)); cbn; lia.
Qed.

Definition measure (h : heap) (st : tstate) : nat :=
  free (aset st) (List.length h) + free (pr st) (List.length h).

Lemma compile_valid h o c : compile h o = Some c -> o < List.length h.
Proof.
  unfold compile. destruct (nth_error h o) eqn:E; [|discriminate].
  intros _. apply nth_error_Some. congruence.
Qed.

Lemma enter_measure h g o st st1 :
  o < List.length h -> enter g o st = Some st1 -> measure h st1 < measure h st.
Proof.
  intros Hv He. pose proof (enter_spec g o st) as Hs. rewrite He in Hs.
  destruct Hs as [_ Hs]. unfold measure. destruct g; destruct Hs as (Hm & Ha & Hp); rewrite Ha, Hp.
  - pose proof (free_cons o (aset st) _ Hv Hm). lia.
  - pose proof (free_cons o (pr st) _ Hv Hm). lia.
Qed.

Section Term.
  Variable h : heap.
  Variable rec : value -> tstate -> res * tstate.
  Variable m : nat.
  Hypothesis Hrest : forall v st r st', rec v st = (r, st') -> aset st' = aset st /\ pr st' = pr st.
  Hypothesis Hterm : forall v st, measure h st < m -> fst (rec v st) <> OutOfFuel.

  Lemma render_rest w v st r st' :
    render rec w v st = (r, st') -> aset st' = aset st /\ pr st' = pr st.
  Proof.
    unfold render. destruct w as [|tok|tok]; [apply Hrest| |];
      pose proof (pop_fault_spec st) as Hp; destruct (pop_fault st) as [f st1];
      destruct Hp as (Ha & Hp & _); destruct f.
    - intros H; inversion H; subst; auto.
    - intros H; inversion H; subst; auto.
    - intros H; inversion H; subst; auto.
    - destruct (rec v st1) as [x st2] eqn:E. apply Hrest in E.
      intros H; inversion H; subst. destruct E; split; congruence.
  Qed.

  Lemma render_term w v st : measure h st < m -> fst (render rec w v st) <> OutOfFuel.
  Proof.
    intros Hm. unfold render. destruct w as [|tok|tok]; [now apply Hterm| |];
      pose proof (pop_fault_spec st) as Hp; destruct (pop_fault st) as [f st1];
      destruct Hp as (Ha & Hp & _); destruct f; cbn; try discriminate.
    assert (Hm1 : measure h st1 < m) by (unfold measure in *; rewrite Ha, Hp; exact Hm).
    specialize (Hterm v st1 Hm1). destruct (rec v st1) as [x st2]. cbn in *.
    destruct x; cbn; congruence.
  Qed.

  Lemma run_parts_term ps : forall acc st,
    measure h st < m -> fst (run_parts rec ps acc st) <> OutOfFuel.
  Proof.
    induction ps as [|p ps IH]; intros acc st Hm; cbn; [discriminate|].
    destruct p as [s|v w|]; [now apply IH | | cbn; discriminate].
    pose proof (render_term w v st Hm) as Ht.
    destruct (render rec w v st) as [x st1] eqn:E. apply render_rest in E. destruct E as [Ea Ep].
    destruct x as [s|e|]; cbn in *; [|discriminate|congruence].
    apply IH. unfold measure in *. rewrite Ea, Ep. exact Hm.
  Qed.

  Lemma repr_body_term v st : measure h st < S m -> fst (repr_body h rec v st) <> OutOfFuel.
  Proof.
    intros Hm. unfold repr_body, repr_obj. destruct v as [o|]; [|cbn; discriminate].
    destruct (compile h o) as [[s|g marker ps]|] eqn:Ec; [cbn; discriminate | | cbn; discriminate].
    destruct (enter g o st) as [st1|] eqn:He; [|cbn; discriminate].
    pose proof (enter_measure h g o st st1 (compile_valid _ _ _ Ec) He) as Hlt.
    assert (Hm1 : measure h st1 < m) by lia.
    pose proof (run_parts_term ps "" st1 Hm1) as Ht.
    destruct (run_parts rec ps "" st1) as [x st2]. cbn in Ht.
    unfold leave. destruct g.
    - destruct (ar st2) as [s|]; [destruct (mem o s)|]; cbn; congruence.
    - cbn. exact Ht.
  Qed.
End Term.

Lemma repr_terminates_gen h : forall n v st,
  measure h st < n -> fst (repr_val h n v st) <> OutOfFuel.
Proof.
  induction n as [|n IH]; intros v st Hm; [lia|]. cbn.
  apply repr_body_term with (m := n).
  - intros v0 st0 r st' H. eapply repr_residue_free_l; eauto.
  - exact IH.
  - exact Hm.
Qed.

Lemma measure_le h st : measure h st <= 2 * List.length h.
Proof.
  unfold measure. pose proof (free_le (aset st) (List.length h)).
  pose proof (free_le (pr st) (List.length h)). lia.
Qed.

Lemma repr_terminates_l h v st : fst (repr h v st) <> OutOfFuel.
Proof.
  unfold repr, fuel_for. apply repr_terminates_gen. pose proof (measure_le h st). lia.
Qed.

(** More fuel changes nothing once the result is not OutOfFuel. *)
Section Mono.
  Variable h : heap.
  Variables rec1 rec2 : value -> tstate -> res * tstate.
  Hypothesis Hmono : forall v st r st', rec1 v st = (r, st') -> r <> OutOfFuel -> rec2 v st = (r, st').

  Lemma render_mono w v st r st' :
    render rec1 w v st = (r, st') -> r <> OutOfFuel -> render rec2 w v st = (r, st').
  Proof.
    unfold render. destruct w as [|tok|tok]; [apply Hmono|tauto|].
    destruct (pop_fault st) as [f st1]. destruct f; [tauto|].
    destruct (rec1 v st1) as [x st2] eqn:E. intros H Hn. inversion H; subst.
    rewrite (Hmono _ _ _ _ E); [reflexivity|]. intros ->. apply Hn. reflexivity.
  Qed.

  Lemma run_parts_mono ps : forall acc st r st',
    run_parts rec1 ps acc st = (r, st') -> r <> OutOfFuel -> run_parts rec2 ps acc st = (r, st').
  Proof.
    induction ps as [|p ps IH]; intros acc st r st'; cbn; [tauto|].
    destruct p as [s|v w|]; [apply IH | | tauto].
    destruct (render rec1 w v st) as [x st1] eqn:E. intros H Hn.
    assert (Hx : x <> OutOfFuel).
    { intros ->. inversion H; subst. apply Hn; reflexivity. }
    rewrite (render_mono _ _ _ _ _ E Hx). destruct x; [now apply IH | exact H | exact H].
  Qed.
End Mono.

Lemma repr_val_mono h : forall n v st r st',
  repr_val h n v st = (r, st') -> r <> OutOfFuel -> repr_val h (S n) v st = (r, st').
Proof.
  induction n as [|n IH]; intros v st r st' H Hn.
  - cbn in H. inversion H; subst. exfalso; apply Hn; reflexivity.
  - change (repr_body h (repr_val h (S n)) v st = (r, st')).
    change (repr_body h (repr_val h n) v st = (r, st')) in H.
    unfold repr_body, repr_obj in *. destruct v as [o|]; [|exact H].
    destruct (compile h o) as [[s|g marker ps]|]; [exact H | | exact H].
    destruct (enter g o st) as [st1|] eqn:He; [|exact H].
    destruct (run_parts (repr_val h n) ps "" st1) as [x st2] eqn:Er.
    assert (Hx : x <> OutOfFuel).
    { intros ->. pose proof (run_parts_refines (repr_val h n) (ref_val h n) (repr_refines_l h n)
                               ps "" st1 _ _ Er) as (_ & E2 & E3).
      destruct (leave_after_enter g o st st1 st2 OutOfFuel He E2 E3) as (st3 & Hl & _).
      rewrite Hl in H. inversion H; subst. apply Hn; reflexivity. }
    rewrite (run_parts_mono (repr_val h n) (repr_val h (S n)) IH ps _ _ _ _ Er Hx). exact H.
Qed.

Lemma repr_val_fuel_irrelevant h n k v st :
  measure h st < n -> repr_val h (n + k) v st = repr_val h n v st.
Proof.
  intros Hm. induction k as [|k IH]; [now rewrite Nat.add_0_r|].
  rewrite Nat.add_succ_r. destruct (repr_val h n v st) as [r st'] eqn:E.
  apply repr_val_mono; [exact IH|]. pose proof (repr_terminates_gen h n v st Hm) as Ht.
  rewrite E in Ht. exact Ht.
Qed.

(** ** Cycle marker *)

Lemma repr_cycle_marker_l h n o st qn sf bs fs attrs :
  nth_error h o = Some (OI qn sf bs fs attrs) -> In o (aset st) ->
  repr_val h (S n) (VRef o) st = (Ok "...", st).
Proof.
  intros Hn Hin. cbn. unfold repr_obj, compile. rewrite Hn.
  apply mem_In in Hin. unfold enter, aset in *. destruct (ar st) as [s|]; [|discriminate].
  now rewrite Hin.
Qed.

Lemma list_cycle_marker_l h n o st items :
  nth_error h o = Some (OL items) -> In o (pr st) ->
  repr_val h (S n) (VRef o) st = (Ok "[...]", st).
Proof.
  intros Hn Hin. cbn. unfold repr_obj, compile. rewrite Hn.
  apply mem_In in Hin. unfold enter. now rewrite Hin.
Qed.

Lemma dict_cycle_marker_l h n o st items :
  nth_error h o = Some (OD items) -> In o (pr st) ->
  repr_val h (S n) (VRef o) st = (Ok "{...}", st).
Proof.
  intros Hn Hin. cbn. unfold repr_obj, compile. rewrite Hn.
  apply mem_In in Hin. unfold enter. now rewrite Hin.
Qed.

(** ** Format *)

Lemma anr_filter fs :
  attr_names_with_reprs fs = map (fun f => (f_name f, how_of f, f_init f)) (filter enabled fs).
Proof.
  induction fs as [|f fs IH]; cbn; [reflexivity|]. rewrite IH.
  assert (He : enabled f = match f_repr f with RFalse => false | _ => true end) by reflexivity.
  rewrite He. destruct (f_repr f) eqn:E; cbn; unfold how_of; rewrite ?E; reflexivity.
Qed.

Lemma instantiate_app a b qn attrs :
  instantiate (a ++ b) qn attrs = instantiate a qn attrs ++ instantiate b qn attrs.
Proof.
  induction a as [|p a IH]; cbn; [reflexivity|]. destruct p; cbn; now rewrite IH.
Qed.

(** [", f=r"] for every remaining field. *)
Fixpoint tailj (l : list string) : string :=
  match l with [] => "" | x :: r => ", " ^^ x ^^ tailj r end.

Lemma join_cons x r : join ", " (x :: r) = x ^^ tailj r.
Proof.
  revert x. induction r as [|y r IH]; intros x.
  - cbn. now rewrite app_nil_r_s.
  - change (join ", " (x :: y :: r)) with (x ^^ ", " ^^ join ", " (y :: r)).
    rewrite IH. reflexivity.
Qed.

Definition joined (first : bool) (l : list string) : string :=
  if first then join ", " l else tailj l.

Lemma joined_cons first x r :
  joined first (x :: r) = (if first then "" else ", ") ^^ x ^^ joined false r.
Proof. destruct first; cbn [joined]; [now rewrite join_cons | reflexivity]. Qed.

Section Format.
  Variable h : heap.
  Variable rec : value -> tstate -> res * tstate.
  Hypothesis Hrest : forall v st r st', rec v st = (r, st') -> aset st' = aset st /\ pr st' = pr st.
  Variable attrs : list (string * oid).
  Variable qn : string.

  (** [r] is what formatting field [f] produced in some state with the sets [A], [P]. *)
  Definition rendered (A P : list oid) (f : field) (r : string) : Prop :=
    exists v stA stB, field_value attrs f = Some v /\ aset stA = A /\ pr stA = P /\
                      render rec (how_of f) v stA = (Ok r, stB).

  Lemma run_fragments fs : forall first acc st s st',
    run_parts rec
      (instantiate (fragments (map (fun f => (f_name f, how_of f, f_init f)) fs) first) qn attrs
         ++ [PLit ")"]) acc st = (Ok s, st') ->
    exists rs, Forall2 (rendered (aset st) (pr st)) fs rs /\
               s = acc ^^ joined first (name_eq fs rs) ^^ ")".
  Proof.
    induction fs as [|f fs IH]; intros first acc st s st'.
    - cbn. intros H; inversion H; subst. exists []. split; [constructor|].
      destruct first; reflexivity.
    - cbn [map fragments instantiate app]. cbn [run_parts].
      unfold accessor. destruct (assoc (f_name f) attrs) as [x|] eqn:Ea.
      + cbn [run_parts]. destruct (render rec (how_of f) (VRef x) st) as [y st1] eqn:Er.
        destruct y as [r|e|]; try discriminate. intros H.
        pose proof (render_rest rec Hrest _ _ _ _ _ Er) as [Ra Rp].
        apply IH in H. destruct H as (rs & HF & ->). exists (r :: rs). split.
        * constructor; [|rewrite <- Ra, <- Rp; exact HF].
          exists (VRef x), st, st1. unfold field_value. rewrite Ea. auto.
        * cbn [name_eq]. rewrite joined_cons. now rewrite !app_assoc_s.
      + destruct (f_init f) eqn:Ei; [cbn; discriminate|].
        cbn [run_parts]. destruct (render rec (how_of f) VNothing st) as [y st1] eqn:Er.
        destruct y as [r|e|]; try discriminate. intros H.
        pose proof (render_rest rec Hrest _ _ _ _ _ Er) as [Ra Rp].
        apply IH in H. destruct H as (rs & HF & ->). exists (r :: rs). split.
        * constructor; [|rewrite <- Ra, <- Rp; exact HF].
          exists VNothing, st, st1. unfold field_value. rewrite Ea, Ei. auto.
        * cbn [name_eq]. rewrite joined_cons. now rewrite !app_assoc_s.
  Qed.
End Format.

Lemma repr_format_l h n o st qn sf bs fs attrs s st' :
  nth_error h o = Some (OI qn sf bs fs attrs) ->
  ~ In o (aset st) ->
  repr_val h (S n) (VRef o) st = (Ok s, st') ->
  exists rs,
    s = format_spec qn fs rs /\
    Forall2 (rendered (repr_val h n) attrs (o :: aset st) (pr st)) (filter enabled fs) rs.
Proof.
  intros Hn Hnin. cbn. unfold repr_obj, compile. rewrite Hn.
  pose proof (enter_spec GInst o st) as Hs.
  destruct (enter GInst o st) as [st1|] eqn:He.
  2:{ apply mem_In in Hs. contradiction. }
  destruct Hs as (_ & _ & Ha1 & Hp1).
  destruct (run_parts (repr_val h n) (instantiate (make_repr_script fs) qn attrs) "" st1)
    as [x st2] eqn:Er.
  pose proof (run_parts_refines _ _ (repr_refines_l h n) _ _ _ _ _ Er) as (_ & E2 & E3).
  destruct (leave_after_enter GInst o st st1 st2 x He E2 E3) as (st3 & Hl & _).
  rewrite Hl. intros H; inversion H; subst x st3. clear H.
  unfold make_repr_script in Er. cbn [instantiate run_parts] in Er.
  rewrite instantiate_app, anr_filter in Er. cbn [instantiate] in Er.
  apply run_fragments in Er.
  2:{ intros v0 st0 r0 st0' H0. eapply repr_residue_free_l; eauto. }
  destruct Er as (rs & HF & ->). exists rs. rewrite Ha1, Hp1 in HF. split; [|exact HF].
  unfold format_spec. cbn [joined]. change ("" ^^ qualtail qn) with (qualtail qn).
  now rewrite app_assoc_s.
Qed.

(** [NOTHING] is shown for an unset [init=False] field. *)
Lemma repr_nothing h n st : repr_val h (S n) VNothing st = (Ok "NOTHING", st).
Proof. reflexivity. Qed.

(** ** str *)

Lemma str_is_repr_l h o st qn bs fs attrs :
  nth_error h o = Some (OI qn true bs fs attrs) -> str h o st = repr h (VRef o) st.
Proof. intros H. unfold str. rewrite H. reflexivity. Qed.

(** ** Non-vacuity examples (evaluated by the kernel) *)

Example qualtail_examples :
  qualtail "C" = "C" /\ qualtail "Outer.Inner" = "Outer.Inner" /\
  qualtail "f.<locals>.C" = "C" /\ qualtail "f.<locals>.g.<locals>.Outer.C" = "Outer.C" /\
  qualtail "f.<locals>.Outer.m.<locals>.C" = "C" /\ qualtail "a>.b>.>." = "".
Proof. repeat split; reflexivity. Qed.

(** c = C(x=l, y unset (init=False), z=1 with a re-entrant callable Z); l = [c, 1, d];
    d = {'k': c, 'l': l}: cycles through an instance, a list and a dict. *)
Definition ex_heap : heap :=
  [ OI "f.<locals>.C" true None
       [F "x" RTrue true; F "h" RFalse true; F "y" RTrue false; F "z" (RWrap "Z") true]
       [("x", 1); ("h", 2); ("z", 2)];
    OL [0; 2; 3]; OS "1"; OD [(4, 0); (5, 1)]; OS "'k'"; OS "'l'" ].

Example repr_format_example :
  repr ex_heap (VRef 0) (clean []) =
    (Ok (format_spec "f.<locals>.C"
           [F "x" RTrue true; F "h" RFalse true; F "y" RTrue false; F "z" (RWrap "Z") true]
           ["[..., 1, {'k': ..., 'l': [...]}]"; "NOTHING"; "Z(1)"]), T (Some []) [] []) /\
  format_spec "f.<locals>.C"
           [F "x" RTrue true; F "h" RFalse true; F "y" RTrue false; F "z" (RWrap "Z") true]
           ["[..., 1, {'k': ..., 'l': [...]}]"; "NOTHING"; "Z(1)"]
  = "C(x=[..., 1, {'k': ..., 'l': [...]}], y=NOTHING, z=Z(1))" /\
  str ex_heap 0 (clean []) = repr ex_heap (VRef 0) (clean []).
Proof. repeat split; reflexivity. Qed.

(** The callable of [z] fails: the exception propagates, nothing is left behind, and
    the next repr is complete. *)
Example residue_example :
  let '(r1, st1) := repr ex_heap (VRef 0) (clean [true]) in
  r1 = Raise EUser /\ aset st1 = [] /\ pr st1 = [] /\
  fst (repr ex_heap (VRef 0) st1) = Ok "C(x=[..., 1, {'k': ..., 'l': [...]}], y=NOTHING, z=Z(1))".
Proof. cbv zeta. repeat split; reflexivity. Qed.

(** The fuel bound is not vacuous: too little fuel does run out on this heap. *)
Example fuel_matters : fst (repr_val ex_heap 3 (VRef 0) (clean [])) = OutOfFuel.
Proof. reflexivity. Qed.

(** An unset [init=True] field: AttributeError, and again no residue. *)
Example unset_init_example :
  repr [OI "C" false None [F "a" RTrue true; F "b" RTrue true] [("a", 0)]] (VRef 0) (clean [])
  = (Raise EAttr, T (Some []) [] []).
Proof. reflexivity. Qed.

(** ** The marker is decided by object identity only *)

Lemma paren_not_marker a b : a ^^ "(" ^^ b <> "...".
Proof.
  intros H. destruct a as [|c1 [|c2 [|c3 [|c4 a]]]]; cbn in H; inversion H.
Qed.

Lemma format_spec_not_marker qn fs rs : format_spec qn fs rs <> "...".
Proof. unfold format_spec. apply paren_not_marker. Qed.

(** An instance that is not ITSELF (same heap index = same object) in the thread's
    set is never shown as ['...'], whatever else is being rendered and however the
    objects compare under [==] (the model has no such relation at all). *)
Lemma repr_marker_only_for_same_object_l h n o st qn sf bs fs attrs s st' :
  nth_error h o = Some (OI qn sf bs fs attrs) ->
  ~ In o (aset st) ->
  repr_val h (S n) (VRef o) st = (Ok s, st') -> s <> "...".
Proof.
  intros Hn Hnin H. destruct (repr_format_l _ _ _ _ _ _ _ _ _ _ _ Hn Hnin H) as (rs & -> & _).
  apply format_spec_not_marker.
Qed.

(** Two distinct instances of one class with identical field values (what any [==]
    would call equal), one nested in the other, directly / through a list / a tuple / a
    dict: all rendered in full. *)
Example equal_but_distinct_example :
  let cl := [F "x" RTrue true] in
  let h := [OI "B" false None cl [("x", 1)]; OI "B" false None cl [("x", 2)]; OI "B" false None cl [("x", 3)];
            OS "1";
            OI "B" false None cl [("x", 5)]; OL [0]; OI "B" false None cl [("x", 7)]; OT [4];
            OI "B" false None cl [("x", 9)]; OD [(3, 6)]] in
  fst (repr h (VRef 0) (clean [])) = Ok "B(x=B(x=B(x=1)))" /\
  fst (repr h (VRef 8) (clean [])) = Ok "B(x={1: B(x=(B(x=[B(x=B(x=B(x=1)))]),))})".
Proof. split; reflexivity. Qed.

(** ** Truthiness of the [repr=] object is irrelevant

    The filter of [_make_repr_script] is [a.repr is not False]; a callable object that
    happens to be falsy (empty callable dict subclass, [__bool__] returning False) is a
    custom repr callable like any other.  Heaps that differ only in [f_truthy] render
    identically. *)

Definition set_truthy (t : bool) (f : field) : field := FT (f_name f) (f_repr f) (f_init f) t.

Definition erase_truthy (x : obj) : obj :=
  match x with
  | OI qn sf bs fs attrs => OI qn sf bs (map (set_truthy true) fs) attrs
  | y => y
  end.

Lemma enabled_ignores_truthiness t f : enabled (set_truthy t f) = enabled f.
Proof. reflexivity. Qed.

Lemma anr_truthy t fs : attr_names_with_reprs (map (set_truthy t) fs) = attr_names_with_reprs fs.
Proof.
  induction fs as [|f fs IH]; cbn; [reflexivity|]. rewrite IH. reflexivity.
Qed.

Lemma compile_erase h o : compile (map erase_truthy h) o = compile h o.
Proof.
  unfold compile. rewrite nth_error_map. destruct (nth_error h o) as [x|]; [|reflexivity].
  destruct x; cbn; try reflexivity. unfold make_repr_script. now rewrite anr_truthy.
Qed.

Section Ext.
  Variables rec1 rec2 : value -> tstate -> res * tstate.
  Hypothesis Hext : forall v st, rec1 v st = rec2 v st.

  Lemma render_ext w v st : render rec1 w v st = render rec2 w v st.
  Proof.
    unfold render. destruct w; [apply Hext | reflexivity |].
    destruct (pop_fault st) as [f st1]. destruct f; [reflexivity|]. now rewrite Hext.
  Qed.

  Lemma run_parts_ext ps : forall acc st, run_parts rec1 ps acc st = run_parts rec2 ps acc st.
  Proof.
    induction ps as [|p ps IH]; intros acc st; cbn; [reflexivity|].
    destruct p; [apply IH | | reflexivity]. rewrite render_ext.
    destruct (render rec2 w v st) as [x st1]. destruct x; [apply IH | reflexivity | reflexivity].
  Qed.
End Ext.

Lemma repr_val_erase h : forall n v st, repr_val (map erase_truthy h) n v st = repr_val h n v st.
Proof.
  induction n as [|n IH]; intros v st; cbn; [reflexivity|].
  unfold repr_body, repr_obj. destruct v as [o|]; [|reflexivity]. rewrite compile_erase.
  destruct (compile h o) as [[s|g marker ps]|]; try reflexivity.
  destruct (enter g o st) as [st1|]; [|reflexivity].
  now rewrite (run_parts_ext _ _ IH).
Qed.

Lemma repr_ignores_callable_truthiness_l h1 h2 v st :
  map erase_truthy h1 = map erase_truthy h2 -> repr h1 v st = repr h2 v st.
Proof.
  intros H. unfold repr, fuel_for.
  rewrite <- (repr_val_erase h1), <- (repr_val_erase h2), H.
  replace (List.length h1) with (List.length h2); [reflexivity|].
  rewrite <- (map_length erase_truthy h2), <- H. apply map_length.
Qed.

Example falsy_callable_still_listed :
  fst (repr [OI "C" false None [F "a" RTrue true; FT "x" (RLeaf "L") true false; F "z" RTrue true]
                [("a", 1); ("x", 1); ("z", 1)]; OS "1"] (VRef 0) (clean []))
  = Ok "C(a=1, x=L, z=1)".
Proof. reflexivity. Qed.
