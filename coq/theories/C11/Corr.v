(** * C11 — correspondence: the check function evaluated by [coqc] on the heaps,
    call sequences, fault sequences and thread schedules the harness ran against
    the real library. *)
From Coq Require Import List Bool Arith String Ascii.
Import ListNotations.
From Attrs Require Import Base C11.Model C11.Proofs C11.Threads.
Open Scope string_scope.
Open Scope list_scope.

Inductive call := KRepr (o : nat) | KStr (o : nat).

(** What one call showed.  [BOther]: something the model never predicts (a hang, an
    unexpected exception class); [BOut]: the model's own "no answer" (never observed). *)
Inductive obs := BOk (s : string) | BRaise (e : exc) | BOther | BOut.

Record case := Case {
  c_heap : heap;
  c_eqcls : list nat;              (* per heap node: its EQUALITY class under Python's == (nodes of one class
                                      compare equal); carried for the record only - the model identifies
                                      objects by their heap index (identity) and never reads this field *)
  c_defqn : list string;           (* per heap node: the __qualname__ of the class that was DECORATED, i.e.
                                      whose generated __repr__ runs ("" for non-instances); the instance's
                                      [OI] carries the RUNTIME class's qualname, which is all the model reads *)
  c_warm : bool;                   (* sequential: repr_context.already_repring already exists (empty) *)
  c_faults : list (list bool);     (* fault oracle of thread t (sequential: of entry 0) *)
  c_threaded : bool;               (* true: call i is made by thread i, all concurrently *)
  c_sched : list nat;              (* threaded: an arbitrary schedule prefix ... *)
  c_rounds : nat;                  (* ... followed by this many round-robin rounds *)
  c_calls : list call;
  c_seen : list (obs * list nat)   (* per call: outcome, residue = oids left in the thread's set *)
}.

Definition to_obs (r : res) : obs :=
  match r with Ok s => BOk s | Raise e => BRaise e | OutOfFuel => BOut end.

Definition do_call (h : heap) (k : call) (st : tstate) : res * tstate :=
  match k with KRepr o => repr h (VRef o) st | KStr o => str h o st end.

Fixpoint run_calls (h : heap) (ks : list call) (st : tstate) : list (obs * list nat) :=
  match ks with
  | [] => []
  | k :: r => let '(x, st') := do_call h k st in (to_obs x, aset st') :: run_calls h r st'
  end.

Definition target (ks : list call) (t : nat) : value :=
  match nth_error ks t with
  | Some (KRepr o) | Some (KStr o) => VRef o
  | None => VNothing
  end.

Fixpoint round_robin (n rounds : nat) : list nat :=
  match rounds with 0 => [] | S r => seq 0 n ++ round_robin n r end.

Definition thread_obs (c : conf) : obs * list nat :=
  match halted c with
  | Some (r, st) => (to_obs r, aset st)
  | None => (BOut, [])
  end.

Definition final_world (c : case) : world :=
  let n := List.length (c_calls c) in
  run_sched id_key (c_heap c) (c_sched c ++ round_robin n (c_rounds c))
            (start_world (target (c_calls c)) (fun t => nth t (c_faults c) [])).

Definition model_of (c : case) : list (obs * list nat) :=
  if c_threaded c then
    map (fun t => thread_obs (view id_key (final_world c) t)) (seq 0 (List.length (c_calls c)))
  else
    run_calls (c_heap c) (c_calls c)
              (T (if c_warm c then Some [] else None) [] (nth 0 (c_faults c) [])).

Definition exc_eqb (a b : exc) : bool :=
  match a, b with
  | EAttr, EAttr | EUser, EUser | EKey, EKey | EBad, EBad => true
  | _, _ => false
  end.

(** [obs_ok m s]: the observation [s] is what the model [m] predicts.  One deliberate
    slack: where the model says AttributeError (an enabled [init=True] field whose
    attribute is unset - the property does not say what repr shows then) any string is
    accepted as well; the residue is compared in every case. *)
Definition obs_ok (m s : obs) : bool :=
  match m, s with
  | BOk a, BOk b => String.eqb a b
  | BRaise EAttr, BOk _ => true
  | BRaise e, BRaise f => exc_eqb e f
  | _, _ => false
  end.

Definition entry_ok (m s : obs * list nat) : bool :=
  obs_ok (fst m) (fst s) && list_eqb Nat.eqb (snd m) (snd s).

Fixpoint all2 {A B : Type} (f : A -> B -> bool) (a : list A) (b : list B) : bool :=
  match a, b with
  | [], [] => true
  | x :: a', y :: b' => f x y && all2 f a' b'
  | _, _ => false
  end.

Definition check_case (c : case) : bool := all2 entry_ok (model_of c) (c_seen c).

Definition agrees (m s : obs * list nat) : Prop :=
  snd s = snd m /\
  (fst s = fst m /\ ((exists x, fst m = BOk x) \/ (exists e, fst m = BRaise e))
   \/ (fst m = BRaise EAttr /\ exists x, fst s = BOk x)).

Lemma list_nat_eqb_eq : forall a b, list_eqb Nat.eqb a b = true -> a = b.
Proof.
  induction a as [|x a IH]; destruct b as [|y b]; cbn; try discriminate; [reflexivity|].
  intros H. apply andb_true_iff in H as [H1 H2]. apply Nat.eqb_eq in H1. apply IH in H2. congruence.
Qed.

Lemma entry_ok_agrees m s : entry_ok m s = true -> agrees m s.
Proof.
  destruct m as [m1 m2], s as [s1 s2]. unfold entry_ok, agrees; cbn. intros H.
  apply andb_true_iff in H as [H1 H2]. apply list_nat_eqb_eq in H2. split; [congruence|].
  destruct m1 as [a|e| |], s1 as [b|f| |]; try destruct e; try destruct f; cbn in H1; try discriminate;
    try (left; split; [reflexivity|]; right; eexists; reflexivity).
  - apply String.eqb_eq in H1. subst. left. split; [reflexivity|]. left. now exists b.
  - right. split; [reflexivity|]. now exists b.
Qed.

Lemma check_case_sound c : check_case c = true -> Forall2 agrees (model_of c) (c_seen c).
Proof.
  unfold check_case. generalize (model_of c) (c_seen c). intros l.
  induction l as [|x l IH]; intros l0; destruct l0 as [|y l0]; cbn; try discriminate; [constructor|].
  intros H. apply andb_true_iff in H as [H1 H2]. constructor; [now apply entry_ok_agrees | now apply IH].
Qed.

(** The prediction does not depend on which objects compare equal under [==]: only
    object identity (the heap index) enters the guard of the generated [__repr__]. *)
Lemma model_ignores_equality c cls' :
  model_of (Case (c_heap c) cls' (c_defqn c) (c_warm c) (c_faults c) (c_threaded c) (c_sched c) (c_rounds c)
                 (c_calls c) (c_seen c)) = model_of c.
Proof. reflexivity. Qed.

(** The prediction depends only on the RUNTIME class's qualified name (in the heap),
    never on the qualified name of the class the decorator was applied to. *)
Lemma model_ignores_defining_qualname c dq' :
  model_of (Case (c_heap c) (c_eqcls c) dq' (c_warm c) (c_faults c) (c_threaded c) (c_sched c) (c_rounds c)
                 (c_calls c) (c_seen c)) = model_of c.
Proof. reflexivity. Qed.

(** In a threaded case the model's entry for a thread is either "not finished within
    the given schedule" or exactly the solo answer (by [repr_thread_isolation_l]):
    the schedule carried by the case cannot influence what is predicted. *)
Lemma threaded_model_is_solo c t :
  let x := thread_obs (view id_key (final_world c) t) in
  x = (BOut, []) \/
  x = (let '(r, st) := repr (c_heap c) (target (c_calls c) t) (clean (nth t (c_faults c) []))
       in (to_obs r, aset st)).
Proof.
  cbn zeta. unfold thread_obs.
  destruct (halted (view id_key (final_world c) t)) as [[r st]|] eqn:E; [right | now left].
  unfold final_world in E. apply repr_thread_isolation_l in E. rewrite <- E. reflexivity.
Qed.
