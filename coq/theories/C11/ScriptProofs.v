(** * C11 — the syntax tree of the generated [__repr__] means what the model says. *)

From Coq Require Import List Bool Arith String Ascii.
Import ListNotations.
From Attrs Require Import Base C11.Model C11.Proofs C11.Script.
Open Scope string_scope.
Open Scope list_scope.

(** ** The boolean check is literal equality *)

Lemma list_eqb_sound {A} (eqb : A -> A -> bool) (H : forall x y, eqb x y = true -> x = y) :
  forall a b, list_eqb eqb a b = true -> a = b.
Proof.
  induction a as [|x a IH]; destruct b as [|y b]; cbn; try discriminate; [reflexivity|].
  intros E. apply andb_true_iff in E as [E1 E2]. apply H in E1. apply IH in E2. congruence.
Qed.

Lemma fpiece_eqb_sound a b : fpiece_eqb a b = true -> a = b.
Proof.
  destruct a as [|s|n i h], b as [|t|n' i' h']; cbn; try discriminate; [reflexivity| |].
  - intros H. apply String.eqb_eq in H. congruence.
  - intros H. apply andb_true_iff in H as [H H3]. apply andb_true_iff in H as [H1 H2].
    apply String.eqb_eq in H1. apply Bool.eqb_prop in H2. subst.
    destruct h as [x|], h' as [y|]; cbn in H3; try discriminate; [|reflexivity].
    apply String.eqb_eq in H3. congruence.
Qed.

Lemma s0_eqb_sound a b : s0_eqb a b = true -> a = b.
Proof.
  destruct a, b; cbn; try discriminate; try reflexivity.
  - intros H. apply String.eqb_eq in H. congruence.
  - intros H. apply (list_eqb_sound _ fpiece_eqb_sound) in H. congruence.
Qed.

Lemma s1_eqb_sound a b : s1_eqb a b = true -> a = b.
Proof.
  destruct a, b; cbn; try discriminate.
  - intros H. apply s0_eqb_sound in H. congruence.
  - intros H. apply andb_true_iff in H as [H1 H2].
    apply (list_eqb_sound _ s0_eqb_sound) in H1. apply (list_eqb_sound _ s0_eqb_sound) in H2. congruence.
Qed.

Lemma s2_eqb_sound a b : s2_eqb a b = true -> a = b.
Proof.
  destruct a, b; cbn; try discriminate.
  - intros H. apply s1_eqb_sound in H. congruence.
  - intros H. apply andb_true_iff in H as [H1 H2].
    apply (list_eqb_sound _ s1_eqb_sound) in H1. apply (list_eqb_sound _ s1_eqb_sound) in H2. congruence.
  - intros H. apply andb_true_iff in H as [H1 H2].
    apply (list_eqb_sound _ s1_eqb_sound) in H1. apply (list_eqb_sound _ s1_eqb_sound) in H2. congruence.
Qed.

Lemma script_case_ok_sound c : script_case_ok c = true -> sc_body c = repr_function (sc_fields c).
Proof. apply (list_eqb_sound _ s2_eqb_sound). Qed.

(** ** Pieces: merged text and helper names mean the model's parts *)

Section Pieces.
  Variable rec : value -> tstate -> res * tstate.
  Variable fs : list field.
  Variable qn : string.
  Variable attrs : list (string * nat).

  Notation part_of := (part_of fs qn attrs).

  Lemma run_parts_cons_congr p l1 l2 :
    (forall acc st, run_parts rec l1 acc st = run_parts rec l2 acc st) ->
    forall acc st, run_parts rec (p :: l1) acc st = run_parts rec (p :: l2) acc st.
  Proof.
    intros H acc st. destruct p as [s|v w|]; cbn; [apply H | | reflexivity].
    destruct (render rec w v st) as [x st1]. destruct x; [apply H | reflexivity | reflexivity].
  Qed.

  Lemma merge_text_meaning l : forall acc st,
    run_parts rec (map part_of (merge_text l)) acc st = run_parts rec (map part_of l) acc st.
  Proof.
    induction l as [|p l IH]; intros acc st; [reflexivity|]. cbn [merge_text].
    destruct p as [|a|n i h].
    - cbn [map]. apply run_parts_cons_congr. exact IH.
    - destruct (merge_text l) as [|[|b|n i h] r'] eqn:E.
      + cbn [map]. apply run_parts_cons_congr. exact IH.
      + cbn [map]. apply run_parts_cons_congr. exact IH.
      + cbn [map Script.part_of run_parts]. rewrite <- IH. cbn [map Script.part_of run_parts].
        now rewrite app_assoc_s.
      + cbn [map]. apply run_parts_cons_congr. exact IH.
    - cbn [map]. apply run_parts_cons_congr. exact IH.
  Qed.

  Hypothesis Hnd : NoDup (map f_name fs).

  Lemma helper_how_own : forall l f, NoDup (map f_name l) -> In f l -> helper_how l (f_name f) = how_of f.
  Proof.
    induction l as [|x l IH]; intros f Hn Hin; [destruct Hin|]. cbn.
    inversion Hn as [|? ? Hx Hl]; subst. destruct Hin as [->|Hin].
    - now rewrite String.eqb_refl.
    - destruct (String.eqb (f_name x) (f_name f)) eqn:E; [|now apply IH].
      apply String.eqb_eq in E. exfalso. apply Hx. rewrite E. now apply in_map.
  Qed.

  Lemma fragments_meaning : forall (L : list field) first,
    (forall f, In f L -> In f fs) ->
    map part_of (map piece_of (fragments (map (fun f => (f_name f, how_of f, f_init f)) L) first))
    = instantiate (fragments (map (fun f => (f_name f, how_of f, f_init f)) L) first) qn attrs.
  Proof.
    induction L as [|f L IH]; intros first Hin; [reflexivity|].
    cbn [map fragments instantiate piece_of]. rewrite IH by (intros g Hg; apply Hin; now right).
    f_equal. f_equal.
    destruct (how_of f) eqn:Eh; cbn [piece_of Script.part_of]; try reflexivity;
      rewrite (helper_how_own fs f Hnd (Hin f (or_introl eq_refl))), Eh; reflexivity.
  Qed.

  Lemma repr_pieces_meaning : forall acc st,
    run_parts rec (map part_of (repr_pieces fs)) acc st
    = run_parts rec (instantiate (make_repr_script fs) qn attrs) acc st.
  Proof.
    intros acc st. unfold repr_pieces. rewrite merge_text_meaning. f_equal.
    unfold make_repr_script. rewrite anr_filter. cbn [map piece_of Script.part_of instantiate].
    rewrite !map_app, instantiate_app. cbn [map piece_of Script.part_of instantiate].
    rewrite fragments_meaning; [reflexivity|]. intros f Hf. apply filter_In in Hf. tauto.
  Qed.
End Pieces.

(** ** The function: prologue, body, epilogue *)

Lemma script_semantics_l h rec o st qn sf bs fs attrs :
  NoDup (map f_name fs) ->
  nth_error h o = Some (OI qn sf bs fs attrs) ->
  exec_function rec fs o qn attrs (repr_function fs) st = repr_obj h rec o st.
Proof.
  intros Hnd Hn. unfold repr_obj, compile. rewrite Hn.
  unfold exec_function, repr_function. cbn [seq2 exec2].
  unfold enter. destruct (ar st) as [s|] eqn:Ear.
  - (* the thread-local attribute exists *)
    cbn [seq1 exec1]. rewrite Ear. destruct (mem o s) eqn:Em.
    + reflexivity.
    + cbn [seq0 exec0]. rewrite Ear. cbn [seq1 exec1 exec0].
      rewrite (repr_pieces_meaning rec fs qn attrs Hnd).
      destruct (run_parts rec (instantiate (make_repr_script fs) qn attrs) ""
                          (set_ar st (Some (o :: s)))) as [r st2] eqn:Er.
      unfold set_ar in Er. rewrite Er. unfold leave.
      destruct r; cbn; (destruct (ar st2) as [s2|]; [destruct (mem o s2)|]); reflexivity.
  - (* first use in this thread *)
    cbn [seq1 exec1 exec0]. rewrite (repr_pieces_meaning rec fs qn attrs Hnd).
    destruct (run_parts rec (instantiate (make_repr_script fs) qn attrs) ""
                        (set_ar st (Some [o]))) as [r st2] eqn:Er.
    unfold set_ar in Er. rewrite Er. unfold leave.
    destruct r; cbn; (destruct (ar st2) as [s2|]; [destruct (mem o s2)|]); reflexivity.
Qed.

(** What a successful tie gives: the PARSED real source, executed, is the model's
    instance semantics, for every heap, instance of the class, and state. *)
Lemma script_tie_meaning_l c :
  script_case_ok c = true ->
  NoDup (map f_name (sc_fields c)) ->
  forall h rec o st qn sf bs attrs,
    nth_error h o = Some (OI qn sf bs (sc_fields c) attrs) ->
    exec_function rec (sc_fields c) o qn attrs (sc_body c) st = repr_obj h rec o st.
Proof.
  intros Hok Hnd h rec o st qn sf bs attrs Hn.
  rewrite (script_case_ok_sound c Hok). eapply script_semantics_l; eauto.
Qed.

(** Non-vacuity: the statement language can tell a broken epilogue apart - without the
    [finally] the id stays behind when a field raises. *)
Example no_finally_leaves_residue :
  let fs := [F "a" RTrue true] in
  let broken := [ XTryTls [Y0 ZFresh; Y0 ZStore] [YIfMem [ZRetStr "..."] [ZAdd]];
                  X1 (Y0 (ZRetF (repr_pieces fs))); X1 (Y0 ZRemove) ] in
  exec_function (repr_val [] 0) fs 0 "C" [] broken (clean []) = (Raise EAttr, T (Some [0]) [] []) /\
  exec_function (repr_val [] 0) fs 0 "C" [] (repr_function fs) (clean []) = (Raise EAttr, T (Some []) [] []).
Proof. split; reflexivity. Qed.
