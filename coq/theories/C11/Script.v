(** * C11 — script-level tie: the generated [__repr__] as a syntax tree.

    The harness parses the source text of every REAL generated [__repr__]
    ([inspect.getsource]) with a fail-closed [ast] reader into the little statement
    language below; [script_case_ok] checks (inside [coqc]) that it is literally
    [repr_function fs], the function the model derives from the class's field list.
    [exec_function] gives the language its Python meaning; [C11/ScriptProofs.v] proves
    that [exec_function (repr_function fs)] IS the model's instance semantics
    ([repr_obj]: [enter] / [run_parts] over [make_repr_script] / [leave]).  So where the
    tie holds, [repr_format], [repr_residue_free], ... speak about the real script of
    that class, for all instances.

    Definitions only (supplementary evidence; never an alarm). *)

From Coq Require Import List Bool Arith String Ascii.
Import ListNotations.
From Attrs Require Import Base C11.Model.
Open Scope string_scope.
Open Scope list_scope.

(** ** Syntax *)

(** Pieces of the f-string ([ast.JoinedStr]). *)
Inductive fpiece :=
| QQual                                   (* {self.__class__.__qualname__.rsplit(">.", 1)[-1]} *)
| QText (s : string)                      (* literal text *)
| QField (name : string) (init : bool)    (* accessor: self.name (init) / getattr(self, "name", NOTHING) *)
         (helper : option string).        (* None: {acc!r};  Some f: {__attr_repr_f(acc)} *)

(** Three levels of statements (the generated function nests exactly this deep; the
    local variable is always [already_repring], the subject always [id(self)]). *)
Inductive s0 :=
| ZFresh                 (* already_repring = {id(self),} *)
| ZStore                 (* _compat.repr_context.already_repring = already_repring *)
| ZRetStr (s : string)   (* return '<s>' *)
| ZAdd                   (* already_repring.add(id(self)) *)
| ZRemove                (* already_repring.remove(id(self)) *)
| ZRetF (ps : list fpiece).  (* return f'...' *)

Inductive s1 :=
| Y0 (s : s0)
| YIfMem (th el : list s0).   (* if id(self) in already_repring: th else: el *)

Inductive s2 :=
| X1 (s : s1)
| XTryTls (handler orelse : list s1)
    (* try: already_repring = _compat.repr_context.already_repring
       except AttributeError: handler   else: orelse *)
| XTryFin (body fin : list s1).   (* try: body finally: fin *)

(** ** What the model derives for a field list *)

Definition piece_of (p : spiece) : fpiece :=
  match p with
  | SQual => QQual
  | SLit s => QText s
  | SAttr n i HRepr => QField n i None
  | SAttr n i _ => QField n i (Some n)
  end.

(** Adjacent literal text is one [ast.Constant]. *)
Fixpoint merge_text (l : list fpiece) : list fpiece :=
  match l with
  | [] => []
  | p :: r =>
      match p, merge_text r with
      | QText a, QText b :: r' => QText (a ^^ b) :: r'
      | _, r' => p :: r'
      end
  end.

Definition repr_pieces (fs : list field) : list fpiece :=
  merge_text (map piece_of (make_repr_script fs)).

Definition repr_function (fs : list field) : list s2 :=
  [ XTryTls [Y0 ZFresh; Y0 ZStore]
            [YIfMem [ZRetStr "..."] [ZAdd]];
    XTryFin [Y0 (ZRetF (repr_pieces fs))] [Y0 ZRemove] ].

(** ** Meaning *)

(** The local variable: unbound, an alias of the thread-local set object, or a fresh
    set object not stored anywhere yet. *)
Inductive local := LUnbound | LAlias | LFresh (s : list nat).

Inductive outcome := ONormal | OReturn (s : string) | OExc (e : exc) | OFuel.

Section Exec.
  Variable rec : value -> tstate -> res * tstate.   (* repr() one level down *)
  Variable fs : list field.                          (* the globs: __attr_repr_<f> = f's callable *)
  Variable o : nat.                                  (* id(self) *)
  Variable qn : string.                              (* type(self).__qualname__ *)
  Variable attrs : list (string * nat).              (* attributes that are set *)

  Fixpoint helper_how (l : list field) (f : string) : how :=
    match l with
    | [] => HRepr
    | x :: r => if String.eqb (f_name x) f then how_of x else helper_how r f
    end.

  Definition part_of (p : fpiece) : part :=
    match p with
    | QQual => PLit (qualtail qn)
    | QText s => PLit s
    | QField n i None => accessor attrs n i HRepr
    | QField n i (Some f) => accessor attrs n i (helper_how fs f)
    end.

  Definition set_ar (st : tstate) (s : option (list nat)) : tstate := T s (pr st) (faults st).

  Definition exec0 (s : s0) (lc : local) (st : tstate) : outcome * local * tstate :=
    match s with
    | ZFresh => (ONormal, LFresh [o], st)
    | ZStore =>
        match lc with
        | LFresh x => (ONormal, LAlias, set_ar st (Some x))
        | LAlias => (ONormal, LAlias, st)
        | LUnbound => (OExc EBad, lc, st)
        end
    | ZRetStr x => (OReturn x, lc, st)
    | ZAdd =>
        match lc with
        | LFresh x => (ONormal, LFresh (o :: x), st)
        | LAlias => match ar st with
                    | Some x => (ONormal, lc, set_ar st (Some (o :: x)))
                    | None => (OExc EBad, lc, st)
                    end
        | LUnbound => (OExc EBad, lc, st)
        end
    | ZRemove =>
        match lc with
        | LFresh x => if mem o x then (ONormal, LFresh (remove_one o x), st) else (OExc EKey, lc, st)
        | LAlias => match ar st with
                    | Some x => if mem o x then (ONormal, lc, set_ar st (Some (remove_one o x)))
                                else (OExc EKey, lc, st)
                    | None => (OExc EKey, lc, st)
                    end
        | LUnbound => (OExc EBad, lc, st)
        end
    | ZRetF ps =>
        let '(r, st') := run_parts rec (map part_of ps) "" st in
        (match r with Ok x => OReturn x | Raise e => OExc e | OutOfFuel => OFuel end, lc, st')
    end.

  Fixpoint seq0 (l : list s0) (lc : local) (st : tstate) : outcome * local * tstate :=
    match l with
    | [] => (ONormal, lc, st)
    | s :: r => let '(oc, lc', st') := exec0 s lc st in
                match oc with ONormal => seq0 r lc' st' | _ => (oc, lc', st') end
    end.

  Definition exec1 (s : s1) (lc : local) (st : tstate) : outcome * local * tstate :=
    match s with
    | Y0 z => exec0 z lc st
    | YIfMem th el =>
        match lc with
        | LFresh x => if mem o x then seq0 th lc st else seq0 el lc st
        | LAlias => match ar st with
                    | Some x => if mem o x then seq0 th lc st else seq0 el lc st
                    | None => (OExc EBad, lc, st)
                    end
        | LUnbound => (OExc EBad, lc, st)
        end
    end.

  Fixpoint seq1 (l : list s1) (lc : local) (st : tstate) : outcome * local * tstate :=
    match l with
    | [] => (ONormal, lc, st)
    | s :: r => let '(oc, lc', st') := exec1 s lc st in
                match oc with ONormal => seq1 r lc' st' | _ => (oc, lc', st') end
    end.

  Definition exec2 (s : s2) (lc : local) (st : tstate) : outcome * local * tstate :=
    match s with
    | X1 y => exec1 y lc st
    | XTryTls handler orelse =>
        match ar st with
        | None => seq1 handler lc st            (* AttributeError, caught *)
        | Some _ => seq1 orelse LAlias st       (* bound to the thread-local set object *)
        end
    | XTryFin body fin =>
        let '(oc, lc1, st1) := seq1 body lc st in
        let '(oc2, lc2, st2) := seq1 fin lc1 st1 in
        (match oc2 with ONormal => oc | _ => oc2 end, lc2, st2)
    end.

  Fixpoint seq2 (l : list s2) (lc : local) (st : tstate) : outcome * local * tstate :=
    match l with
    | [] => (ONormal, lc, st)
    | s :: r => let '(oc, lc', st') := exec2 s lc st in
                match oc with ONormal => seq2 r lc' st' | _ => (oc, lc', st') end
    end.

  (** Calling the function: falling off the end returns None, which [repr()] rejects. *)
  Definition exec_function (body : list s2) (st : tstate) : res * tstate :=
    let '(oc, _, st') := seq2 body LUnbound st in
    (match oc with
     | OReturn x => Ok x
     | OExc e => Raise e
     | OFuel => OutOfFuel
     | ONormal => Raise EBad
     end, st').
End Exec.

(** ** The check evaluated by [coqc] *)

Definition ostr_eqb := option_eqb String.eqb.

Definition fpiece_eqb (a b : fpiece) : bool :=
  match a, b with
  | QQual, QQual => true
  | QText s, QText t => String.eqb s t
  | QField n i h, QField n' i' h' => String.eqb n n' && Bool.eqb i i' && ostr_eqb h h'
  | _, _ => false
  end.

Definition s0_eqb (a b : s0) : bool :=
  match a, b with
  | ZFresh, ZFresh | ZStore, ZStore | ZAdd, ZAdd | ZRemove, ZRemove => true
  | ZRetStr s, ZRetStr t => String.eqb s t
  | ZRetF p, ZRetF p' => list_eqb fpiece_eqb p p'
  | _, _ => false
  end.

Definition s1_eqb (a b : s1) : bool :=
  match a, b with
  | Y0 x, Y0 y => s0_eqb x y
  | YIfMem t e, YIfMem t' e' => list_eqb s0_eqb t t' && list_eqb s0_eqb e e'
  | _, _ => false
  end.

Definition s2_eqb (a b : s2) : bool :=
  match a, b with
  | X1 x, X1 y => s1_eqb x y
  | XTryTls h e, XTryTls h' e' => list_eqb s1_eqb h h' && list_eqb s1_eqb e e'
  | XTryFin b f, XTryFin b' f' => list_eqb s1_eqb b b' && list_eqb s1_eqb f f'
  | _, _ => false
  end.

Record script_case := SCase { sc_fields : list field; sc_body : list s2 }.

Definition script_model_of (c : script_case) : list s2 := repr_function (sc_fields c).

Definition script_case_ok (c : script_case) : bool :=
  list_eqb s2_eqb (sc_body c) (script_model_of c).
